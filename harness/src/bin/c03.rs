//! C03 — per-address, per-whitelist and per-stage mint limits.
//!
//! Real contracts (all 9 vending / open-edition minters created through their factories, all 7 whitelist kinds)
//! vs the Lean aspect model `LP.MintLimits` (driver `drv_c03`). See /verif/docs/C03.md for the protocol.
//!
//! The harness reads what the attached whitelist answers (Config / HasMember / Member / ActiveStageId / Stage)
//! *directly from the whitelist contract* before each mint and hands it to the model as the `View` witness;
//! payment / supply / clock preconditions are computed from the minter's own queries (`pre`, `started`).
//! The model then decides ok/err and every counter; the monitors transcribe the property independently.
use lp_harness::minters::*;
use lp_harness::world::{addr, addr_id};
use lp_harness::*;
use rs_merkle::{Hasher, MerkleTree};
use serde_json::{json, Value};
use std::collections::{BTreeMap, BTreeSet};

const MIN_PRICE: u128 = 50_000_000;
const PUBLIC_PRICE: u128 = 100_000_000;
const U: u64 = 1_000; // scenario time unit (ns)

// ------------------------------------------------------------------------------------------------ merkle trees

#[derive(Clone)]
struct SortSha256;
impl Hasher for SortSha256 {
    type Hash = [u8; 32];
    fn hash(data: &[u8]) -> [u8; 32] {
        use sha2::{Digest, Sha256};
        Sha256::digest(data).into()
    }
    fn concat_and_hash(left: &Self::Hash, right: Option<&Self::Hash>) -> Self::Hash {
        match right {
            Some(r) => {
                let mut both = [*left, *r];
                both.sort_unstable();
                Self::hash(&both.concat())
            }
            None => *left,
        }
    }
}
/// tiered-whitelist-merkletree: blake3 truncated to 16 bytes, sorted pairs
#[derive(Clone)]
struct SortBlake16;
impl Hasher for SortBlake16 {
    type Hash = [u8; 16];
    fn hash(data: &[u8]) -> [u8; 16] {
        blake3::hash(data).as_bytes()[..16].try_into().unwrap()
    }
    fn concat_and_hash(left: &Self::Hash, right: Option<&Self::Hash>) -> Self::Hash {
        match right {
            Some(r) => {
                let mut both = [*left, *r];
                both.sort_unstable();
                Self::hash(&both.concat())
            }
            None => *left,
        }
    }
}

#[derive(Clone, Debug, Default)]
struct Tree {
    /// (member id, allocation (0 = none), leaf string)
    leaves: Vec<(u64, u32, String)>,
    root: String,
    proofs: Vec<Vec<String>>,
}

fn build_tree<H: Hasher>(leaves: Vec<(u64, u32, String)>) -> Tree {
    let hashed: Vec<H::Hash> = leaves.iter().map(|l| H::hash(l.2.as_bytes())).collect();
    let t = MerkleTree::<H>::from_leaves(&hashed);
    let root = t.root_hex().unwrap_or_else(|| "00".repeat(H::hash_size()));
    let proofs = (0..leaves.len()).map(|i| t.proof(&[i]).proof_hashes_hex()).collect();
    Tree { leaves, root, proofs }
}

fn leaf_string(stage: Option<u64>, who: u64, alloc: Option<u64>) -> String {
    // exactly the minter's format!: stage ‖ sender ‖ allocation, each part optional
    format!("{}{}{}", stage.map(|s| s.to_string()).unwrap_or_default(), addr(who), alloc.map(|a| a.to_string()).unwrap_or_default())
}

// ------------------------------------------------------------------------------------------------ whitelist specs

#[derive(Clone, Debug)]
struct StageSpec {
    start: u64,
    end: u64,
    pal: u32,
    mcl: Option<u32>,
    members: Vec<(u64, u32)>,
}
fn fmt_members(ms: &[(u64, u32)]) -> String {
    if ms.is_empty() {
        "-".into()
    } else {
        ms.iter().map(|(a, c)| format!("{a}.{c}")).collect::<Vec<_>>().join("+")
    }
}
fn parse_members(s: &str) -> Vec<(u64, u32)> {
    if s == "-" || s.is_empty() {
        return vec![];
    }
    s.split('+')
        .filter_map(|p| {
            let (a, c) = p.split_once('.')?;
            Some((a.parse().ok()?, c.parse().ok()?))
        })
        .collect()
}
fn fmt_stages(st: &[StageSpec]) -> String {
    st.iter().map(|s| format!("{}/{}/{}/{}/{}", s.start, s.end, s.pal, fmt_opt(&s.mcl), fmt_members(&s.members))).collect::<Vec<_>>().join(";")
}
fn parse_stages(s: &str) -> Vec<StageSpec> {
    s.split(';')
        .filter_map(|p| {
            let f: Vec<&str> = p.split('/').collect();
            if f.len() != 5 {
                return None;
            }
            Some(StageSpec { start: f[0].parse().ok()?, end: f[1].parse().ok()?, pal: f[2].parse().ok()?, mcl: if f[3] == "-" { None } else { f[3].parse().ok() }, members: parse_members(f[4]) })
        })
        .collect()
}

fn is_tiered(k: WlKind) -> bool {
    matches!(k, WlKind::Tiered | WlKind::TieredFlex | WlKind::TieredMerkle)
}
fn is_merkle_wl(k: WlKind) -> bool {
    matches!(k, WlKind::Merkle | WlKind::TieredMerkle)
}
fn is_flex_wl(k: WlKind) -> bool {
    matches!(k, WlKind::Flex | WlKind::TieredFlex)
}
fn wl_idx(k: WlKind) -> usize {
    ALL_WL.iter().position(|x| *x == k).unwrap()
}

#[derive(Clone, Debug)]
struct WlInfo {
    addr: String,
    kind: WlKind,
    admin: u64,
    price: u128,
    stages: Vec<StageSpec>,
    trees: Vec<Tree>,
}

struct MinterInfo {
    addr: String,
    coll: String,
    kind: MinterKind,
    ntok: Option<u32>,
}

/// What the harness read from the whitelist before a mint (the model's `View`) plus bookkeeping for the monitors.
#[derive(Clone, Debug, Default)]
struct View {
    attached: Option<u64>,
    act: bool,
    mem: bool,
    leaf: bool,
    wlim: u64,
    mcnt: u64,
    mcfg: bool,
    sid: u64,
    slim: Option<u64>,
    /// monitors only (never sent to the model): what the list-based tiered whitelist's OWN per-stage state says about the
    /// sender in the stage the mint will be booked under (`StageMemberInfo{stage_id: sid-1}`; time-independent, unlike
    /// `Config{}` / `HasMember{}` which go through the "active stage" helpers)
    stage_ent: Option<u64>,
}

// ------------------------------------------------------------------------------------------------ the SUT

#[derive(Default)]
struct Mon {
    /// successful public-phase mints by the address itself (airdrops not included), never reset
    pub_mints: BTreeMap<u64, u64>,
    /// mints initiated (public + airdrops as sender + whitelist), never reset
    initiated: BTreeMap<u64, u64>,
    /// of which: public + airdrops
    initiated_pub: BTreeMap<u64, u64>,
    /// whitelist mints per (whitelist id, stage id (0 = not tiered), address)
    wl_mints: BTreeMap<(u64, u64, u64), u64>,
    /// whitelist mints per (whitelist id, stage id)
    stage_mints: BTreeMap<(u64, u64), u64>,
    /// tokens received per address
    tokens: BTreeMap<u64, u64>,
    purged: bool,
}

struct S {
    w: Option<World>,
    univ: Vec<u64>,
    wls: BTreeMap<u64, WlInfo>,
    minter: Option<MinterInfo>,
    mon: Mon,
    minted_ids: BTreeSet<u64>,
    pending: Option<(String, String)>,
    /// discovered pairing table (mk idx, wl idx) -> level, filled by `compat` lines
    table: BTreeMap<(usize, usize), u64>,
    /// successful tiered-whitelist mints at which the active-stage view (Config/HasMember) and the booked stage's own
    /// record (StageMemberInfo) named different entitlements (diagnostic; the monitor uses the smaller one)
    mon_incoherent: u64,
}

fn jn(v: &Value) -> Option<u64> {
    v.as_u64().or_else(|| v.as_str().and_then(|s| s.parse().ok()))
}

impl S {
    fn new() -> S {
        S { w: None, univ: vec![], wls: BTreeMap::new(), minter: None, mon: Mon::default(), minted_ids: BTreeSet::new(), pending: None, table: BTreeMap::new(), mon_incoherent: 0 }
    }
    fn world(&mut self) -> &mut World {
        self.w.as_mut().expect("case not begun")
    }
    fn wl_id_of(&self, a: &str) -> Option<u64> {
        self.wls.iter().find(|(_, i)| i.addr == a).map(|(k, _)| *k)
    }
    fn flag(&mut self, key: String, what: String) {
        if self.pending.is_none() {
            self.pending = Some((key, what));
        }
    }

    // ---------------------------------------------------------------- whitelist creation
    fn make_wl(w: &mut World, kind: WlKind, admin: u64, ml: u32, price: u128, stages: &[StageSpec], leaf_stage: bool) -> Result<WlInfo, String> {
        let mut trees = vec![];
        let mut wst = vec![];
        for (j, s) in stages.iter().enumerate() {
            let mut root = String::new();
            if is_merkle_wl(kind) {
                let leaves: Vec<(u64, u32, String)> = s
                    .members
                    .iter()
                    .map(|(a, c)| (*a, *c, leaf_string(if leaf_stage { Some(j as u64 + 1) } else { None }, *a, if *c > 0 { Some(*c as u64) } else { None })))
                    .collect();
                let t = if kind == WlKind::Merkle { build_tree::<SortSha256>(leaves) } else { build_tree::<SortBlake16>(leaves) };
                root = t.root.clone();
                trees.push(t);
            }
            wst.push(WlStage { start: s.start, end: s.end, mint_price: (0, price), per_address_limit: s.pal, mint_count_limit: s.mcl, members: s.members.clone(), merkle_root: root });
        }
        let args = WlArgs { admin, member_limit: ml, admins_mutable: true, whale_cap: None, stages: wst };
        let a = w.new_whitelist(kind, &args)?;
        Ok(WlInfo { addr: a, kind, admin, price, stages: stages.to_vec(), trees })
    }

    // ---------------------------------------------------------------- reading the whitelist (the View witness)
    fn proof_hashes(&self, spec: &str) -> Option<Vec<String>> {
        match spec {
            "-" => None,
            "e" => Some(vec![]),
            "x" => Some(vec!["ab".repeat(32)]),
            "y" => Some(vec!["cd".repeat(16)]),
            "b" => Some(vec!["zz".into()]),
            p => {
                // p<k>.<j>.<i>
                let f: Vec<u64> = p.trim_start_matches('p').split('.').filter_map(|x| x.parse().ok()).collect();
                if f.len() != 3 {
                    return Some(vec![]);
                }
                let t = self.wls.get(&f[0]).and_then(|i| i.trees.get(f[1] as usize)).and_then(|t| t.proofs.get(f[2] as usize));
                Some(t.cloned().unwrap_or_default())
            }
        }
    }

    fn read_view(&self, sender: u64, stage: Option<u64>, proof: &str, alloc: Option<u64>) -> View {
        let mut v = View::default();
        let (Some(m), Some(w)) = (&self.minter, &self.w) else { return v };
        let cfg = w.query(&m.addr, &json!({"config":{}})).unwrap_or(Value::Null);
        let Some(wa) = cfg["whitelist"].as_str() else { return v };
        v.attached = self.wl_id_of(wa);
        let wc = w.query(wa, &json!({"config":{}})).unwrap_or(Value::Null);
        v.act = wc["is_active"].as_bool().unwrap_or(false);
        v.wlim = jn(&wc["per_address_limit"]).unwrap_or(0);
        v.mcfg = jn(&wc["member_limit"]) == Some(0) && jn(&wc["num_members"]) == Some(0);
        v.mem = w.query(wa, &json!({"has_member":{"member": addr(sender)}})).ok().and_then(|r| r["has_member"].as_bool()).unwrap_or(false);
        if let Some(ph) = self.proof_hashes(proof) {
            let leaf = leaf_string(stage, sender, alloc);
            v.leaf = w.query(wa, &json!({"has_member":{"member": leaf, "proof_hashes": ph}})).ok().and_then(|r| r["has_member"].as_bool()).unwrap_or(false);
        }
        v.mcnt = w.query(wa, &json!({"member":{"member": addr(sender)}})).ok().and_then(|r| jn(&r["mint_count"])).unwrap_or(0);
        v.sid = w.query(wa, &json!({"active_stage_id":{}})).ok().and_then(|r| jn(&r)).unwrap_or(0);
        if v.sid >= 1 {
            v.slim = w.query(wa, &json!({"stage":{"stage_id": v.sid - 1}})).ok().and_then(|r| jn(&r["stage"]["mint_count_limit"]));
            if let Ok(r) = w.query(wa, &json!({"stage_member_info":{"stage_id": v.sid - 1, "member": addr(sender)}})) {
                if let Some(m) = r["is_member"].as_bool() {
                    v.stage_ent = Some(if m { jn(&r["per_address_limit"]).unwrap_or(0) } else { 0 });
                }
            }
        }
        v
    }

    // ---------------------------------------------------------------- minter-side preconditions
    fn minter_cfg(&self) -> Value {
        let (Some(m), Some(w)) = (&self.minter, &self.w) else { return Value::Null };
        w.query(&m.addr, &json!({"config":{}})).unwrap_or(Value::Null)
    }
    fn start_time(&self) -> u64 {
        jn(&self.minter_cfg()["start_time"]).unwrap_or(u64::MAX)
    }
    fn end_time(&self) -> Option<u64> {
        jn(&self.minter_cfg()["end_time"])
    }
    fn limit_in_force(&self) -> u64 {
        jn(&self.minter_cfg()["per_address_limit"]).unwrap_or(0)
    }
    fn mintable(&self) -> Option<u64> {
        let (Some(m), Some(w)) = (&self.minter, &self.w) else { return None };
        w.query(&m.addr, &json!({"mintable_num_tokens":{}})).ok().and_then(|r| jn(&r["count"]))
    }
    pub fn current_price(&self) -> Option<u128> {
        let (Some(m), Some(w)) = (&self.minter, &self.w) else { return None };
        w.query(&m.addr, &json!({"mint_price":{}})).ok().and_then(|r| r["current_price"]["amount"].as_str().and_then(|s| s.parse().ok()))
    }
    pub fn airdrop_price(&self) -> Option<u128> {
        let (Some(m), Some(w)) = (&self.minter, &self.w) else { return None };
        w.query(&m.addr, &json!({"mint_price":{}})).ok().and_then(|r| r["airdrop_price"]["amount"].as_str().and_then(|s| s.parse().ok()))
    }
    fn now(&self) -> u64 {
        self.w.as_ref().map(|w| w.time()).unwrap_or(0)
    }
    fn ended(&self) -> bool {
        matches!(self.end_time(), Some(e) if self.now() >= e)
    }
    fn sold_out(&self) -> bool {
        self.mintable() == Some(0)
    }

    // ---------------------------------------------------------------- observations
    fn obs(&self) -> String {
        let (Some(m), Some(w)) = (&self.minter, &self.w) else { return "none".into() };
        let cfg = self.minter_cfg();
        let lim = jn(&cfg["per_address_limit"]).map(|x| x.to_string()).unwrap_or("?".into());
        let wl = match cfg["whitelist"].as_str() {
            Some(a) => self.wl_id_of(a).map(|k| k.to_string()).unwrap_or("?".into()),
            None => "-".into(),
        };
        let mut mc = vec![];
        let mut mw = vec![];
        for a in &self.univ {
            let r = w.query(&m.addr, &json!({"mint_count":{"address": addr(*a)}})).unwrap_or(Value::Null);
            mc.push((*a, jn(&r["count"]).unwrap_or(999_999)));
            if m.kind.is_flex() {
                mw.push((*a, jn(&r["whitelist_count"]).unwrap_or(999_999)));
            }
        }
        let (maps, tot) = self.raw_counters();
        let own: Vec<(u64, u64)> = self.univ.iter().map(|a| (*a, self.tokens_of(*a))).filter(|p| p.1 != 0).collect();
        format!(
            "lim={lim} wl={wl} mc={} mw={} pub={} wlm={} fs={} ss={} ts={} tot={},{},{} own={}",
            fmt_pairs(&mc), if m.kind.is_flex() { fmt_pairs(&mw) } else { "-".into() },
            fmt_pairs(&maps[0]), fmt_pairs(&maps[1]), fmt_pairs(&maps[2]), fmt_pairs(&maps[3]), fmt_pairs(&maps[4]),
            tot[0], tot[1], tot[2], fmt_pairs(&own)
        )
    }
    fn tokens_of(&self, a: u64) -> u64 {
        let (Some(m), Some(w)) = (&self.minter, &self.w) else { return 0 };
        w.query(&m.coll, &json!({"tokens":{"owner": addr(a), "limit": 100}})).ok().and_then(|r| r["tokens"].as_array().map(|x| x.len() as u64)).unwrap_or(0)
    }
    /// raw dumps of MINTER_ADDRS, WHITELIST_MINTER_ADDRS, WHITELIST_{FS,SS,TS}_MINTER_ADDRS and the three stage totals
    fn raw_counters(&self) -> (Vec<Vec<(u64, u64)>>, [u64; 3]) {
        let mut maps: Vec<Vec<(u64, u64)>> = vec![vec![]; 5];
        let mut tot = [0u64; 3];
        let (Some(m), Some(w)) = (&self.minter, &self.w) else { return (maps, tot) };
        let names: [&[u8]; 5] = [b"ma", b"wlma", b"wlfsma", b"wlssma", b"wltsma"];
        let items: [&[u8]; 3] = [b"wlfsmc", b"wlssmc", b"wltsmc"];
        for (k, v) in w.dump(&m.addr) {
            let val: u64 = std::str::from_utf8(&v).ok().and_then(|s| s.trim().parse().ok()).unwrap_or(888_888);
            if let Some(i) = items.iter().position(|n| *n == k.as_slice()) {
                tot[i] = val;
                continue;
            }
            if k.len() > 2 && k[0] == 0 {
                let n = k[1] as usize;
                if k.len() >= 2 + n {
                    let ns = &k[2..2 + n];
                    if let Some(i) = names.iter().position(|x| *x == ns) {
                        let a = String::from_utf8_lossy(&k[2 + n..]).to_string();
                        maps[i].push((addr_id(&a), val));
                    }
                }
            }
        }
        for mm in maps.iter_mut() {
            mm.sort();
        }
        (maps, tot)
    }

    // ---------------------------------------------------------------- monitors that look at the whole state
    fn check_reports(&mut self) {
        let Some(m) = &self.minter else { return };
        let name = m.kind.name();
        let flex = m.kind.is_flex();
        let Some(w) = &self.w else { return };
        let maddr = m.addr.clone();
        let mut bad: Option<(String, String)> = None;
        for a in self.univ.clone() {
            let toks = self.tokens_of(a);
            let want_t = *self.mon.tokens.get(&a).unwrap_or(&0);
            if toks != want_t {
                bad = Some((format!("{name}/mint/tokens-mismatch"), format!("address {a} holds {toks} tokens, {want_t} successful mints/airdrops went to it")));
                break;
            }
            if self.mon.purged {
                continue;
            }
            let r = w.query(&maddr, &json!({"mint_count":{"address": addr(a)}})).unwrap_or(Value::Null);
            let c = jn(&r["count"]).unwrap_or(999_999);
            let wc = jn(&r["whitelist_count"]).unwrap_or(0);
            let init = *self.mon.initiated.get(&a).unwrap_or(&0);
            let init_pub = *self.mon.initiated_pub.get(&a).unwrap_or(&0);
            let ok = if flex { c == init_pub && wc == init - init_pub } else { c == init };
            if !ok {
                bad = Some((format!("{name}/query/mint-count-mismatch"), format!("MintCount({a}) reports count={c} whitelist_count={wc}; the address initiated {init} successful mints ({init_pub} public/airdrop) and no purge happened")));
                break;
            }
        }
        if bad.is_none() && !self.mon.purged {
            let (maps, tot) = self.raw_counters();
            for a in self.univ.clone() {
                let g = |i: usize| maps[i].iter().find(|p| p.0 == a).map(|p| p.1).unwrap_or(0);
                let init = *self.mon.initiated.get(&a).unwrap_or(&0);
                let init_pub = *self.mon.initiated_pub.get(&a).unwrap_or(&0);
                if g(0) != init_pub || g(1) + g(2) + g(3) + g(4) != init - init_pub {
                    bad = Some((format!("{name}/storage/counter-mismatch"), format!("raw counters of {a}: public={} whitelist={}+{}+{}+{}; counted successes public/airdrop={init_pub} whitelist={}", g(0), g(1), g(2), g(3), g(4), init - init_pub)));
                    break;
                }
            }
            let st: u64 = self.mon.stage_mints.iter().filter(|(k, _)| k.1 != 0).map(|(_, v)| *v).sum();
            if bad.is_none() && tot.iter().sum::<u64>() != st {
                bad = Some((format!("{name}/storage/stage-total-mismatch"), format!("stage totals {:?} do not add up to the {st} successful tiered-stage mints", tot)));
            }
        }
        if let Some((k, wht)) = bad {
            self.flag(k, wht);
        }
    }

    // ---------------------------------------------------------------- ops
    fn do_newwl(&mut self, line: &str) -> (String, String) {
        let id = kv_u64(line, "id").unwrap();
        let kind = ALL_WL[kv_u64(line, "kind").unwrap() as usize];
        let admin = kv_u64(line, "admin").unwrap_or(11);
        let ml = kv_u64(line, "ml").unwrap_or(10) as u32;
        let price = kv_u128(line, "price").unwrap_or(60_000_000);
        let ls = kv_bool(line, "ls").unwrap_or(false);
        let stages = parse_stages(kv(line, "stages").unwrap_or(""));
        let r = if stages.is_empty() { Err("no stages".to_string()) } else { Self::make_wl(self.world(), kind, admin, ml, price, &stages, ls) };
        match r {
            Ok(i) => {
                self.wls.insert(id, i);
                (format!("{line} res=1"), format!("ok {}", self.obs()))
            }
            Err(_) => (format!("{line} res=0"), format!("err {}", self.obs())),
        }
    }

    fn do_wlop(&mut self, line: &str) -> (String, String) {
        let id = kv_u64(line, "wl").unwrap();
        let Some(info) = self.wls.get(&id).cloned() else { return (format!("{line} res=0"), format!("err {}", self.obs())) };
        let j = kv_u64(line, "stage").unwrap_or(0);
        let tiered = is_tiered(info.kind);
        let flex = is_flex_wl(info.kind);
        let members = parse_members(kv(line, "m").unwrap_or("-"));
        let msg: Value = match kv(line, "op").unwrap_or("") {
            "pal" => {
                let n = kv_u64(line, "n").unwrap_or(1);
                if tiered { json!({"update_stage_config":{"stage_id": j, "per_address_limit": n}}) } else { json!({"update_per_address_limit": n}) }
            }
            "mcl" => json!({"update_stage_config":{"stage_id": j, "mint_count_limit": kv_opt_u64(line, "n").unwrap_or(None)}}),
            "add" => {
                let to_add: Vec<Value> = if flex { members.iter().map(|(a, c)| json!({"address": addr(*a), "mint_count": c})).collect() } else { members.iter().map(|(a, _)| json!(addr(*a))).collect() };
                if tiered { json!({"add_members":{"to_add": to_add, "stage_id": j}}) } else { json!({"add_members":{"to_add": to_add}}) }
            }
            "rm" => {
                let rm: Vec<String> = members.iter().map(|(a, _)| addr(*a)).collect();
                if tiered { json!({"remove_members":{"to_remove": rm, "stage_id": j}}) } else { json!({"remove_members":{"to_remove": rm}}) }
            }
            "end" => {
                let t = kv_u64(line, "t").unwrap_or(0).to_string();
                if tiered { json!({"update_stage_config":{"stage_id": j, "end_time": t}}) } else { json!({"update_end_time": t}) }
            }
            "rmstage" => json!({"remove_stage":{"stage_id": j}}),
            "addstage" => {
                let s = kv_u64(line, "s").unwrap_or(0).to_string();
                let e = kv_u64(line, "e").unwrap_or(0).to_string();
                let mut st = json!({"name":"added","start_time": s,"end_time": e,"mint_price": jcoin((0, info.price)),"mint_count_limit": kv_opt_u64(line, "mcl").unwrap_or(None)});
                if !flex {
                    st["per_address_limit"] = json!(kv_u64(line, "pal").unwrap_or(1));
                }
                let ms: Vec<Value> = if flex { members.iter().map(|(a, c)| json!({"address": addr(*a), "mint_count": c})).collect() } else { members.iter().map(|(a, _)| json!(addr(*a))).collect() };
                json!({"add_stage":{"stage": st, "members": ms}})
            }
            _ => json!({"nonsense":{}}),
        };
        let r = self.world().exec(&addr(info.admin), &info.addr, &msg, &[]);
        let ok = r.is_ok();
        (format!("{line} res={}", ok as u8), format!("{} {}", if ok { "ok" } else { "err" }, self.obs()))
    }

    fn do_create(&mut self, line: &str) -> (String, String) {
        if self.minter.is_some() {
            return (format!("{line} wlact=0 pre=1"), format!("err {}", self.obs()));
        }
        let kind = ALL_MINTERS[kv_u64(line, "mk").unwrap() as usize];
        let wl = kv_opt_u64(line, "wl").unwrap();
        let lim = kv_u64(line, "lim").unwrap() as u32;
        let ntok = kv_opt_u64(line, "ntok").unwrap().map(|x| x as u32);
        let maxpal = kv_u64(line, "maxpal").unwrap() as u32;
        let admin = kv_u64(line, "admin").unwrap();
        let start = kv_u64(line, "start").unwrap();
        let end = kv_opt_u64(line, "end").unwrap_or(None);
        let wl_addr = wl.and_then(|k| self.wls.get(&k).map(|i| i.addr.clone()));
        let wlact = match &wl_addr {
            Some(a) => self.w.as_ref().unwrap().query(a, &json!({"config":{}})).ok().and_then(|c| c["is_active"].as_bool()).unwrap_or(false),
            None => false,
        };
        let w = self.world();
        let mut p = w.default_params(kind);
        p.max_per_address_limit = maxpal;
        p.min_mint_price = (0, MIN_PRICE);
        // open edition without a token cap is only accepted with a non-zero airdrop price
        p.airdrop_mint_price = (0, if ntok.is_none() { 20_000_000 } else { 0 });
        let res = (|| -> Result<(String, String), String> {
            let f = w.new_factory(kind.factory(), &p)?;
            let mut a = w.default_create(kind, &p);
            a.creator = admin;
            a.num_tokens = ntok;
            a.per_address_limit = lim;
            a.start_time = start;
            a.end_time = if kind.is_open_edition() { end } else { None };
            a.mint_price = (0, PUBLIC_PRICE);
            a.whitelist = if wl.is_some() { Some(wl_addr.clone().unwrap_or_else(|| "nosuchcontract".into())) } else { None };
            w.fund(&addr(admin), 0, p.creation_fee.1);
            w.create_minter(&f, kind, &a)
        })();
        match res {
            Ok((m, c)) => {
                self.minter = Some(MinterInfo { addr: m, coll: c, kind, ntok });
                (format!("{line} wlact={} pre=1", wlact as u8), format!("ok {}", self.obs()))
            }
            Err(_) => (format!("{line} wlact={} pre=1", wlact as u8), format!("err {}", self.obs())),
        }
    }

    fn record_token(&mut self, res: &cw_multi_test::AppResponse) {
        for e in &res.events {
            for at in &e.attributes {
                if at.key == "token_id" && e.ty == "wasm" {
                    if let Ok(n) = at.value.parse::<u64>() {
                        self.minted_ids.insert(n);
                    }
                }
            }
        }
    }

    /// the allocation the whitelist's own tree grants `who` in its active stage (None = no leaf for that address)
    fn tree_allocation(&self, wlid: u64, sid: u64, who: u64, wlim: u64) -> Option<u64> {
        let info = self.wls.get(&wlid)?;
        let j = if info.kind == WlKind::TieredMerkle { sid.checked_sub(1)? as usize } else { 0 };
        let t = info.trees.get(j)?;
        t.leaves.iter().filter(|l| l.0 == who).map(|l| if l.1 > 0 { l.1 as u64 } else { wlim }).max()
    }

    fn do_mint(&mut self, line: &str) -> (String, String) {
        let sender = kv_u64(line, "sender").unwrap();
        let funds = kv_u128(line, "funds").unwrap_or(0);
        let stage = kv_opt_u64(line, "stage").unwrap_or(None);
        let alloc = kv_opt_u64(line, "alloc").unwrap_or(None);
        let proof = kv(line, "proof").unwrap_or("-").to_string();
        if self.minter.is_none() {
            return (format!("{line} act=0 mem=0 leaf=0 wlim=0 mcnt=0 mcfg=0 sid=0 slim=- started=0 pre=0"), "err none".into());
        }
        let v = self.read_view(sender, stage, &proof, alloc);
        let started = self.now() >= self.start_time();
        let paid = self.current_price() == Some(funds);
        let pre = paid && !self.sold_out() && !self.ended();
        let limit_before = self.limit_in_force();
        let kind = self.minter.as_ref().unwrap().kind;
        let maddr = self.minter.as_ref().unwrap().addr.clone();
        let ph = self.proof_hashes(&proof);
        let msg = if kind.is_merkle() {
            json!({"mint":{"stage": stage, "proof_hashes": ph, "allocation": alloc}})
        } else {
            let mut o = serde_json::Map::new();
            if let Some(s) = stage {
                o.insert("stage".into(), json!(s));
            }
            if let Some(p) = &ph {
                o.insert("proof_hashes".into(), json!(p));
            }
            if let Some(a) = alloc {
                o.insert("allocation".into(), json!(a));
            }
            json!({"mint": Value::Object(o)})
        };
        let f: Vec<(u64, u128)> = if funds > 0 { vec![(0, funds)] } else { vec![] };
        let r = self.world().exec(&addr(sender), &maddr, &msg, &f);
        let ok = r.is_ok();
        if let Ok(res) = &r {
            self.record_token(res);
            let name = kind.name();
            *self.mon.tokens.entry(sender).or_insert(0) += 1;
            *self.mon.initiated.entry(sender).or_insert(0) += 1;
            let wl_phase = v.attached.is_some() && v.act;
            if !wl_phase {
                *self.mon.initiated_pub.entry(sender).or_insert(0) += 1;
                let n = self.mon.pub_mints.entry(sender).or_insert(0);
                *n += 1;
                let n = *n;
                if n > limit_before {
                    self.flag(format!("{name}/mint/public-over-limit"), format!("address {sender} completed its public mint no. {n} while the per-address limit in force is {limit_before}"));
                }
            } else {
                let wlid = v.attached.unwrap();
                let wk = self.wls[&wlid].kind;
                let sid = if is_tiered(wk) { v.sid } else { 0 };
                let n = self.mon.wl_mints.entry((wlid, sid, sender)).or_insert(0);
                *n += 1;
                let n = *n;
                // entitlement in force, read from the whitelist's own state (never from the message)
                // per stage for tiered whitelists: the entitlement is the one of the stage the mint is BOOKED under
                // (a member of stage k only, minting while the whitelist reports stage j's limit, is entitled to stage k's)
                let ent: u64 = if let (true, Some(se)) = (matches!(wk, WlKind::Tiered | WlKind::TieredFlex), v.stage_ent) {
                    let act = if is_flex_wl(wk) { if v.mem { v.mcnt } else { 0 } } else if v.mem { v.wlim } else { 0 };
                    if act != se { self.mon_incoherent += 1; }
                    se
                } else if is_flex_wl(wk) {
                    if v.mem { v.mcnt } else { 0 }
                } else if is_merkle_wl(wk) {
                    self.tree_allocation(wlid, v.sid, sender, v.wlim).unwrap_or(0)
                } else if v.mem {
                    v.wlim
                } else {
                    0
                };
                if n > ent {
                    self.flag(format!("{name}/mint/wl-over-entitlement"), format!("address {sender} completed whitelist mint no. {n} on whitelist {wlid} ({:?}, stage {sid}) while its entitlement there is {ent} (message fields: stage={stage:?} allocation={alloc:?} proof={proof})", wk));
                }
                let t = self.mon.stage_mints.entry((wlid, sid)).or_insert(0);
                *t += 1;
                let t = *t;
                if sid != 0 {
                    if let Some(l) = v.slim {
                        if t > l {
                            self.flag(format!("{name}/mint/stage-total-over-limit"), format!("stage {sid} of whitelist {wlid} reached {t} mints, its mint_count_limit is {l}"));
                        }
                    }
                }
            }
        }
        let wit = format!(
            " act={} mem={} leaf={} wlim={} mcnt={} mcfg={} sid={} slim={} started={} pre={}",
            v.act as u8, v.mem as u8, v.leaf as u8, v.wlim, v.mcnt, v.mcfg as u8, v.sid, fmt_opt(&v.slim), started as u8, pre as u8
        );
        (format!("{line}{wit}"), format!("{} {}", if ok { "ok" } else { "err" }, self.obs()))
    }

    fn do_airdrop(&mut self, line: &str, for_id: bool) -> (String, String) {
        let sender = kv_u64(line, "sender").unwrap();
        let to = kv_u64(line, "to").unwrap();
        let funds = kv_u128(line, "funds").unwrap_or(0);
        if self.minter.is_none() {
            return (format!("{line} pre=0"), "err none".into());
        }
        let ntok = self.minter.as_ref().unwrap().ntok.unwrap_or(0) as u64;
        let maddr = self.minter.as_ref().unwrap().addr.clone();
        let mut pre = self.airdrop_price() == Some(funds) && !self.sold_out() && !self.ended();
        let msg = if for_id {
            let id = kv_u64(line, "id").unwrap_or(0);
            pre = pre && id >= 1 && id <= ntok && !self.minted_ids.contains(&id);
            json!({"mint_for":{"token_id": id, "recipient": addr(to)}})
        } else {
            json!({"mint_to":{"recipient": addr(to)}})
        };
        let f: Vec<(u64, u128)> = if funds > 0 { vec![(0, funds)] } else { vec![] };
        let r = self.world().exec(&addr(sender), &maddr, &msg, &f);
        let ok = r.is_ok();
        if let Ok(res) = &r {
            self.record_token(res);
            *self.mon.tokens.entry(to).or_insert(0) += 1;
            *self.mon.initiated.entry(sender).or_insert(0) += 1;
            *self.mon.initiated_pub.entry(sender).or_insert(0) += 1;
        }
        (format!("{line} pre={}", pre as u8), format!("{} {}", if ok { "ok" } else { "err" }, self.obs()))
    }

    fn do_setlim(&mut self, line: &str) -> (String, String) {
        let sender = kv_u64(line, "sender").unwrap();
        let n = kv_u64(line, "n").unwrap();
        let funds = kv_bool(line, "funds").unwrap_or(false);
        let Some(m) = &self.minter else { return (line.to_string(), "err none".into()) };
        let maddr = m.addr.clone();
        let f: Vec<(u64, u128)> = if funds { vec![(0, 1)] } else { vec![] };
        let r = self.world().exec(&addr(sender), &maddr, &json!({"update_per_address_limit":{"per_address_limit": n}}), &f);
        (line.to_string(), format!("{} {}", if r.is_ok() { "ok" } else { "err" }, self.obs()))
    }

    fn do_setwl(&mut self, line: &str) -> (String, String) {
        let sender = kv_u64(line, "sender").unwrap();
        let id = kv_u64(line, "wl").unwrap();
        let funds = kv_bool(line, "funds").unwrap_or(false);
        let Some(m) = &self.minter else { return (format!("{line} started=0 oldact=0 newact=0 pre=0"), "err none".into()) };
        let maddr = m.addr.clone();
        let started = self.now() >= self.start_time();
        let w = self.w.as_ref().unwrap();
        let act = |a: &str| w.query(a, &json!({"config":{}})).ok().and_then(|c| c["is_active"].as_bool()).unwrap_or(false);
        let oldact = self.minter_cfg()["whitelist"].as_str().map(|a| act(a)).unwrap_or(false);
        let new_addr = self.wls.get(&id).map(|i| i.addr.clone()).unwrap_or_else(|| "nosuchcontract".into());
        let newact = act(&new_addr);
        // price / denom rules (everything is ustars here): whitelist price >= factory min_mint_price
        let pre = match w.query(&new_addr, &json!({"config":{}})).ok().and_then(|c| c["mint_price"]["amount"].as_str().and_then(|s| s.parse::<u128>().ok())) {
            Some(p) => p >= MIN_PRICE,
            None => true,
        };
        let f: Vec<(u64, u128)> = if funds { vec![(0, 1)] } else { vec![] };
        let r = self.world().exec(&addr(sender), &maddr, &json!({"set_whitelist":{"whitelist": new_addr}}), &f);
        (format!("{line} started={} oldact={} newact={} pre={}", started as u8, oldact as u8, newact as u8, pre as u8), format!("{} {}", if r.is_ok() { "ok" } else { "err" }, self.obs()))
    }

    fn do_purge(&mut self, line: &str) -> (String, String) {
        let sender = kv_u64(line, "sender").unwrap();
        let funds = kv_bool(line, "funds").unwrap_or(false);
        let Some(m) = &self.minter else { return (format!("{line} pre=0"), "err none".into()) };
        let maddr = m.addr.clone();
        let kind = m.kind;
        let mintable = self.mintable();
        let end = self.end_time();
        let now = self.now();
        let pre = if kind.is_vending() {
            mintable == Some(0)
        } else if kind == MinterKind::OpenEditionFlex {
            !matches!(mintable, Some(n) if n != 0) && !matches!(end, Some(e) if now <= e)
        } else {
            !matches!(end, Some(e) if now <= e) && !(matches!(mintable, Some(n) if n != 0) && end.is_none())
        };
        let f: Vec<(u64, u128)> = if funds { vec![(0, 1)] } else { vec![] };
        let r = self.world().exec(&addr(sender), &maddr, &json!({"purge":{}}), &f);
        if r.is_ok() {
            self.mon.purged = true;
        }
        (format!("{line} pre={}", pre as u8), format!("{} {}", if r.is_ok() { "ok" } else { "err" }, self.obs()))
    }

    // ---------------------------------------------------------------- discovery of the (minter x whitelist) pairing table
    /// 0 = rejected at instantiate and SetWhitelist, 1 = attachable but no whitelist mint can succeed, 2 = whitelist mint succeeded;
    /// 7 = instantiate and SetWhitelist disagree (would be reported as a disagreement with the model)
    fn discover(mk: MinterKind, wk: WlKind) -> u64 {
        let t0 = GENESIS + 1_000_000_000;
        let mut w = World::new(t0);
        let buyer = 21u64;
        let stages: Vec<StageSpec> = if is_tiered(wk) {
            vec![
                StageSpec { start: t0 + 1000, end: t0 + 2000, pal: 2, mcl: Some(5), members: vec![(buyer, 2)] },
                StageSpec { start: t0 + 2000, end: t0 + 3000, pal: 1, mcl: None, members: vec![(buyer, 1)] },
            ]
        } else {
            vec![StageSpec { start: t0 + 1000, end: t0 + 2000, pal: 2, mcl: None, members: vec![(buyer, 2)] }]
        };
        let Ok(info) = Self::make_wl(&mut w, wk, 11, 10, 60_000_000, &stages, false) else { return 9 };
        let mut p = w.default_params(mk);
        p.min_mint_price = (0, MIN_PRICE);
        let Ok(f) = w.new_factory(mk.factory(), &p) else { return 9 };
        let mut a = w.default_create(mk, &p);
        a.start_time = t0 + 5000;
        a.end_time = if mk.is_open_edition() { Some(t0 + 9000) } else { None };
        a.num_tokens = Some(5);
        w.fund(&addr(a.creator), 0, 3 * p.creation_fee.1);
        w.fund(&addr(buyer), 0, 10_000_000_000);
        // (a) attached at instantiate
        let mut a2 = a.clone();
        a2.whitelist = Some(info.addr.clone());
        let at_inst = w.create_minter(&f, mk, &a2).is_ok();
        // (b) attached by SetWhitelist
        let Ok((m, _c)) = w.create_minter(&f, mk, &a) else { return 9 };
        let at_set = w.exec(&addr(a.creator), &m, &json!({"set_whitelist":{"whitelist": info.addr}}), &[]).is_ok();
        if at_inst != at_set {
            return 7;
        }
        if !at_set {
            return 0;
        }
        w.set_time(t0 + 1500);
        let proofs: Vec<Option<Vec<String>>> = vec![None, info.trees.first().and_then(|t| t.proofs.first().cloned())];
        let mut msgs: Vec<Value> = vec![json!({"mint":{}})];
        for ph in &proofs {
            for al in [None, Some(2u32)] {
                msgs.push(json!({"mint":{"stage": null, "proof_hashes": ph, "allocation": al}}));
            }
        }
        for msg in msgs {
            if w.exec(&addr(buyer), &m, &msg, &[(0, 60_000_000)]).is_ok() {
                return 2;
            }
        }
        1
    }
}

impl Sut for S {
    fn begin(&mut self, header: &str) -> (String, String) {
        let t0 = kv_u64(header, "t0").unwrap_or(GENESIS + 1_000_000_000);
        self.univ = kv_list(header, "addrs").unwrap_or_default().iter().map(|x| *x as u64).collect();
        let mut w = World::new(t0);
        for a in &self.univ {
            w.fund(&addr(*a), 0, 1_000_000_000_000);
        }
        self.w = Some(w);
        self.wls.clear();
        self.minter = None;
        self.mon = Mon::default();
        self.minted_ids.clear();
        self.pending = None;
        (header.to_string(), "case".to_string())
    }

    fn exec(&mut self, line: &str) -> (String, String) {
        let op = line.split_whitespace().next().unwrap_or("");
        let r = match op {
            "compat" => {
                let mk = kv_u64(line, "mk").unwrap() as usize;
                let wk = kv_u64(line, "wk").unwrap() as usize;
                let lvl = Self::discover(ALL_MINTERS[mk], ALL_WL[wk]);
                self.table.insert((mk, wk), lvl);
                return (line.to_string(), format!("ok {lvl}"));
            }
            "t" => {
                let t: u64 = line.split_whitespace().nth(1).and_then(|x| x.parse().ok()).unwrap_or(0);
                let now = self.now();
                if self.w.is_some() {
                    self.world().set_time(t.max(now));
                }
                (line.to_string(), format!("ok {}", self.obs()))
            }
            "newwl" => self.do_newwl(line),
            "wlop" => self.do_wlop(line),
            "create" => self.do_create(line),
            "mint" => self.do_mint(line),
            "mintto" => self.do_airdrop(line, false),
            "mintfor" => self.do_airdrop(line, true),
            "setlim" => self.do_setlim(line),
            "setwl" => self.do_setwl(line),
            "purge" => self.do_purge(line),
            _ => (line.to_string(), "bad-op".into()),
        };
        self.check_reports();
        r
    }

    fn monitor(&mut self) -> Option<(String, String)> {
        self.pending.take()
    }
}

// ------------------------------------------------------------------------------------------------ generators

const ADMIN: u64 = 10;
const BUYERS: [u64; 4] = [21, 22, 23, 24];

struct Plan {
    mk: MinterKind,
    wls: Vec<(u64, WlKind, Vec<StageSpec>, bool)>, // id, kind, stages, leaf_stage
    start: u64,
    end: Option<u64>,
    maxpal: u64,
    instants: Vec<u64>,
}

fn level(table: &BTreeMap<(usize, usize), u64>, mk: MinterKind, wk: WlKind) -> u64 {
    *table.get(&(mk.idx(), wl_idx(wk))).unwrap_or(&0)
}

fn gen_members(rng: &mut Rng, kind: WlKind) -> Vec<(u64, u32)> {
    let mut ms = vec![];
    for b in BUYERS {
        if rng.chance(3, 4) {
            let c = if is_merkle_wl(kind) { rng.range(0, 3) as u32 } else { rng.range(1, 3) as u32 };
            ms.push((b, c));
        }
    }
    if ms.is_empty() {
        ms.push((BUYERS[0], 1));
    }
    if rng.chance(1, 6) {
        ms.push((ADMIN, 1));
    }
    ms
}

fn gen_wl(rng: &mut Rng, kind: WlKind, from: u64, start_of_minter: u64) -> Vec<StageSpec> {
    // windows mostly before the minter's start, sometimes straddling it
    let n = if is_tiered(kind) { rng.range(1, 3) } else { 1 };
    let mut t = from + rng.range(0, 6) * U;
    let mut v = vec![];
    for _ in 0..n {
        let len = rng.range(2, 10) * U;
        let s = t;
        let mut e = s + len;
        if rng.chance(1, 6) {
            e = e.max(start_of_minter + rng.range(1, 5) * U);
        }
        v.push(StageSpec { start: s, end: e, pal: rng.range(1, 3) as u32, mcl: if is_tiered(kind) && rng.chance(1, 2) { Some(rng.range(1, 4) as u32) } else { None }, members: gen_members(rng, kind) });
        t = e + if rng.chance(1, 2) { 0 } else { rng.range(1, 3) * U };
    }
    v
}

fn pick_wl_kind(rng: &mut Rng, table: &BTreeMap<(usize, usize), u64>, mk: MinterKind) -> WlKind {
    let good: Vec<WlKind> = ALL_WL.iter().copied().filter(|k| level(table, mk, *k) == 2).collect();
    let mid: Vec<WlKind> = ALL_WL.iter().copied().filter(|k| level(table, mk, *k) == 1).collect();
    let r = rng.below(20);
    if r < 14 && !good.is_empty() {
        *rng.pick(&good)
    } else if r < 17 && !mid.is_empty() {
        *rng.pick(&mid)
    } else {
        *rng.pick(&ALL_WL)
    }
}

fn scenario(ses: &mut Session, sut: &mut S, rng: &mut Rng, idx: u64, table: &BTreeMap<(usize, usize), u64>) {
    let mk = ALL_MINTERS[(idx % 9) as usize];
    let t0 = GENESIS + 1_000_000_000 + rng.below(1000) * U;
    ses.begin_case(sut, &format!("case t0={t0} addrs={},{} sc={idx} mk={}", ADMIN, fmt_list(&BUYERS), mk.name()));
    let start = t0 + rng.range(30, 60) * U;
    let no_cap = mk.is_open_edition() && rng.chance(1, 3);
    let end = if mk.is_open_edition() && (no_cap || rng.chance(3, 4)) { Some(start + rng.range(20, 60) * U) } else { None };
    let maxpal = rng.range(3, 5);
    let mut plan = Plan { mk, wls: vec![], start, end, maxpal, instants: vec![start] };
    if let Some(e) = end {
        plan.instants.push(e);
    }
    // ---- whitelist pool
    let nwl = rng.range(1, 3);
    for id in 0..nwl {
        let kind = pick_wl_kind(rng, table, mk);
        let stages = gen_wl(rng, kind, t0 + 8 * U, start);
        let ls = kind == WlKind::TieredMerkle && rng.chance(1, 2);
        let price = if rng.chance(1, 8) { 40_000_000u128 } else { 60_000_000 };
        let line = format!("newwl id={id} kind={} admin=11 ml=10 price={price} ls={} stages={}", wl_idx(kind), ls as u8, fmt_stages(&stages));
        let out = ses.step(sut, &line);
        if out.starts_with("ok") {
            for s in &stages {
                plan.instants.push(s.start);
                plan.instants.push(s.end);
            }
            plan.wls.push((id, kind, stages, ls));
        }
        ses.mark(format!("newwl:{:?}:{}", kind, &out[..2]));
    }
    plan.instants.sort();
    plan.instants.dedup();
    // sometimes let time pass first, so that the minter is created while a whitelist is active
    if rng.chance(1, 10) && !plan.wls.is_empty() {
        let s = &plan.wls[0].2[0];
        ses.step(sut, &format!("t {}", s.start + 1));
    }
    // ---- create
    let with_wl = !plan.wls.is_empty() && rng.chance(3, 5);
    let big = mk.is_vending() && rng.chance(1, 8);
    let ntok: Option<u64> = if no_cap { None } else if big { Some(*rng.pick(&[100u64, 101, 133, 134, 166])) } else { Some(rng.range(3, 9)) };
    let lim = rng.range(1, 3);
    let wl0 = if with_wl { plan.wls[rng.below(plan.wls.len() as u64) as usize].0.to_string() } else { "-".into() };
    let line = format!("create mk={} wl={wl0} lim={lim} ntok={} maxpal={maxpal} admin={ADMIN} start={start} end={}", mk.idx(), fmt_opt(&ntok), fmt_opt(&end));
    let out = ses.step(sut, &line);
    let wl0k = plan.wls.iter().find(|w| w.0.to_string() == wl0).map(|w| format!("{:?}", w.1)).unwrap_or("none".into());
    ses.mark(format!("create:{}:{wl0k}:{}", mk.name(), &out[..2]));
    if !out.starts_with("ok") {
        // still exercise a couple of ops against the absent minter, then stop
        ses.step(sut, &format!("mint sender=21 funds={PUBLIC_PRICE} stage=- proof=- alloc=-"));
        ses.end_case();
        return;
    }
    // ---- op loop
    let n_ops = rng.range(28, 44);
    for _ in 0..n_ops {
        let mut r = rng.below(100);
        let now = sut.now();
        // nothing can be minted yet (no active whitelist, before the start): mostly move the clock instead
        let wl_active = sut.read_view(21, None, "-", None).act;
        if (18..66).contains(&r) && now < start && !wl_active && rng.chance(4, 5) {
            r = 0;
        }
        // a whitelist window is open: stay in it a little longer
        if r < 18 && wl_active && rng.chance(1, 2) {
            r = 30;
        }
        if r < 18 {
            // clock: next interesting instant -1/0/+1, else a small step
            let next = plan.instants.iter().copied().find(|x| *x + 1 > now);
            let t = match next {
                Some(x) if rng.chance(3, 4) => {
                    let cand = [x.saturating_sub(1), x, x + 1];
                    let c: Vec<u64> = cand.iter().copied().filter(|c| *c > now).collect();
                    if c.is_empty() { now + 1 } else { *rng.pick(&c) }
                }
                _ => now + rng.range(1, 4) * U,
            };
            ses.step(sut, &format!("t {t}"));
            ses.count("clock");
        } else if r < 66 {
            gen_mint(ses, sut, rng, &plan);
        } else if r < 72 {
            let sender = if rng.chance(4, 5) { ADMIN } else { *rng.pick(&BUYERS) };
            let to = *rng.pick(&BUYERS);
            let ap = sut.airdrop_price().unwrap_or(0);
            let funds = if rng.chance(1, 10) { ap + 1 } else { ap };
            let out = if mk.is_vending() && rng.chance(1, 2) {
                let id = rng.range(0, 10);
                ses.step(sut, &format!("mintfor sender={sender} to={to} id={id} funds={funds}"))
            } else if rng.chance(1, 12) {
                ses.step(sut, &format!("mintfor sender={sender} to={to} id=1 funds={funds}"))
            } else {
                ses.step(sut, &format!("mintto sender={sender} to={to} funds={funds}"))
            };
            ses.mark(format!("airdrop:{}:{}:{}", mk.name(), sender == ADMIN, &out[..2]));
        } else if r < 80 {
            let sender = if rng.chance(5, 6) { ADMIN } else { *rng.pick(&BUYERS) };
            let n = rng.range(0, maxpal + 1);
            let funds = rng.chance(1, 15) as u8;
            let out = ses.step(sut, &format!("setlim sender={sender} n={n} funds={funds}"));
            ses.mark(format!("setlim:{}:{}:n{}:{}", mk.name(), sender == ADMIN, n.min(4), &out[..2]));
        } else if r < 87 {
            if plan.wls.is_empty() {
                continue;
            }
            let sender = if rng.chance(7, 8) { ADMIN } else { *rng.pick(&BUYERS) };
            let wl = &plan.wls[rng.below(plan.wls.len() as u64) as usize];
            let funds = rng.chance(1, 20) as u8;
            let out = ses.step(sut, &format!("setwl sender={sender} wl={} funds={funds}", wl.0));
            ses.mark(format!("setwl:{}:{:?}:{}:{}", mk.name(), wl.1, if now >= start { "started" } else { "before" }, &out[..2]));
        } else if r < 96 {
            if plan.wls.is_empty() {
                continue;
            }
            gen_wlop(ses, sut, rng, &plan);
        } else {
            let sender = *rng.pick(&BUYERS);
            let funds = rng.chance(1, 10) as u8;
            let out = ses.step(sut, &format!("purge sender={sender} funds={funds}"));
            ses.mark(format!("purge:{}:{}", mk.name(), &out[..2]));
        }
    }
    // drive to the end: public phase, sell-out attempts, purge
    if rng.chance(1, 2) {
        let now = sut.now();
        let t = now.max(start) + 1;
        if end.map(|e| t < e).unwrap_or(true) {
            ses.step(sut, &format!("t {t}"));
            for _ in 0..rng.range(2, 10) {
                gen_mint(ses, sut, rng, &plan);
            }
        }
        if let Some(e) = end {
            if rng.chance(1, 2) {
                ses.step(sut, &format!("t {}", e + rng.below(2)));
            }
        }
        let out = ses.step(sut, &format!("purge sender={} funds=0", BUYERS[0]));
        ses.mark(format!("purge-end:{}:{}", mk.name(), &out[..2]));
        gen_mint(ses, sut, rng, &plan);
    }
    ses.end_case();
}

fn gen_wlop(ses: &mut Session, sut: &mut S, rng: &mut Rng, plan: &Plan) {
    let wl = &plan.wls[rng.below(plan.wls.len() as u64) as usize];
    let (id, kind) = (wl.0, wl.1);
    let j = rng.below(wl.2.len() as u64);
    let m = *rng.pick(&BUYERS);
    let line = match rng.below(7) {
        0 | 1 => format!("wlop wl={id} op=pal stage={j} n={}", rng.range(1, 3)),
        2 => format!("wlop wl={id} op=mcl stage={j} n={}", if rng.chance(1, 4) { "-".to_string() } else { rng.range(1, 4).to_string() }),
        3 => format!("wlop wl={id} op=add stage={j} m={m}.{}", rng.range(1, 3)),
        4 => format!("wlop wl={id} op=rm stage={j} m={m}.0"),
        5 => format!("wlop wl={id} op=end stage={j} t={}", wl.2[j as usize].end + rng.range(1, 4) * U),
        _ => {
            if rng.chance(1, 2) {
                format!("wlop wl={id} op=rmstage stage={}", wl.2.len() - 1)
            } else {
                let last = wl.2.last().unwrap().end;
                format!("wlop wl={id} op=addstage s={} e={} pal={} mcl={} m={m}.{}", last + 20 * U, last + 26 * U, rng.range(1, 3), rng.range(1, 3), rng.range(1, 2))
            }
        }
    };
    let out = ses.step(sut, &line);
    ses.mark(format!("wlop:{:?}:{}:{}", kind, kv(&line, "op").unwrap_or("?"), &out[..2]));
}

fn gen_mint(ses: &mut Session, sut: &mut S, rng: &mut Rng, plan: &Plan) {
    gen_mint_as(ses, sut, rng, plan, None)
}

/// `who = Some(a)`: an honest, correctly funded mint attempt by `a` (its own leaf if it has one, no field mutation)
fn gen_mint_as(ses: &mut Session, sut: &mut S, rng: &mut Rng, plan: &Plan, who: Option<u64>) {
    let mk = plan.mk;
    let sender = match who { Some(a) => a, None => if rng.chance(1, 12) { ADMIN } else { *rng.pick(&BUYERS) } };
    let price = sut.current_price().unwrap_or(PUBLIC_PRICE);
    let funds = match if who.is_some() { 19 } else { rng.below(20) } {
        0 => price + 1,
        1 => price.saturating_sub(1),
        2 => 0,
        _ => price,
    };
    // which whitelist is attached, and which stage is active (read from the harness' own bookkeeping for generation only)
    let v = sut.read_view(sender, None, "-", None);
    let att = v.attached.and_then(|k| plan.wls.iter().find(|w| w.0 == k));
    let (mut stage, mut proof, mut alloc): (Option<u64>, String, Option<u64>) = (None, "-".into(), None);
    let mut cls = "nofields";
    if mk.is_merkle() {
        if let Some((id, kind, stages, ls)) = att {
            if is_merkle_wl(*kind) {
                let j = if *kind == WlKind::TieredMerkle { v.sid.saturating_sub(1) as usize } else { 0 };
                let st = &stages[j.min(stages.len() - 1)];
                let mine = st.members.iter().position(|m| m.0 == sender);
                match mine {
                    Some(i) => {
                        stage = if *ls { Some(j as u64 + 1) } else { None };
                        alloc = if st.members[i].1 > 0 { Some(st.members[i].1 as u64) } else { None };
                        proof = format!("p{id}.{j}.{i}");
                        cls = "valid-leaf";
                    }
                    None => {
                        // not in the tree: borrow somebody else's proof
                        let i = rng.below(st.members.len() as u64) as usize;
                        stage = if *ls { Some(j as u64 + 1) } else { None };
                        alloc = if st.members[i].1 > 0 { Some(st.members[i].1 as u64) } else { None };
                        proof = format!("p{id}.{j}.{i}");
                        cls = "foreign-leaf";
                    }
                }
            }
        }
        // adversarial single-fault mutations of the message fields
        match if who.is_some() { 15 } else { rng.below(16) } {
            0 | 1 => {
                alloc = Some(alloc.unwrap_or(0) + rng.range(1, 5));
                cls = "raise-alloc";
            }
            2 => {
                alloc = None;
                cls = "drop-alloc";
            }
            3 => {
                stage = Some(rng.range(0, 4));
                cls = "other-stage";
            }
            4 => {
                proof = "-".into();
                cls = "no-proof";
            }
            5 => {
                proof = (*rng.pick(&["e", "x", "y", "b"])).to_string();
                cls = "junk-proof";
            }
            6 => {
                alloc = Some(rng.range(1, 9));
                proof = "-".into();
                cls = "alloc-no-proof";
            }
            _ => {}
        }
    } else if who.is_none() && rng.chance(1, 30) {
        alloc = Some(5);
        cls = "unknown-field";
    }
    let line = format!("mint sender={sender} funds={funds} stage={} proof={proof} alloc={}", fmt_opt(&stage), fmt_opt(&alloc));
    let out = ses.step(sut, &line);
    let phase = if v.attached.is_some() && v.act { "wl" } else if sut.now() >= plan.start { "public" } else { "early" };
    let wlk = att.map(|w| format!("{:?}", w.1)).unwrap_or("none".into());
    ses.mark(format!("mint:{}:{wlk}:{phase}:{cls}:{}", mk.name(), &out[..2]));
    if funds != price {
        ses.count("mint:wrong-funds");
    }
    let why = if out.starts_with("ok") {
        "ok"
    } else if funds != price {
        "funds"
    } else if phase == "wl" && !v.mem && cls != "valid-leaf" {
        "nonmember"
    } else if sut.sold_out() {
        "soldout"
    } else {
        "limit-or-shape"
    };
    ses.count(&format!("mintwhy:{phase}:{why}"));
    ses.count(&format!("mint:{phase}:{wlk}:{}", &out[..2]));
    ses.count(&format!("mintcls:{cls}:{phase}:{}", &out[..2]));
}

/// Stage hand-over: a tiered whitelist whose stages touch exactly (`stage[k+1].start == stage[k].end`), with different
/// member sets and different per-address limits per stage; at every stage edge (-1 ns, the edge itself, +1 ns) every buyer
/// tries more mints than any stage grants. This is where "which stage is in force" answers of the whitelist can disagree
/// with each other, and the per-stage entitlement is what the property fixes.
fn scenario_handover(ses: &mut Session, sut: &mut S, rng: &mut Rng, idx: u64, table: &BTreeMap<(usize, usize), u64>) {
    // minters that can mint through some tiered whitelist kind
    let cands: Vec<(MinterKind, WlKind)> = ALL_MINTERS
        .iter()
        .flat_map(|mk| [WlKind::Tiered, WlKind::TieredFlex, WlKind::TieredMerkle].into_iter().filter(move |wk| level(table, *mk, *wk) == 2).map(move |wk| (*mk, wk)))
        .collect();
    if cands.is_empty() {
        return;
    }
    let (mk, wk) = cands[(idx as usize) % cands.len()];
    let t0 = GENESIS + 1_000_000_000 + rng.below(1000) * U;
    ses.begin_case(sut, &format!("case t0={t0} addrs={},{} sc=handover{idx} mk={}", ADMIN, fmt_list(&BUYERS), mk.name()));
    let nst = rng.range(2, 3);
    let mut stages = vec![];
    let mut t = t0 + 10 * U;
    // limits: strictly decreasing, strictly increasing or random — the decreasing shape is the dangerous one
    let shape = rng.below(3);
    for j in 0..nst {
        let e = t + rng.range(2, 6) * U;
        let pal = match shape { 0 => (nst - j) as u32, 1 => (j + 1) as u32, _ => rng.range(1, 3) as u32 };
        // member sets: mostly disjoint across stages (buyer j+1.. only), sometimes overlapping
        let mut members: Vec<(u64, u32)> = vec![];
        for (k, b) in BUYERS.iter().enumerate() {
            let inside = if rng.chance(1, 5) { rng.chance(1, 2) } else { (k as u64) % nst == j };
            if inside {
                let cnt = if is_flex_wl(wk) { pal } else if is_merkle_wl(wk) && rng.chance(1, 2) { pal } else { 0 };
                members.push((*b, cnt));
            }
        }
        if members.is_empty() {
            members.push((BUYERS[j as usize % 4], if is_flex_wl(wk) { pal } else { 0 }));
        }
        stages.push(StageSpec { start: t, end: e, pal, mcl: if rng.chance(1, 4) { Some(rng.range(2, 5) as u32) } else { None }, members });
        t = e; // exactly contiguous
    }
    let start = t + rng.range(0, 3) * U; // the public sale starts at or after the last stage end
    let ls = wk == WlKind::TieredMerkle && rng.chance(1, 2);
    let out = ses.step(sut, &format!("newwl id=0 kind={} admin=11 ml=10 price=60000000 ls={} stages={}", wl_idx(wk), ls as u8, fmt_stages(&stages)));
    ses.mark(format!("handover:newwl:{:?}:{}", wk, &out[..2]));
    let end = if mk.is_open_edition() { Some(start + 40 * U) } else { None };
    let ntok: Option<u64> = Some(rng.range(10, 14));
    let out = ses.step(sut, &format!("create mk={} wl=0 lim=3 ntok={} maxpal=5 admin={ADMIN} start={start} end={}", mk.idx(), fmt_opt(&ntok), fmt_opt(&end)));
    ses.mark(format!("handover:create:{}:{:?}:{}", mk.name(), wk, &out[..2]));
    if !out.starts_with("ok") {
        ses.end_case();
        return;
    }
    let mut instants = vec![start];
    let plan = Plan { mk, wls: vec![(0, wk, stages.clone(), ls)], start, end, maxpal: 5, instants: instants.clone() };
    let mut edges: Vec<u64> = stages.iter().flat_map(|s| [s.start, s.end]).collect();
    edges.sort();
    edges.dedup();
    instants.extend(edges.iter().copied());
    for e in edges {
        for t in [e - 1, e, e + 1] {
            if t <= sut.now() {
                continue;
            }
            ses.step(sut, &format!("t {t}"));
            let mut order = BUYERS.to_vec();
            if rng.chance(1, 2) { order.reverse(); }
            for b in order {
                // a block may hold several transactions of the same sender: try to out-mint every stage's limit
                for _ in 0..rng.range(2, 4) {
                    gen_mint_as(ses, sut, rng, &plan, Some(b));
                }
            }
            ses.mark(format!("handover:edge:{}:{:?}:{}", mk.name(), wk, if t < e { "before" } else if t == e { "at" } else { "after" }));
        }
    }
    ses.end_case();
}

/// F-C03 regression corpus: a Merkle minter wired to a plain whitelist, member limit 1, self-declared allocation 5
fn corpus_self_raise(ses: &mut Session, sut: &mut S, mk: MinterKind, wk: WlKind) {
    let t0 = GENESIS + 1_000_000_000;
    let stages = if is_tiered(wk) {
        fmt_stages(&[StageSpec { start: t0 + 10 * U, end: t0 + 20 * U, pal: 1, mcl: Some(6), members: vec![(21, 1), (22, 1)] }])
    } else {
        fmt_stages(&[StageSpec { start: t0 + 10 * U, end: t0 + 20 * U, pal: 1, mcl: None, members: vec![(21, 1), (22, 1)] }])
    };
    ses.begin_case(sut, &format!("case t0={t0} addrs={},{} corpus=self-raise mk={}", ADMIN, fmt_list(&BUYERS), mk.name()));
    ses.step(sut, &format!("newwl id=0 kind={} admin=11 ml=10 price=60000000 ls=0 stages={stages}", wl_idx(wk)));
    ses.step(sut, &format!("create mk={} wl=0 lim=2 ntok=9 maxpal=5 admin={ADMIN} start={} end={}", mk.idx(), t0 + 40 * U, if mk.is_open_edition() { (t0 + 90 * U).to_string() } else { "-".into() }));
    ses.step(sut, &format!("t {}", t0 + 10 * U));
    for _ in 0..3 {
        ses.step(sut, "mint sender=21 funds=60000000 stage=- proof=- alloc=5");
        ses.step(sut, "mint sender=21 funds=60000000 stage=- proof=e alloc=5");
        ses.step(sut, "mint sender=21 funds=60000000 stage=1 proof=x alloc=5");
    }
    ses.step(sut, "mint sender=22 funds=60000000 stage=- proof=- alloc=-");
    ses.step(sut, "mint sender=22 funds=60000000 stage=- proof=- alloc=-");
    ses.step(sut, "mint sender=23 funds=60000000 stage=- proof=- alloc=7");
    ses.mark(format!("corpus:self-raise:{}:{:?}", mk.name(), wk));
    ses.end_case();
}

fn main() {
    let mut ses = Session::new("C03");
    let mut sut = S::new();
    if ses.maybe_replay(&mut sut) {
        ses.finish(&mut sut);
    }
    let mut rng = ses.rng.fork();

    // 1. discover the pairing table on the real contracts; the model's `compatible` must answer the same
    ses.begin_case(&mut sut, "case compat-table");
    for mk in 0..9 {
        for wk in 0..7 {
            let out = ses.step(&mut sut, &format!("compat mk={mk} wk={wk}"));
            ses.mark(format!("compat:{mk}:{wk}:{out}"));
        }
    }
    ses.end_case();
    let table = sut.table.clone();
    let mut rows = vec![];
    for mk in 0..9usize {
        rows.push(format!("{}={}", ALL_MINTERS[mk].name(), (0..7usize).map(|wk| table[&(mk, wk)].to_string()).collect::<Vec<_>>().join("")));
    }
    ses.note(format!("discovered pairing levels (columns plain,flex,tiered,tiered-flex,merkle,tiered-merkle,immutable; 0 rejected, 1 attachable/no whitelist mint, 2 whitelist mints work): {}", rows.join(" ")));

    // 2. corpus: the F-C03 shape on every Merkle minter x non-Merkle whitelist it accepts
    for mk in [MinterKind::VendingMerkle, MinterKind::VendingMerkleFeatured, MinterKind::OpenEditionMerkle] {
        for wk in [WlKind::Plain, WlKind::Tiered] {
            corpus_self_raise(&mut ses, &mut sut, mk, wk);
        }
    }

    // 3. generated scenarios
    let n = ses.scale(400, 20000);
    for i in 0..n {
        scenario(&mut ses, &mut sut, &mut rng, i, &table);
        if i % 5 == 0 {
            scenario_handover(&mut ses, &mut sut, &mut rng, i / 5, &table);
        }
    }
    if std::env::var("C03_DUMP").is_ok() {
        let mut out = String::new();
        for c in &ses.cases {
            for i in 0..c.model_in.len() {
                out.push_str(&format!("{}\n    => {}\n", c.model_in[i], c.exp[i]));
            }
        }
        std::fs::write(ses.args.out.join("trace.txt"), out).ok();
    }
    ses.note("buyers 21..24 + admin 10; limits 1..3 (max_per_address_limit 3..5); whitelist windows before / straddling the minter start; clock steps to every stage edge, start and end at -1/0/+1 ns; Merkle trees built with rs_merkle (sorted-pair sha256 / blake3-16), leaves stage‖sender‖allocation");
    ses.note(format!("tiered-whitelist mints at which the active-stage view and the booked stage's own record named different entitlements: {} (expected 0 on a coherent whitelist; the over-entitlement monitor always uses the booked stage's own record)", sut.mon_incoherent));
    ses.finish(&mut sut);
}
