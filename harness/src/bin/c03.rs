//! C03 — per-address, per-whitelist and per-stage mint limits.
//!
//! Real contracts (all 9 vending / open-edition minters created through their factories, all 7 whitelist kinds)
//! vs the Lean aspect model `LP.MintLimits` (driver `drv_c03`). See /verif/docs/C03.md for the protocol.
//!
//! The harness reads what the attached whitelist answers (Config / HasMember / Member / ActiveStageId / Stage)
//! *directly from the whitelist contract* before each mint and hands it to the model as the `View` witness;
//! payment / supply / clock preconditions are computed from the minter's own queries (`pre`, `started`).
//! The model then decides ok/err and every counter; the monitors transcribe the property independently.
//!
//! Round 3: output lines are `primary ## drift`. `primary` = ok/err + `lim wl mc mw coh` (what C03 constrains, observed
//! through QUERIES only); drift = the gate bits `g=` (clock / price / supply predictions — other properties' business),
//! raw storage dumps of the counter maps (layout) and token ownership. `res=` tells the model what the real contract
//! did, so that a wrong gate prediction becomes DRIFT instead of a disagreement (see Driver/C03.lean).
use lp_harness::minters::*;
use lp_harness::world::{addr, addr_id};
use lp_harness::*;
use rs_merkle::{Hasher, MerkleTree};
use serde_json::{json, Value};
use std::collections::{BTreeMap, BTreeSet};

const MIN_PRICE: u128 = 50_000_000;
const PUBLIC_PRICE: u128 = 100_000_000;
const U: u64 = 1_000; // scenario time unit (ns)

// ------------------------------------------------------------------------------------------------ merkle trees

#[derive(Clone)]
struct SortSha256;
impl Hasher for SortSha256 {
    type Hash = [u8; 32];
    fn hash(data: &[u8]) -> [u8; 32] {
        use sha2::{Digest, Sha256};
        Sha256::digest(data).into()
    }
    fn concat_and_hash(left: &Self::Hash, right: Option<&Self::Hash>) -> Self::Hash {
        match right {
            Some(r) => {
                let mut both = [*left, *r];
                both.sort_unstable();
                Self::hash(&both.concat())
            }
            None => *left,
        }
    }
}
/// tiered-whitelist-merkletree: blake3 truncated to 16 bytes, sorted pairs
#[derive(Clone)]
struct SortBlake16;
impl Hasher for SortBlake16 {
    type Hash = [u8; 16];
    fn hash(data: &[u8]) -> [u8; 16] {
        blake3::hash(data).as_bytes()[..16].try_into().unwrap()
    }
    fn concat_and_hash(left: &Self::Hash, right: Option<&Self::Hash>) -> Self::Hash {
        match right {
            Some(r) => {
                let mut both = [*left, *r];
                both.sort_unstable();
                Self::hash(&both.concat())
            }
            None => *left,
        }
    }
}

#[derive(Clone, Debug, Default)]
struct Tree {
    /// (member id, allocation (0 = none), leaf string)
    leaves: Vec<(u64, u32, String)>,
    root: String,
    proofs: Vec<Vec<String>>,
}

fn build_tree<H: Hasher>(leaves: Vec<(u64, u32, String)>) -> Tree {
    let hashed: Vec<H::Hash> = leaves.iter().map(|l| H::hash(l.2.as_bytes())).collect();
    let t = MerkleTree::<H>::from_leaves(&hashed);
    let root = t.root_hex().unwrap_or_else(|| "00".repeat(H::hash_size()));
    let proofs = (0..leaves.len()).map(|i| t.proof(&[i]).proof_hashes_hex()).collect();
    Tree { leaves, root, proofs }
}

/// decoy leaves a careless whitelist admin might have in the tree: strings that are NOT `stage‖sender‖allocation` of anybody
/// but would verify for everybody if a minter dropped the sender from the leaf it builds (member id 0 = nobody)
const DECOY_ALLOC: u64 = 7;
fn decoy_leaves(stage: Option<u64>) -> Vec<(u64, u32, String)> {
    let st = stage.map(|s| s.to_string()).unwrap_or_default();
    vec![(0, 0, format!("{st}{DECOY_ALLOC}")), (0, 0, format!("{st}"))].into_iter().filter(|l| !l.2.is_empty()).collect()
}

fn bytes_csv(s: &str) -> String {
    if s.is_empty() {
        return "-".into();
    }
    s.bytes().map(|b| b.to_string()).collect::<Vec<_>>().join(",")
}

fn leaf_string(stage: Option<u64>, who: u64, alloc: Option<u64>) -> String {
    // exactly the minter's format!: stage ‖ sender ‖ allocation, each part optional
    format!("{}{}{}", stage.map(|s| s.to_string()).unwrap_or_default(), addr(who), alloc.map(|a| a.to_string()).unwrap_or_default())
}

// ------------------------------------------------------------------------------------------------ message surface (run time)

/// the variants the model has an operation for
const HANDLED: [&str; 6] = ["mint", "mint_to", "mint_for", "purge", "update_per_address_limit", "set_whitelist"];
/// variants known when this check was written (none of them may move anything C03 owns; they are sent as `other` ops)
const KNOWN_OTHER: [&str; 8] = ["shuffle", "burn_remaining", "update_mint_price", "update_start_time", "update_start_trading_time", "update_discount_price", "remove_discount_price", "update_end_time"];

fn known_fields(variant: &str) -> &'static [&'static str] {
    match variant {
        "mint" => &["stage", "proof_hashes", "allocation"],
        "mint_to" => &["recipient"],
        "mint_for" => &["token_id", "recipient"],
        "update_per_address_limit" => &["per_address_limit"],
        "set_whitelist" => &["whitelist"],
        _ => &[],
    }
}

fn exec_schema(kind: MinterKind) -> Value {
    use cosmwasm_schema::schema_for;
    let root = match kind {
        MinterKind::Vending => serde_json::to_value(schema_for!(vending_minter::msg::ExecuteMsg)),
        MinterKind::VendingFeatured => serde_json::to_value(schema_for!(vending_minter_featured::msg::ExecuteMsg)),
        MinterKind::VendingFlex => serde_json::to_value(schema_for!(vending_minter_wl_flex::msg::ExecuteMsg)),
        MinterKind::VendingFlexFeatured => serde_json::to_value(schema_for!(vending_minter_wl_flex_featured::msg::ExecuteMsg)),
        MinterKind::VendingMerkle => serde_json::to_value(schema_for!(vending_minter_merkle_wl::msg::ExecuteMsg)),
        MinterKind::VendingMerkleFeatured => serde_json::to_value(schema_for!(vending_minter_merkle_wl_featured::msg::ExecuteMsg)),
        MinterKind::OpenEdition => serde_json::to_value(schema_for!(open_edition_minter::msg::ExecuteMsg)),
        MinterKind::OpenEditionFlex => serde_json::to_value(schema_for!(open_edition_minter_wl_flex::msg::ExecuteMsg)),
        MinterKind::OpenEditionMerkle => serde_json::to_value(schema_for!(open_edition_minter_merkle_wl::msg::ExecuteMsg)),
        _ => Ok(Value::Null),
    };
    root.unwrap_or(Value::Null)
}

/// (variant name, schema of its payload) for every variant of the enum schema
fn schema_variants(root: &Value) -> Vec<(String, Value)> {
    let mut out = vec![];
    for alt in root["oneOf"].as_array().cloned().unwrap_or_default().iter().chain(root["anyOf"].as_array().cloned().unwrap_or_default().iter()) {
        if let Some(names) = alt["enum"].as_array() {
            // unit variants written as plain strings
            for n in names {
                if let Some(n) = n.as_str() {
                    out.push((n.to_string(), Value::Null));
                }
            }
            continue;
        }
        if let Some(props) = alt["properties"].as_object() {
            for (k, v) in props {
                out.push((k.clone(), v.clone()));
            }
        }
    }
    out
}

/// a minimal JSON value accepted by `node` (all required fields, nothing optional); `hint` = the field name it is for
fn minimal_value(node: &Value, defs: &Value, hint: &str, now: u64, depth: u32) -> Value {
    if depth > 8 || node.is_null() {
        return Value::Null;
    }
    if let Some(r) = node["$ref"].as_str() {
        let name = r.rsplit('/').next().unwrap_or("");
        return match name {
            "Timestamp" | "Uint64" => json!((now + 2 * U).to_string()),
            "Uint128" | "Uint256" => json!("1"),
            "Decimal" => json!("0.1"),
            "Addr" => json!(addr(22)),
            _ => minimal_value(&defs[name], defs, hint, now, depth + 1),
        };
    }
    for key in ["allOf", "oneOf"] {
        if let Some(a) = node[key].as_array() {
            if let Some(f) = a.first() {
                return minimal_value(f, defs, hint, now, depth + 1);
            }
        }
    }
    if let Some(a) = node["anyOf"].as_array() {
        // Option<T>: take null if offered
        if a.iter().any(|x| x["type"] == "null") {
            return Value::Null;
        }
        if let Some(f) = a.first() {
            return minimal_value(f, defs, hint, now, depth + 1);
        }
    }
    if let Some(e) = node["enum"].as_array() {
        return e.first().cloned().unwrap_or(Value::Null);
    }
    let ty = match &node["type"] {
        Value::String(t) => t.clone(),
        Value::Array(ts) => {
            if ts.iter().any(|t| t == "null") {
                return Value::Null;
            }
            ts.first().and_then(|t| t.as_str()).unwrap_or("object").to_string()
        }
        _ => "object".to_string(),
    };
    match ty.as_str() {
        "integer" | "number" => match hint {
            "price" => json!(PUBLIC_PRICE as u64),
            "per_address_limit" => json!(2),
            _ => json!(1),
        },
        "string" => json!(addr(22)),
        "boolean" => json!(false),
        "array" => json!([]),
        "null" => Value::Null,
        _ => {
            let mut o = serde_json::Map::new();
            for r in node["required"].as_array().cloned().unwrap_or_default() {
                if let Some(k) = r.as_str() {
                    o.insert(k.to_string(), minimal_value(&node["properties"][k], defs, k, now, depth + 1));
                }
            }
            Value::Object(o)
        }
    }
}

/// like `minimal_value` but never `null` (used to poke an unknown OPTIONAL field of a handled variant)
fn nonnull_value(node: &Value, defs: &Value, hint: &str, now: u64) -> Value {
    if let Some(a) = node["anyOf"].as_array() {
        if let Some(f) = a.iter().find(|x| x["type"] != "null") {
            return nonnull_value(f, defs, hint, now);
        }
    }
    if let Value::Array(ts) = &node["type"] {
        if let Some(t) = ts.iter().find(|t| *t != "null") {
            let mut n = node.clone();
            n["type"] = t.clone();
            return nonnull_value(&n, defs, hint, now);
        }
    }
    let v = minimal_value(node, defs, hint, now, 0);
    if v == json!(1) {
        json!(2)
    } else {
        v
    }
}

// ------------------------------------------------------------------------------------------------ whitelist specs

#[derive(Clone, Debug)]
struct StageSpec {
    start: u64,
    end: u64,
    pal: u32,
    mcl: Option<u32>,
    members: Vec<(u64, u32)>,
}
fn fmt_members(ms: &[(u64, u32)]) -> String {
    if ms.is_empty() {
        "-".into()
    } else {
        ms.iter().map(|(a, c)| format!("{a}.{c}")).collect::<Vec<_>>().join("+")
    }
}
fn parse_members(s: &str) -> Vec<(u64, u32)> {
    if s == "-" || s.is_empty() {
        return vec![];
    }
    s.split('+')
        .filter_map(|p| {
            let (a, c) = p.split_once('.')?;
            Some((a.parse().ok()?, c.parse().ok()?))
        })
        .collect()
}
fn fmt_stages(st: &[StageSpec]) -> String {
    st.iter().map(|s| format!("{}/{}/{}/{}/{}", s.start, s.end, s.pal, fmt_opt(&s.mcl), fmt_members(&s.members))).collect::<Vec<_>>().join(";")
}
fn parse_stages(s: &str) -> Vec<StageSpec> {
    s.split(';')
        .filter_map(|p| {
            let f: Vec<&str> = p.split('/').collect();
            if f.len() != 5 {
                return None;
            }
            Some(StageSpec { start: f[0].parse().ok()?, end: f[1].parse().ok()?, pal: f[2].parse().ok()?, mcl: if f[3] == "-" { None } else { f[3].parse().ok() }, members: parse_members(f[4]) })
        })
        .collect()
}

fn is_tiered(k: WlKind) -> bool {
    matches!(k, WlKind::Tiered | WlKind::TieredFlex | WlKind::TieredMerkle)
}
fn is_merkle_wl(k: WlKind) -> bool {
    matches!(k, WlKind::Merkle | WlKind::TieredMerkle)
}
fn is_flex_wl(k: WlKind) -> bool {
    matches!(k, WlKind::Flex | WlKind::TieredFlex)
}
fn wl_idx(k: WlKind) -> usize {
    ALL_WL.iter().position(|x| *x == k).unwrap()
}

#[derive(Clone, Debug)]
struct WlInfo {
    addr: String,
    kind: WlKind,
    admin: u64,
    price: u128,
    stages: Vec<StageSpec>,
    trees: Vec<Tree>,
    /// GHOST (what the harness itself ever sent to this whitelist, successful or not — an upper bound that does not depend on
    /// any answer of the whitelist): addresses it ever named as members, the largest per-address limit it ever set on any
    /// stage, the largest flex mint_count it ever gave each address
    ever_member: BTreeSet<u64>,
    max_pal: u64,
    max_cnt: BTreeMap<u64, u64>,
    /// GHOST, precise (tiered list whitelists only): per stage INDEX, who the harness itself put on that stage and with which
    /// flex mint_count — maintained from the messages it sent and saw ACCEPTED (first listing of an address wins, as the admin
    /// messages are documented to behave: an address already on a stage is skipped; a removed stage takes its list and those of
    /// every later stage with it). An entry the whitelist still answers for after its stage was removed is nobody's entitlement.
    gstages: Vec<BTreeMap<u64, u64>>,
}

impl WlInfo {
    /// upper bound of what `who` can ever be entitled to on this whitelist, from the harness' own bookkeeping
    /// `sid` = 1-based stage id the mint is booked under (0 = not tiered)
    fn ghost_bound_at(&self, who: u64, sid: u64) -> u64 {
        let coarse = self.ghost_bound(who);
        if !is_tiered(self.kind) || is_merkle_wl(self.kind) || sid == 0 {
            return coarse;
        }
        match self.gstages.get(sid as usize - 1) {
            Some(g) => match g.get(&who) {
                Some(c) => if is_flex_wl(self.kind) { coarse.min(*c) } else { coarse },
                None => 0,
            },
            None => 0,
        }
    }
    fn ghost_bound(&self, who: u64) -> u64 {
        if is_merkle_wl(self.kind) {
            u64::MAX // the harness' own trees are used instead (tree_allocation)
        } else if is_flex_wl(self.kind) {
            *self.max_cnt.get(&who).unwrap_or(&0)
        } else if self.ever_member.contains(&who) {
            self.max_pal
        } else {
            0
        }
    }
    fn ghost_note_members(&mut self, ms: &[(u64, u32)]) {
        for (a, c) in ms {
            self.ever_member.insert(*a);
            let e = self.max_cnt.entry(*a).or_insert(0);
            *e = (*e).max(*c as u64);
        }
    }
}

struct MinterInfo {
    addr: String,
    coll: String,
    kind: MinterKind,
    ntok: Option<u32>,
    /// the account the harness made admin (creator) — known independently of any query
    admin: u64,
    /// the factory this minter was created through (one factory per case)
    factory: String,
    /// GHOST: the factory's `max_per_address_limit` in force, from what the harness itself sent (creation parameter, then every
    /// successful governance update) — never read back from the factory
    max_in_force: u64,
}

/// What the harness read from the whitelist before a mint (the model's `Oracle`) plus bookkeeping for the monitors.
#[derive(Clone, Debug, Default)]
struct View {
    attached: Option<u64>,
    act: bool,
    mem: bool,
    leaf: bool,
    wlim: u64,
    mcnt: u64,
    mcfg: bool,
    sid: u64,
    slim: Option<u64>,
    /// what the list-based tiered whitelist's OWN per-stage state says about the sender in the stage the mint will be booked
    /// under (`StageMemberInfo{stage_id: sid-1}`; time-independent, unlike `Config{}` / `HasMember{}` which go through the
    /// "active stage" helpers). Sent to the model as `se=` (coherence check) and used by the over-entitlement monitor.
    stage_ent: Option<u64>,
    /// the leaf string the harness asked the whitelist about (`HasMember{member: leaf, proof_hashes}`), if the message has a proof
    lq: Option<String>,
}

// ------------------------------------------------------------------------------------------------ the SUT

#[derive(Default)]
struct Mon {
    /// successful public-phase mints by the address itself (airdrops not included), never reset
    pub_mints: BTreeMap<u64, u64>,
    /// mints initiated (public + airdrops as sender + whitelist), never reset
    initiated: BTreeMap<u64, u64>,
    /// of which: public + airdrops
    initiated_pub: BTreeMap<u64, u64>,
    /// whitelist mints per (whitelist id, stage id (0 = not tiered), address)
    wl_mints: BTreeMap<(u64, u64, u64), u64>,
    /// whitelist mints per (whitelist id, stage id)
    stage_mints: BTreeMap<(u64, u64), u64>,
    /// tokens received per address
    tokens: BTreeMap<u64, u64>,
    /// a Purge has succeeded; the two snapshots are `initiated` / `initiated_pub` at the LAST successful purge
    purged: bool,
    at_purge: BTreeMap<u64, u64>,
    at_purge_pub: BTreeMap<u64, u64>,
}

struct S {
    w: Option<World>,
    univ: Vec<u64>,
    wls: BTreeMap<u64, WlInfo>,
    minter: Option<MinterInfo>,
    mon: Mon,
    pending: Option<(String, String)>,
    /// discovered pairing table (mk idx, wl idx) -> level, filled by `compat` lines
    table: BTreeMap<(usize, usize), u64>,
    /// successful tiered-whitelist mints at which the active-stage view (Config/HasMember) and the booked stage's own
    /// record (StageMemberInfo) named different entitlements (diagnostic; the monitor uses the smaller one)
    mon_incoherent: u64,
    /// successful whitelist mints at which the whitelist's answers granted MORE than the harness ever sent to it (diagnostic)
    mon_ghost_tighter: u64,
    /// ExecuteMsg JSON schemas per minter kind index (run-time enumeration of the message surface)
    schemas: BTreeMap<usize, Value>,
}

fn jn(v: &Value) -> Option<u64> {
    v.as_u64().or_else(|| v.as_str().and_then(|s| s.parse().ok()))
}

impl S {
    fn new() -> S {
        S { w: None, univ: vec![], wls: BTreeMap::new(), minter: None, mon: Mon::default(), pending: None, table: BTreeMap::new(), mon_incoherent: 0, mon_ghost_tighter: 0, schemas: BTreeMap::new() }
    }
    fn world(&mut self) -> &mut World {
        self.w.as_mut().expect("case not begun")
    }
    fn wl_id_of(&self, a: &str) -> Option<u64> {
        self.wls.iter().find(|(_, i)| i.addr == a).map(|(k, _)| *k)
    }
    fn flag(&mut self, key: String, what: String) {
        if self.pending.is_none() {
            self.pending = Some((key, what));
        }
    }

    // ---------------------------------------------------------------- whitelist creation
    /// `decoys`: Merkle kinds get extra non-member leaves (see `decoy_leaves`); `pad`: that many extra members (ids 100..) are
    /// appended to stage 0 (lists beyond the 25 / 100 pagination sizes); real members keep their indices.
    #[allow(clippy::too_many_arguments)]
    fn make_wl(w: &mut World, kind: WlKind, admin: u64, ml: u32, price: u128, stages: &[StageSpec], leaf_stage: bool, decoys: bool, pad: u64) -> Result<WlInfo, String> {
        let mut trees = vec![];
        let mut wst = vec![];
        for (j, s) in stages.iter().enumerate() {
            let mut members = s.members.clone();
            if j == 0 {
                for k in 0..pad {
                    members.push((100 + k, 1));
                }
            }
            let mut root = String::new();
            if is_merkle_wl(kind) {
                let st = if leaf_stage { Some(j as u64 + 1) } else { None };
                let mut leaves: Vec<(u64, u32, String)> = members.iter().map(|(a, c)| (*a, *c, leaf_string(st, *a, if *c > 0 { Some(*c as u64) } else { None }))).collect();
                if decoys {
                    leaves.extend(decoy_leaves(st));
                }
                let t = if kind == WlKind::Merkle { build_tree::<SortSha256>(leaves) } else { build_tree::<SortBlake16>(leaves) };
                root = t.root.clone();
                trees.push(t);
            }
            wst.push(WlStage { start: s.start, end: s.end, mint_price: (0, price), per_address_limit: s.pal, mint_count_limit: s.mcl, members, merkle_root: root });
        }
        let args = WlArgs { admin, member_limit: ml, admins_mutable: true, whale_cap: None, stages: wst };
        let a = w.new_whitelist(kind, &args)?;
        let mut info = WlInfo { addr: a, kind, admin, price, stages: stages.to_vec(), trees, ever_member: BTreeSet::new(), max_pal: 0, max_cnt: BTreeMap::new(), gstages: vec![] };
        for s in stages {
            info.max_pal = info.max_pal.max(s.pal as u64);
            info.ghost_note_members(&s.members);
            let mut g = BTreeMap::new();
            for (a, c) in &s.members {
                g.entry(*a).or_insert(*c as u64);
            }
            info.gstages.push(g);
        }
        Ok(info)
    }

    // ---------------------------------------------------------------- reading the whitelist (the View witness)
    fn proof_hashes(&self, spec: &str) -> Option<Vec<String>> {
        match spec {
            "-" => None,
            "e" => Some(vec![]),
            "x" => Some(vec!["ab".repeat(32)]),
            "y" => Some(vec!["cd".repeat(16)]),
            "b" => Some(vec!["zz".into()]),
            p => {
                // p<k>.<j>.<i>
                let f: Vec<u64> = p.trim_start_matches('p').split('.').filter_map(|x| x.parse().ok()).collect();
                if f.len() != 3 {
                    return Some(vec![]);
                }
                let t = self.wls.get(&f[0]).and_then(|i| i.trees.get(f[1] as usize)).and_then(|t| t.proofs.get(f[2] as usize));
                Some(t.cloned().unwrap_or_default())
            }
        }
    }

    fn read_view(&self, sender: u64, stage: Option<u64>, proof: &str, alloc: Option<u64>) -> View {
        let mut v = View::default();
        let (Some(m), Some(w)) = (&self.minter, &self.w) else { return v };
        let cfg = w.query(&m.addr, &json!({"config":{}})).unwrap_or(Value::Null);
        let Some(wa) = cfg["whitelist"].as_str() else { return v };
        v.attached = self.wl_id_of(wa);
        let wc = w.query(wa, &json!({"config":{}})).unwrap_or(Value::Null);
        v.act = wc["is_active"].as_bool().unwrap_or(false);
        v.wlim = jn(&wc["per_address_limit"]).unwrap_or(0);
        v.mcfg = jn(&wc["member_limit"]) == Some(0) && jn(&wc["num_members"]) == Some(0);
        v.mem = w.query(wa, &json!({"has_member":{"member": addr(sender)}})).ok().and_then(|r| r["has_member"].as_bool()).unwrap_or(false);
        if let Some(ph) = self.proof_hashes(proof) {
            let leaf = leaf_string(stage, sender, alloc);
            v.leaf = w.query(wa, &json!({"has_member":{"member": leaf, "proof_hashes": ph}})).ok().and_then(|r| r["has_member"].as_bool()).unwrap_or(false);
            v.lq = Some(leaf);
        }
        v.mcnt = w.query(wa, &json!({"member":{"member": addr(sender)}})).ok().and_then(|r| jn(&r["mint_count"])).unwrap_or(0);
        v.sid = w.query(wa, &json!({"active_stage_id":{}})).ok().and_then(|r| jn(&r)).unwrap_or(0);
        if v.sid >= 1 {
            v.slim = w.query(wa, &json!({"stage":{"stage_id": v.sid - 1}})).ok().and_then(|r| jn(&r["stage"]["mint_count_limit"]));
            if let Ok(r) = w.query(wa, &json!({"stage_member_info":{"stage_id": v.sid - 1, "member": addr(sender)}})) {
                if let Some(m) = r["is_member"].as_bool() {
                    v.stage_ent = Some(if m { jn(&r["per_address_limit"]).unwrap_or(0) } else { 0 });
                }
            }
        }
        v
    }

    // ---------------------------------------------------------------- minter-side preconditions
    fn minter_cfg(&self) -> Value {
        let (Some(m), Some(w)) = (&self.minter, &self.w) else { return Value::Null };
        w.query(&m.addr, &json!({"config":{}})).unwrap_or(Value::Null)
    }
    fn start_time(&self) -> u64 {
        jn(&self.minter_cfg()["start_time"]).unwrap_or(u64::MAX)
    }
    fn end_time(&self) -> Option<u64> {
        jn(&self.minter_cfg()["end_time"])
    }
    fn limit_in_force(&self) -> u64 {
        jn(&self.minter_cfg()["per_address_limit"]).unwrap_or(0)
    }
    fn mintable(&self) -> Option<u64> {
        let (Some(m), Some(w)) = (&self.minter, &self.w) else { return None };
        w.query(&m.addr, &json!({"mintable_num_tokens":{}})).ok().and_then(|r| jn(&r["count"]))
    }
    pub fn current_price(&self) -> Option<u128> {
        let (Some(m), Some(w)) = (&self.minter, &self.w) else { return None };
        w.query(&m.addr, &json!({"mint_price":{}})).ok().and_then(|r| r["current_price"]["amount"].as_str().and_then(|s| s.parse().ok()))
    }
    pub fn airdrop_price(&self) -> Option<u128> {
        let (Some(m), Some(w)) = (&self.minter, &self.w) else { return None };
        w.query(&m.addr, &json!({"mint_price":{}})).ok().and_then(|r| r["airdrop_price"]["amount"].as_str().and_then(|s| s.parse().ok()))
    }
    fn now(&self) -> u64 {
        self.w.as_ref().map(|w| w.time()).unwrap_or(0)
    }
    fn ended(&self) -> bool {
        matches!(self.end_time(), Some(e) if self.now() >= e)
    }
    fn sold_out(&self) -> bool {
        self.mintable() == Some(0)
    }

    // ---------------------------------------------------------------- observations
    /// (primary, drift): primary = what C03 constrains, read through queries only (`Config`, `MintCount`);
    /// drift = raw storage dumps of the counter maps (storage layout) and token ownership (C01's business)
    fn obs_parts(&self) -> Option<(String, String)> {
        let (Some(m), Some(w)) = (&self.minter, &self.w) else { return None };
        let cfg = self.minter_cfg();
        let lim = jn(&cfg["per_address_limit"]).map(|x| x.to_string()).unwrap_or("?".into());
        let wl = match cfg["whitelist"].as_str() {
            Some(a) => self.wl_id_of(a).map(|k| k.to_string()).unwrap_or("?".into()),
            None => "-".into(),
        };
        let mut mc = vec![];
        let mut mw = vec![];
        for a in &self.univ {
            let r = w.query(&m.addr, &json!({"mint_count":{"address": addr(*a)}})).unwrap_or(Value::Null);
            mc.push((*a, jn(&r["count"]).unwrap_or(999_999)));
            if m.kind.is_flex() {
                mw.push((*a, jn(&r["whitelist_count"]).unwrap_or(999_999)));
            }
        }
        let (maps, tot) = self.raw_counters();
        let own: Vec<(u64, u64)> = self.univ.iter().map(|a| (*a, self.tokens_of(*a))).filter(|p| p.1 != 0).collect();
        let primary = format!("lim={lim} wl={wl} mc={} mw={}", fmt_pairs(&mc), if m.kind.is_flex() { fmt_pairs(&mw) } else { "-".into() });
        let drift = format!(
            "pub={} wlm={} fs={} ss={} ts={} tot={},{},{} own={}",
            fmt_pairs(&maps[0]), fmt_pairs(&maps[1]), fmt_pairs(&maps[2]), fmt_pairs(&maps[3]), fmt_pairs(&maps[4]), tot[0], tot[1], tot[2], fmt_pairs(&own)
        );
        Some((primary, drift))
    }
    /// one canonical answer line: `coh` = coherence verdict (`-` = not applicable), `g` = the gate bits the harness predicted
    fn out(&self, ok: bool, coh: &str, g: &str) -> String {
        let w = if ok { "ok" } else { "err" };
        match self.obs_parts() {
            None => format!("{w} none ## g={g}"),
            Some((p, d)) => format!("{w} {p} coh={coh} ## g={g} {d}"),
        }
    }
    fn tokens_of(&self, a: u64) -> u64 {
        let (Some(m), Some(w)) = (&self.minter, &self.w) else { return 0 };
        w.query(&m.coll, &json!({"tokens":{"owner": addr(a), "limit": 100}})).ok().and_then(|r| r["tokens"].as_array().map(|x| x.len() as u64)).unwrap_or(0)
    }
    /// raw dumps of MINTER_ADDRS, WHITELIST_MINTER_ADDRS, WHITELIST_{FS,SS,TS}_MINTER_ADDRS and the three stage totals.
    /// DRIFT ONLY (behind ` ## `): depends on the storage key names; no monitor and no verdict looks at it.
    fn raw_counters(&self) -> (Vec<Vec<(u64, u64)>>, [u64; 3]) {
        let mut maps: Vec<Vec<(u64, u64)>> = vec![vec![]; 5];
        let mut tot = [0u64; 3];
        let (Some(m), Some(w)) = (&self.minter, &self.w) else { return (maps, tot) };
        let names: [&[u8]; 5] = [b"ma", b"wlma", b"wlfsma", b"wlssma", b"wltsma"];
        let items: [&[u8]; 3] = [b"wlfsmc", b"wlssmc", b"wltsmc"];
        for (k, v) in w.dump(&m.addr) {
            let val: u64 = std::str::from_utf8(&v).ok().and_then(|s| s.trim().parse().ok()).unwrap_or(888_888);
            if let Some(i) = items.iter().position(|n| *n == k.as_slice()) {
                tot[i] = val;
                continue;
            }
            if k.len() > 2 && k[0] == 0 {
                let n = k[1] as usize;
                if k.len() >= 2 + n {
                    let ns = &k[2..2 + n];
                    if let Some(i) = names.iter().position(|x| *x == ns) {
                        let a = String::from_utf8_lossy(&k[2 + n..]).to_string();
                        maps[i].push((addr_id(&a), val));
                    }
                }
            }
        }
        for mm in maps.iter_mut() {
            mm.sort();
        }
        (maps, tot)
    }

    // ---------------------------------------------------------------- monitors that look at the whole state
    /// "until a purge after sell-out clears them, the per-address public and whitelist mint counts the minter reports equal
    /// the mints that address initiated" — from the harness' OWN count of the successes it saw, and `MintCount` (a query).
    /// Before any purge: exact. After a purge the property allows the counts to have been cleared, but never to exceed what the
    /// address initiated in total, nor to miss a mint initiated after the purge.
    fn check_reports(&mut self) {
        let Some(m) = &self.minter else { return };
        let name = m.kind.name();
        let flex = m.kind.is_flex();
        let Some(w) = &self.w else { return };
        let maddr = m.addr.clone();
        let mut bad: Option<(String, String)> = None;
        for a in self.univ.clone() {
            let toks = self.tokens_of(a);
            let want_t = *self.mon.tokens.get(&a).unwrap_or(&0);
            if toks != want_t && want_t <= 100 {
                bad = Some((format!("{name}/mint/tokens-mismatch"), format!("address {a} holds {toks} tokens, {want_t} successful mints/airdrops went to it")));
                break;
            }
            let r = w.query(&maddr, &json!({"mint_count":{"address": addr(a)}})).unwrap_or(Value::Null);
            let c = jn(&r["count"]).unwrap_or(999_999);
            let wc = jn(&r["whitelist_count"]).unwrap_or(0);
            let init = *self.mon.initiated.get(&a).unwrap_or(&0);
            let init_pub = *self.mon.initiated_pub.get(&a).unwrap_or(&0);
            if !self.mon.purged {
                let ok = if flex { c == init_pub && wc == init - init_pub } else { c == init };
                if !ok {
                    bad = Some((format!("{name}/query/mint-count-mismatch"), format!("MintCount({a}) reports count={c} whitelist_count={wc}; the address initiated {init} successful mints ({init_pub} public/airdrop) and no purge happened")));
                    break;
                }
            } else {
                let since = init - *self.mon.at_purge.get(&a).unwrap_or(&0);
                let since_pub = init_pub - *self.mon.at_purge_pub.get(&a).unwrap_or(&0);
                let ok = if flex { since_pub <= c && c <= init_pub && (since - since_pub) <= wc && wc <= init - init_pub } else { since <= c && c <= init };
                if !ok {
                    bad = Some((format!("{name}/query/mint-count-mismatch-after-purge"), format!("MintCount({a}) reports count={c} whitelist_count={wc}; the address initiated {init} successful mints in total ({init_pub} public/airdrop), {since} of them ({since_pub}) after the last purge")));
                    break;
                }
            }
        }
        if let Some((k, wht)) = bad {
            self.flag(k, wht);
        }
    }

    /// (per_address_limit, attached whitelist address) as the minter's `Config{}` reports them
    fn cfg_pair(&self) -> Option<(u64, Option<String>)> {
        self.minter.as_ref()?;
        let c = self.minter_cfg();
        Some((jn(&c["per_address_limit"])?, c["whitelist"].as_str().map(String::from)))
    }

    /// "the limit / attached whitelist only change through the admin's UpdatePerAddressLimit / SetWhitelist", transcribed from what
    /// the harness SENT: after any other message (any sender, any variant incl. unknown ones, migrate, clock) both must be unchanged
    fn check_cfg_moved(&mut self, line: &str, before: Option<(u64, Option<String>)>) {
        let (Some(b), Some(a)) = (before, self.cfg_pair()) else { return };
        if a == b {
            return;
        }
        let Some(m) = &self.minter else { return };
        let name = m.kind.name();
        let op = line.split_whitespace().next().unwrap_or("");
        let by_admin = kv_u64(line, "sender") == Some(m.admin);
        if op == "setlim" && (a.0 == 0 || a.0 > m.max_in_force) {
            let mx = m.max_in_force;
            self.flag(format!("{name}/setlim/outside-factory-maximum"), format!("UpdatePerAddressLimit moved the limit in force to {}, outside 1..={mx}, the factory maximum in force at that moment (as set by the harness: creation parameter / last successful governance update)", a.0));
            return;
        }
        let allowed = match op {
            "setlim" => by_admin && a.1 == b.1 && kv_u64(line, "n") == Some(a.0),
            "setwl" => by_admin && a.0 == b.0 && kv_u64(line, "wl").and_then(|k| self.wls.get(&k)).map(|i| Some(i.addr.clone()) == a.1).unwrap_or(false),
            // the admin moving them through a message this check does not know is not a property violation (the model
            // comparison reports it: `lim` / `wl` are primary observations); anybody else doing so is
            "other" | "migrate" => by_admin,
            _ => false,
        };
        if !allowed {
            self.flag(format!("{name}/config/limit-or-whitelist-moved"), format!("per_address_limit / whitelist went from {:?} to {:?} through `{line}`, which is not the admin's UpdatePerAddressLimit / SetWhitelist naming that value", b, a));
        }
    }

    /// The entitlement in force for `who` on the attached, active whitelist — from the whitelist's own state and the harness'
    /// own trees / bookkeeping, never from the message. Returns (whitelist id, stage id (0 = not tiered), entitlement).
    fn entitlement_in_force(&mut self, v: &View, who: u64, count_diag: bool) -> Option<(u64, u64, u64)> {
        let wlid = v.attached?;
        let info = self.wls.get(&wlid)?;
        let wk = info.kind;
        let sid = if is_tiered(wk) { v.sid } else { 0 };
        // per stage for tiered whitelists: the entitlement is the one of the stage the mint is BOOKED under
        // (a member of stage k only, minting while the whitelist reports stage j's limit, is entitled to stage k's)
        let from_answers: u64 = if let (true, Some(se)) = (matches!(wk, WlKind::Tiered | WlKind::TieredFlex), v.stage_ent) {
            let act = if is_flex_wl(wk) { if v.mem { v.mcnt } else { 0 } } else if v.mem { v.wlim } else { 0 };
            if act != se && count_diag {
                self.mon_incoherent += 1;
            }
            se
        } else if is_flex_wl(wk) {
            if v.mem { v.mcnt } else { 0 }
        } else if is_merkle_wl(wk) {
            self.tree_allocation(wlid, v.sid, who, v.wlim).unwrap_or(0)
        } else if v.mem {
            v.wlim
        } else {
            0
        };
        // ... and never more than the harness itself ever granted on that whitelist
        let ghost = self.wls[&wlid].ghost_bound_at(who, sid);
        if ghost < from_answers && count_diag {
            self.mon_ghost_tighter += 1;
        }
        Some((wlid, sid, from_answers.min(ghost)))
    }

    // ---------------------------------------------------------------- ops
    fn do_newwl(&mut self, line: &str) -> (String, String) {
        let id = kv_u64(line, "id").unwrap();
        let kind = ALL_WL[kv_u64(line, "kind").unwrap() as usize];
        let admin = kv_u64(line, "admin").unwrap_or(11);
        let ml = kv_u64(line, "ml").unwrap_or(10) as u32;
        let price = kv_u128(line, "price").unwrap_or(60_000_000);
        let ls = kv_bool(line, "ls").unwrap_or(false);
        let dk = kv_bool(line, "dk").unwrap_or(false);
        let pad = kv_u64(line, "pad").unwrap_or(0);
        let stages = parse_stages(kv(line, "stages").unwrap_or(""));
        let r = if stages.is_empty() { Err("no stages".to_string()) } else { Self::make_wl(self.world(), kind, admin, ml, price, &stages, ls, dk, pad) };
        match r {
            Ok(i) => {
                self.wls.insert(id, i);
                (format!("{line} res=1"), self.out(true, "-", "-"))
            }
            Err(_) => (format!("{line} res=0"), self.out(false, "-", "-")),
        }
    }

    fn do_wlop(&mut self, line: &str) -> (String, String) {
        let id = kv_u64(line, "wl").unwrap();
        let Some(info) = self.wls.get(&id).cloned() else { return (format!("{line} res=0"), self.out(false, "-", "-")) };
        let j = kv_u64(line, "stage").unwrap_or(0);
        let tiered = is_tiered(info.kind);
        let flex = is_flex_wl(info.kind);
        let members = parse_members(kv(line, "m").unwrap_or("-"));
        let msg: Value = match kv(line, "op").unwrap_or("") {
            "pal" => {
                let n = kv_u64(line, "n").unwrap_or(1);
                if let Some(g) = self.wls.get_mut(&id) {
                    g.max_pal = g.max_pal.max(n);
                }
                if tiered { json!({"update_stage_config":{"stage_id": j, "per_address_limit": n}}) } else { json!({"update_per_address_limit": n}) }
            }
            "mcl" => json!({"update_stage_config":{"stage_id": j, "mint_count_limit": kv_opt_u64(line, "n").unwrap_or(None)}}),
            "add" => {
                if let Some(g) = self.wls.get_mut(&id) {
                    g.ghost_note_members(&members);
                }
                let to_add: Vec<Value> = if flex { members.iter().map(|(a, c)| json!({"address": addr(*a), "mint_count": c})).collect() } else { members.iter().map(|(a, _)| json!(addr(*a))).collect() };
                if tiered { json!({"add_members":{"to_add": to_add, "stage_id": j}}) } else { json!({"add_members":{"to_add": to_add}}) }
            }
            "rm" => {
                let rm: Vec<String> = members.iter().map(|(a, _)| addr(*a)).collect();
                if tiered { json!({"remove_members":{"to_remove": rm, "stage_id": j}}) } else { json!({"remove_members":{"to_remove": rm}}) }
            }
            "end" => {
                let t = kv_u64(line, "t").unwrap_or(0).to_string();
                if tiered { json!({"update_stage_config":{"stage_id": j, "end_time": t}}) } else { json!({"update_end_time": t}) }
            }
            "rmstage" => json!({"remove_stage":{"stage_id": j}}),
            "addstage" => {
                let s = kv_u64(line, "s").unwrap_or(0).to_string();
                let e = kv_u64(line, "e").unwrap_or(0).to_string();
                let mut st = json!({"name":"added","start_time": s,"end_time": e,"mint_price": jcoin((0, info.price)),"mint_count_limit": kv_opt_u64(line, "mcl").unwrap_or(None)});
                if !flex {
                    st["per_address_limit"] = json!(kv_u64(line, "pal").unwrap_or(1));
                }
                if let Some(g) = self.wls.get_mut(&id) {
                    g.max_pal = g.max_pal.max(kv_u64(line, "pal").unwrap_or(1));
                    g.ghost_note_members(&members);
                }
                let ms: Vec<Value> = if flex { members.iter().map(|(a, c)| json!({"address": addr(*a), "mint_count": c})).collect() } else { members.iter().map(|(a, _)| json!(addr(*a))).collect() };
                json!({"add_stage":{"stage": st, "members": ms}})
            }
            _ => json!({"nonsense":{}}),
        };
        let r = self.world().exec(&addr(info.admin), &info.addr, &msg, &[]);
        let ok = r.is_ok();
        if ok && tiered {
            if let Some(g) = self.wls.get_mut(&id) {
                let j = j as usize;
                match kv(line, "op").unwrap_or("") {
                    "add" => {
                        if let Some(st) = g.gstages.get_mut(j) {
                            for (a, c) in &members {
                                st.entry(*a).or_insert(*c as u64);
                            }
                        }
                    }
                    "rm" => {
                        if let Some(st) = g.gstages.get_mut(j) {
                            for (a, _) in &members {
                                st.remove(a);
                            }
                        }
                    }
                    "rmstage" => g.gstages.truncate(j),
                    "addstage" => {
                        let mut st = BTreeMap::new();
                        for (a, c) in &members {
                            st.entry(*a).or_insert(*c as u64);
                        }
                        g.gstages.push(st);
                    }
                    _ => {}
                }
            }
        }
        (format!("{line} res={}", ok as u8), self.out(ok, "-", "-"))
    }

    fn do_create(&mut self, line: &str) -> (String, String) {
        if self.minter.is_some() {
            return (format!("{line} wlact=0 pre=1 res=0"), self.out(false, "-", "-"));
        }
        let kind = ALL_MINTERS[kv_u64(line, "mk").unwrap() as usize];
        let wl = kv_opt_u64(line, "wl").unwrap();
        let lim = kv_u64(line, "lim").unwrap() as u32;
        let ntok = kv_opt_u64(line, "ntok").unwrap().map(|x| x as u32);
        let maxpal = kv_u64(line, "maxpal").unwrap() as u32;
        let admin = kv_u64(line, "admin").unwrap();
        let start = kv_u64(line, "start").unwrap();
        let end = kv_opt_u64(line, "end").unwrap_or(None);
        let wl_addr = wl.and_then(|k| self.wls.get(&k).map(|i| i.addr.clone()));
        let wlact = match &wl_addr {
            Some(a) => self.w.as_ref().unwrap().query(a, &json!({"config":{}})).ok().and_then(|c| c["is_active"].as_bool()).unwrap_or(false),
            None => false,
        };
        let w = self.world();
        let mut p = w.default_params(kind);
        p.max_per_address_limit = maxpal;
        p.min_mint_price = (0, MIN_PRICE);
        // open edition without a token cap is only accepted with a non-zero airdrop price
        p.airdrop_mint_price = (0, if ntok.is_none() { 20_000_000 } else { 0 });
        let mut factory = String::new();
        let res = (|| -> Result<(String, String), String> {
            let f = w.new_factory(kind.factory(), &p)?;
            factory = f.clone();
            let mut a = w.default_create(kind, &p);
            a.creator = admin;
            a.num_tokens = ntok;
            a.per_address_limit = lim;
            a.start_time = start;
            a.end_time = if kind.is_open_edition() { end } else { None };
            a.mint_price = (0, PUBLIC_PRICE);
            a.whitelist = if wl.is_some() { Some(wl_addr.clone().unwrap_or_else(|| "nosuchcontract".into())) } else { None };
            w.fund(&addr(admin), 0, p.creation_fee.1);
            w.create_minter(&f, kind, &a)
        })();
        let ok = res.is_ok();
        if let Ok((m, c)) = res {
            self.minter = Some(MinterInfo { addr: m, coll: c, kind, ntok, admin, factory, max_in_force: maxpal as u64 });
        }
        // `pre=1`: the harness only sends creation parameters it believes valid (apart from the whitelist pairing)
        (format!("{line} wlact={} pre=1 res={}", wlact as u8, ok as u8), self.out(ok, "-", "1"))
    }

    /// has the collection minted token `id`? (a query — no event attribute names involved)
    fn token_exists(&self, id: u64) -> bool {
        let (Some(m), Some(w)) = (&self.minter, &self.w) else { return false };
        w.query(&m.coll, &json!({"owner_of":{"token_id": id.to_string()}})).is_ok()
    }

    /// the allocation the whitelist's own tree grants `who` in its active stage (None = no leaf for that address)
    fn tree_allocation(&self, wlid: u64, sid: u64, who: u64, wlim: u64) -> Option<u64> {
        let info = self.wls.get(&wlid)?;
        let j = if info.kind == WlKind::TieredMerkle { sid.checked_sub(1)? as usize } else { 0 };
        let t = info.trees.get(j)?;
        t.leaves.iter().filter(|l| l.0 == who).map(|l| if l.1 > 0 { l.1 as u64 } else { wlim }).max()
    }

    /// a mint / airdrop succeeded although a purge had succeeded before: the purge was not "after sell-out" (vending: nothing
    /// left to mint; open edition: past the end) and the cleared counters restart the per-address allowance
    fn note_mint_after_purge(&mut self, what: &str) {
        if self.mon.purged {
            let name = self.minter.as_ref().unwrap().kind.name();
            self.flag(format!("{name}/purge/mint-after-purge"), format!("{what} succeeded after a successful Purge: the purge cleared the per-address counts while minting was still possible"));
        }
    }

    fn do_mint(&mut self, line: &str) -> (String, String) {
        let sender = kv_u64(line, "sender").unwrap();
        let funds = kv_u128(line, "funds").unwrap_or(0);
        let stage = kv_opt_u64(line, "stage").unwrap_or(None);
        let alloc = kv_opt_u64(line, "alloc").unwrap_or(None);
        let proof = kv(line, "proof").unwrap_or("-").to_string();
        let sb = bytes_csv(&addr(sender));
        if self.minter.is_none() {
            return (format!("{line} act=0 mem=0 leaf=0 wlim=0 mcnt=0 mcfg=0 sid=0 slim=- se=- sb={sb} lq=- started=0 pre=0 res=0"), self.out(false, "-", "00"));
        }
        let v = self.read_view(sender, stage, &proof, alloc);
        let started = self.now() >= self.start_time();
        let paid = self.current_price() == Some(funds);
        let pre = paid && !self.sold_out() && !self.ended();
        let limit_before = self.limit_in_force();
        let kind = self.minter.as_ref().unwrap().kind;
        let maddr = self.minter.as_ref().unwrap().addr.clone();
        let ph = self.proof_hashes(&proof);
        let msg = if kind.is_merkle() {
            json!({"mint":{"stage": stage, "proof_hashes": ph, "allocation": alloc}})
        } else {
            let mut o = serde_json::Map::new();
            if let Some(s) = stage {
                o.insert("stage".into(), json!(s));
            }
            if let Some(p) = &ph {
                o.insert("proof_hashes".into(), json!(p));
            }
            if let Some(a) = alloc {
                o.insert("allocation".into(), json!(a));
            }
            json!({"mint": Value::Object(o)})
        };
        let f: Vec<(u64, u128)> = if funds > 0 { vec![(0, funds)] } else { vec![] };
        let r = self.world().exec(&addr(sender), &maddr, &msg, &f);
        let ok = r.is_ok();
        let mut coh = "-";
        if r.is_ok() {
            let name = kind.name();
            self.note_mint_after_purge(&format!("a Mint by {sender}"));
            *self.mon.tokens.entry(sender).or_insert(0) += 1;
            *self.mon.initiated.entry(sender).or_insert(0) += 1;
            let wl_phase = v.attached.is_some() && v.act;
            if !wl_phase {
                *self.mon.initiated_pub.entry(sender).or_insert(0) += 1;
                let n = self.mon.pub_mints.entry(sender).or_insert(0);
                *n += 1;
                let n = *n;
                if n > limit_before {
                    self.flag(format!("{name}/mint/public-over-limit"), format!("address {sender} completed its public mint no. {n} while the per-address limit in force is {limit_before}"));
                }
            } else {
                let (wlid, sid, ent) = self.entitlement_in_force(&v, sender, true).unwrap();
                let wk = self.wls[&wlid].kind;
                if sid != 0 && v.stage_ent.is_some() {
                    coh = "1";
                }
                let n = self.mon.wl_mints.entry((wlid, sid, sender)).or_insert(0);
                *n += 1;
                let n = *n;
                if n > ent {
                    self.flag(format!("{name}/mint/wl-over-entitlement"), format!("address {sender} completed whitelist mint no. {n} on whitelist {wlid} ({:?}, stage {sid}) while its entitlement there is {ent} (message fields: stage={stage:?} allocation={alloc:?} proof={proof})", wk));
                }
                let t = self.mon.stage_mints.entry((wlid, sid)).or_insert(0);
                *t += 1;
                let t = *t;
                if sid != 0 {
                    if let Some(l) = v.slim {
                        if t > l {
                            self.flag(format!("{name}/mint/stage-total-over-limit"), format!("stage {sid} of whitelist {wlid} reached {t} mints, its mint_count_limit is {l}"));
                        }
                    }
                }
            }
        }
        let wit = format!(
            " act={} mem={} leaf={} wlim={} mcnt={} mcfg={} sid={} slim={} se={} sb={sb} lq={} started={} pre={} res={}",
            v.act as u8, v.mem as u8, v.leaf as u8, v.wlim, v.mcnt, v.mcfg as u8, v.sid, fmt_opt(&v.slim), fmt_opt(&v.stage_ent),
            v.lq.as_deref().map(bytes_csv).unwrap_or("-".into()), started as u8, pre as u8, ok as u8
        );
        (format!("{line}{wit}"), self.out(ok, coh, &format!("{}{}", started as u8, pre as u8)))
    }

    fn do_airdrop(&mut self, line: &str, for_id: bool) -> (String, String) {
        let sender = kv_u64(line, "sender").unwrap();
        let to = kv_u64(line, "to").unwrap();
        let funds = kv_u128(line, "funds").unwrap_or(0);
        if self.minter.is_none() {
            return (format!("{line} pre=0 res=0"), self.out(false, "-", "0"));
        }
        let ntok = self.minter.as_ref().unwrap().ntok.unwrap_or(0) as u64;
        let maddr = self.minter.as_ref().unwrap().addr.clone();
        let mut pre = self.airdrop_price() == Some(funds) && !self.sold_out() && !self.ended();
        let msg = if for_id {
            let id = kv_u64(line, "id").unwrap_or(0);
            pre = pre && id >= 1 && id <= ntok && !self.token_exists(id);
            json!({"mint_for":{"token_id": id, "recipient": addr(to)}})
        } else {
            json!({"mint_to":{"recipient": addr(to)}})
        };
        let f: Vec<(u64, u128)> = if funds > 0 { vec![(0, funds)] } else { vec![] };
        let r = self.world().exec(&addr(sender), &maddr, &msg, &f);
        let ok = r.is_ok();
        if r.is_ok() {
            self.note_mint_after_purge(&format!("an airdrop by {sender}"));
            *self.mon.tokens.entry(to).or_insert(0) += 1;
            *self.mon.initiated.entry(sender).or_insert(0) += 1;
            *self.mon.initiated_pub.entry(sender).or_insert(0) += 1;
        }
        (format!("{line} pre={} res={}", pre as u8, ok as u8), self.out(ok, "-", &format!("{}", pre as u8)))
    }

    fn do_setlim(&mut self, line: &str) -> (String, String) {
        let sender = kv_u64(line, "sender").unwrap();
        let n = kv_u64(line, "n").unwrap();
        let funds = kv_bool(line, "funds").unwrap_or(false);
        let Some(m) = &self.minter else { return (line.to_string(), self.out(false, "-", "-")) };
        let maddr = m.addr.clone();
        let f: Vec<(u64, u128)> = if funds { vec![(0, 1)] } else { vec![] };
        let r = self.world().exec(&addr(sender), &maddr, &json!({"update_per_address_limit":{"per_address_limit": n}}), &f);
        (line.to_string(), self.out(r.is_ok(), "-", "-"))
    }

    fn do_setwl(&mut self, line: &str) -> (String, String) {
        let sender = kv_u64(line, "sender").unwrap();
        let id = kv_u64(line, "wl").unwrap();
        let funds = kv_bool(line, "funds").unwrap_or(false);
        let Some(m) = &self.minter else { return (format!("{line} started=0 oldact=0 newact=0 pre=0 res=0"), self.out(false, "-", "00")) };
        let maddr = m.addr.clone();
        let started = self.now() >= self.start_time();
        let w = self.w.as_ref().unwrap();
        let act = |a: &str| w.query(a, &json!({"config":{}})).ok().and_then(|c| c["is_active"].as_bool()).unwrap_or(false);
        let oldact = self.minter_cfg()["whitelist"].as_str().map(|a| act(a)).unwrap_or(false);
        let new_addr = self.wls.get(&id).map(|i| i.addr.clone()).unwrap_or_else(|| "nosuchcontract".into());
        let newact = act(&new_addr);
        // price / denom rules (everything is ustars here): whitelist price >= factory min_mint_price
        let pre = match w.query(&new_addr, &json!({"config":{}})).ok().and_then(|c| c["mint_price"]["amount"].as_str().and_then(|s| s.parse::<u128>().ok())) {
            Some(p) => p >= MIN_PRICE,
            None => true,
        };
        let f: Vec<(u64, u128)> = if funds { vec![(0, 1)] } else { vec![] };
        let r = self.world().exec(&addr(sender), &maddr, &json!({"set_whitelist":{"whitelist": new_addr}}), &f);
        let ok = r.is_ok();
        (format!("{line} started={} oldact={} newact={} pre={} res={}", started as u8, oldact as u8, newact as u8, pre as u8, ok as u8), self.out(ok, "-", &format!("{}{}", started as u8, pre as u8)))
    }

    fn do_purge(&mut self, line: &str) -> (String, String) {
        let sender = kv_u64(line, "sender").unwrap();
        let funds = kv_bool(line, "funds").unwrap_or(false);
        let Some(m) = &self.minter else { return (format!("{line} pre=0 res=0"), self.out(false, "-", "0")) };
        let maddr = m.addr.clone();
        let kind = m.kind;
        let mintable = self.mintable();
        let end = self.end_time();
        let now = self.now();
        let pre = if kind.is_vending() {
            mintable == Some(0)
        } else if kind == MinterKind::OpenEditionFlex {
            !matches!(mintable, Some(n) if n != 0) && !matches!(end, Some(e) if now <= e)
        } else {
            !matches!(end, Some(e) if now <= e) && !(matches!(mintable, Some(n) if n != 0) && end.is_none())
        };
        let f: Vec<(u64, u128)> = if funds { vec![(0, 1)] } else { vec![] };
        let r = self.world().exec(&addr(sender), &maddr, &json!({"purge":{}}), &f);
        let ok = r.is_ok();
        if ok {
            self.mon.purged = true;
            self.mon.at_purge = self.mon.initiated.clone();
            self.mon.at_purge_pub = self.mon.initiated_pub.clone();
        }
        (format!("{line} pre={} res={}", pre as u8, ok as u8), self.out(ok, "-", &format!("{}", pre as u8)))
    }

    // ---------------------------------------------------------------- the rest of the message surface
    fn schema_of(&mut self, kind: MinterKind) -> Value {
        self.schemas.entry(kind.idx()).or_insert_with(|| exec_schema(kind)).clone()
    }

    /// the JSON message for `other v=<variant> [with=<optional field of that variant to set>]`, built from the crate's own
    /// schema (minimal required arguments); `None` if the variant does not exist on this minter
    fn variant_msg(&mut self, kind: MinterKind, variant: &str, with: Option<&str>) -> Option<Value> {
        let root = self.schema_of(kind);
        let defs = root["definitions"].clone();
        let now = self.now();
        let (_, payload) = schema_variants(&root).into_iter().find(|(n, _)| n == variant)?;
        if payload.is_null() {
            return Some(json!(variant));
        }
        let mut body = minimal_value(&payload, &defs, variant, now, 0);
        if let (Some(f), Some(o)) = (with, body.as_object_mut()) {
            let node = payload["properties"][f].clone();
            o.insert(f.to_string(), nonnull_value(&node, &defs, f, now));
            // a handled variant keeps its usual arguments
            if variant == "mint_to" || variant == "mint_for" {
                o.insert("recipient".into(), json!(addr(24)));
            }
        }
        let mut m = serde_json::Map::new();
        m.insert(variant.to_string(), body);
        Some(Value::Object(m))
    }

    /// any ExecuteMsg variant the model has no operation for (or a handled one with an unknown extra field): nothing C03 owns
    /// may move — the model treats it as `env`, the monitors (`config/limit-or-whitelist-moved`, `MintCount`, tokens) stay on
    fn do_other(&mut self, line: &str) -> (String, String) {
        let sender = kv_u64(line, "sender").unwrap_or(21);
        let variant = kv(line, "v").unwrap_or("").to_string();
        let with = kv(line, "with").filter(|x| *x != "-").map(String::from);
        let funds = kv_u128(line, "funds").unwrap_or(0);
        let Some(m) = &self.minter else { return (format!("{line} res=0"), self.out(false, "-", "-")) };
        let (kind, maddr) = (m.kind, m.addr.clone());
        let Some(msg) = self.variant_msg(kind, &variant, with.as_deref()) else { return (format!("{line} res=0"), self.out(false, "-", "-")) };
        let f: Vec<(u64, u128)> = if funds > 0 { vec![(0, funds)] } else { vec![] };
        let r = self.world().exec(&addr(sender), &maddr, &msg, &f);
        let ok = r.is_ok();
        (format!("{line} res={}", ok as u8), self.out(ok, "-", "-"))
    }

    /// governance: factory sudo `UpdateParams { extension: { max_per_address_limit } }` — the maximum `UpdatePerAddressLimit`
    /// reads LIVE from the factory; nothing on the minter may move (model: `XOp.govern`)
    fn do_govern(&mut self, line: &str) -> (String, String) {
        let n = kv_u64(line, "max").unwrap_or(1);
        let Some(m) = &self.minter else { return (format!("{line} res=0"), self.out(false, "-", "-")) };
        let factory = m.factory.clone();
        let r = self.world().sudo(&factory, &json!({"update_params": {"extension": {"max_per_address_limit": n}}}));
        let ok = r.is_ok();
        if ok {
            if let Some(m) = self.minter.as_mut() {
                m.max_in_force = n;
            }
        }
        (format!("{line} res={}", ok as u8), self.out(ok, "-", "-"))
    }

    /// `migrate` to the code the minter already runs (the only code the harness has): counters must survive
    fn do_migrate(&mut self, line: &str) -> (String, String) {
        let sender = kv_u64(line, "sender").unwrap_or(10);
        let Some(m) = &self.minter else { return (format!("{line} res=0"), self.out(false, "-", "-")) };
        let (kind, maddr) = (m.kind, m.addr.clone());
        let code = self.world().codes.minters[kind.idx()];
        let r = self.world().migrate(&addr(sender), &maddr, code, &json!({}));
        let ok = r.is_ok();
        (format!("{line} res={}", ok as u8), self.out(ok, "-", "-"))
    }

    // ---------------------------------------------------------------- discovery of the (minter x whitelist) pairing table
    /// 0 = rejected at instantiate and SetWhitelist, 1 = attachable but no whitelist mint can succeed, 2 = whitelist mint succeeded;
    /// 7 = instantiate and SetWhitelist disagree (would be reported as a disagreement with the model)
    fn discover(mk: MinterKind, wk: WlKind) -> u64 {
        let t0 = GENESIS + 1_000_000_000;
        let mut w = World::new(t0);
        let buyer = 21u64;
        let stages: Vec<StageSpec> = if is_tiered(wk) {
            vec![
                StageSpec { start: t0 + 1000, end: t0 + 2000, pal: 2, mcl: Some(5), members: vec![(buyer, 2)] },
                StageSpec { start: t0 + 2000, end: t0 + 3000, pal: 1, mcl: None, members: vec![(buyer, 1)] },
            ]
        } else {
            vec![StageSpec { start: t0 + 1000, end: t0 + 2000, pal: 2, mcl: None, members: vec![(buyer, 2)] }]
        };
        let Ok(info) = Self::make_wl(&mut w, wk, 11, 10, 60_000_000, &stages, false, false, 0) else { return 9 };
        let mut p = w.default_params(mk);
        p.min_mint_price = (0, MIN_PRICE);
        let Ok(f) = w.new_factory(mk.factory(), &p) else { return 9 };
        let mut a = w.default_create(mk, &p);
        a.start_time = t0 + 5000;
        a.end_time = if mk.is_open_edition() { Some(t0 + 9000) } else { None };
        a.num_tokens = Some(5);
        w.fund(&addr(a.creator), 0, 3 * p.creation_fee.1);
        w.fund(&addr(buyer), 0, 10_000_000_000);
        // (a) attached at instantiate
        let mut a2 = a.clone();
        a2.whitelist = Some(info.addr.clone());
        let at_inst = w.create_minter(&f, mk, &a2).is_ok();
        // (b) attached by SetWhitelist
        let Ok((m, _c)) = w.create_minter(&f, mk, &a) else { return 9 };
        let at_set = w.exec(&addr(a.creator), &m, &json!({"set_whitelist":{"whitelist": info.addr}}), &[]).is_ok();
        if at_inst != at_set {
            return 7;
        }
        if !at_set {
            return 0;
        }
        w.set_time(t0 + 1500);
        let proofs: Vec<Option<Vec<String>>> = vec![None, info.trees.first().and_then(|t| t.proofs.first().cloned())];
        let mut msgs: Vec<Value> = vec![json!({"mint":{}})];
        for ph in &proofs {
            for al in [None, Some(2u32)] {
                msgs.push(json!({"mint":{"stage": null, "proof_hashes": ph, "allocation": al}}));
            }
        }
        for msg in msgs {
            if w.exec(&addr(buyer), &m, &msg, &[(0, 60_000_000)]).is_ok() {
                return 2;
            }
        }
        1
    }
}

impl Sut for S {
    fn begin(&mut self, header: &str) -> (String, String) {
        let t0 = kv_u64(header, "t0").unwrap_or(GENESIS + 1_000_000_000);
        self.univ = kv_list(header, "addrs").unwrap_or_default().iter().map(|x| *x as u64).collect();
        let mut w = World::new(t0);
        for a in &self.univ {
            w.fund(&addr(*a), 0, 1_000_000_000_000);
        }
        self.w = Some(w);
        self.wls.clear();
        self.minter = None;
        self.mon = Mon::default();
        self.pending = None;
        (header.to_string(), "case".to_string())
    }

    fn exec(&mut self, line: &str) -> (String, String) {
        let op = line.split_whitespace().next().unwrap_or("");
        let cfg_before = self.cfg_pair();
        let r = match op {
            "compat" => {
                let mk = kv_u64(line, "mk").unwrap() as usize;
                let wk = kv_u64(line, "wk").unwrap() as usize;
                let lvl = Self::discover(ALL_MINTERS[mk], ALL_WL[wk]);
                self.table.insert((mk, wk), lvl);
                return (line.to_string(), format!("ok {lvl}"));
            }
            "t" => {
                let t: u64 = line.split_whitespace().nth(1).and_then(|x| x.parse().ok()).unwrap_or(0);
                let now = self.now();
                if self.w.is_some() {
                    self.world().set_time(t.max(now));
                }
                (line.to_string(), self.out(true, "-", "-"))
            }
            "newwl" => self.do_newwl(line),
            "wlop" => self.do_wlop(line),
            "create" => self.do_create(line),
            "mint" => self.do_mint(line),
            "mintto" => self.do_airdrop(line, false),
            "mintfor" => self.do_airdrop(line, true),
            "setlim" => self.do_setlim(line),
            "setwl" => self.do_setwl(line),
            "purge" => self.do_purge(line),
            "other" => self.do_other(line),
            "migrate" => self.do_migrate(line),
            "govern" => self.do_govern(line),
            _ => (line.to_string(), "bad-op".into()),
        };
        self.check_cfg_moved(line, cfg_before);
        self.check_reports();
        // the answer line is computed inside the op; monitors that fired are picked up by `monitor()`
        r
    }

    fn monitor(&mut self) -> Option<(String, String)> {
        self.pending.take()
    }
}

// ------------------------------------------------------------------------------------------------ generators

const ADMIN: u64 = 10;
const BUYERS: [u64; 4] = [21, 22, 23, 24];
const C03_MINTERS: usize = 9;

#[derive(Clone)]
struct WlPlan {
    id: u64,
    kind: WlKind,
    stages: Vec<StageSpec>,
    ls: bool,
    dk: bool,
    pad: u64,
}

struct Plan {
    mk: MinterKind,
    wls: Vec<WlPlan>,
    start: u64,
    end: Option<u64>,
    maxpal: u64,
    instants: Vec<u64>,
}

fn level(table: &BTreeMap<(usize, usize), u64>, mk: MinterKind, wk: WlKind) -> u64 {
    *table.get(&(mk.idx(), wl_idx(wk))).unwrap_or(&0)
}

impl S {
    /// variants of this minter's ExecuteMsg the model has no operation for, and (variant, field) pairs of handled variants
    /// carrying a field this check does not know
    fn surface(&mut self, kind: MinterKind) -> (Vec<String>, Vec<(String, String)>) {
        let root = self.schema_of(kind);
        let mut others = vec![];
        let mut extra = vec![];
        for (name, payload) in schema_variants(&root) {
            if HANDLED.contains(&name.as_str()) {
                if let Some(props) = payload["properties"].as_object() {
                    for f in props.keys() {
                        if !known_fields(&name).contains(&f.as_str()) {
                            extra.push((name.clone(), f.clone()));
                        }
                    }
                }
            } else {
                others.push(name);
            }
        }
        (others, extra)
    }
}

fn newwl_line(w: &WlPlan, ml: u32, price: u128) -> String {
    format!("newwl id={} kind={} admin=11 ml={ml} price={price} ls={} dk={} pad={} stages={}", w.id, wl_idx(w.kind), w.ls as u8, w.dk as u8, w.pad, fmt_stages(&w.stages))
}

fn gen_members(rng: &mut Rng, kind: WlKind) -> Vec<(u64, u32)> {
    let mut ms = vec![];
    for b in BUYERS {
        if rng.chance(3, 4) {
            let c = if is_merkle_wl(kind) { rng.range(0, 3) as u32 } else { rng.range(1, 3) as u32 };
            ms.push((b, c));
        }
    }
    if ms.is_empty() {
        ms.push((BUYERS[0], 1));
    }
    if rng.chance(1, 6) {
        ms.push((ADMIN, 1));
    }
    ms
}

fn gen_wl(rng: &mut Rng, kind: WlKind, from: u64, start_of_minter: u64) -> Vec<StageSpec> {
    // windows mostly before the minter's start, sometimes straddling it
    let n = if is_tiered(kind) { rng.range(1, 3) } else { 1 };
    let mut t = from + rng.range(0, 6) * U;
    let mut v = vec![];
    for _ in 0..n {
        let len = rng.range(2, 10) * U;
        let s = t;
        let mut e = s + len;
        if rng.chance(1, 6) {
            e = e.max(start_of_minter + rng.range(1, 5) * U);
        }
        v.push(StageSpec { start: s, end: e, pal: rng.range(1, 3) as u32, mcl: if is_tiered(kind) && rng.chance(1, 2) { Some(rng.range(1, 4) as u32) } else { None }, members: gen_members(rng, kind) });
        t = e + if rng.chance(1, 2) { 0 } else { rng.range(1, 3) * U };
    }
    v
}

fn pick_wl_kind(rng: &mut Rng, table: &BTreeMap<(usize, usize), u64>, mk: MinterKind) -> WlKind {
    let good: Vec<WlKind> = ALL_WL.iter().copied().filter(|k| level(table, mk, *k) == 2).collect();
    let mid: Vec<WlKind> = ALL_WL.iter().copied().filter(|k| level(table, mk, *k) == 1).collect();
    let r = rng.below(20);
    if r < 14 && !good.is_empty() {
        *rng.pick(&good)
    } else if r < 17 && !mid.is_empty() {
        *rng.pick(&mid)
    } else {
        *rng.pick(&ALL_WL)
    }
}

fn gen_other(ses: &mut Session, sut: &mut S, rng: &mut Rng, mk: MinterKind) {
    let (others, extra) = sut.surface(mk);
    let sender = if rng.chance(1, 2) { ADMIN } else { *rng.pick(&BUYERS) };
    if !extra.is_empty() && rng.chance(1, 2) {
        let (v, f) = rng.pick(&extra).clone();
        let funds = sut.current_price().unwrap_or(PUBLIC_PRICE);
        let out = ses.step(sut, &format!("other sender={sender} v={v} with={f} funds={funds}"));
        ses.mark(format!("other:{}:{v}+{f}:{}", mk.name(), &out[..2]));
        return;
    }
    if others.is_empty() {
        return;
    }
    // unknown variants first, and often
    let unknown: Vec<String> = others.iter().filter(|v| !KNOWN_OTHER.contains(&v.as_str())).cloned().collect();
    let v = if !unknown.is_empty() && rng.chance(2, 3) { rng.pick(&unknown).clone() } else { rng.pick(&others).clone() };
    if v == "burn_remaining" && sender == ADMIN && !rng.chance(1, 4) {
        return; // ends the sale: keep it rare
    }
    let out = ses.step(sut, &format!("other sender={sender} v={v} with=- funds=0"));
    ses.mark(format!("other:{}:{v}:{}:{}", mk.name(), sender == ADMIN, &out[..2]));
}

fn scenario(ses: &mut Session, sut: &mut S, rng: &mut Rng, idx: u64, table: &BTreeMap<(usize, usize), u64>) {
    let mk = ALL_MINTERS[(idx as usize) % C03_MINTERS];
    let t0 = GENESIS + 1_000_000_000 + rng.below(1000) * U;
    ses.begin_case(sut, &format!("case t0={t0} addrs={},{} sc={idx} mk={}", ADMIN, fmt_list(&BUYERS), mk.name()));
    let start = t0 + rng.range(30, 60) * U;
    let no_cap = mk.is_open_edition() && rng.chance(1, 3);
    let end = if mk.is_open_edition() && (no_cap || rng.chance(3, 4)) { Some(start + rng.range(20, 60) * U) } else { None };
    let maxpal = rng.range(3, 5);
    let mut plan = Plan { mk, wls: vec![], start, end, maxpal, instants: vec![start] };
    if let Some(e) = end {
        plan.instants.push(e);
    }
    // ---- whitelist pool
    let nwl = rng.range(1, 3);
    for id in 0..nwl {
        let kind = pick_wl_kind(rng, table, mk);
        let stages = gen_wl(rng, kind, t0 + 8 * U, start);
        let ls = kind == WlKind::TieredMerkle && rng.chance(1, 2);
        let dk = is_merkle_wl(kind) && rng.chance(1, 2);
        let pad = if rng.chance(1, 14) { *rng.pick(&[26u64, 101]) } else { 0 };
        let price = if rng.chance(1, 8) { 40_000_000u128 } else { 60_000_000 };
        let wp = WlPlan { id, kind, stages, ls, dk, pad };
        let out = ses.step(sut, &newwl_line(&wp, if pad > 0 { 400 } else { 10 }, price));
        ses.mark(format!("newwl:{:?}:pad{}:{}", kind, pad, &out[..2]));
        if out.starts_with("ok") {
            for s in &wp.stages {
                plan.instants.push(s.start);
                plan.instants.push(s.end);
            }
            plan.wls.push(wp);
        }
    }
    plan.instants.sort();
    plan.instants.dedup();
    // sometimes let time pass first, so that the minter is created while a whitelist is active
    if rng.chance(1, 10) && !plan.wls.is_empty() {
        let s = &plan.wls[0].stages[0];
        ses.step(sut, &format!("t {}", s.start + 1));
    }
    // ---- create
    let with_wl = !plan.wls.is_empty() && rng.chance(3, 5);
    let big = mk.is_vending() && rng.chance(1, 8);
    let ntok: Option<u64> = if no_cap { None } else if big { Some(*rng.pick(&[100u64, 101, 133, 134, 166])) } else { Some(rng.range(3, 9)) };
    let lim = rng.range(1, 3);
    let wl0 = if with_wl { plan.wls[rng.below(plan.wls.len() as u64) as usize].id.to_string() } else { "-".into() };
    let line = format!("create mk={} wl={wl0} lim={lim} ntok={} maxpal={maxpal} admin={ADMIN} start={start} end={}", mk.idx(), fmt_opt(&ntok), fmt_opt(&end));
    let out = ses.step(sut, &line);
    let wl0k = plan.wls.iter().find(|w| w.id.to_string() == wl0).map(|w| format!("{:?}", w.kind)).unwrap_or("none".into());
    ses.mark(format!("create:{}:{wl0k}:{}", mk.name(), &out[..2]));
    if !out.starts_with("ok") {
        // still exercise a couple of ops against the absent minter, then stop
        ses.step(sut, &format!("mint sender=21 funds={PUBLIC_PRICE} stage=- proof=- alloc=-"));
        ses.step(sut, "purge sender=21 funds=0");
        ses.end_case();
        return;
    }
    // ---- op loop
    let n_ops = rng.range(28, 44);
    for _ in 0..n_ops {
        let mut r = rng.below(100);
        let now = sut.now();
        // nothing can be minted yet (no active whitelist, before the start): mostly move the clock instead
        let wl_active = sut.read_view(21, None, "-", None).act;
        if (18..64).contains(&r) && now < start && !wl_active && rng.chance(4, 5) {
            r = 0;
        }
        // a whitelist window is open: stay in it a little longer
        if r < 18 && wl_active && rng.chance(1, 2) {
            r = 30;
        }
        if r < 18 {
            // clock: next interesting instant -1/0/+1, else a small step
            let next = plan.instants.iter().copied().find(|x| *x + 1 > now);
            let t = match next {
                Some(x) if rng.chance(3, 4) => {
                    let cand = [x.saturating_sub(1), x, x + 1];
                    let c: Vec<u64> = cand.iter().copied().filter(|c| *c > now).collect();
                    if c.is_empty() { now + 1 } else { *rng.pick(&c) }
                }
                _ => now + rng.range(1, 4) * U,
            };
            ses.step(sut, &format!("t {t}"));
            ses.count("clock");
        } else if r < 64 {
            gen_mint(ses, sut, rng, &plan);
            // same-block repeat by the same sender
            if rng.chance(1, 4) {
                gen_mint(ses, sut, rng, &plan);
            }
        } else if r < 70 {
            let sender = if rng.chance(4, 5) { ADMIN } else { *rng.pick(&BUYERS) };
            let to = *rng.pick(&BUYERS);
            let ap = sut.airdrop_price().unwrap_or(0);
            let funds = if rng.chance(1, 10) { ap + 1 } else { ap };
            let out = if mk.is_vending() && rng.chance(1, 2) {
                let id = rng.range(0, 10);
                ses.step(sut, &format!("mintfor sender={sender} to={to} id={id} funds={funds}"))
            } else if rng.chance(1, 12) {
                ses.step(sut, &format!("mintfor sender={sender} to={to} id=1 funds={funds}"))
            } else {
                ses.step(sut, &format!("mintto sender={sender} to={to} funds={funds}"))
            };
            ses.mark(format!("airdrop:{}:{}:{}", mk.name(), sender == ADMIN, &out[..2]));
        } else if r < 78 {
            let sender = if rng.chance(5, 6) { ADMIN } else { *rng.pick(&BUYERS) };
            let n = rng.range(0, maxpal + 1);
            let funds = rng.chance(1, 15) as u8;
            let out = ses.step(sut, &format!("setlim sender={sender} n={n} funds={funds}"));
            ses.mark(format!("setlim:{}:{}:n{}:{}", mk.name(), sender == ADMIN, n.min(4), &out[..2]));
        } else if r < 85 {
            if plan.wls.is_empty() {
                continue;
            }
            let sender = if rng.chance(7, 8) { ADMIN } else { *rng.pick(&BUYERS) };
            let wl = &plan.wls[rng.below(plan.wls.len() as u64) as usize];
            let funds = rng.chance(1, 20) as u8;
            let out = ses.step(sut, &format!("setwl sender={sender} wl={} funds={funds}", wl.id));
            ses.mark(format!("setwl:{}:{:?}:{}:{}", mk.name(), wl.kind, if now >= start { "started" } else { "before" }, &out[..2]));
        } else if r < 93 {
            if plan.wls.is_empty() {
                continue;
            }
            gen_wlop(ses, sut, rng, &plan);
        } else if r < 96 {
            gen_other(ses, sut, rng, mk);
        } else if r < 97 && rng.chance(1, 2) {
            let out = ses.step(sut, &format!("govern max={}", rng.range(0, 6)));
            ses.mark(format!("govern:{}:{}", mk.name(), &out[..2]));
        } else if r < 97 {
            let sender = if rng.chance(2, 3) { ADMIN } else { *rng.pick(&BUYERS) };
            let out = ses.step(sut, &format!("migrate sender={sender}"));
            ses.mark(format!("migrate:{}:{}:{}", mk.name(), sender == ADMIN, &out[..2]));
        } else {
            let sender = *rng.pick(&BUYERS);
            let funds = rng.chance(1, 10) as u8;
            let out = ses.step(sut, &format!("purge sender={sender} funds={funds}"));
            ses.mark(format!("purge:{}:{}", mk.name(), &out[..2]));
        }
    }
    // drive to the end: public phase, sell-out attempts, purge
    if rng.chance(1, 2) {
        let now = sut.now();
        let t = now.max(start) + 1;
        if end.map(|e| t < e).unwrap_or(true) {
            ses.step(sut, &format!("t {t}"));
            for _ in 0..rng.range(2, 10) {
                gen_mint(ses, sut, rng, &plan);
            }
        }
        if let Some(e) = end {
            if rng.chance(1, 2) {
                ses.step(sut, &format!("t {}", e + rng.below(2)));
            }
        }
        let out = ses.step(sut, &format!("purge sender={} funds=0", BUYERS[0]));
        ses.mark(format!("purge-end:{}:{}", mk.name(), &out[..2]));
        gen_mint(ses, sut, rng, &plan);
    }
    ses.end_case();
}

fn gen_wlop(ses: &mut Session, sut: &mut S, rng: &mut Rng, plan: &Plan) {
    let wl = &plan.wls[rng.below(plan.wls.len() as u64) as usize];
    let (id, kind) = (wl.id, wl.kind);
    let j = rng.below(wl.stages.len() as u64);
    let m = *rng.pick(&BUYERS);
    let line = match rng.below(7) {
        0 | 1 => format!("wlop wl={id} op=pal stage={j} n={}", rng.range(1, 3)),
        2 => format!("wlop wl={id} op=mcl stage={j} n={}", if rng.chance(1, 4) { "-".to_string() } else { rng.range(1, 4).to_string() }),
        3 => format!("wlop wl={id} op=add stage={j} m={m}.{}", rng.range(1, 3)),
        4 => format!("wlop wl={id} op=rm stage={j} m={m}.0"),
        5 => format!("wlop wl={id} op=end stage={j} t={}", wl.stages[j as usize].end + rng.range(1, 4) * U),
        _ => {
            if rng.chance(1, 2) {
                format!("wlop wl={id} op=rmstage stage={}", wl.stages.len() - 1)
            } else {
                let last = wl.stages.last().unwrap().end;
                format!("wlop wl={id} op=addstage s={} e={} pal={} mcl={} m={m}.{}", last + 20 * U, last + 26 * U, rng.range(1, 3), rng.range(1, 3), rng.range(1, 2))
            }
        }
    };
    let out = ses.step(sut, &line);
    ses.mark(format!("wlop:{:?}:{}:{}", kind, kv(&line, "op").unwrap_or("?"), &out[..2]));
}

fn gen_mint(ses: &mut Session, sut: &mut S, rng: &mut Rng, plan: &Plan) {
    gen_mint_x(ses, sut, rng, plan, None, None)
}

/// an honest, correctly funded mint attempt by `a` (its own leaf if it has one, no field mutation)
fn gen_mint_as(ses: &mut Session, sut: &mut S, rng: &mut Rng, plan: &Plan, a: u64) {
    gen_mint_x(ses, sut, rng, plan, Some(a), None)
}

/// `who = Some(a)`: correctly funded attempt by `a`; `force = Some(attack)`: exactly that field manipulation, else (honest) none.
/// `who = None`: random sender, funds and up to two field mutations.
fn gen_mint_x(ses: &mut Session, sut: &mut S, rng: &mut Rng, plan: &Plan, who: Option<u64>, force: Option<&'static str>) {
    let mk = plan.mk;
    let sender = match who { Some(a) => a, None => if rng.chance(1, 12) { ADMIN } else { *rng.pick(&BUYERS) } };
    let price = sut.current_price().unwrap_or(PUBLIC_PRICE);
    let funds = match if who.is_some() { 19 } else { rng.below(20) } {
        0 => price + 1,
        1 => price.saturating_sub(1),
        2 => 0,
        _ => price,
    };
    // which whitelist is attached, and which stage is active (read from the harness' own bookkeeping for generation only)
    let v = sut.read_view(sender, None, "-", None);
    let att = v.attached.and_then(|k| plan.wls.iter().find(|w| w.id == k));
    let (mut stage, mut proof, mut alloc): (Option<u64>, String, Option<u64>) = (None, "-".into(), None);
    let mut cls: String = "nofields".into();
    if mk.is_merkle() {
        if let Some(wp) = att {
            if is_merkle_wl(wp.kind) {
                let j = if wp.kind == WlKind::TieredMerkle { v.sid.saturating_sub(1) as usize } else { 0 };
                let j = j.min(wp.stages.len() - 1);
                let st = &wp.stages[j];
                let lstage = if wp.ls { Some(j as u64 + 1) } else { None };
                let mine = if force == Some("foreign-leaf") { None } else { st.members.iter().position(|m| m.0 == sender) };
                let n_real = st.members.len() as u64 + if j == 0 { wp.pad } else { 0 };
                let want_decoy = force == Some("decoy-leaf") || (who.is_none() && wp.dk && rng.chance(1, 10));
                if want_decoy && wp.dk {
                    // a leaf of the tree that is nobody's: `stage‖7` (or the bare stage number)
                    let second = wp.ls && rng.chance(1, 3);
                    stage = lstage;
                    alloc = if second { None } else { Some(DECOY_ALLOC) };
                    proof = format!("p{}.{j}.{}", wp.id, n_real + second as u64);
                    cls = "decoy-leaf".into();
                } else {
                    match mine {
                        Some(i) => {
                            stage = lstage;
                            alloc = if st.members[i].1 > 0 { Some(st.members[i].1 as u64) } else { None };
                            proof = format!("p{}.{j}.{i}", wp.id);
                            cls = "valid-leaf".into();
                        }
                        None => {
                            // not in the tree (or told to): borrow somebody else's proof and allocation
                            let others: Vec<usize> = (0..st.members.len()).filter(|i| st.members[*i].0 != sender).collect();
                            if let Some(i) = if others.is_empty() { None } else { Some(*rng.pick(&others)) } {
                                stage = lstage;
                                alloc = if st.members[i].1 > 0 { Some(st.members[i].1 as u64) } else { None };
                                proof = format!("p{}.{j}.{i}", wp.id);
                                cls = "foreign-leaf".into();
                            }
                        }
                    }
                }
            }
        }
        // adversarial mutations of the message fields: one forced, or up to two random ones
        let picks: Vec<u64> = match (who, force) {
            (_, Some("raise-alloc")) => vec![0],
            (_, Some("drop-alloc")) => vec![2],
            (_, Some("other-stage")) => vec![3],
            (_, Some("no-proof")) => vec![4],
            (_, Some("junk-proof")) => vec![5],
            (_, Some("alloc-no-proof")) => vec![6],
            (Some(_), _) => vec![],
            (None, _) => {
                let mut p = vec![rng.below(16)];
                if rng.chance(1, 3) {
                    p.push(rng.below(7));
                }
                p
            }
        };
        for (k, m) in picks.iter().enumerate() {
            let name = match m {
                0 | 1 => {
                    alloc = Some(alloc.unwrap_or(0) + rng.range(1, 5));
                    "raise-alloc"
                }
                2 => {
                    alloc = None;
                    "drop-alloc"
                }
                3 => {
                    stage = Some(rng.range(0, 4));
                    "other-stage"
                }
                4 => {
                    proof = "-".into();
                    "no-proof"
                }
                5 => {
                    proof = (*rng.pick(&["e", "x", "y", "b"])).to_string();
                    "junk-proof"
                }
                6 => {
                    alloc = Some(rng.range(1, 9));
                    proof = "-".into();
                    "alloc-no-proof"
                }
                _ => continue,
            };
            cls = if k == 0 { name.to_string() } else { format!("{cls}+{name}") };
        }
    } else if force.is_some() || (who.is_none() && rng.chance(1, 30)) {
        alloc = Some(5);
        cls = "unknown-field".into();
    }
    // ---- what the harness knows before the op (for the coverage-floor classes; never used by a monitor or a verdict)
    let wl_phase = v.attached.is_some() && v.act;
    let honest = who.is_some() && force.is_none();
    let can = !sut.sold_out() && !sut.ended() && !sut.mon.purged;
    let started = sut.now() >= sut.start_time();
    let pub_before = *sut.mon.pub_mints.get(&sender).unwrap_or(&0);
    let lim_before = sut.limit_in_force();
    let ent = if wl_phase { sut.entitlement_in_force(&v, sender, false) } else { None };
    let (n_before, stage_before) = match ent {
        Some((w, s, _)) => (*sut.mon.wl_mints.get(&(w, s, sender)).unwrap_or(&0), *sut.mon.stage_mints.get(&(w, s)).unwrap_or(&0)),
        None => (0, 0),
    };
    let line = format!("mint sender={sender} funds={funds} stage={} proof={proof} alloc={}", fmt_opt(&stage), fmt_opt(&alloc));
    let out = ses.step(sut, &line);
    let ok = out.starts_with("ok");
    let phase = if wl_phase { "wl" } else if started { "public" } else { "early" };
    let wlk = att.map(|w| format!("{:?}", w.kind)).unwrap_or("none".into());
    ses.mark(format!("mint:{}:{wlk}:{phase}:{cls}:{}", mk.name(), &out[..2]));
    let name = mk.name();
    if honest && can && funds == price {
        if !wl_phase && started && sender != ADMIN {
            if ok && pub_before + 1 == lim_before {
                ses.mark(format!("req:pub:accept-last:{name}"));
            }
            if !ok && pub_before == lim_before {
                ses.mark(format!("req:pub:reject-over:{name}"));
            }
        }
        if let Some((_, sid, e)) = ent {
            let room = v.slim.map(|l| stage_before < l).unwrap_or(true) || sid == 0;
            if ok && n_before + 1 == e {
                ses.mark(format!("req:wl:accept-last:{name}:{wlk}"));
            }
            if !ok && e >= 1 && n_before == e && room {
                ses.mark(format!("req:wl:reject-over:{name}:{wlk}"));
            }
            if !ok && e == 0 {
                ses.mark(format!("req:wl:reject-nonmember:{name}:{wlk}"));
            }
            if sid != 0 {
                if ok && v.slim == Some(stage_before + 1) {
                    ses.mark(format!("req:stage:accept-last:{name}:{wlk}"));
                }
                if !ok && n_before < e && !room {
                    ses.mark(format!("req:stage:reject-full:{name}:{wlk}"));
                }
            }
        }
    }
    if sut.mon.purged && !ok && funds == price {
        ses.mark(format!("req:after-purge-refused:{name}"));
    }
    if wl_phase && att.map(|w| is_merkle_wl(w.kind)).unwrap_or(false) && funds == price && !ok {
        for a in ["raise-alloc", "foreign-leaf", "decoy-leaf", "no-proof"] {
            if cls == a {
                ses.mark(format!("req:merkle:{a}-refused:{name}"));
            }
        }
    }
    if funds != price {
        ses.count("mint:wrong-funds");
    }
    let why = if ok {
        "ok"
    } else if funds != price {
        "funds"
    } else if phase == "wl" && !v.mem && cls != "valid-leaf" {
        "nonmember"
    } else if sut.sold_out() {
        "soldout"
    } else {
        "limit-or-shape"
    };
    ses.count(&format!("mintwhy:{phase}:{why}"));
    ses.count(&format!("mint:{phase}:{wlk}:{}", &out[..2]));
    ses.count(&format!("mintcls:{}:{phase}:{}", cls.split('+').next().unwrap_or(""), &out[..2]));
}

fn burst(ses: &mut Session, sut: &mut S, rng: &mut Rng, plan: &Plan, order: &[u64], n: u64) {
    for b in order {
        // a block may hold several transactions of the same sender
        for _ in 0..n {
            gen_mint_as(ses, sut, rng, plan, *b);
        }
    }
}

fn step_to(ses: &mut Session, sut: &mut S, t: u64) -> bool {
    if t <= sut.now() {
        return false;
    }
    ses.step(sut, &format!("t {t}"));
    true
}

/// everything the model has no operation for, sent by a stranger and by the admin, then a migrate, then one honest mint each
fn poke_surface(ses: &mut Session, sut: &mut S, rng: &mut Rng, plan: &Plan) {
    let mk = plan.mk;
    let name = mk.name();
    let (others, extra) = sut.surface(mk);
    for v in &others {
        if v == "burn_remaining" {
            continue; // used to end the sale below
        }
        for sender in [BUYERS[0], ADMIN] {
            let out = ses.step(sut, &format!("other sender={sender} v={v} with=- funds=0"));
            ses.mark(format!("other:{name}:{v}:{}:{}", sender == ADMIN, &out[..2]));
        }
        if !KNOWN_OTHER.contains(&v.as_str()) {
            ses.mark(format!("unknown-variant:{name}:{v}"));
        }
    }
    for (v, f) in &extra {
        let funds = sut.current_price().unwrap_or(PUBLIC_PRICE);
        for sender in [BUYERS[0], ADMIN] {
            let out = ses.step(sut, &format!("other sender={sender} v={v} with={f} funds={funds}"));
            ses.mark(format!("other:{name}:{v}+{f}:{}", &out[..2]));
        }
        ses.mark(format!("unknown-field:{name}:{v}.{f}"));
    }
    ses.mark(format!("req:surface-poked:{name}"));
    for sender in [BUYERS[1], ADMIN] {
        let out = ses.step(sut, &format!("migrate sender={sender}"));
        ses.mark(format!("migrate:{name}:{}:{}", sender == ADMIN, &out[..2]));
        if sender == ADMIN && out.starts_with("ok") {
            ses.mark(format!("req:migrate-ok:{name}"));
        }
    }
    burst(ses, sut, rng, plan, &BUYERS, 1);
}

/// sell out / run past the end, purge, and try to mint and to airdrop afterwards
fn end_game(ses: &mut Session, sut: &mut S, rng: &mut Rng, plan: &Plan) {
    let mk = plan.mk;
    let name = mk.name();
    let out = ses.step(sut, &format!("purge sender={} funds=0", BUYERS[2]));
    ses.mark(format!("purge-early:{name}:{}", &out[..2]));
    // if that purge went through although the sale is still on, the cleared counters would let everybody start again
    burst(ses, sut, rng, plan, &BUYERS, 1);
    if mk.is_vending() {
        ses.step(sut, &format!("other sender={ADMIN} v=burn_remaining with=- funds=0"));
    } else if let Some(e) = plan.end {
        step_to(ses, sut, e);
        burst(ses, sut, rng, plan, &BUYERS[..1], 1);
        let out = ses.step(sut, &format!("purge sender={} funds=0", BUYERS[2]));
        ses.mark(format!("purge-at-end:{name}:{}", &out[..2]));
        step_to(ses, sut, e + 1);
    }
    let out = ses.step(sut, &format!("purge sender={} funds=1", BUYERS[2]));
    ses.mark(format!("purge-funds:{name}:{}", &out[..2]));
    let out = ses.step(sut, &format!("purge sender={} funds=0", BUYERS[2]));
    ses.mark(format!("purge-end:{name}:{}", &out[..2]));
    if out.starts_with("ok") {
        ses.mark(format!("req:purge-ok:{name}"));
    }
    burst(ses, sut, rng, plan, &BUYERS, 1);
    let ap = sut.airdrop_price().unwrap_or(0);
    ses.step(sut, &format!("mintto sender={ADMIN} to={} funds={ap}", BUYERS[3]));
    // a second purge, and the counters it may and may not have cleared stay what they are
    ses.step(sut, &format!("purge sender={} funds=0", BUYERS[0]));
}

/// Edges of a NON-tiered whitelist window and of the public sale, for every (minter, plain / flex / Merkle whitelist) pairing
/// at level 2: at window start −1/0/+1 ns, window end −1/0/+1 ns and sale start −1/0/+1 ns every buyer (three members, one
/// stranger) sends more correctly funded mints than it is entitled to, several per block; between two bursts of the same
/// block the whitelist's limit / the minter's limit is raised and lowered, a member is added; Merkle pairings add the field
/// attacks; then airdrops, every other message variant, a migrate, sell-out / end, purge and attempts after the purge.
fn scenario_edges(ses: &mut Session, sut: &mut S, rng: &mut Rng, idx: u64, table: &BTreeMap<(usize, usize), u64>) {
    let cands: Vec<(MinterKind, WlKind)> = ALL_MINTERS[..C03_MINTERS]
        .iter()
        .flat_map(|mk| [WlKind::Plain, WlKind::Flex, WlKind::Merkle].into_iter().filter(move |wk| level(table, *mk, *wk) == 2).map(move |wk| (*mk, wk)))
        .collect();
    if cands.is_empty() {
        return;
    }
    let (mk, wk) = cands[(idx as usize) % cands.len()];
    let round = idx / cands.len() as u64;
    let name = mk.name();
    let t0 = GENESIS + 1_000_000_000 + rng.below(1000) * U;
    ses.begin_case(sut, &format!("case t0={t0} addrs={},{} sc=edges{idx} mk={}", ADMIN, fmt_list(&BUYERS), name));
    let ws = t0 + 10 * U;
    let we = ws + rng.range(4, 8) * U;
    let start = match round % 3 { 0 => we, 1 => we + 3 * U, _ => we - 2 * U };
    let pal = rng.range(1, 3) as u32;
    let members: Vec<(u64, u32)> = BUYERS[..3]
        .iter()
        .enumerate()
        .map(|(k, b)| (*b, if is_flex_wl(wk) { rng.range(1, 3) as u32 } else if is_merkle_wl(wk) && k > 0 { rng.range(1, 3) as u32 } else { 0 }))
        .collect();
    let max_ent = members.iter().map(|m| m.1).max().unwrap_or(0).max(pal) as u64;
    let pad = if round % 4 == 3 { *rng.pick(&[26u64, 101]) } else { 0 };
    let mut wp = WlPlan { id: 0, kind: wk, stages: vec![StageSpec { start: ws, end: we, pal, mcl: None, members }], ls: false, dk: is_merkle_wl(wk), pad };
    let mut out = ses.step(sut, &newwl_line(&wp, if pad > 0 { 400 } else { 10 }, 60_000_000));
    ses.mark(format!("edges:newwl:{:?}:pad{pad}:{}", wk, &out[..2]));
    if !out.starts_with("ok") && pad > 0 {
        wp.pad = 0;
        out = ses.step(sut, &newwl_line(&wp, 10, 60_000_000));
    }
    let no_cap = mk.is_open_edition() && round % 2 == 1;
    let end = if mk.is_open_edition() { Some(start.max(we) + 40 * U) } else { None };
    let ntok: Option<u64> = if no_cap { None } else { Some(60) };
    let lim = 2u64;
    let out2 = ses.step(sut, &format!("create mk={} wl=0 lim={lim} ntok={} maxpal=5 admin={ADMIN} start={start} end={}", mk.idx(), fmt_opt(&ntok), fmt_opt(&end)));
    ses.mark(format!("edges:create:{name}:{:?}:{}", wk, &out2[..2]));
    if !out.starts_with("ok") || !out2.starts_with("ok") {
        ses.end_case();
        return;
    }
    ses.mark(format!("req:create-ok:{name}"));
    let plan = Plan { mk, wls: vec![wp.clone()], start, end, maxpal: 5, instants: vec![] };
    let mut order = BUYERS.to_vec();
    if rng.chance(1, 2) {
        order.reverse();
    }
    // A. the window opens
    for t in [ws - 1, ws, ws + 1] {
        if step_to(ses, sut, t) {
            burst(ses, sut, rng, &plan, &order, max_ent + 2);
        }
    }
    // B. an update between two calls of the same block
    match wk {
        WlKind::Plain => {
            let o = ses.step(sut, &format!("wlop wl=0 op=pal stage=0 n={}", pal + 1));
            ses.mark(format!("edges:pal-up:{name}:{}", &o[..2]));
            burst(ses, sut, rng, &plan, &order, 2);
            let o = ses.step(sut, "wlop wl=0 op=pal stage=0 n=1");
            ses.mark(format!("edges:pal-down:{name}:{}", &o[..2]));
            burst(ses, sut, rng, &plan, &order, 1);
        }
        WlKind::Flex => {
            let o = ses.step(sut, &format!("wlop wl=0 op=add stage=0 m={}.2", BUYERS[3]));
            ses.mark(format!("edges:flex-add:{name}:{}", &o[..2]));
            burst(ses, sut, rng, &plan, &BUYERS[3..], 3);
            // change a member's mint_count after it has minted: only possible as remove + add (refused once the window is open)
            let c = wp.stages[0].members[0].1 + 1;
            let o1 = ses.step(sut, &format!("wlop wl=0 op=rm stage=0 m={}.0", BUYERS[0]));
            let o2 = ses.step(sut, &format!("wlop wl=0 op=add stage=0 m={}.{c}", BUYERS[0]));
            ses.mark(format!("edges:flex-recount:{name}:{}{}", &o1[..2], &o2[..2]));
            burst(ses, sut, rng, &plan, &BUYERS[..1], 2);
        }
        _ => {
            for b in order.clone() {
                for a in ["raise-alloc", "foreign-leaf", "decoy-leaf", "no-proof", "alloc-no-proof", "drop-alloc", "other-stage", "junk-proof"] {
                    gen_mint_x(ses, sut, rng, &plan, Some(b), Some(a));
                }
            }
        }
    }
    if !mk.is_merkle() {
        gen_mint_x(ses, sut, rng, &plan, Some(BUYERS[1]), Some("unknown-field"));
    }
    // C. the window closes (and, when start < we, the public sale opens inside it)
    let mut pts = vec![we - 1, we, we + 1, start - 1, start, start + 1];
    pts.sort();
    pts.dedup();
    for t in pts {
        if step_to(ses, sut, t) {
            burst(ses, sut, rng, &plan, &order, if t + 1 >= start.max(we) { lim + 2 } else { 2 });
        }
    }
    // D. public sale for sure: everybody up to the limit and beyond
    step_to(ses, sut, start.max(we) + 2);
    burst(ses, sut, rng, &plan, &order, lim + 2);
    // E. the limit moves between two calls of the same block
    let o = ses.step(sut, &format!("setlim sender={ADMIN} n=1 funds=0"));
    ses.mark(format!("edges:setlim-down:{name}:{}", &o[..2]));
    burst(ses, sut, rng, &plan, &order, 1);
    let o = ses.step(sut, &format!("setlim sender={ADMIN} n=3 funds=0"));
    if o.starts_with("ok") {
        ses.mark(format!("req:setlim-ok:{name}"));
    }
    burst(ses, sut, rng, &plan, &order, 2);
    // E'. governance moves the factory maximum between two UpdatePerAddressLimit calls (it is read live):
    //     lower it 5 -> 2: the old maximum (5) and the value accepted a moment ago (3) are refused, the limit in force stays 3;
    //     raise it 2 -> 3: 3 is accepted again
    let g1 = ses.step(sut, "govern max=2");
    let r5 = ses.step(sut, &format!("setlim sender={ADMIN} n=5 funds=0"));
    let r3 = ses.step(sut, &format!("setlim sender={ADMIN} n=3 funds=0"));
    let kept = sut.limit_in_force() == 3;
    burst(ses, sut, rng, &plan, &order, 1);
    let a2 = ses.step(sut, &format!("setlim sender={ADMIN} n=2 funds=0"));
    if o.starts_with("ok") && g1.starts_with("ok") && r5.starts_with("err") && r3.starts_with("err") && kept && a2.starts_with("ok") {
        ses.mark(format!("req:govern:lowered-old-max-refused:{name}"));
    }
    let g2 = ses.step(sut, "govern max=3");
    let a3 = ses.step(sut, &format!("setlim sender={ADMIN} n=3 funds=0"));
    if r3.starts_with("err") && g2.starts_with("ok") && a3.starts_with("ok") {
        ses.mark(format!("req:govern:raised-then-set:{name}"));
    }
    burst(ses, sut, rng, &plan, &order, 1);
    ses.step(sut, "govern max=5");
    for (s, n, f) in [(BUYERS[0], 3u64, 0u8), (ADMIN, 0, 0), (ADMIN, 6, 0), (ADMIN, 2, 1)] {
        let o = ses.step(sut, &format!("setlim sender={s} n={n} funds={f}"));
        ses.mark(format!("edges:setlim-bad:{name}:{}:{n}:{f}:{}", s == ADMIN, &o[..2]));
    }
    // F. airdrops: not limit-checked, land in the admin's count
    let ap = sut.airdrop_price().unwrap_or(0);
    for _ in 0..3 {
        let o = ses.step(sut, &format!("mintto sender={ADMIN} to={} funds={ap}", BUYERS[3]));
        if o.starts_with("ok") {
            ses.mark(format!("req:airdrop-ok:{name}"));
        }
    }
    let o = ses.step(sut, &format!("mintto sender={} to={} funds={ap}", BUYERS[0], BUYERS[0]));
    ses.mark(format!("edges:airdrop-stranger:{name}:{}", &o[..2]));
    if mk.is_vending() {
        for id in [rng.range(1, 60), 0, 61] {
            let o = ses.step(sut, &format!("mintfor sender={ADMIN} to={} id={id} funds={ap}", BUYERS[2]));
            ses.mark(format!("edges:mintfor:{name}:{}", &o[..2]));
        }
    }
    gen_mint_as(ses, sut, rng, &plan, ADMIN);
    // G. the rest of the message surface, migrate
    poke_surface(ses, sut, rng, &plan);
    // H. the end
    end_game(ses, sut, rng, &plan);
    ses.end_case();
}

/// SetWhitelist between two whitelists of different tieredness while the counters are non-zero: mint on A up to the entitlement
/// and beyond, swap to B after A's window (before the sale starts), mint on B across its stage edge, try to swap while B is
/// active, swap back afterwards, then the public sale.
fn scenario_swap(ses: &mut Session, sut: &mut S, rng: &mut Rng, idx: u64, table: &BTreeMap<(usize, usize), u64>) {
    let mut cands: Vec<(MinterKind, WlKind, WlKind)> = vec![];
    for mk in &ALL_MINTERS[..C03_MINTERS] {
        let flat: Vec<WlKind> = [WlKind::Plain, WlKind::Flex, WlKind::Merkle].into_iter().filter(|k| level(table, *mk, *k) == 2).collect();
        let tier: Vec<WlKind> = [WlKind::Tiered, WlKind::TieredFlex, WlKind::TieredMerkle].into_iter().filter(|k| level(table, *mk, *k) == 2).collect();
        for a in &flat {
            for b in &tier {
                cands.push((*mk, *a, *b));
                cands.push((*mk, *b, *a));
            }
        }
    }
    if cands.is_empty() {
        return;
    }
    let (mk, ka, kb) = cands[(idx as usize) % cands.len()];
    let name = mk.name();
    let t0 = GENESIS + 1_000_000_000 + rng.below(1000) * U;
    ses.begin_case(sut, &format!("case t0={t0} addrs={},{} sc=swap{idx} mk={}", ADMIN, fmt_list(&BUYERS), name));
    let mk_stages = |k: WlKind, from: u64, rng: &mut Rng| -> Vec<StageSpec> {
        let mem = |rng: &mut Rng| -> Vec<(u64, u32)> { BUYERS[..3].iter().map(|b| (*b, if is_flex_wl(k) { 2 } else if is_merkle_wl(k) { rng.range(0, 2) as u32 } else { 0 })).collect() };
        if is_tiered(k) {
            vec![
                StageSpec { start: from, end: from + 3 * U, pal: 2, mcl: Some(5), members: mem(rng) },
                StageSpec { start: from + 3 * U, end: from + 6 * U, pal: 1, mcl: None, members: mem(rng) },
            ]
        } else {
            vec![StageSpec { start: from, end: from + 6 * U, pal: 2, mcl: None, members: mem(rng) }]
        }
    };
    let (a_from, b_from) = (t0 + 10 * U, t0 + 22 * U);
    let start = t0 + 34 * U;
    let wa = WlPlan { id: 0, kind: ka, stages: mk_stages(ka, a_from, rng), ls: ka == WlKind::TieredMerkle && rng.chance(1, 2), dk: false, pad: 0 };
    let wb = WlPlan { id: 1, kind: kb, stages: mk_stages(kb, b_from, rng), ls: kb == WlKind::TieredMerkle && rng.chance(1, 2), dk: false, pad: 0 };
    let o1 = ses.step(sut, &newwl_line(&wa, 10, 60_000_000));
    let o2 = ses.step(sut, &newwl_line(&wb, 10, 60_000_000));
    let end = if mk.is_open_edition() { Some(start + 30 * U) } else { None };
    let o3 = ses.step(sut, &format!("create mk={} wl=0 lim=2 ntok=50 maxpal=5 admin={ADMIN} start={start} end={}", mk.idx(), fmt_opt(&end)));
    ses.mark(format!("swap:create:{name}:{:?}->{:?}:{}", ka, kb, &o3[..2]));
    if !(o1.starts_with("ok") && o2.starts_with("ok") && o3.starts_with("ok")) {
        ses.end_case();
        return;
    }
    let plan = Plan { mk, wls: vec![wa.clone(), wb.clone()], start, end, maxpal: 5, instants: vec![] };
    // on A
    for t in [a_from, a_from + 3 * U - 1, a_from + 3 * U, a_from + 3 * U + 1] {
        if step_to(ses, sut, t) {
            burst(ses, sut, rng, &plan, &BUYERS, 3);
        }
    }
    // swap while A is active: refused
    let o = ses.step(sut, &format!("setwl sender={ADMIN} wl=1 funds=0"));
    ses.mark(format!("swap:while-active:{name}:{}", &o[..2]));
    step_to(ses, sut, a_from + 6 * U + 1);
    let o = ses.step(sut, &format!("setwl sender={} wl=1 funds=0", BUYERS[0]));
    ses.mark(format!("swap:stranger:{name}:{}", &o[..2]));
    let o = ses.step(sut, &format!("setwl sender={ADMIN} wl=1 funds=1"));
    ses.mark(format!("swap:funds:{name}:{}", &o[..2]));
    let o = ses.step(sut, &format!("setwl sender={ADMIN} wl=1 funds=0"));
    ses.mark(format!("swap:to-b:{name}:{:?}->{:?}:{}", ka, kb, &o[..2]));
    let swapped = o.starts_with("ok");
    // on B, with the counters A left behind
    for t in [b_from - 1, b_from, b_from + 3 * U - 1, b_from + 3 * U, b_from + 3 * U + 1] {
        if step_to(ses, sut, t) {
            burst(ses, sut, rng, &plan, &BUYERS, 3);
        }
    }
    let minted_on_b = sut.mon.wl_mints.keys().any(|k| k.0 == 1);
    if swapped && minted_on_b {
        ses.mark(format!("req:swap:{name}"));
    }
    step_to(ses, sut, b_from + 6 * U + 1);
    let o = ses.step(sut, &format!("setwl sender={ADMIN} wl=0 funds=0"));
    ses.mark(format!("swap:back:{name}:{}", &o[..2]));
    for t in [start - 1, start, start + 1] {
        if step_to(ses, sut, t) {
            burst(ses, sut, rng, &plan, &BUYERS, 3);
        }
    }
    let o = ses.step(sut, &format!("setwl sender={ADMIN} wl=1 funds=0"));
    ses.mark(format!("swap:after-start:{name}:{}", &o[..2]));
    ses.end_case();
}

/// Stage hand-over: a tiered whitelist whose stages touch exactly (`stage[k+1].start == stage[k].end`), with different
/// member sets and different per-address limits per stage; at every stage edge (-1 ns, the edge itself, +1 ns) every buyer
/// tries more mints than any stage grants. This is where "which stage is in force" answers of the whitelist can disagree
/// with each other, and the per-stage entitlement is what the property fixes.
fn scenario_handover(ses: &mut Session, sut: &mut S, rng: &mut Rng, idx: u64, table: &BTreeMap<(usize, usize), u64>) {
    // minters that can mint through some tiered whitelist kind
    let cands: Vec<(MinterKind, WlKind)> = ALL_MINTERS[..C03_MINTERS]
        .iter()
        .flat_map(|mk| [WlKind::Tiered, WlKind::TieredFlex, WlKind::TieredMerkle].into_iter().filter(move |wk| level(table, *mk, *wk) == 2).map(move |wk| (*mk, wk)))
        .collect();
    if cands.is_empty() {
        return;
    }
    let (mk, wk) = cands[(idx as usize) % cands.len()];
    let round = idx / cands.len() as u64;
    // even rounds: a fixed shape that is sure to reach every boundary (2 stages, limits 2 then 1, disjoint members,
    // first stage capped at 2 mints); odd rounds: random shapes
    let fixed = round % 2 == 0;
    let t0 = GENESIS + 1_000_000_000 + rng.below(1000) * U;
    ses.begin_case(sut, &format!("case t0={t0} addrs={},{} sc=handover{idx} mk={}", ADMIN, fmt_list(&BUYERS), mk.name()));
    let nst = if fixed { 2 } else { rng.range(2, 3) };
    let mut stages = vec![];
    let mut t = t0 + 10 * U;
    // limits: strictly decreasing, strictly increasing or random — the decreasing shape is the dangerous one
    let shape = if fixed { 0 } else { rng.below(3) };
    for j in 0..nst {
        let e = t + rng.range(2, 6) * U;
        let pal = match shape { 0 => (nst - j) as u32, 1 => (j + 1) as u32, _ => rng.range(1, 3) as u32 };
        // member sets: mostly disjoint across stages (buyer j+1.. only), sometimes overlapping
        let mut members: Vec<(u64, u32)> = vec![];
        for (k, b) in BUYERS.iter().enumerate() {
            let inside = if !fixed && rng.chance(1, 5) { rng.chance(1, 2) } else { (k as u64) % nst == j };
            if inside {
                let cnt = if is_flex_wl(wk) { pal } else if is_merkle_wl(wk) && rng.chance(1, 2) { pal } else { 0 };
                members.push((*b, cnt));
            }
        }
        if members.is_empty() {
            members.push((BUYERS[j as usize % 4], if is_flex_wl(wk) { pal } else { 0 }));
        }
        let mcl = if fixed { if j == 0 { Some(2) } else { None } } else if rng.chance(1, 4) { Some(rng.range(2, 5) as u32) } else { None };
        stages.push(StageSpec { start: t, end: e, pal, mcl, members });
        t = e; // exactly contiguous
    }
    let start = t + rng.range(0, 3) * U; // the public sale starts at or after the last stage end
    let ls = wk == WlKind::TieredMerkle && rng.chance(1, 2);
    let wp = WlPlan { id: 0, kind: wk, stages: stages.clone(), ls, dk: wk == WlKind::TieredMerkle && rng.chance(1, 2), pad: 0 };
    let out = ses.step(sut, &newwl_line(&wp, 10, 60_000_000));
    ses.mark(format!("handover:newwl:{:?}:{}", wk, &out[..2]));
    let end = if mk.is_open_edition() { Some(start + 40 * U) } else { None };
    let ntok: Option<u64> = Some(rng.range(20, 24));
    let out = ses.step(sut, &format!("create mk={} wl=0 lim=3 ntok={} maxpal=5 admin={ADMIN} start={start} end={}", mk.idx(), fmt_opt(&ntok), fmt_opt(&end)));
    ses.mark(format!("handover:create:{}:{:?}:{}", mk.name(), wk, &out[..2]));
    if !out.starts_with("ok") {
        ses.end_case();
        return;
    }
    let plan = Plan { mk, wls: vec![wp], start, end, maxpal: 5, instants: vec![start] };
    let mut edges: Vec<u64> = stages.iter().flat_map(|s| [s.start, s.end]).collect();
    edges.sort();
    edges.dedup();
    for e in edges {
        for t in [e - 1, e, e + 1] {
            if t <= sut.now() {
                continue;
            }
            ses.step(sut, &format!("t {t}"));
            let mut order = BUYERS.to_vec();
            if rng.chance(1, 2) { order.reverse(); }
            for b in order {
                // a block may hold several transactions of the same sender: try to out-mint every stage's limit
                for _ in 0..rng.range(2, 4) {
                    gen_mint_as(ses, sut, rng, &plan, b);
                }
            }
            ses.mark(format!("handover:edge:{}:{:?}:{}", mk.name(), wk, if t < e { "before" } else if t == e { "at" } else { "after" }));
        }
        // a whitelist-side limit update in the middle of the hand-over (same block as the mints before and after it)
        if !fixed && rng.chance(1, 3) && wk != WlKind::TieredMerkle {
            let j = rng.below(nst);
            ses.step(sut, &format!("wlop wl=0 op=pal stage={j} n={}", rng.range(1, 3)));
            burst(ses, sut, rng, &plan, &BUYERS, 2);
        }
    }
    ses.end_case();
}

/// Stage removal and re-adding (seeded C03-6): a tiered list whitelist with three stages; the admin removes stage 1 (which takes
/// stage 2 with it) before anything started and adds both again with a RE-PLANNED last stage — one buyer's flex mint_count
/// lowered from 3 to 1 (plain tiered: per_address_limit 1), another buyer not listed any more. What the buyers may mint in the
/// re-added stage is what the harness put on it (the precise per-stage ghost), not what an earlier stage of the same index held.
fn scenario_readd(ses: &mut Session, sut: &mut S, rng: &mut Rng, idx: u64, table: &BTreeMap<(usize, usize), u64>) {
    let cands: Vec<(MinterKind, WlKind)> = ALL_MINTERS[..C03_MINTERS]
        .iter()
        .flat_map(|mk| [WlKind::Tiered, WlKind::TieredFlex].into_iter().filter(move |wk| level(table, *mk, *wk) == 2).map(move |wk| (*mk, wk)))
        .collect();
    if cands.is_empty() {
        return;
    }
    let (mk, wk) = cands[(idx as usize) % cands.len()];
    let flex = is_flex_wl(wk);
    let t0 = GENESIS + 1_000_000_000 + rng.below(1000) * U;
    ses.begin_case(sut, &format!("case t0={t0} addrs={},{} sc=readd{idx} mk={}", ADMIN, fmt_list(&BUYERS), mk.name()));
    let c = |n: u32| if flex { n } else { 0 };
    let (s0, s1, s2, e2) = (t0 + 10 * U, t0 + 14 * U, t0 + 18 * U, t0 + 24 * U);
    let old = vec![
        StageSpec { start: s0, end: s1, pal: 2, mcl: None, members: vec![(BUYERS[0], c(2))] },
        StageSpec { start: s1, end: s2, pal: 2, mcl: None, members: vec![(BUYERS[1], c(2))] },
        StageSpec { start: s2, end: e2, pal: 3, mcl: None, members: vec![(BUYERS[2], c(3)), (BUYERS[3], c(2))] },
    ];
    let wp = WlPlan { id: 0, kind: wk, stages: old.clone(), ls: false, dk: false, pad: 0 };
    let o = ses.step(sut, &newwl_line(&wp, 10, 60_000_000));
    let mut trail = vec![o[..2].to_string()];
    // the removed index is 1 on even rounds (stage 2 goes with it), 2 on odd rounds (only the last stage is re-planned)
    let from = if (idx / cands.len() as u64) % 2 == 0 { 1 } else { 2 };
    let o = ses.step(sut, &format!("wlop wl=0 op=rmstage stage={from}"));
    trail.push(o[..2].to_string());
    if from == 1 {
        let o = ses.step(sut, &format!("wlop wl=0 op=addstage s={s1} e={s2} pal=2 mcl=- m={}.{}", BUYERS[1], c(2)));
        trail.push(o[..2].to_string());
    }
    let o = ses.step(sut, &format!("wlop wl=0 op=addstage s={s2} e={e2} pal=1 mcl=- m={}.{}", BUYERS[2], c(1)));
    trail.push(o[..2].to_string());
    let start = e2 + rng.range(0, 3) * U;
    let end = if mk.is_open_edition() { Some(start + 40 * U) } else { None };
    let o = ses.step(sut, &format!("create mk={} wl=0 lim=3 ntok=20 maxpal=5 admin={ADMIN} start={start} end={}", mk.idx(), fmt_opt(&end)));
    trail.push(o[..2].to_string());
    if !o.starts_with("ok") {
        ses.mark(format!("readd:{}:{:?}:create-refused:{}", mk.name(), wk, trail.join(",")));
        ses.end_case();
        return;
    }
    let mut now_stages = old.clone();
    now_stages[2] = StageSpec { start: s2, end: e2, pal: 1, mcl: None, members: vec![(BUYERS[2], c(1))] };
    let plan = Plan { mk, wls: vec![WlPlan { stages: now_stages, ..wp }], start, end, maxpal: 5, instants: vec![start] };
    // end instants are inclusive: at s2 itself the earlier stage still answers
    ses.step(sut, &format!("t {}", s2 + 1 + rng.below(3)));
    let mut got: Vec<String> = vec![];
    for (b, n) in [(BUYERS[2], 3), (BUYERS[3], 2), (BUYERS[1], 1)] {
        let before = sut.mon.wl_mints.values().sum::<u64>();
        for _ in 0..n {
            gen_mint_as(ses, sut, rng, &plan, b);
        }
        got.push((sut.mon.wl_mints.values().sum::<u64>() - before).to_string());
    }
    // re-planned buyer: exactly the new entitlement; dropped buyer and the other stage's member: nothing
    ses.mark(format!("readd:{}:{:?}:from{from}:{}:{}", mk.name(), wk, trail.join(","), got.join(",")));
    ses.end_case();
}

/// Third-stage cap (seeded C03-8): a three-stage tiered whitelist whose LAST stage has a mint-count limit of 2, no mint at all in
/// stages 1 and 2, then four different members mint once each in stage 3 — exactly two may succeed. (A minter that keeps the
/// stage-3 running total in the wrong item never reaches the cap when the earlier stages saw few mints.)
fn scenario_stage3cap(ses: &mut Session, sut: &mut S, rng: &mut Rng, idx: u64, table: &BTreeMap<(usize, usize), u64>) {
    let cands: Vec<(MinterKind, WlKind)> = ALL_MINTERS[..C03_MINTERS]
        .iter()
        .flat_map(|mk| [WlKind::Tiered, WlKind::TieredFlex, WlKind::TieredMerkle].into_iter().filter(move |wk| level(table, *mk, *wk) == 2).map(move |wk| (*mk, wk)))
        .collect();
    if cands.is_empty() {
        return;
    }
    let (mk, wk) = cands[(idx as usize) % cands.len()];
    let t0 = GENESIS + 1_000_000_000 + rng.below(1000) * U;
    ses.begin_case(sut, &format!("case t0={t0} addrs={},{} sc=stage3cap{idx} mk={}", ADMIN, fmt_list(&BUYERS), mk.name()));
    let cnt = if is_flex_wl(wk) || is_merkle_wl(wk) { 2 } else { 0 };
    let all: Vec<(u64, u32)> = BUYERS.iter().map(|b| (*b, cnt)).collect();
    let (s0, s1, s2, e2) = (t0 + 10 * U, t0 + 14 * U, t0 + 18 * U, t0 + 24 * U);
    let stages = vec![
        StageSpec { start: s0, end: s1, pal: 2, mcl: None, members: all.clone() },
        StageSpec { start: s1, end: s2, pal: 2, mcl: Some(3), members: all.clone() },
        StageSpec { start: s2, end: e2, pal: 2, mcl: Some(2), members: all.clone() },
    ];
    let ls = wk == WlKind::TieredMerkle && idx % 2 == 1;
    let wp = WlPlan { id: 0, kind: wk, stages: stages.clone(), ls, dk: false, pad: 0 };
    ses.step(sut, &newwl_line(&wp, 20, 60_000_000));
    let start = e2 + rng.range(0, 3) * U;
    let end = if mk.is_open_edition() { Some(start + 40 * U) } else { None };
    let o = ses.step(sut, &format!("create mk={} wl=0 lim=3 ntok=20 maxpal=5 admin={ADMIN} start={start} end={}", mk.idx(), fmt_opt(&end)));
    if !o.starts_with("ok") {
        ses.mark(format!("stage3cap:{}:{:?}:create-refused", mk.name(), wk));
        ses.end_case();
        return;
    }
    let plan = Plan { mk, wls: vec![wp], start, end, maxpal: 5, instants: vec![start] };
    ses.step(sut, &format!("t {}", s2 + 1 + rng.below(3)));
    let before = sut.mon.wl_mints.values().sum::<u64>();
    let mut order = BUYERS.to_vec();
    if rng.chance(1, 2) { order.reverse(); }
    for b in order {
        gen_mint_as(ses, sut, rng, &plan, b);
    }
    let got = sut.mon.wl_mints.values().sum::<u64>() - before;
    ses.mark(format!("stage3cap:{}:{:?}:{got}", mk.name(), wk));
    ses.end_case();
}

/// F-C03 regression corpus: a Merkle minter wired to a plain whitelist, member limit 1, self-declared allocation 5
fn corpus_self_raise(ses: &mut Session, sut: &mut S, mk: MinterKind, wk: WlKind) {
    let t0 = GENESIS + 1_000_000_000;
    let stages = if is_tiered(wk) {
        fmt_stages(&[StageSpec { start: t0 + 10 * U, end: t0 + 20 * U, pal: 1, mcl: Some(6), members: vec![(21, 1), (22, 1)] }])
    } else {
        fmt_stages(&[StageSpec { start: t0 + 10 * U, end: t0 + 20 * U, pal: 1, mcl: None, members: vec![(21, 1), (22, 1)] }])
    };
    ses.begin_case(sut, &format!("case t0={t0} addrs={},{} corpus=self-raise mk={}", ADMIN, fmt_list(&BUYERS), mk.name()));
    ses.step(sut, &format!("newwl id=0 kind={} admin=11 ml=10 price=60000000 ls=0 dk=0 pad=0 stages={stages}", wl_idx(wk)));
    ses.step(sut, &format!("create mk={} wl=0 lim=2 ntok=9 maxpal=5 admin={ADMIN} start={} end={}", mk.idx(), t0 + 40 * U, if mk.is_open_edition() { (t0 + 90 * U).to_string() } else { "-".into() }));
    ses.step(sut, &format!("t {}", t0 + 10 * U));
    for _ in 0..3 {
        ses.step(sut, "mint sender=21 funds=60000000 stage=- proof=- alloc=5");
        ses.step(sut, "mint sender=21 funds=60000000 stage=- proof=e alloc=5");
        ses.step(sut, "mint sender=21 funds=60000000 stage=1 proof=x alloc=5");
    }
    ses.step(sut, "mint sender=22 funds=60000000 stage=- proof=- alloc=-");
    ses.step(sut, "mint sender=22 funds=60000000 stage=- proof=- alloc=-");
    ses.step(sut, "mint sender=23 funds=60000000 stage=- proof=- alloc=7");
    ses.mark(format!("corpus:self-raise:{}:{:?}", mk.name(), wk));
    ses.end_case();
}

fn main() {
    let mut ses = Session::new("C03");
    let mut sut = S::new();
    if ses.maybe_replay(&mut sut) {
        ses.finish(&mut sut);
    }
    let mut rng = ses.rng.fork();

    // 0. the message surface of the nine minters, enumerated at run time from the crates' own JSON schemas
    let mut unknown = vec![];
    for mk in &ALL_MINTERS[..C03_MINTERS] {
        let (others, extra) = sut.surface(*mk);
        let root = sut.schema_of(*mk);
        let all: Vec<String> = schema_variants(&root).into_iter().map(|v| v.0).collect();
        for h in HANDLED {
            if !all.iter().any(|v| v == h) && !(h == "mint_for" && mk.is_open_edition()) {
                unknown.push(format!("{}: handled variant `{h}` is gone", mk.name()));
            }
        }
        for v in others {
            if !KNOWN_OTHER.contains(&v.as_str()) {
                unknown.push(format!("{}: unknown variant `{v}`", mk.name()));
            }
        }
        for (v, f) in extra {
            unknown.push(format!("{}: unknown field `{f}` of `{v}`", mk.name()));
        }
        ses.mark(format!("surface:{}:{}", mk.name(), all.len()));
    }
    ses.note(format!(
        "ExecuteMsg surface enumerated from schema_for!(ExecuteMsg) of the 9 minter crates; variants the model has no op for are sent as `other` ops (model: env, nothing C03 owns may move). Unknown to this check: {}",
        if unknown.is_empty() { "none".to_string() } else { unknown.join("; ") }
    ));

    // 1. discover the pairing table on the real contracts; the model's `compatible` must answer the same
    ses.begin_case(&mut sut, "case compat-table");
    for mk in 0..9 {
        for wk in 0..7 {
            let out = ses.step(&mut sut, &format!("compat mk={mk} wk={wk}"));
            ses.mark(format!("compat:{mk}:{wk}:{out}"));
        }
    }
    ses.end_case();
    let table = sut.table.clone();
    let mut rows = vec![];
    for mk in 0..9usize {
        rows.push(format!("{}={}", ALL_MINTERS[mk].name(), (0..7usize).map(|wk| table[&(mk, wk)].to_string()).collect::<Vec<_>>().join("")));
    }
    ses.note(format!("discovered pairing levels (columns plain,flex,tiered,tiered-flex,merkle,tiered-merkle,immutable; 0 rejected, 1 attachable/no whitelist mint, 2 whitelist mints work): {}", rows.join(" ")));

    // 2. corpus: the F-C03 shape on every Merkle minter x non-Merkle whitelist it accepts
    for mk in [MinterKind::VendingMerkle, MinterKind::VendingMerkleFeatured, MinterKind::OpenEditionMerkle] {
        for wk in [WlKind::Plain, WlKind::Tiered] {
            corpus_self_raise(&mut ses, &mut sut, mk, wk);
        }
    }

    // 3. directed scenarios (every level-2 pairing, fixed shapes first) and random scenarios
    let n_edges = ses.scale(33, 550);
    for i in 0..n_edges {
        scenario_edges(&mut ses, &mut sut, &mut rng, i, &table);
    }
    let n_swap = ses.scale(36, 450);
    for i in 0..n_swap {
        scenario_swap(&mut ses, &mut sut, &mut rng, i, &table);
    }
    // every (minter, tiered list whitelist) pairing that can mint, removed from index 1 and from index 2
    let n_pairs = ALL_MINTERS[..C03_MINTERS].iter().map(|mk| [WlKind::Tiered, WlKind::TieredFlex].iter().filter(|wk| level(&table, *mk, **wk) == 2).count() as u64).sum::<u64>();
    for i in 0..2 * n_pairs * ses.scale(1, 6) {
        scenario_readd(&mut ses, &mut sut, &mut rng, i, &table);
    }
    // every (minter, tiered whitelist) pairing that can mint: the cap of the THIRD stage after quiet first and second stages
    let n_tpairs = ALL_MINTERS[..C03_MINTERS].iter().map(|mk| [WlKind::Tiered, WlKind::TieredFlex, WlKind::TieredMerkle].iter().filter(|wk| level(&table, *mk, **wk) == 2).count() as u64).sum::<u64>();
    for i in 0..n_tpairs * ses.scale(1, 4) {
        scenario_stage3cap(&mut ses, &mut sut, &mut rng, i, &table);
    }
    let n = ses.scale(300, 8000);
    for i in 0..n {
        scenario(&mut ses, &mut sut, &mut rng, i, &table);
        if i % 5 == 0 {
            scenario_handover(&mut ses, &mut sut, &mut rng, i / 5, &table);
        }
    }

    // 4. coverage floor: without these the run would be vacuous (for every seed, in every tier)
    for mk in &ALL_MINTERS[..C03_MINTERS] {
        let name = mk.name();
        for c in ["create-ok", "pub:accept-last", "pub:reject-over", "setlim-ok", "airdrop-ok", "purge-ok", "after-purge-refused", "surface-poked", "migrate-ok", "swap", "govern:lowered-old-max-refused", "govern:raised-then-set"] {
            ses.require(format!("req:{c}:{name}"));
        }
        for wk in ALL_WL {
            if level(&table, *mk, wk) == 2 {
                for c in ["wl:accept-last", "wl:reject-over", "wl:reject-nonmember"] {
                    ses.require(format!("req:{c}:{name}:{:?}", wk));
                }
                if is_tiered(wk) {
                    ses.require(format!("req:stage:reject-full:{name}:{:?}", wk));
                    ses.require(format!("req:stage:accept-last:{name}:{:?}", wk));
                    ses.require(format!("handover:edge:{name}:{:?}:at", wk));
                    // the third stage's mint-count limit of 2 admits exactly two of four members after quiet earlier stages
                    ses.require(format!("stage3cap:{name}:{:?}:2", wk));
                    if !is_merkle_wl(wk) {
                        // stage removed and re-added with a re-planned list: the re-planned buyer gets exactly the new
                        // entitlement, the dropped buyer and the other stage's member nothing
                        ses.require(format!("readd:{name}:{:?}:from1:ok,ok,ok,ok,ok:1,0,0", wk));
                        ses.require(format!("readd:{name}:{:?}:from2:ok,ok,ok,ok:1,0,0", wk));
                    }
                }
            }
        }
        if mk.is_merkle() {
            for a in ["raise-alloc", "foreign-leaf", "decoy-leaf", "no-proof"] {
                ses.require(format!("req:merkle:{a}-refused:{name}"));
            }
        }
    }
    ses.require("compat:");

    if std::env::var("C03_DUMP").is_ok() {
        let mut out = String::new();
        for c in &ses.cases {
            for i in 0..c.model_in.len() {
                out.push_str(&format!("{}\n    => {}\n", c.model_in[i], c.exp[i]));
            }
        }
        std::fs::write(ses.args.out.join("trace.txt"), out).ok();
    }
    ses.note("buyers 21..24 + admin 10; limits 1..3 (max_per_address_limit 3..5); whitelist windows before / straddling the minter start; clock steps to every stage edge, start and end at -1/0/+1 ns; Merkle trees built with rs_merkle (sorted-pair sha256 / blake3-16), leaves stage‖sender‖allocation (+ decoy leaves `stage‖7`, `stage` that are nobody's); member lists padded to 26 / 101 entries in some cases");
    ses.note(format!("tiered-whitelist mints at which the active-stage view and the booked stage's own record named different entitlements: {} (expected 0 on a coherent whitelist; the over-entitlement monitor always uses the booked stage's own record)", sut.mon_incoherent));
    ses.note(format!("whitelist mints at which the whitelist's answers granted more than the harness ever sent to that whitelist: {} (expected 0; the monitor uses the smaller value)", sut.mon_ghost_tighter));
    ses.finish(&mut sut);
}
