#!/bin/bash
# usage: tools/alt_seeded_r3.sh <slot> <seeded-dir>...  — re-measures seeded changes against the COMMITTED checks (owning property),
# writing <dir>/check_quick_r3.txt (kept next to the first-measurement check_quick.txt)
cd "$(dirname "$0")/.."
slot="$1"; shift
for d in "$@"; do
  name=$(basename $d); prop=${name%%-*}
  t0=$(date +%s)
  out=$(ALT_FROM_HEAD=1 tools/alt_check.sh $slot $d quick $prop 2>&1)
  echo "$out" | grep -v auto_activate > $d/check_quick_r3.txt
  echo "$(echo "$out" | grep '^RESULT' | tail -1) [$(( $(date +%s) - t0 ))s]"
done
