#!/usr/bin/env python3
"""Move confirmed + measured seeded changes from seeded/_inbox/<name> to seeded/<name>, writing meta.json."""
import json, os, re, shutil, sys
root = os.path.dirname(os.path.dirname(os.path.abspath(__file__)))
inbox = os.path.join(root, "seeded", "_inbox")
for name in sorted(os.listdir(inbox)):
    d = os.path.join(inbox, name)
    if os.path.islink(d): continue
    conf = os.path.join(d, "confirm.txt"); chk = os.path.join(d, "check_quick.txt")
    if not (os.path.exists(conf) and os.path.exists(chk)): continue
    ctext = open(conf).read().strip().splitlines()
    if not any("CONFIRM" in l and ": OK" in l for l in ctext): continue
    res = [l for l in open(chk).read().splitlines() if l.startswith("RESULT") or l.startswith("VIOLATION")]
    notes = open(os.path.join(d, "notes.md")).read() if os.path.exists(os.path.join(d, "notes.md")) else ""
    m = re.search(r"(?is)(what (is )?need(s|ed)[^\n]*\n)(.*?)(\n#|\Z)", notes)
    needs = (m.group(4).strip()[:900] if m else "see notes.md")
    files = [l[6:] for l in open(os.path.join(d, "patch.diff")) if l.startswith("+++ b/")]
    meta = {"property": name.split("-")[0], "source": "fresh sub-agent given only the property text (plus a hint steering it away from the wave-1 site) and its own scratch worktree",
            "files_changed": [f.strip() for f in files], "needs_to_manifest": needs,
            "confirmed": ctext, "ran": ["tools/confirm_seed.sh (scratch worktree: patch+demo => only the demo fails; demo alone => all green)",
                                        "ALT_FROM_HEAD=1 tools/alt_check.sh <slot> <dir> quick <property> (scratch worktree of /repo + committed /verif)"],
            "check_result": res}
    json.dump(meta, open(os.path.join(d, "meta.json"), "w"), indent=1)
    dst = os.path.join(root, "seeded", name)
    if os.path.exists(dst): shutil.rmtree(dst)
    shutil.move(d, dst)
    print(name, res[-1] if res else "?")
