#!/bin/bash
# usage: tools/seeded_check.sh seeded/<name> [quick|thorough]
# Applies seeded/<name>/patch.diff to /repo, runs the owning property's check (meta.json: property), reverts /repo,
# and prints DETECTED / MISSED. Exclusive use of /repo: never run two of these (or a builder) at the same time.
set -u
cd "$(dirname "$0")/.."
d="$1"; tier="${2:-quick}"
prop=$(python3 -c "import json,sys;print(json.load(open('$d/meta.json'))['property'])")
if ! git -C /repo diff --quiet; then echo "refusing: /repo has uncommitted changes"; exit 3; fi
git -C /repo apply "$(pwd)/$d/patch.diff" || { echo "patch does not apply"; exit 3; }
out=$(./check "$prop" "$tier" 2>&1); rc=$?
git -C /repo checkout -- . ; git -C /repo clean -fdq -- contracts packages test-suite 2>/dev/null
echo "$out" | tail -n 6
if [ $rc -eq 1 ] && echo "$out" | grep -q "^VIOLATION property=$prop"; then
  if echo "$out" | grep "^VIOLATION" | grep -vq "no-failing-input-found"; then echo "RESULT $d: DETECTED with failing input"; else echo "RESULT $d: DETECTED (no-failing-input-found)"; fi
  exit 0
else
  echo "RESULT $d: MISSED (rc=$rc)"; exit 1
fi
