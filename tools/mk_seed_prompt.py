#!/usr/bin/env python3
"""usage: tools/mk_seed_prompt.py Cxx <n> [hint text]  -> prints the seeder prompt for seeded change Cxx-<n>
The prompt contains ONLY the property's title+statement (nothing from /verif) plus an optional diversification hint."""
import json, sys, os
root = os.path.dirname(os.path.dirname(os.path.abspath(__file__)))
pid, n = sys.argv[1], sys.argv[2]
hint = " ".join(sys.argv[3:])
p = next(json.loads(l) for l in open(os.path.join(root, "properties.jsonl")) if json.loads(l)["id"] == pid)
t = open(os.path.join(root, "docs", "SEEDER_PROMPT.md")).read()
name = f"{pid}-{n}"
t = t.replace("{WT}", f"/tmp/seed-{name.lower()}").replace("{OUT}", f"/tmp/seedout/{name}")
t = t.replace("{PROPERTY}", f"{p['title']}. {p['statement']}").replace("{HINT}", hint)
print(t)
