#!/bin/bash
# Runs every confirmed seeded change (seeded/_inbox/* and seeded/C*) against its owning check, one at a time
# (exclusive use of /repo). Usage: tools/run_all_seeded.sh [tier] [name-filter-regex]
cd "$(dirname "$0")/.."
tier="${1:-quick}"; filt="${2:-.}"
for d in seeded/_inbox/* seeded/C*; do
  [ -d "$d" ] || continue
  name=$(basename "$d"); echo "$name" | grep -Eq "$filt" || continue
  grep -q "CONFIRM .*: OK" "$d/confirm.txt" 2>/dev/null || { echo "SKIP $name (not confirmed)"; continue; }
  prop=${name%%-*}
  [ -f "$d/meta.json" ] || python3 - "$d" "$prop" <<'PY'
import json,sys,os
d,prop=sys.argv[1],sys.argv[2]
notes=open(os.path.join(d,'notes.md')).read() if os.path.exists(os.path.join(d,'notes.md')) else ''
json.dump({"property":prop,"source":"fresh sub-agent given only the property text and its own worktree","needs_to_manifest":"see notes.md","confirmed":open(os.path.join(d,'confirm.txt')).read().strip().splitlines()},open(os.path.join(d,'meta.json'),'w'),indent=1)
PY
  t0=$(date +%s)
  out=$(tools/seeded_check.sh "$d" "$tier" 2>&1); rc=$?
  t1=$(date +%s)
  echo "$out" > "$d/check_$tier.txt"
  echo "$(echo "$out" | grep '^RESULT' | tail -1)  [$((t1-t0))s]  $(echo "$out" | grep '^VIOLATION' | head -2 | tr '\n' ' ')"
done
