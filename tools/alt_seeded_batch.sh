#!/bin/bash
# usage: tools/alt_seeded_batch.sh <slot> <seeded-dir>...   — runs each seeded change against its owning property's quick check
# in scratch slot <slot> (see tools/alt_check.sh) and stores the output next to the change (check_quick.txt).
cd "$(dirname "$0")/.."
slot="$1"; shift
for d in "$@"; do
  name=$(basename $d); prop=${name%%-*}
  t0=$(date +%s)
  out=$(ALT_FROM_HEAD=1 tools/alt_check.sh $slot $d quick $prop 2>&1)
  echo "$out" > $d/check_quick.txt
  echo "$(echo "$out" | grep '^RESULT' | tail -1) [$(( $(date +%s) - t0 ))s] $(echo "$out" | grep '^VIOLATION' | head -1)"
done
