#!/usr/bin/env python3
"""Prints the markdown table of DESIGN.md 13.9 from evidence/Cxx.json (last run of each check in /verif) and, when a directory
with thorough logs `thorough_Cxx.log` is given as argv[1], the thorough column from their final `OK property=…` lines."""
import json, os, re, sys
root = os.path.dirname(os.path.dirname(os.path.abspath(__file__)))
tdir = sys.argv[1] if len(sys.argv) > 1 else None
print("| property | theorems audited | quick: compared lines / wall | thorough: compared lines / wall |\n|---|---|---|---|")
for i in range(1, 21):
    p = f"C{i:02d}"
    try: e = json.load(open(os.path.join(root, "evidence", p + ".json")))
    except Exception: continue
    c = e.get("coverage", {})
    q = f"{c.get('lines_compared_model_vs_impl','?')} / {round(e.get('wall_s',0))} s" if e.get("tier") == "quick" else "?"
    t = "not re-measured"
    if tdir and os.path.exists(os.path.join(tdir, f"thorough_{p}.log")):
        m = re.findall(r"^OK property=%s tier=thorough theorems=(\d+) compared_lines=(\d+) wall=([\d.]+)s" % p, open(os.path.join(tdir, f"thorough_{p}.log")).read(), re.M)
        if m: t = f"{m[-1][1]} / {round(float(m[-1][2]))} s"
        else: t = "did not finish / did not exit 0"
    print(f"| {p} | {c.get('obligations','?')} | {q} | {t} |")
