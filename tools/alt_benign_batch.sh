#!/bin/bash
# usage: tools/alt_benign_batch.sh <slot> <benign-dir>...  — runs ALL 20 quick checks against each benign (behaviour-preserving)
# change in scratch slot <slot>; any VIOLATION / non-zero exit is a FALSE ALARM of ours. Output: <dir>/allchecks.txt
cd "$(dirname "$0")/.."
slot="$1"; shift
PROPS=$(printf 'C%02d ' $(seq 1 20))
for d in "$@"; do
  t0=$(date +%s)
  out=$(ALT_FROM_HEAD=1 tools/alt_check.sh $slot $d quick $PROPS 2>&1)
  echo "$out" | grep -E "^RESULT|^VIOLATION|^DRIFT|what:|KNOWN-FINDING|harness .*coverage floor" > $d/allchecks.txt
  bad=$(grep -c "^RESULT.*\(DETECTED\|BROKEN\)" $d/allchecks.txt)
  echo "$(basename $d): false alarms=$bad drift_lines=$(grep -c '^DRIFT' $d/allchecks.txt) [$(( $(date +%s) - t0 ))s] $(grep '^RESULT.*\(DETECTED\|BROKEN\)' $d/allchecks.txt | awk '{print $3}' | tr '\n' ' ')"
done
