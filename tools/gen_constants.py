#!/usr/bin/env python3
"""Regenerate lean/LaunchpadModel/Generated/Constants.lean from /repo's current source.

Every `const NAME: TYPE = EXPR;` in contracts/** and packages/** (outside tests/schema) whose EXPR is an
integer literal expression (digits, `_`, `*`, `+`, parentheses) or a string literal becomes a Lean `def`
named `<crate>_<NAME>` (crate name with `-` -> `_`). Also: every crate's Cargo.toml version (resolving
`version = { workspace = true }`), as `<crate>_VERSION : String` and `<crate>_VERSION_TRIPLE : Nat × Nat × Nat`.

A REQUIRED list names the constants the model depends on; if one is missing or stops being a literal the
script exits 2 (reported by ./check as a broken tie).
"""
import os, re, sys, json

REPO = os.environ.get("VERIF_REPO", "/repo")
OUT = os.path.join(os.path.dirname(os.path.abspath(__file__)), "..", "lean", "LaunchpadModel", "Generated", "Constants.lean")

REQUIRED = [
    "sg1_FEE_BURN_PERCENT", "sg_utils_GENESIS_MINT_START_TIME",
    "sg_splits_MAX_GROUP_SIZE", "sg_splits_PAGINATION_LIMIT",
    "sg721_base_MAX_SHARE_DELTA_PCT", "sg721_base_MAX_ROYALTY_SHARE_PCT", "sg721_base_MAX_DESCRIPTION_LENGTH",
    "sg_whitelist_MAX_MEMBERS", "sg_whitelist_PRICE_PER_1000_MEMBERS", "sg_whitelist_MAX_PER_ADDRESS_LIMIT",
    "sg_whitelist_flex_MAX_MEMBERS", "sg_whitelist_flex_PRICE_PER_1000_MEMBERS",
    "sg_tiered_whitelist_MAX_MEMBERS", "sg_tiered_whitelist_PRICE_PER_1000_MEMBERS",
    "sg_tiered_whitelist_flex_MAX_MEMBERS", "sg_tiered_whitelist_flex_PRICE_PER_1000_MEMBERS",
]

const_re = re.compile(r'^\s*(?:pub(?:\([a-z]+\))?\s+)?const\s+([A-Z][A-Z0-9_]*)\s*:\s*([^=]+?)\s*=\s*(.*?);', re.S | re.M)

def crate_name(cargo_toml):
    txt = open(cargo_toml).read()
    m = re.search(r'^\s*name\s*=\s*"([^"]+)"', txt, re.M)
    return m.group(1) if m else None

def workspace_version():
    txt = open(os.path.join(REPO, "Cargo.toml")).read()
    m = re.search(r'\[workspace\.package\](.*?)(?:\n\[|\Z)', txt, re.S)
    if m:
        v = re.search(r'^\s*version\s*=\s*"([^"]+)"', m.group(1), re.M)
        if v:
            return v.group(1)
    return None

def crate_version(cargo_toml, wsv):
    txt = open(cargo_toml).read()
    pk = re.search(r'\[package\](.*?)(?:\n\[|\Z)', txt, re.S)
    if not pk:
        return None
    body = pk.group(1)
    m = re.search(r'^\s*version\s*=\s*"([^"]+)"', body, re.M)
    if m:
        return m.group(1)
    if re.search(r'^\s*version\s*=\s*\{\s*workspace\s*=\s*true\s*\}', body, re.M) or re.search(r'^\s*version\.workspace\s*=\s*true', body, re.M):
        return wsv
    return None

def strip_comments(src):
    src = re.sub(r'//[^\n]*', '', src)
    src = re.sub(r'/\*.*?\*/', '', src, flags=re.S)
    return src

def cut_tests(src):
    # drop everything from the first `#[cfg(test)]` on (tests modules sit at the end of files in this repo)
    i = src.find('#[cfg(test)]')
    return src if i < 0 else src[:i]

def eval_int(expr):
    e = expr.replace('_', '').strip()
    e = re.sub(r'(\d)(u8|u16|u32|u64|u128|usize|i32|i64)\b', r'\1', e)
    if not re.fullmatch(r'[\d\s\*\+\(\)]+', e):
        return None
    try:
        return int(eval(e, {"__builtins__": {}}))
    except Exception:
        return None

def main():
    wsv = workspace_version()
    defs = {}   # lean name -> (kind, value, where)
    crates = []
    for top in ("contracts", "packages"):
        for root, dirs, files in os.walk(os.path.join(REPO, top)):
            dirs[:] = [d for d in dirs if d not in ("target", "schema", "tests", "node_modules", "testdata", "examples")]
            if "Cargo.toml" in files:
                name = crate_name(os.path.join(root, "Cargo.toml"))
                if not name:
                    continue
                cn = name.replace('-', '_')
                ver = crate_version(os.path.join(root, "Cargo.toml"), wsv)
                crates.append((cn, ver, root))
                srcdir = os.path.join(root, "src")
                for r2, d2, f2 in os.walk(srcdir):
                    d2[:] = [d for d in d2 if d not in ("tests", "testing")]
                    for f in sorted(f2):
                        if not f.endswith(".rs") or "test" in f:
                            continue
                        p = os.path.join(r2, f)
                        src = cut_tests(strip_comments(open(p).read()))
                        for m in const_re.finditer(src):
                            cname, ty, expr = m.group(1), m.group(2).strip(), m.group(3).strip()
                            lname = f"{cn}_{cname}"
                            rel = os.path.relpath(p, REPO)
                            if ty.startswith("&"):
                                sm = re.fullmatch(r'"((?:[^"\\]|\\.)*)"', expr, re.S)
                                if sm:
                                    defs.setdefault(lname, ("str", sm.group(1), rel))
                            elif re.fullmatch(r'(u8|u16|u32|u64|u128|usize|i32|i64)', ty):
                                v = eval_int(expr)
                                if v is not None:
                                    defs.setdefault(lname, ("nat", v, rel))
    lines = ["/-! GENERATED by tools/gen_constants.py from /repo — do not edit. Regenerated on every check run. -/",
             "namespace LP.Gen", ""]
    for lname in sorted(defs):
        kind, v, rel = defs[lname]
        if kind == "nat":
            lines.append(f"/-- {rel} -/\ndef {lname} : Nat := {v}")
        else:
            esc = v.replace('\\', '\\\\').replace('"', '\\"')
            lines.append(f"/-- {rel} -/\ndef {lname} : String := \"{esc}\"")
    lines.append("")
    if wsv:
        lines.append(f'def WORKSPACE_VERSION : String := "{wsv}"')
    for cn, ver, root in sorted(crates):
        if ver:
            lines.append(f'def {cn}_CRATE_VERSION : String := "{ver}"')
            m = re.fullmatch(r'(\d+)\.(\d+)\.(\d+)', ver)
            if m:
                lines.append(f'def {cn}_CRATE_VERSION_TRIPLE : Nat × Nat × Nat := ({int(m.group(1))}, {int(m.group(2))}, {int(m.group(3))})')
    lines += ["", "end LP.Gen", ""]
    text = "\n".join(lines)
    missing = [r for r in REQUIRED if r not in defs]
    os.makedirs(os.path.dirname(OUT), exist_ok=True)
    old = open(OUT).read() if os.path.exists(OUT) else None
    if old != text:
        open(OUT, "w").write(text)
    summary = {"constants": len(defs), "crates": len(crates), "missing": missing, "changed": old != text,
               "values": {k: v[1] for k, v in defs.items() if v[0] == "nat"}}
    if "--json" in sys.argv:
        print(json.dumps(summary))
    else:
        print(f"gen_constants: {len(defs)} constants from {len(crates)} crates; changed={old != text}; missing={missing}")
    sys.exit(2 if missing else 0)

if __name__ == "__main__":
    main()
