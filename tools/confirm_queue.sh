#!/bin/bash
# Moves finished seeder outputs (/tmp/seedout/<name> with patch.diff+demo.diff) into seeded/_inbox and confirms each one
# independently (tools/confirm_seed.sh), one at a time. Idempotent; run it again when more seeders have finished.
cd "$(dirname "$0")/.."
mkdir -p seeded/_inbox
for d in /tmp/seedout/*; do
  [ -f "$d/patch.diff" ] && [ -f "$d/demo.diff" ] || continue
  n=$(basename $d)
  [ -d seeded/_inbox/$n ] || [ -d seeded/$n ] || cp -r $d seeded/_inbox/$n
done
for d in seeded/_inbox/*; do
  [ -d "$d" ] || continue
  [ -f "$d/confirm.txt" ] && continue
  tools/confirm_seed.sh "$d" 2>&1 | grep -v auto_activate | tail -n 1
done
