#!/usr/bin/env python3
"""Regenerate MANIFEST.json. A property is claimed iff lean/LaunchpadModel/Props/Cxx.lean, lean/LaunchpadModel/Driver/Cxx.lean
and harness/src/bin/cxx.rs all exist AND it is listed in tools/claims.json (text per property)."""
import json, os
ROOT = os.path.join(os.path.dirname(os.path.abspath(__file__)), "..")
claims = {}
for f in sorted(os.listdir(os.path.join(ROOT, "tools", "claims"))):
    if f.endswith(".json"):
        claims[f[:-5]] = json.load(open(os.path.join(ROOT, "tools", "claims", f)))
props = [json.loads(l) for l in open(os.path.join(ROOT, "properties.jsonl"))]
checks, na = [], []
for p in props:
    pid = p["id"]; low = pid.lower()
    have = all(os.path.exists(os.path.join(ROOT, f)) for f in (f"lean/LaunchpadModel/Props/{pid}.lean", f"lean/LaunchpadModel/Driver/{pid}.lean", f"harness/src/bin/{low}.rs"))
    c = claims.get(pid)
    if have and c and c.get("claimed", True):
        checks.append({
            "property_id": pid,
            "quick_cmd": f"./check {pid} quick",
            "thorough_cmd": f"./check {pid} thorough",
            "evidence_file": f"/verif/evidence/{pid}.json",
            "replay_cmd_template": f"./check {pid} --replay {{path}}",
            "engine": "lean-model+rust-harness",
            "level_claimed": {"category": "proof", "text": c["text"], "design_ref": c.get("design_ref", f"DESIGN.md section 6 ({pid})")},
            "level_note": c["note"],
            "technique": c.get("technique", "Lean 4 theorems over a hand-written executable model; model tied to the code by regenerated constants + differential execution against the real contracts"),
        })
    else:
        na.append({"property_id": pid, "reason": (c or {}).get("na_reason", "not built yet in this round: no Lean model/theorems committed for it so far (planned; see DESIGN.md section 6) — no other technique is substituted")})
man = {
    "version": 1,
    "setup_cmd": "./setup.sh",
    "hooks": {"guard": "launchpad_verif", "enable": "RUSTFLAGS='--cfg launchpad_verif' (no source hooks are needed: every crate exposes its contract/msg/state modules)",
              "baseline_off_cmd": "cd /repo && cargo test --workspace --no-fail-fast --offline", "source_commits": [], "add_only": True},
    "engines": [
        {"name": "lean-model", "path": "/verif/lean", "serves_properties": [c["property_id"] for c in checks], "kind_free_text": "Lean 4 executable model + property theorems (Props/Cxx.lean) + per-property compiled drivers (drv_cxx)"},
        {"name": "rust-harness", "path": "/verif/harness", "serves_properties": [c["property_id"] for c in checks], "kind_free_text": "cw-multi-test / direct-call harness running the real contracts from /repo; generators, monitors, shrinking, replay"},
        {"name": "constants-extractor", "path": "/verif/tools/gen_constants.py", "serves_properties": [c["property_id"] for c in checks], "kind_free_text": "regenerates Generated/Constants.lean from /repo source on every run"},
    ],
    "checks": checks,
    "not_applicable": na,
    "notes": "Technique family: machine-checked proof in Lean 4. ./check Cxx quick|thorough = regenerate constants -> lake build Props.Cxx + axiom audit -> build driver and harness against /repo's working tree -> differential run + property monitors -> verdict. Genuine defects found and repaired are recorded in known_findings.json (status fixed).",
}
json.dump(man, open(os.path.join(ROOT, "MANIFEST.json"), "w"), indent=1, ensure_ascii=False)
print("claimed:", [c["property_id"] for c in checks], "not_applicable:", len(na))
