#!/usr/bin/env python3
"""Prints the markdown table of seeded changes (DESIGN.md 13.7) from seeded/*/meta.json, notes.md, check_*.txt."""
import json, os, re, glob
root = os.path.dirname(os.path.dirname(os.path.abspath(__file__)))
rows = []
for d in sorted(glob.glob(os.path.join(root, "seeded", "C*"))):
    name = os.path.basename(d)
    try: meta = json.load(open(os.path.join(d, "meta.json")))
    except Exception: meta = {}
    files = [l[6:].strip() for l in open(os.path.join(d, "patch.diff")) if l.startswith("+++ b/")]
    f0 = ", ".join(sorted({re.sub(r"^(contracts|packages)/", "", f).replace("/src/", ":") for f in files}))
    title = ""
    np = os.path.join(d, "notes.md")
    if os.path.exists(np):
        for l in open(np):
            if l.startswith("#"):
                title = re.sub(r"^#+\s*", "", l).strip(); title = re.sub(r"^C\d\d[- ]?(seed )?\d?\s*[—:-]*\s*", "", title); break
    res = "?"
    for fn in ("check_quick_r3.txt", "check_quick.txt"):
        p = os.path.join(d, fn)
        if os.path.exists(p):
            t = open(p).read()
            m = re.findall(r"RESULT .*?: (DETECTED with failing input|DETECTED \(no-failing-input-found\)|MISSED.*|PASS.*)", t)
            if m: res = m[-1]; 
            k = re.search(r"what: ([^:\n]+/[^:\n ]+)", t)
            if k and "DETECTED with" in res: res += f" (`{k.group(1).strip()}`)"
            break
    on = os.path.join(d, 'owner_note.txt')
    if os.path.exists(on): res += ' — ' + open(on).read().strip()
    rows.append((name, f0, title[:110], res))
print("| change | file(s) | idea | owning check (quick) |\n|---|---|---|---|")
for r in rows: print("| " + " | ".join(r) + " |")
