#!/bin/bash
# usage: tools/confirm_seed.sh seeded/_inbox/<name>
# Independent confirmation of a seeded change in a scratch worktree of /repo (never /repo itself):
#   A. patch + demo : the 160 baseline tests pass, and some test(s) fail — exactly tests added by the demo
#   B. demo only    : everything passes
# Writes <dir>/confirm.txt. Shared incremental target dir /tmp/confirm-target (removed by the caller when done).
set -u
d="$(cd "$1" && pwd)"; name=$(basename "$d")
wt=/tmp/confirm-$name
export CARGO_NET_OFFLINE=true CARGO_TARGET_DIR=/tmp/confirm-target
git -C /repo worktree remove --force $wt 2>/dev/null
git -C /repo worktree add --detach $wt HEAD >/dev/null 2>&1 || { echo "worktree failed"; exit 3; }
cd $wt
run() { cargo test --workspace --no-fail-fast --offline 2>&1 | grep -E "^test .* (ok|FAILED|ignored)$|^error(\[|: could not compile)" ; }
git apply "$d/demo.diff" || { echo "CONFIRM $name: demo.diff does not apply" | tee "$d/confirm.txt"; cd /; git -C /repo worktree remove --force $wt; exit 2; }
run > /tmp/confirm-$name-B.txt
git apply "$d/patch.diff" || { echo "CONFIRM $name: patch.diff does not apply" | tee "$d/confirm.txt"; cd /; git -C /repo worktree remove --force $wt; exit 2; }
run > /tmp/confirm-$name-A.txt
cd /; git -C /repo worktree remove --force $wt
Bpass=$(grep -c " ok$" /tmp/confirm-$name-B.txt); Bfail=$(grep -c "FAILED$" /tmp/confirm-$name-B.txt)
Apass=$(grep -c " ok$" /tmp/confirm-$name-A.txt); Afail=$(grep -c "FAILED$" /tmp/confirm-$name-A.txt)
Aerr=$(grep -c "^error" /tmp/confirm-$name-A.txt); Berr=$(grep -c "^error" /tmp/confirm-$name-B.txt)
failed=$(grep "FAILED$" /tmp/confirm-$name-A.txt | sed 's/^test //; s/ \.\.\. FAILED//' | tr '\n' ' ')
{
 echo "demo only (B): pass=$Bpass fail=$Bfail compile_errors=$Berr"
 echo "patch+demo (A): pass=$Apass fail=$Afail compile_errors=$Aerr"
 echo "failing with patch: $failed"
 new=$((Bpass - 160))
 if [ $Berr -eq 0 ] && [ $Aerr -eq 0 ] && [ $Bfail -eq 0 ] && [ $Afail -ge 1 ] && [ $Bpass -gt 160 ] && [ $((Apass + Afail)) -eq $Bpass ] && [ $Afail -le $new ]; then
   echo "CONFIRM $name: OK (baseline green with the patch apart from $Afail demo test(s); demo green without it)"
 else
   echo "CONFIRM $name: NOT CONFIRMED"
 fi
} | tee "$d/confirm.txt"
rm -f /tmp/confirm-$name-A.txt /tmp/confirm-$name-B.txt
