#!/bin/bash
# usage: tools/alt_check.sh <slot> <seeded-dir|-> <tier> <PROP> [PROP...]
# Runs checks against a *scratch copy* of /repo (a git worktree under /tmp/alt-<slot>/repo) with the seeded change applied,
# using a scratch copy of /verif (/tmp/alt-<slot>/verif, own cargo target dir) whose harness path-deps point at that worktree.
# /repo itself is never touched, so several slots can run side by side with normal work on /verif.
# This is a development convenience for self-testing the checks; registered MANIFEST commands never use it.
# `-` as seeded-dir = unchanged tree (sanity run). Remove a slot with: tools/alt_check.sh <slot> --rm
set -u
slot="$1"; ALT=/tmp/alt-$slot
if [ "${2:-}" = "--rm" ]; then git -C /repo worktree remove --force $ALT/repo 2>/dev/null; rm -rf $ALT; git -C /repo worktree prune; exit 0; fi
sd="$2"; tier="$3"; shift 3
V="$(cd "$(dirname "$0")/.." && pwd)"
mkdir -p $ALT
if [ ! -d $ALT/repo/.git ] && [ ! -f $ALT/repo/.git ]; then
  git -C /repo worktree prune
  git -C /repo worktree add --detach $ALT/repo HEAD >/dev/null 2>&1 || { echo "worktree failed"; exit 3; }
fi
git -C $ALT/repo checkout -q --detach $(git -C /repo rev-parse HEAD) 2>/dev/null
git -C $ALT/repo checkout -- . ; git -C $ALT/repo clean -fdq
if [ "$sd" != "-" ]; then
  git -C $ALT/repo apply "$(cd "$sd" && pwd)/patch.diff" || { echo "patch does not apply"; exit 3; }
fi
if [ "${ALT_FROM_HEAD:-0}" = "1" ]; then
  # committed state of /verif only (other people's uncommitted work-in-progress must not leak into a measurement)
  mkdir -p $ALT/verif $ALT/head
  rm -rf $ALT/head/*; git -C "$V" archive HEAD | tar -x -C $ALT/head
  rsync -rlpc --delete --exclude '/harness/target*' --exclude /work --exclude /replays --exclude /evidence --exclude /seeded --exclude '/lean/.lake' $ALT/head/ $ALT/verif/
  [ -d $ALT/verif/lean/.lake ] || cp -r "$V"/lean/.lake $ALT/verif/lean/.lake
else
  rsync -a --delete --exclude '/harness/target*' --exclude /work --exclude /replays --exclude /.git --exclude /evidence --exclude /seeded "$V"/ $ALT/verif/
fi
mkdir -p $ALT/verif/evidence
sed -i "s#\"/repo/#\"$ALT/repo/#" $ALT/verif/harness/Cargo.toml
cp $ALT/repo/Cargo.lock $ALT/verif/harness/Cargo.lock 2>/dev/null
export VERIF_REPO=$ALT/repo
unset CARGO_TARGET_DIR
rcs=0
for prop in "$@"; do
  out=$(cd $ALT/verif && ./check "$prop" "$tier" 2>&1); rc=$?
  echo "$out" | grep -v auto_activate | tail -n 5
  if [ $rc -eq 1 ] && echo "$out" | grep -q "^VIOLATION property=$prop"; then
    if echo "$out" | grep "^VIOLATION" | grep -vq "no-failing-input-found"; then echo "RESULT $sd $prop: DETECTED with failing input"; else echo "RESULT $sd $prop: DETECTED (no-failing-input-found)"; fi
  elif [ $rc -eq 0 ]; then echo "RESULT $sd $prop: PASS (rc=0)"
  else echo "RESULT $sd $prop: BROKEN-CHECK (rc=$rc)"; rcs=1
  fi
done
git -C $ALT/repo checkout -- . ; git -C $ALT/repo clean -fdq
exit $rcs
