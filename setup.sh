#!/bin/bash
# Build the framework offline from files on disk: Lean library + per-property drivers, Rust harness.
# Tolerant: a target that fails to build is reported but does not abort (each check rebuilds what it needs).
cd "$(dirname "$0")"
export CARGO_NET_OFFLINE=true
python3 tools/gen_constants.py || echo "setup: constants extractor reported a problem"
PROPS=$(python3 -c "import json;print(' '.join(c['property_id'] for c in json.load(open('MANIFEST.json'))['checks']))")
EXTRA=$(python3 -c "
import json,glob,os
mods=set(); bins=set()
for f in glob.glob('tools/claims/*.json'):
    c=json.load(open(f))
    for m in c.get('extra_props',[]):
        if os.path.exists('lean/'+m.replace('.','/')+'.lean'): mods.add(m)
    for b in c.get('drift',[]):
        if os.path.exists('harness/src/bin/'+b+'.rs'): bins.add(b)
print(' '.join(sorted(mods))+'|'+' '.join(sorted(bins)))")
EXTRA_MODS="${EXTRA%%|*}"; DRIFT_BINS="${EXTRA##*|}"
( cd lean
  # composite-model refinement modules (their Cxx_* theorems are audited with the owning property) and composite drivers
  [ -n "$EXTRA_MODS" ] && { lake build $EXTRA_MODS 2>&1 | grep -v auto_activate_base | tail -n 2 || echo "setup: lean build of extra modules failed"; }
  for b in $DRIFT_BINS; do lake build drv_$b 2>&1 | grep -v auto_activate_base | tail -n 1; done
  for p in $PROPS; do
    low=$(echo $p | tr 'A-Z' 'a-z')
    lake build LaunchpadModel.Props.$p drv_$low 2>&1 | grep -v auto_activate_base | tail -n 3 || echo "setup: lean build for $p failed"
  done )
( cd harness
  [ -f Cargo.lock ] || cp /repo/Cargo.lock .
  BINS=""
  for p in $PROPS; do low=$(echo $p | tr 'A-Z' 'a-z'); [ -f src/bin/$low.rs ] && BINS="$BINS --bin $low"; done
  for b in $DRIFT_BINS; do BINS="$BINS --bin $b"; done
  cargo build --offline $BINS 2>&1 | grep -v auto_activate_base | grep -E "^(error|Finished|warning: unused)" | tail -n 20 )
echo "setup done"
exit 0
