#!/bin/bash
# Build the framework offline from files on disk: Lean library + per-property drivers, Rust harness.
# Tolerant: a target that fails to build is reported but does not abort (each check rebuilds what it needs).
cd "$(dirname "$0")"
export CARGO_NET_OFFLINE=true
python3 tools/gen_constants.py || echo "setup: constants extractor reported a problem"
PROPS=$(python3 -c "import json;print(' '.join(c['property_id'] for c in json.load(open('MANIFEST.json'))['checks']))")
( cd lean
  for p in $PROPS; do
    low=$(echo $p | tr 'A-Z' 'a-z')
    lake build LaunchpadModel.Props.$p drv_$low 2>&1 | grep -v auto_activate_base | tail -n 3 || echo "setup: lean build for $p failed"
  done )
( cd harness
  [ -f Cargo.lock ] || cp /repo/Cargo.lock .
  BINS=""
  for p in $PROPS; do low=$(echo $p | tr 'A-Z' 'a-z'); [ -f src/bin/$low.rs ] && BINS="$BINS --bin $low"; done
  cargo build --offline $BINS 2>&1 | grep -v auto_activate_base | grep -E "^(error|Finished|warning: unused)" | tail -n 20 )
echo "setup done"
exit 0
