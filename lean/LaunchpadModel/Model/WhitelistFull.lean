import LaunchpadModel.Model.Basic
import LaunchpadModel.Model.Sg1
import LaunchpadModel.Model.MintPay
import LaunchpadModel.Model.WlMembers
import LaunchpadModel.Model.Tiered
import LaunchpadModel.Model.Merkle
import LaunchpadModel.Model.Sha256
import LaunchpadModel.Model.Blake3
import LaunchpadModel.Generated.Constants
/-!
# Composite model of the whitelist contract family (DESIGN §3.4) — namespace `LP.WF`

ONE deterministic executable model of the seven whitelist crates under /repo/contracts/whitelists as the code is now:

| `Variant`        | crate                         | store      | flex | tiered |
|------------------|-------------------------------|------------|------|--------|
| `plain`          | `whitelist`                   | list       |      |        |
| `flexV`          | `whitelist-flex`              | list       | ✓    |        |
| `tieredV`        | `tiered-whitelist`            | list       |      | ✓      |
| `tieredFlex`     | `tiered-whitelist-flex`       | list       | ✓    | ✓      |
| `merkle`         | `whitelist-merkletree`        | merkle     |      |        |
| `tieredMerkle`   | `tiered-whitelist-merkletree` | merkle     |      | ✓      |
| `immutable`      | `whitelist-immutable`         | immutable  |      |        |

Every `instantiate` / `execute` / `query` path (the crates have no `sudo` and no `reply`; `migrate` of the two Merkle crates
is C20's subject and not modelled), all stored items as state, **all gates computed here**: admin list (`can_execute`,
`can_modify`), attached funds (bank delivery, `must_pay` / `may_pay` / `nonpayable`, fee amounts), the clock (schedule checks,
stage windows, `validate_stages` / `validate_update`, "before it starts" gates), capacity (`member_limit`, `MAX_MEMBERS`,
whale cap), address validation, message surface per crate (a message that is not a variant of the crate's `ExecuteMsg` does not
deserialise), Merkle proofs (SHA-256 / BLAKE3-16 computed by the model).

Nothing is taken from the implementation except the chain environment: the address given to a new contract (`Op.instantiate …
self`) and `Url::parse` of a tree URI (`InstMsg.uriOk`).

Reused where they already say the right thing (all stable, frozen by the aspect checks that own them): the member-map
primitives and loops of `LP.WlMembers` (`saveM`, `eraseM`, `hasM`, `getM`, `prep`, `addLoop`, `saveAll`, `removeLoop`,
`instList`, `instStages`, fee arithmetic `tiers` / `creationFee` / `upgradeFee`, per-crate constants), the stage record and
stage validation of `LP.Tiered` (`Stage`, `validateStages`, `validateUpdate`, `activeIdx`, `activeStage`, `applyUpdate`,
`normStage`), `LP.Merkle.hasMember` / `validHash`, `LP.Sg1.checkedFairBurn`, the bank of `LP.MintPay`. The schedule rules of
the single-stage kinds, the admin rules, the dispatch, the bank wiring, every query and the whole Merkle / immutable
instantiate are written here.

Addresses are interned naturals; `WlMembers.validAddr` (`id < 90000`) is the model of `Api::addr_validate` (the harness
renders larger ids as strings `MockApi` rejects). Strings that the contracts only store and hand back (stage names, tree
URIs) are interned naturals; Merkle roots and proof elements are lists of character codes (they are parsed as hex).
-/
namespace LP.WF
open LP

abbrev Member := WlMembers.Member
abbrev Stage := Tiered.Stage
abbrev StageUpdate := Tiered.StageUpdate
abbrev Bank := MintPay.Bank

/-! ## Variants -/

inductive Store where
  | list | merkle | immutable
deriving DecidableEq, Repr

/-- what distinguishes the seven crates -/
structure Variant where
  /-- members stored in a map / a Merkle root committed / a fixed address set without admins -/
  store : Store
  /-- members carry a `mint_count`, lists keep message order, `whale_cap`, no `per_address_limit` -/
  flex : Bool
  /-- `Config.stages` instead of one `start_time` / `end_time` / `mint_price` -/
  tiered : Bool
deriving DecidableEq, Repr

namespace Variant
def plain : Variant := ⟨.list, false, false⟩
def flexV : Variant := ⟨.list, true, false⟩
def tieredV : Variant := ⟨.list, false, true⟩
def tieredFlex : Variant := ⟨.list, true, true⟩
def merkle : Variant := ⟨.merkle, false, false⟩
def tieredMerkle : Variant := ⟨.merkle, false, true⟩
def immutable : Variant := ⟨.immutable, false, false⟩

/-- the harness' `ALL_WL` order -/
def ofIdx : Nat → Option Variant
  | 0 => some plain | 1 => some flexV | 2 => some tieredV | 3 => some tieredFlex
  | 4 => some merkle | 5 => some tieredMerkle | 6 => some immutable
  | _ => none

def isList (v : Variant) : Bool := v.store == .list
def isMerkle (v : Variant) : Bool := v.store == .merkle
def isImmutable (v : Variant) : Bool := v.store == .immutable

/-- the crate as `LP.WlMembers` names it (constants, list preparation); only read for list / immutable stores -/
def kind11 (v : Variant) : WlMembers.Kind :=
  match v.store with
  | .immutable => .immutable
  | _ =>
    match v.flex, v.tiered with
    | false, false => .plain
    | true, false => .flex
    | false, true => .tiered
    | true, true => .tieredFlex

/-- the crate as `LP.Tiered` names it (stage validation constants); only read when `tiered` -/
def kind13 (v : Variant) : Tiered.Variant :=
  match v.store with
  | .merkle => .merkle
  | _ => if v.flex then .flex else .plain

/-- digest size of the crate's Merkle hash: SHA-256 (32) / BLAKE3 truncated (16) -/
def digest (v : Variant) : Nat := if v.tiered then 16 else 32
def hash (v : Variant) : Merkle.Bytes → Merkle.Bytes := if v.tiered then Blake3.blake3_16 else Sha256.sha256
/-- `CREATION_FEE` of the two Merkle crates -/
def merkleFee (v : Variant) : Nat :=
  if v.tiered then Gen.tiered_whitelist_merkletree_CREATION_FEE else Gen.whitelist_mtree_CREATION_FEE
end Variant

def GENESIS : Nat := Gen.sg_utils_GENESIS_MINT_START_TIME
/-- `MAX_PER_ADDRESS_LIMIT` of `whitelist` (the only single-stage crate that checks it) -/
def MAX_PAL : Nat := Gen.sg_whitelist_MAX_PER_ADDRESS_LIMIT

def validAddr (a : Addr) : Bool := WlMembers.validAddr a

/-! ## State -/

/-- ghost accounting of one contract instance (never read by a handler): what its callers attached and where its fees went -/
structure Ghost where
  /-- native funds attached to the successful fee-bearing calls (`instantiate`, `IncreaseMemberLimit`) -/
  feesPaid : Nat
  /-- funds attached to successful calls of every other message, per denom (no handler calls `nonpayable`: they stay) -/
  stray : Denom → Nat
  /-- burned by this contract's `fair_burn` messages -/
  burned : Nat
  /-- sent to the fair-burn pool by this contract's `fair_burn` messages -/
  pooled : Nat

def Ghost.zero : Ghost := ⟨0, fun _ => 0, 0, 0⟩

/-- one whitelist contract -/
structure Wl where
  v : Variant
  /-- `env.contract.address` -/
  self : Addr
  /-- `ADMIN_LIST` -/
  admins : List Addr
  mutable_ : Bool
  /-- single-stage kinds: `Config.{start_time, end_time, mint_price, per_address_limit}` (flex has no limit: 0) -/
  start : Nat
  end_ : Nat
  mintPrice : Coin
  perAddr : Nat
  /-- tiered kinds: `Config.stages` -/
  stages : List Stage
  /-- list kinds: `Config.{num_members, member_limit, whale_cap}`; immutable: `TOTAL_ADDRESS_COUNT` in `numMembers` -/
  numMembers : Nat
  memberLimit : Nat
  whaleCap : Option Nat
  /-- `WHITELIST` (single-stage list kinds, immutable), ascending by address -/
  members : List Member
  /-- tiered list kinds: per stage the slice of `WHITELIST_STAGES` and the `MEMBER_COUNT` entry -/
  smembers : List WlMembers.Stage
  /-- `MERKLE_ROOT` (singleton) / `MERKLE_ROOTS`: the strings as supplied -/
  roots : List (List Nat)
  /-- `MERKLE_TREE_URIS` (tiered Merkle only; the single-stage crate never stores its URI) -/
  uris : Option (List Nat)
  /-- immutable: `Config.{admin, mint_discount_bps}` -/
  imAdmin : Addr
  discountBps : Option Nat
  g : Ghost

structure State where
  /-- `env.block.time` -/
  now : Nat
  bank : Bank
  /-- the contract under observation (the latest successfully instantiated one) -/
  wl : Option Wl

def emptyBank : Bank := ⟨fun _ _ => 0, fun _ => 0, fun _ => 0⟩
def init (now : Nat) : State := ⟨now, emptyBank, none⟩

/-- total amount of denom `d` in a funds list -/
def sumDenom (d : Denom) (funds : List Coin) : Nat :=
  (funds.map fun c => if c.denom = d then c.amount else 0).sum

def Ghost.tip (g : Ghost) (funds : List Coin) : Ghost :=
  { g with stray := fun d => g.stray d + sumDenom d funds }

def Ghost.fee (g : Ghost) (payment : Nat) (msgs : List Msg) : Ghost :=
  { g with feesPaid := g.feesPaid + payment, burned := g.burned + Sg1.burnedBy msgs,
           pooled := g.pooled + Sg1.sentTo FAIRBURN_POOL msgs }

def Wl.tipped (w : Wl) (funds : List Coin) : Wl := { w with g := w.g.tip funds }

/-! ## Messages -/

structure InstMsg where
  admins : List Addr
  adminsMutable : Bool
  /-- single-stage kinds -/
  start : Nat
  end_ : Nat
  mintPrice : Coin
  /-- plain, merkle, immutable -/
  perAddr : Nat
  /-- list kinds -/
  memberLimit : Nat
  whaleCap : Option Nat
  /-- single-stage list kinds: `members`; immutable: `addresses` -/
  members : List Member
  /-- tiered kinds -/
  stages : List Stage
  /-- tiered list kinds: `members : Vec<Vec<_>>` -/
  stageMembers : List (List Member)
  /-- `merkle_root` (singleton) / `merkle_roots` -/
  roots : List (List Nat)
  /-- `Url::parse` accepted every supplied tree URI -/
  uriOk : Bool
  /-- tiered Merkle: `merkle_tree_uris` -/
  uris : Option (List Nat)
  /-- immutable -/
  discountBps : Option Nat

/-- payloads of the crates' `ExecuteMsg` variants (union over the family) -/
inductive ExecMsg where
  | updateStartTime (t : Nat)
  | updateEndTime (t : Nat)
  /-- `stage` = `stage_id` (tiered kinds; ignored otherwise) -/
  | addMembers (stage : Nat) (ms : List Member)
  | removeMembers (stage : Nat) (as : List Addr)
  | updatePerAddressLimit (n : Nat)
  | increaseMemberLimit (n : Nat)
  | updateAdmins (admins : List Addr)
  | freeze
  | addStage (st : Stage) (ms : List Member)
  | removeStage (id : Nat)
  | updateStageConfig (u : StageUpdate)
  /-- any JSON that is no variant of any crate's `ExecuteMsg` (e.g. `update_merkle_tree`, which exists as a function
  but is not dispatched) -/
  | unknown

/-- is the message a variant of this crate's `ExecuteMsg`? (`whitelist-immutable`: `enum ExecuteMsg {}`) -/
def supports (v : Variant) : ExecMsg → Bool
  | .updateStartTime _ | .updateEndTime _ => !v.isImmutable && !v.tiered
  | .addMembers _ _ | .removeMembers _ _ | .increaseMemberLimit _ => v.isList
  | .updatePerAddressLimit _ => v.isList && !v.flex && !v.tiered
  | .updateAdmins _ | .freeze => !v.isImmutable
  | .addStage _ _ | .removeStage _ => v.isList && v.tiered
  | .updateStageConfig _ => !v.isImmutable && v.tiered
  | .unknown => false

inductive Op where
  /-- the chain produces a block -/
  | setTime (t : Nat)
  /-- test setup: coins created for an account -/
  | fund (a : Addr) (c : Coin)
  /-- `instantiate` of crate `v` by `sender`; `self` = the address the chain gives the new contract -/
  | instantiate (v : Variant) (sender : Addr) (funds : List Coin) (self : Addr) (m : InstMsg)
  /-- `execute` on the observed contract -/
  | exec (sender : Addr) (funds : List Coin) (m : ExecMsg)

/-! ## Admin list (`admin.rs`, `state.rs::AdminList`) -/

def isAdmin (w : Wl) (a : Addr) : Bool := w.admins.contains a
def canModify (w : Wl) (a : Addr) : Bool := w.mutable_ && isAdmin w a

/-! ## instantiate -/

/-- the three time checks of the single-stage crates -/
def flatScheduleOk (now : Nat) (m : InstMsg) : Bool :=
  !(decide (m.start > m.end_)) && !(decide (now ≥ m.start)) && !(decide (m.start < GENESIS))

/-- stages as the crate stores them (the flex crate's `Stage` has no `per_address_limit`) -/
def normStages (v : Variant) (l : List Stage) : List Stage := l.map (Tiered.normStage v.kind13)

/-- every check of a list-kind `instantiate` that is not about members, capacity or the fee: admin addresses,
schedule / stages, `per_address_limit` (plain), `whale_cap > member_limit` (flex kinds) -/
def instGates (v : Variant) (now : Nat) (m : InstMsg) : Bool :=
  m.admins.all validAddr
  && (if v.tiered then Tiered.validateStages v.kind13 now (normStages v m.stages) else flatScheduleOk now m)
  && (v.flex || v.tiered || (decide (1 ≤ m.perAddr) && decide (m.perAddr ≤ MAX_PAL)))
  && (match v.flex, m.whaleCap with
      | true, some c => decide (c > m.memberLimit)
      | _, _ => true)

def blankWl (v : Variant) (self : Addr) : Wl :=
  { v := v, self := self, admins := [], mutable_ := false, start := 0, end_ := 0, mintPrice := ⟨NATIVE, 0⟩, perAddr := 0,
    stages := [], numMembers := 0, memberLimit := 0, whaleCap := none, members := [], smembers := [], roots := [],
    uris := none, imAdmin := 0, discountBps := none, g := Ghost.zero }

/-- `instantiate` of the four list crates -/
def instListKind (v : Variant) (now : Nat) (self : Addr) (funds : List Coin) (m : InstMsg) : Except Err (Wl × List Msg) :=
  let k := v.kind11
  if m.memberLimit = 0 ∨ m.memberLimit > k.maxMembers then .error .invalid
  else if !(instGates v now m) then .error .invalid
  else if v.tiered && decide (m.stageMembers.length ≠ m.stages.length) then .error .invalid
  else
    let fee := WlMembers.creationFee k m.memberLimit
    match mustPay funds NATIVE with
    | .error e => .error e
    | .ok payment =>
      if payment ≠ fee then .error .payment
      else
        match Sg1.checkedFairBurn funds self fee none with
        | .error e => .error e
        | .ok msgs =>
          let wc := WlMembers.effWhale k m.whaleCap
          -- `config.member_limit < config.num_members`, `num_members` = Σ list lengths (after dedup for the plain kinds)
          let rawLen := if v.tiered then (m.stageMembers.map (fun ms => (WlMembers.prep k ms).length)).sum
                        else (WlMembers.prep k m.members).length
          if m.memberLimit < rawLen then .error .limit
          else
            let base : Wl :=
              { blankWl v self with admins := m.admins, mutable_ := m.adminsMutable, memberLimit := m.memberLimit, whaleCap := wc,
                                    g := Ghost.zero.fee payment msgs }
            if v.tiered then
              match WlMembers.instStages k wc m.memberLimit m.stageMembers 0 with
              | .error e => .error e
              | .ok (gs, num) =>
                if m.memberLimit < num then .error .limit
                else .ok ({ base with stages := normStages v m.stages, numMembers := num, smembers := gs }, msgs)
            else
              match WlMembers.instList k wc m.memberLimit (WlMembers.prep k m.members) with
              | .error e => .error e
              | .ok (st, num) =>
                if m.memberLimit < num then .error .limit
                else .ok ({ base with start := m.start, end_ := m.end_, mintPrice := m.mintPrice,
                                      perAddr := (if v.flex then 0 else m.perAddr), numMembers := num, members := st }, msgs)

/-- `instantiate` of the two Merkle crates -/
def instMerkle (v : Variant) (now : Nat) (self : Addr) (funds : List Coin) (m : InstMsg) : Except Err (Wl × List Msg) :=
  if !(m.roots.all (Merkle.validHash v.digest)) then .error .invalid          -- `verify_merkle_root`
  else if !v.tiered && m.roots.length ≠ 1 then .error .invalid               -- `merkle_root : String`
  else if !m.uriOk then .error .invalid                                       -- `verify_tree_uri`
  else
    match mustPay funds NATIVE with
    | .error e => .error e
    | .ok payment =>
      if payment ≠ v.merkleFee then .error .payment
      else if !(if v.tiered then Tiered.validateStages v.kind13 now m.stages else flatScheduleOk now m) then .error .invalid
      else
        match Sg1.checkedFairBurn funds self v.merkleFee none with
        | .error e => .error e
        | .ok msgs =>
          if !(m.admins.all validAddr) then .error .invalid
          else
            let base : Wl :=
              { blankWl v self with admins := m.admins, mutable_ := m.adminsMutable, roots := m.roots,
                                    g := Ghost.zero.fee payment msgs }
            if v.tiered then
              -- `if !tree_uris.is_empty() { MERKLE_TREE_URIS.save(..) }`
              let uris := match m.uris with
                | some l => if l.isEmpty then none else some l
                | none => none
              .ok ({ base with stages := m.stages, uris := uris }, msgs)
            else
              .ok ({ base with start := m.start, end_ := m.end_, mintPrice := m.mintPrice, perAddr := m.perAddr }, msgs)

/-- `instantiate` of `whitelist-immutable`: `nonpayable`, sort + dedup, at least one address, no address validation -/
def instImmutable (v : Variant) (sender self : Addr) (funds : List Coin) (m : InstMsg) : Except Err (Wl × List Msg) :=
  if !funds.isEmpty then .error .payment
  else
    let l := (WlMembers.sortDedup (WlMembers.keys m.members)).map (fun a => ((a, 0) : Member))
    if l.length < 1 then .error .invalid
    else .ok ({ blankWl v self with numMembers := l.length, members := l.foldl (fun st x => WlMembers.saveM x st) [],
                                    perAddr := m.perAddr, imAdmin := sender, discountBps := m.discountBps }, [])

def instantiateWl (v : Variant) (now : Nat) (sender self : Addr) (funds : List Coin) (m : InstMsg) : Except Err (Wl × List Msg) :=
  match v.store with
  | .list => instListKind v now self funds m
  | .merkle => instMerkle v now self funds m
  | .immutable => instImmutable v sender self funds m

/-! ## execute -/

/-- `execute_update_start_time` (whitelist, whitelist-flex, whitelist-merkletree: textually identical) -/
def updateStartTime (w : Wl) (now : Nat) (sender : Addr) (t : Nat) : Except Err Wl :=
  if !(isAdmin w sender) then .error .unauthorized
  else if now ≥ w.start then .error .tooLate                     -- AlreadyStarted
  else if t > w.end_ then .error .invalid                        -- InvalidStartTime
  else .ok { w with start := (if t < GENESIS then GENESIS else t) }

/-- `execute_update_end_time` -/
def updateEndTime (w : Wl) (now : Nat) (sender : Addr) (t : Nat) : Except Err Wl :=
  if !(isAdmin w sender) then .error .unauthorized
  else if decide (now ≥ w.start) && decide (t > w.end_) then .error .tooLate
  else if t < w.start then .error .invalid
  else .ok { w with end_ := t }

/-- `execute_add_members` of the four list crates -/
def addMembers (w : Wl) (sender : Addr) (stage : Nat) (ms : List Member) : Except Err Wl :=
  if !(isAdmin w sender) then .error .unauthorized
  else
    let k := w.v.kind11
    let cfg : WlMembers.LoopCfg := ⟨true, k == .flex, none, false⟩
    if w.v.tiered then
      match w.smembers[stage]? with
      | none => .error .notFound                                  -- StageNotFound
      | some g =>
        match WlMembers.addLoop cfg w.memberLimit (WlMembers.prep k ms) (w.numMembers, g.members, 0) with
        | .error e => .error e
        | .ok (num, st, added) =>
          .ok { w with numMembers := num,
                       smembers := w.smembers.set stage { g with members := st, count := g.count + added } }
    else
      match WlMembers.addLoop cfg w.memberLimit (WlMembers.prep k ms) (w.numMembers, w.members, 0) with
      | .error e => .error e
      | .ok (num, st, _) => .ok { w with numMembers := num, members := st }

/-- the start the "before it starts" gate of `remove_members` / `remove_stage` compares the clock with -/
def startOf (w : Wl) (stage : Nat) : Option Nat :=
  if w.v.tiered then (w.stages[stage]?).map (·.start) else some w.start

/-- `execute_remove_members` -/
def removeMembers (w : Wl) (now : Nat) (sender : Addr) (stage : Nat) (as : List Addr) : Except Err Wl :=
  if !(isAdmin w sender) then .error .unauthorized
  else
    match startOf w stage with
    | none => .error .notFound
    | some t0 =>
      if now ≥ t0 then .error .tooLate                            -- AlreadyStarted
      else if w.v.tiered then
        match w.smembers[stage]? with
        | none => .error .notFound
        | some g =>
          match WlMembers.removeLoop as (w.numMembers, g.members, 0) with
          | .error e => .error e
          | .ok (num, st, removed) =>
            .ok { w with numMembers := num,
                         smembers := w.smembers.set stage { g with members := st, count := g.count - removed } }
      else
        match WlMembers.removeLoop as (w.numMembers, w.members, 0) with
        | .error e => .error e
        | .ok (num, st, _) => .ok { w with numMembers := num, members := st }

/-- `execute_update_per_address_limit` (whitelist only): 0 is accepted here although `instantiate` refuses it -/
def updatePerAddressLimit (w : Wl) (sender : Addr) (n : Nat) : Except Err Wl :=
  if !(isAdmin w sender) then .error .unauthorized
  else if n > MAX_PAL then .error .invalid
  else .ok { w with perAddr := n }

/-- `execute_increase_member_limit` (no admin check in the code) -/
def increaseMemberLimit (w : Wl) (funds : List Coin) (limit : Nat) : Except Err (Wl × List Msg) :=
  let k := w.v.kind11
  if decide (w.memberLimit ≥ limit) || decide (limit > k.maxMembers) then .error .invalid
  else
    let fee := WlMembers.upgradeFee k w.memberLimit limit
    match mayPay funds NATIVE with
    | .error e => .error e
    | .ok payment =>
      if payment ≠ fee then .error .payment
      else
        match (if fee > 0 then Sg1.checkedFairBurn funds w.self fee none else .ok []) with
        | .error e => .error e
        | .ok msgs => .ok ({ w with memberLimit := limit, g := w.g.fee payment msgs }, msgs)

/-- `execute_update_admins`: `can_modify`, then every new admin must validate -/
def updateAdmins (w : Wl) (sender : Addr) (admins : List Addr) : Except Err Wl :=
  if !(canModify w sender) then .error .unauthorized
  else if !(admins.all validAddr) then .error .invalid
  else .ok { w with admins := admins }

/-- `execute_freeze` -/
def freeze (w : Wl) (sender : Addr) : Except Err Wl :=
  if !(canModify w sender) then .error .unauthorized
  else .ok { w with mutable_ := false }

/-- `execute_add_stage` (tiered-whitelist, tiered-whitelist-flex) -/
def addStage (w : Wl) (now : Nat) (sender : Addr) (st : Stage) (ms : List Member) : Except Err Wl :=
  if !(isAdmin w sender) then .error .unauthorized
  else if !(decide (w.stages.length < 3)) then .error .limit       -- MaxStageCountExceeded
  else
    let stages' := w.stages ++ [Tiered.normStage w.v.kind13 st]
    if !(Tiered.validateStages w.v.kind13 now stages') then .error .invalid
    else
      let k := w.v.kind11
      let l := WlMembers.prep k ms
      match WlMembers.addLoop ⟨true, false, w.whaleCap, false⟩ w.memberLimit l (w.numMembers, [], 0) with
      | .error e => .error e
      | .ok (num, stm, added) =>
        -- MEMBER_COUNT: `members.len()` after dedup (tiered) / `members_added` (tiered-flex)
        let cnt := if k.isFlex then added else l.length
        .ok { w with stages := stages', numMembers := num, smembers := w.smembers ++ [⟨stm, cnt⟩] }

/-- `execute_remove_stage` -/
def removeStage (w : Wl) (now : Nat) (sender : Addr) (id : Nat) : Except Err Wl :=
  if !(isAdmin w sender) then .error .unauthorized
  else
    match w.stages[id]? with
    | none => .error .notFound
    | some st =>
      if now ≥ st.start then .error .tooLate
      else
        let dropped := WlMembers.stageTotal (w.smembers.drop id)
        if w.numMembers < dropped then .error .other               -- `num_members -= 1` is checked arithmetic
        else .ok { w with stages := w.stages.take id, numMembers := w.numMembers - dropped, smembers := w.smembers.take id }

/-- `execute_update_stage_config` (the three tiered crates): `config.stages[stage_id]` panics when out of range -/
def updateStageConfig (w : Wl) (sender : Addr) (u : StageUpdate) : Except Err Wl :=
  if !(isAdmin w sender) then .error .unauthorized
  else
    match w.stages[u.id]? with
    | none => .error .notFound
    | some old =>
      let stages' := w.stages.set u.id (Tiered.applyUpdate w.v.kind13 old u)
      if !(Tiered.validateUpdate w.v.kind13 stages') then .error .invalid
      else .ok { w with stages := stages' }

/-- the contract's `execute` entry point: deserialise, dispatch; returns the new contract state and the response messages.
Funds attached to a message that charges nothing are simply kept (no handler calls `nonpayable`). -/
def handle (w : Wl) (now : Nat) (sender : Addr) (funds : List Coin) (m : ExecMsg) : Except Err (Wl × List Msg) :=
  if !(supports w.v m) then .error .invalid
  else
    let keep (r : Except Err Wl) : Except Err (Wl × List Msg) :=
      match r with
      | .ok w' => .ok (w'.tipped funds, [])
      | .error e => .error e
    match m with
    | .updateStartTime t => keep (updateStartTime w now sender t)
    | .updateEndTime t => keep (updateEndTime w now sender t)
    | .addMembers stage ms => keep (addMembers w sender stage ms)
    | .removeMembers stage as => keep (removeMembers w now sender stage as)
    | .updatePerAddressLimit n => keep (updatePerAddressLimit w sender n)
    | .increaseMemberLimit n => increaseMemberLimit w funds n
    | .updateAdmins admins => keep (updateAdmins w sender admins)
    | .freeze => keep (freeze w sender)
    | .addStage st ms => keep (addStage w now sender st ms)
    | .removeStage id => keep (removeStage w now sender id)
    | .updateStageConfig u => keep (updateStageConfig w sender u)
    | .unknown => .error .invalid

/-! ## Transactions -/

/-- one `execute` transaction: the bank moves the attached funds to the contract, the contract runs, its response
messages are executed; any failure reverts everything -/
def execute (s : State) (sender : Addr) (funds : List Coin) (m : ExecMsg) : Except Err State :=
  match s.wl with
  | none => .error .notFound
  | some w =>
    match s.bank.sendFunds sender w.self funds with
    | none => .error .payment
    | some b1 =>
      match handle w s.now sender funds m with
      | .error e => .error e
      | .ok (w', msgs) =>
        match MintPay.applyMsgs w.self b1 msgs with
        | none => .error .payment
        | some b2 => .ok { s with bank := b2, wl := some w' }

/-- one `instantiate` transaction; on success the new contract becomes the observed one -/
def instantiateTx (s : State) (v : Variant) (sender : Addr) (funds : List Coin) (self : Addr) (m : InstMsg) : Except Err State :=
  match s.bank.sendFunds sender self funds with
  | none => .error .payment
  | some b1 =>
    match instantiateWl v s.now sender self funds m with
    | .error e => .error e
    | .ok (w, msgs) =>
      match MintPay.applyMsgs self b1 msgs with
      | none => .error .payment
      | some b2 => .ok { s with bank := b2, wl := some w }

def step (s : State) : Op → Except Err State
  | .setTime t => .ok { s with now := t }
  | .fund a c => .ok { s with bank := s.bank.fund a c }
  | .instantiate v sender funds self m => instantiateTx s v sender funds self m
  | .exec sender funds m => execute s sender funds m

/-- transactional semantics: a failed transaction leaves the state unchanged -/
def step' (s : State) (op : Op) : State :=
  match step s op with
  | .ok s' => s'
  | .error _ => s

def run (s : State) (ops : List Op) : State := ops.foldl step' s

/-- the composite's own verdict on an operation -/
def accepted (s : State) (op : Op) : Bool :=
  match step s op with
  | .ok _ => true
  | .error _ => false

/-! ## Queries (`none` = the query fails or is no variant of the crate's `QueryMsg`) -/

def activeIdx (w : Wl) (now : Nat) : Option Nat := Tiered.activeIdx w.stages now
def activeStage (w : Wl) (now : Nat) : Option Stage := Tiered.activeStage w.stages now

/-- `HasStarted {}` -/
def qHasStarted (w : Wl) (now : Nat) : Option Bool :=
  if w.v.isImmutable then none
  else if w.v.tiered then
    some (match w.stages with | [] => false | s0 :: _ => decide (now ≥ s0.start))
  else some (decide (now ≥ w.start))

/-- `HasEnded {}` -/
def qHasEnded (w : Wl) (now : Nat) : Option Bool :=
  if w.v.isImmutable then none
  else if w.v.tiered then
    some (match w.stages.getLast? with | none => false | some l => decide (now ≥ l.stop))
  else some (decide (now ≥ w.end_))

/-- `IsActive {}` -/
def qIsActive (w : Wl) (now : Nat) : Option Bool :=
  if w.v.isImmutable then none
  else if w.v.tiered then some (activeStage w now).isSome
  else some (decide (now ≥ w.start) && decide (now < w.end_))

/-- `ConfigResponse` of the six admin-managed crates. `pal = none`: the crate's response has no `per_address_limit`;
`whale = none`: no `whale_cap` field, `some none`: `null`. -/
structure ConfigR where
  num : Nat
  pal : Option Nat
  limit : Nat
  start : Nat
  stop : Nat
  price : Coin
  active : Bool
  whale : Option (Option Nat)

/-- `Config {}` (not the immutable crate's, which is `qImConfig`) -/
def qConfig (w : Wl) (now : Nat) : Option ConfigR :=
  if w.v.isImmutable then none
  else
    let num := if w.v.isMerkle then 0 else w.numMembers
    let limit := if w.v.isMerkle then 0 else w.memberLimit
    let whale : Option (Option Nat) := if w.v.flex then some w.whaleCap else none
    let pal (n : Nat) : Option Nat := if w.v.flex then none else some n
    if w.v.tiered then
      let mk (st : Stage) (act : Bool) : ConfigR :=
        ⟨num, pal st.pal, limit, st.start, st.stop, ⟨st.denom, st.price⟩, act, whale⟩
      match activeStage w now with
      | some st => some (mk st true)
      | none =>
        match w.stages with
        | [] => some ⟨num, pal 0, limit, 0, 0, ⟨NATIVE, 0⟩, false, whale⟩
        | s0 :: _ => if now < s0.start then some (mk s0 false) else some (mk (w.stages.getLast?.getD s0) false)
    else
      some ⟨num, pal w.perAddr, limit, w.start, w.end_, w.mintPrice,
            decide (now ≥ w.start) && decide (now < w.end_), whale⟩

/-- `ActiveStage {}` (tiered kinds): `Option<Stage>` -/
def qActiveStage (w : Wl) (now : Nat) : Option (Option Stage) :=
  if w.v.isImmutable || !w.v.tiered then none else some (activeStage w now)

/-- `ActiveStageId {}`: `map_or(0, |i| i + 1)` -/
def qActiveStageId (w : Wl) (now : Nat) : Option Nat :=
  if w.v.isImmutable || !w.v.tiered then none
  else some (match activeIdx w now with | some i => i + 1 | none => 0)

/-- the map the `Members` query ranges over -/
def mapOf (w : Wl) (stage : Nat) : List Member :=
  if w.v.tiered then (match w.smembers[stage]? with | some g => g.members | none => []) else w.members

/-- `Members {start_after, limit[, stage_id]}` (list kinds) -/
def qMembers (w : Wl) (stage : Nat) (startAfter : Option Addr) (limit : Option Nat) : Option (List Member) :=
  if !w.v.isList then none
  else
    let k := w.v.kind11
    let lim := min (limit.getD k.pageDefault) k.pageMax
    match startAfter with
    | none => some ((mapOf w stage).take lim)
    | some a => if validAddr a then some (((mapOf w stage).filter (fun m => decide (a < m.1))).take lim) else none

/-- `HasMember {member}` of the list kinds (tiered: the ACTIVE stage's map; no active stage ⇒ `false`) -/
def qHasMember (w : Wl) (now : Nat) (a : Addr) : Option Bool :=
  if !w.v.isList then none
  else if !validAddr a then none
  else if w.v.tiered then
    match activeIdx w now with
    | some i => some (WlMembers.hasM a (mapOf w i))
    | none => some false
  else some (WlMembers.hasM a w.members)

/-- `Member {member}` (flex kinds) → mint count -/
def qMember (w : Wl) (now : Nat) (a : Addr) : Option Nat :=
  if !w.v.isList || !w.v.flex || !validAddr a then none
  else if w.v.tiered then
    match activeIdx w now with
    | some i => WlMembers.getM a (mapOf w i)
    | none => none
  else WlMembers.getM a w.members

/-- `StageMemberInfo {stage_id, member}` → `(is_member, per_address_limit)`: tiered-whitelist indexes
`config.stages[stage_id]` (panic) and reports the stage's limit; tiered-whitelist-flex reports the member's own
`mint_count` (0 when absent) and never fails -/
def qStageMemberInfo (w : Wl) (stage : Nat) (a : Addr) : Option (Bool × Nat) :=
  if !w.v.isList || !w.v.tiered || !validAddr a then none
  else if w.v.flex then
    match WlMembers.getM a (mapOf w stage) with
    | some c => some (true, c)
    | none => some (false, 0)
  else
    match w.stages[stage]? with
    | none => none
    | some st => some (WlMembers.hasM a (mapOf w stage), st.pal)

/-- `AllStageMemberInfo {member}`: one answer per existing stage -/
def qAllStageMemberInfo (w : Wl) (a : Addr) : Option (List (Bool × Nat)) :=
  if !w.v.isList || !w.v.tiered || !validAddr a then none
  else (List.range w.stages.length).mapM fun i => qStageMemberInfo w i a

/-- `Stage {stage_id}` of the tiered list kinds → `(stage, member_count)` -/
def qStage (w : Wl) (id : Nat) : Option (Stage × Nat) :=
  if !w.v.isList || !w.v.tiered then none
  else (w.stages[id]?).map fun st => (st, ((w.smembers[id]?).map (·.count)).getD 0)

/-- `Stages {}` of the tiered list kinds: error when there is no stage -/
def qStages (w : Wl) : Option (List (Stage × Nat)) :=
  if !w.v.isList || !w.v.tiered then none
  else if w.stages.isEmpty then none
  else some ((List.range w.stages.length).filterMap fun i => qStage w i)

/-- `Stage {stage_id}` of tiered-whitelist-merkletree → `(stage, merkle_root)`; a missing root is an index panic -/
def qStageMerkle (w : Wl) (id : Nat) : Option (Stage × List Nat) :=
  if !w.v.isMerkle || !w.v.tiered then none
  else
    match w.stages[id]?, w.roots[id]? with
    | some st, some r => some (st, r)
    | _, _ => none

/-- `Stages {}` of tiered-whitelist-merkletree -/
def qStagesMerkle (w : Wl) : Option (List (Stage × List Nat)) :=
  if !w.v.isMerkle || !w.v.tiered then none
  else if w.stages.isEmpty then none
  else (List.range w.stages.length).mapM fun i => qStageMerkle w i

/-- `AdminList {}` -/
def qAdminList (w : Wl) : Option (List Addr × Bool) :=
  if w.v.isImmutable then none else some (w.admins, w.mutable_)

/-- `CanExecute {sender, ..}` -/
def qCanExecute (w : Wl) (a : Addr) : Option Bool :=
  if w.v.isImmutable || !validAddr a then none else some (isAdmin w a)

/-- `MerkleRoot {}` / `MerkleRoots {}` -/
def qMerkleRoots (w : Wl) : Option (List (List Nat)) := if w.v.isMerkle then some w.roots else none

/-- `MerkleTreeURI {}` (always `null`: the crate never stores it) / `MerkleTreeURIs {}` -/
def qMerkleTreeUris (w : Wl) : Option (Option (List Nat)) := if w.v.isMerkle then some w.uris else none

/-- `HasMember {member, proof_hashes}` of the Merkle kinds: single-stage: against the root; tiered: against the ACTIVE
stage's root, an error without an active stage, an index panic when the root list is shorter -/
def qHasMemberMerkle (w : Wl) (now : Nat) (member : Merkle.Bytes) (proof : List (List Nat)) : Option Bool :=
  if !w.v.isMerkle then none
  else if w.v.tiered then
    match activeIdx w now with
    | none => none
    | some i =>
      match w.roots[i]? with
      | none => none
      | some r => Merkle.hasMember w.v.hash w.v.digest r member proof
  else
    match w.roots with
    | [r] => Merkle.hasMember w.v.hash w.v.digest r member proof
    | _ => none

/-- immutable: `Config {}` → `(admin, per_address_limit, mint_discount_bps)` -/
def qImConfig (w : Wl) : Option (Addr × Nat × Option Nat) :=
  if w.v.isImmutable then some (w.imAdmin, w.perAddr, w.discountBps) else none
/-- immutable: `IncludesAddress {address}` (no validation: keys are raw strings) -/
def qIncludesAddress (w : Wl) (a : Addr) : Option Bool :=
  if w.v.isImmutable then some (WlMembers.hasM a w.members) else none
/-- immutable: `Admin {}` -/
def qImAdmin (w : Wl) : Option Addr := if w.v.isImmutable then some w.imAdmin else none
/-- immutable: `AddressCount {}` -/
def qAddressCount (w : Wl) : Option Nat := if w.v.isImmutable then some w.numMembers else none
/-- immutable: `PerAddressLimit {}` -/
def qPerAddressLimit (w : Wl) : Option Nat := if w.v.isImmutable then some w.perAddr else none

end LP.WF
