import LaunchpadModel.Model.Basic
/-!
# C05 — who may send what: the privilege table and the authorisation state machine

This file is the *enumeration* behind property C05.  It contains

* the contract kinds of the workspace (`Kind`: 4 factories, 11 minters, 4 collections, 7 whitelists, splits,
  and the cw4-group contract the splits contract consults) and every `execute` message kind (`MsgKind`,
  one constructor per JSON variant name; `update_ownership` is split into its three `cw_ownable` actions and
  the two sudo-only messages `update_params` / `update_status` are listed so that "a user sends the sudo
  message through `execute`" is a row of the table too; `other` stands for any variant the table does not list —
  default-deny, see `principal`);
* `principal : Kind → MsgKind → PrincipalClass` — read off the `execute` dispatch of every contract
  (see /verif/docs/C05.md for the line-by-line map);
* the authorisation-relevant state `AuthState` (minter admin, cw_ownable owner / pending owner / expiry,
  collection creator, frozen flag, whitelist admin list + mutable flag, splits admin, cw4 members and admin,
  token-merge source collections, and — as opaque version numbers — factory params and minter status);
* `authorised : AuthState → Caller → PrincipalClass → Bool` — the guard each handler evaluates;
* `step` — the guard `if ¬authorised then err` in front of *every* message kind, and behind it the effect on
  the authorisation state: hand-overs (`update_collection_info{creator}`, cw_ownable transfer / accept /
  renounce, whitelist `update_admins` / `freeze`, splits and group `update_admin`, group `update_members`)
  are modelled exactly; every other message is "some effect outside the authorisation state", whose
  non-authorisation preconditions (payment, timing, sold-out …) arrive as the witnessed boolean `w` taken from
  the implementation's outcome (DESIGN §3.4: aspect model).

Core Lean only (the driver links this file).
-/
namespace LP.Priv

/-! ## Contract kinds -/

inductive FactoryKind where
  | base | vending | openEdition | tokenMerge
deriving DecidableEq, Repr

inductive MinterKind where
  | vending | vendingFeatured | vendingFlex | vendingFlexFeatured | vendingMerkle | vendingMerkleFeatured
  | openEdition | openEditionFlex | openEditionMerkle | tokenMerge | base
deriving DecidableEq, Repr

inductive CollKind where
  | base | updatable | nt | metadataOnchain
deriving DecidableEq, Repr

inductive WlKind where
  | plain | flex | tiered | tieredFlex | merkle | tieredMerkle | immutable
deriving DecidableEq, Repr

inductive Kind where
  | factory (f : FactoryKind)
  | minter (m : MinterKind)
  | collection (c : CollKind)
  | whitelist (w : WlKind)
  | splits
  /-- cw4-group (external crate): the member list the splits contract consults -/
  | group
deriving DecidableEq, Repr

inductive MinterFamily where
  | vending | openEdition | tokenMerge | base
deriving DecidableEq, Repr

def MinterKind.family : MinterKind → MinterFamily
  | .vending | .vendingFeatured | .vendingFlex | .vendingFlexFeatured | .vendingMerkle | .vendingMerkleFeatured => .vending
  | .openEdition | .openEditionFlex | .openEditionMerkle => .openEdition
  | .tokenMerge => .tokenMerge
  | .base => .base

def FactoryKind.all : List FactoryKind := [.base, .vending, .openEdition, .tokenMerge]
def MinterKind.all : List MinterKind :=
  [.vending, .vendingFeatured, .vendingFlex, .vendingFlexFeatured, .vendingMerkle, .vendingMerkleFeatured,
   .openEdition, .openEditionFlex, .openEditionMerkle, .tokenMerge, .base]
def CollKind.all : List CollKind := [.base, .updatable, .nt, .metadataOnchain]
def WlKind.all : List WlKind := [.plain, .flex, .tiered, .tieredFlex, .merkle, .tieredMerkle, .immutable]

def Kind.all : List Kind :=
  FactoryKind.all.map .factory ++ MinterKind.all.map .minter ++ CollKind.all.map .collection
    ++ WlKind.all.map .whitelist ++ [.splits, .group]

/-! ## Message kinds (JSON variant names of every `ExecuteMsg`, plus the two sudo messages) -/

inductive MsgKind where
  -- minters
  | mint | setWhitelist | purge | updateMintPrice | updateStartTime | updateEndTime | updateStartTradingTime
  | updatePerAddressLimit | mintTo | mintFor | shuffle | burnRemaining | updateDiscountPrice | removeDiscountPrice
  | receiveNft
  -- collections (cw721 + sg721 + updatable)
  | transferNft | sendNft | approve | revoke | approveAll | revokeAll | burn | extension
  | updateCollectionInfo | freezeCollectionInfo
  | transferOwnership | acceptOwnership | renounceOwnership
  | freezeTokenMetadata | updateTokenMetadata | enableUpdatable
  -- whitelists
  | addMembers | removeMembers | increaseMemberLimit | updateAdmins | freeze
  | addStage | removeStage | updateStageConfig
  -- splits / cw4-group
  | updateAdmin | distribute | updateMembers | addHook | removeHook
  -- factories
  | createMinter
  -- sudo-only messages (sent through `execute` they do not even parse)
  | updateParams | updateStatus
  /-- any `ExecuteMsg` variant this table does not know (found at run time in the repo's JSON schema): default-deny —
      it is treated as reserved to the contract's configuration principal (`principal` below), so a new public
      message is reported with a failing input instead of being invisible -/
  | other
deriving DecidableEq, Repr

def MsgKind.all : List MsgKind :=
  [.mint, .setWhitelist, .purge, .updateMintPrice, .updateStartTime, .updateEndTime, .updateStartTradingTime,
   .updatePerAddressLimit, .mintTo, .mintFor, .shuffle, .burnRemaining, .updateDiscountPrice, .removeDiscountPrice,
   .receiveNft,
   .transferNft, .sendNft, .approve, .revoke, .approveAll, .revokeAll, .burn, .extension,
   .updateCollectionInfo, .freezeCollectionInfo, .transferOwnership, .acceptOwnership, .renounceOwnership,
   .freezeTokenMetadata, .updateTokenMetadata, .enableUpdatable,
   .addMembers, .removeMembers, .increaseMemberLimit, .updateAdmins, .freeze, .addStage, .removeStage, .updateStageConfig,
   .updateAdmin, .distribute, .updateMembers, .addHook, .removeHook,
   .createMinter, .updateParams, .updateStatus, .other]

/-! ## Principal classes -/

inductive PrincipalClass where
  /-- `info.sender == config.extension.admin` of the minter (fixed at creation = the creator then) -/
  | minterAdmin
  /-- `cw_ownable` owner of the collection (its minter contract) — `assert_minter_owner` -/
  | collMinter
  /-- `cw_ownable` pending owner (may only `accept_ownership`) -/
  | pendingOwner
  /-- `collection_info.creator == info.sender` (read live from the collection) -/
  | creator
  /-- whitelist `can_execute`: member of the admin list -/
  | wlAdmin
  /-- whitelist `can_modify`: `mutable ∧` member of the admin list -/
  | wlAdminMutable
  /-- `cw_controllers::Admin::execute_update_admin`: the splits admin (nobody when unset) -/
  | splitsAdmin
  /-- splits `can_distribute`: the admin when set, else any cw4 group member -/
  | splitsAdminElseMember
  /-- cw4-group admin -/
  | groupAdmin
  /-- token-merge `receive_nft`: the sender must be one of the configured source collections -/
  | mergeSource
  /-- no sender check (public / paid / token-level permission outside C05) -/
  | anyone
  /-- the contract kind has no such message (does not parse) or the handler always fails (`todo!()`) -/
  | nobody
  /-- instantiate: the sender must be a contract -/
  | contractOnly
  /-- only reachable through the `sudo` entry point (governance) -/
  | sudoOnly
deriving DecidableEq, Repr

open PrincipalClass MsgKind

def minterPrincipal : MinterFamily → MsgKind → PrincipalClass
  | .vending, m =>
    match m with
    | .mint | .purge | .shuffle => anyone
    | .setWhitelist | .updateMintPrice | .updateStartTime | .updateStartTradingTime | .updatePerAddressLimit
    | .mintTo | .mintFor | .burnRemaining | .updateDiscountPrice | .removeDiscountPrice => minterAdmin
    | .updateStatus => sudoOnly
    | .other => minterAdmin
    | _ => nobody
  | .openEdition, m =>
    match m with
    | .mint | .purge => anyone
    | .setWhitelist | .updateMintPrice | .updateStartTime | .updateEndTime | .updateStartTradingTime
    | .updatePerAddressLimit | .mintTo | .burnRemaining => minterAdmin
    | .updateStatus => sudoOnly
    | .other => minterAdmin
    | _ => nobody
  | .tokenMerge, m =>
    match m with
    | .receiveNft => mergeSource
    | .purge | .shuffle => anyone
    | .updateStartTime | .updateStartTradingTime | .updatePerAddressLimit | .mintTo | .mintFor | .burnRemaining => minterAdmin
    | .updateStatus => sudoOnly
    | .other => minterAdmin
    | _ => nobody
  | .base, m =>
    match m with
    | .mint | .updateStartTradingTime => creator
    | .updateStatus => sudoOnly
    | .other => creator
    | _ => nobody

def collPrincipal : CollKind → MsgKind → PrincipalClass
  | .nt, m =>
    match m with
    | .mint => collMinter
    | .burn => anyone
    | .updateCollectionInfo | .freezeCollectionInfo => creator
    | .other => creator
    | _ => nobody
  | k, m =>
    match m with
    | .transferNft | .sendNft | .approve | .revoke | .approveAll | .revokeAll | .burn => anyone
    | .mint | .updateStartTradingTime => collMinter
    | .updateCollectionInfo | .freezeCollectionInfo => creator
    | .extension => nobody
    | .transferOwnership | .renounceOwnership => if k = .updatable then nobody else collMinter
    | .acceptOwnership => if k = .updatable then nobody else pendingOwner
    | .freezeTokenMetadata | .updateTokenMetadata | .enableUpdatable => if k = .updatable then creator else nobody
    | .other => creator
    | _ => nobody

def wlPrincipal : WlKind → MsgKind → PrincipalClass
  | .immutable, _ => nobody
  | k, m =>
    match m with
    | .updateAdmins | .freeze => wlAdminMutable
    | .updateStartTime | .updateEndTime => if k = .plain ∨ k = .flex ∨ k = .merkle then wlAdmin else nobody
    | .addMembers | .removeMembers => if k = .merkle ∨ k = .tieredMerkle then nobody else wlAdmin
    | .updatePerAddressLimit => if k = .plain then wlAdmin else nobody
    | .increaseMemberLimit => if k = .merkle ∨ k = .tieredMerkle then nobody else anyone
    | .addStage | .removeStage => if k = .tiered ∨ k = .tieredFlex then wlAdmin else nobody
    | .updateStageConfig => if k = .tiered ∨ k = .tieredFlex ∨ k = .tieredMerkle then wlAdmin else nobody
    | .other => wlAdmin
    | _ => nobody

/-- THE TABLE: (contract kind, message kind) ↦ who may send it. -/
def principal : Kind → MsgKind → PrincipalClass
  | .factory _, m => match m with
    | .createMinter => anyone
    | .updateParams => sudoOnly
    | _ => nobody
  | .minter k, m => minterPrincipal k.family m
  | .collection k, m => collPrincipal k m
  | .whitelist k, m => wlPrincipal k m
  | .splits, m => match m with
    | .updateAdmin => splitsAdmin
    | .distribute => splitsAdminElseMember
    | .other => splitsAdmin
    | _ => nobody
  | .group, m => match m with
    | .updateAdmin | .updateMembers | .addHook | .removeHook => groupAdmin
    | .other => groupAdmin
    | _ => nobody

/-- who may `instantiate` a contract of this kind -/
def instPrincipal : Kind → PrincipalClass
  | .minter _ | .collection _ => contractOnly
  | _ => anyone

/-- some caller can be authorised for a row of this class through `execute` -/
def reservable : PrincipalClass → Bool
  | .anyone | .nobody | .sudoOnly => false
  | _ => true

/-- the principal of a row of this class can change hands (hand-over messages), or — `minterAdmin` — can come apart from
the collection creator it was equal to at creation: the guard has to keep working afterwards -/
def handsOver : PrincipalClass → Bool
  | .minterAdmin | .creator | .collMinter | .wlAdmin | .wlAdminMutable | .splitsAdmin | .splitsAdminElseMember | .groupAdmin => true
  | _ => false

/-- a message kind is *privileged* on a contract kind when the table reserves it -/
def privileged (k : Kind) (m : MsgKind) : Bool := principal k m != anyone

/-! ## Authorisation state -/

structure AuthState where
  /-- block time, nanoseconds (only the cw_ownable transfer expiry looks at it) -/
  now : Nat
  /-- `Config.extension.admin` of the minter -/
  minterAdmin : Addr
  /-- cw_ownable `owner` of the collection -/
  collOwner : Option Addr
  collPending : Option Addr
  /-- `Expiration::AtTime` of the pending transfer -/
  collPendingExpiry : Option Nat
  /-- `CollectionInfo.creator` -/
  creator : Addr
  /-- `frozen_collection_info` -/
  collFrozen : Bool
  /-- whitelist `ADMIN_LIST.admins` (stored order) -/
  wlAdmins : List Addr
  /-- whitelist `ADMIN_LIST.mutable` -/
  wlMutable : Bool
  /-- splits `ADMIN` -/
  splitsAdmin : Option Addr
  /-- cw4 group `MEMBERS` keys -/
  members : List Addr
  /-- cw4 group `ADMIN` -/
  groupAdmin : Option Addr
  /-- token-merge `mint_tokens[*].collection` -/
  mergeSources : List Addr
  /-- factory `Params` — opaque version id (interned by the harness) -/
  params : Nat
  /-- minter `Status` — three flags packed into a number -/
  status : Nat
deriving DecidableEq, Repr

structure Caller where
  addr : Addr
  /-- `WasmQuery::ContractInfo{addr}` succeeds -/
  isContract : Bool
deriving DecidableEq, Repr

/-- The guard each handler evaluates on `info.sender`. -/
def authorised (s : AuthState) (c : Caller) : PrincipalClass → Bool
  | .minterAdmin => c.addr == s.minterAdmin
  | .collMinter => s.collOwner == some c.addr
  | .pendingOwner => s.collPending == some c.addr
  | .creator => c.addr == s.creator
  | .wlAdmin => s.wlAdmins.contains c.addr
  | .wlAdminMutable => s.wlMutable && s.wlAdmins.contains c.addr
  | .splitsAdmin => s.splitsAdmin == some c.addr
  | .splitsAdminElseMember =>
    match s.splitsAdmin with
    | some a => a == c.addr
    | none => s.members.contains c.addr
  | .groupAdmin => s.groupAdmin == some c.addr
  | .mergeSource => s.mergeSources.contains c.addr
  | .anyone => true
  | .nobody => false
  | .contractOnly => c.isContract
  | .sudoOnly => false

/-! ## Operations -/

/-- The arguments that matter for the authorisation state (everything else is behind the witness). -/
structure Args where
  /-- `update_collection_info.creator` -/
  newCreator : Option Addr := none
  /-- `transfer_ownership.new_owner` -/
  newOwner : Addr := 0
  /-- `transfer_ownership.expiry` (`at_time`, nanoseconds) -/
  expiry : Option Nat := none
  /-- whitelist `update_admins.admins` -/
  admins : List Addr := []
  /-- splits / group `update_admin.admin` -/
  newAdmin : Option Addr := none
  /-- group `update_members.add` (addresses) -/
  add : List Addr := []
  /-- group `update_members.remove` -/
  remove : List Addr := []
deriving DecidableEq, Repr

inductive Op where
  /-- the block time moves -/
  | tick (t : Nat)
  /-- `execute` by `c` of message kind `m` on the contract of kind `k`; `w` = the implementation's
      non-authorisation preconditions held (ignored for the exactly-modelled hand-over messages) -/
  | exec (c : Caller) (k : Kind) (m : MsgKind) (a : Args) (w : Bool)
  /-- `instantiate` of a fresh contract of kind `k` sent by `c` -/
  | inst (c : Caller) (k : Kind) (w : Bool)
  /-- governance: the `sudo` entry point; `v` = the new params version / status flags -/
  | sudo (k : Kind) (m : MsgKind) (v : Nat) (w : Bool)
deriving DecidableEq, Repr

/-- cw4-group `update_members`: add, then remove -/
def updMembers (ms add remove : List Addr) : List Addr :=
  (ms ++ add.filter fun a => !ms.contains a).filter fun a => !remove.contains a

/-- `Expiration::AtTime(t).is_expired(block)` = `block.time ≥ t` -/
def transferExpired (s : AuthState) : Bool :=
  match s.collPendingExpiry with
  | some t => decide (t ≤ s.now)
  | none => false

/-- What an *authorised* message does to the authorisation state (`none` = the handler failed). -/
def effect (s : AuthState) (k : Kind) (m : MsgKind) (a : Args) (w : Bool) : Option AuthState :=
  match k, m with
  | .collection _, .updateCollectionInfo =>
    if s.collFrozen then none else some { s with creator := a.newCreator.getD s.creator }
  | .collection _, .freezeCollectionInfo => some { s with collFrozen := true }
  | .collection _, .transferOwnership =>
    some { s with collPending := some a.newOwner, collPendingExpiry := a.expiry }
  | .collection _, .acceptOwnership =>
    if transferExpired s then none
    else some { s with collOwner := s.collPending, collPending := none, collPendingExpiry := none }
  | .collection _, .renounceOwnership =>
    some { s with collOwner := none, collPending := none, collPendingExpiry := none }
  | .whitelist _, .updateAdmins => some { s with wlAdmins := a.admins }
  | .whitelist _, .freeze => some { s with wlMutable := false }
  | .splits, .updateAdmin => some { s with splitsAdmin := a.newAdmin }
  | .group, .updateAdmin => some { s with groupAdmin := a.newAdmin }
  | .group, .updateMembers => some { s with members := updMembers s.members a.add a.remove }
  | _, _ => if w then some s else none

/-- One transaction. `none` = error (and, transactions being atomic, nothing changed: see `step'`). -/
def step (s : AuthState) : Op → Option AuthState
  | .tick t => some { s with now := t }
  | .exec c k m a w =>
    if !authorised s c (principal k m) then none else effect s k m a w
  | .inst c k w =>
    if !authorised s c (instPrincipal k) then none else if w then some s else none
  | .sudo k m v w =>
    if !w then none else
    match k, m with
    | .factory _, .updateParams => some { s with params := v }
    | .minter _, .updateStatus => some { s with status := v }
    | _, _ => none

/-- transactional semantics: a failed op leaves the state unchanged -/
def step' (s : AuthState) (op : Op) : AuthState := (step s op).getD s

def run (s : AuthState) (ops : List Op) : AuthState := ops.foldl step' s

def Op.isSudo : Op → Bool
  | .sudo .. => true
  | _ => false

/-! ## Names (line protocol) -/

def FactoryKind.name : FactoryKind → String
  | .base => "f.base" | .vending => "f.vending" | .openEdition => "f.oe" | .tokenMerge => "f.tm"
def MinterKind.name : MinterKind → String
  | .vending => "m.vending" | .vendingFeatured => "m.vending_featured" | .vendingFlex => "m.vending_flex"
  | .vendingFlexFeatured => "m.vending_flex_featured" | .vendingMerkle => "m.vending_merkle"
  | .vendingMerkleFeatured => "m.vending_merkle_featured" | .openEdition => "m.oe" | .openEditionFlex => "m.oe_flex"
  | .openEditionMerkle => "m.oe_merkle" | .tokenMerge => "m.tm" | .base => "m.base"
def CollKind.name : CollKind → String
  | .base => "c.base" | .updatable => "c.updatable" | .nt => "c.nt" | .metadataOnchain => "c.onchain"
def WlKind.name : WlKind → String
  | .plain => "w.plain" | .flex => "w.flex" | .tiered => "w.tiered" | .tieredFlex => "w.tiered_flex"
  | .merkle => "w.merkle" | .tieredMerkle => "w.tiered_merkle" | .immutable => "w.immutable"
def Kind.name : Kind → String
  | .factory f => f.name | .minter m => m.name | .collection c => c.name | .whitelist w => w.name
  | .splits => "splits" | .group => "group"

def MsgKind.name : MsgKind → String
  | .mint => "mint" | .setWhitelist => "set_whitelist" | .purge => "purge" | .updateMintPrice => "update_mint_price"
  | .updateStartTime => "update_start_time" | .updateEndTime => "update_end_time"
  | .updateStartTradingTime => "update_start_trading_time" | .updatePerAddressLimit => "update_per_address_limit"
  | .mintTo => "mint_to" | .mintFor => "mint_for" | .shuffle => "shuffle" | .burnRemaining => "burn_remaining"
  | .updateDiscountPrice => "update_discount_price" | .removeDiscountPrice => "remove_discount_price"
  | .receiveNft => "receive_nft"
  | .transferNft => "transfer_nft" | .sendNft => "send_nft" | .approve => "approve" | .revoke => "revoke"
  | .approveAll => "approve_all" | .revokeAll => "revoke_all" | .burn => "burn" | .extension => "extension"
  | .updateCollectionInfo => "update_collection_info" | .freezeCollectionInfo => "freeze_collection_info"
  | .transferOwnership => "transfer_ownership" | .acceptOwnership => "accept_ownership"
  | .renounceOwnership => "renounce_ownership" | .freezeTokenMetadata => "freeze_token_metadata"
  | .updateTokenMetadata => "update_token_metadata" | .enableUpdatable => "enable_updatable"
  | .addMembers => "add_members" | .removeMembers => "remove_members" | .increaseMemberLimit => "increase_member_limit"
  | .updateAdmins => "update_admins" | .freeze => "freeze" | .addStage => "add_stage" | .removeStage => "remove_stage"
  | .updateStageConfig => "update_stage_config"
  | .updateAdmin => "update_admin" | .distribute => "distribute" | .updateMembers => "update_members"
  | .addHook => "add_hook" | .removeHook => "remove_hook"
  | .createMinter => "create_minter" | .updateParams => "update_params" | .updateStatus => "update_status"
  | .other => "other"

def PrincipalClass.name : PrincipalClass → String
  | .minterAdmin => "minter_admin" | .collMinter => "coll_minter" | .pendingOwner => "pending_owner"
  | .creator => "creator" | .wlAdmin => "wl_admin" | .wlAdminMutable => "wl_admin_mutable"
  | .splitsAdmin => "splits_admin" | .splitsAdminElseMember => "splits_admin_else_member"
  | .groupAdmin => "group_admin" | .mergeSource => "merge_source" | .anyone => "anyone" | .nobody => "nobody"
  | .contractOnly => "contract_only" | .sudoOnly => "sudo_only"

def Kind.parse (s : String) : Option Kind := Kind.all.find? fun k => k.name == s
def MsgKind.parse (s : String) : Option MsgKind := MsgKind.all.find? fun m => m.name == s

end LP.Priv
