/-!
# Supply accounting of the 11 minters (aspect model of property C01) — core Lean only.

What is modelled is the *mechanism state* the property relies on and nothing else:

* fixed-supply family (6 vending variants + token-merge minter; their supply code is identical):
  `MINTABLE_TOKEN_POSITIONS` (`pos`, ascending by position), `MINTABLE_NUM_TOKENS` (`mintable`),
  plus ghost fields `minted` (log of ids handed to the collection, newest first) and `burned`;
* sequential family (3 open-edition variants + base minter): `TOKEN_INDEX`, `TOTAL_MINT_COUNT`,
  `MINTABLE_NUM_TOKENS : Option`, plus ghost fields `cap`, `burned`, `issued`;
* the collection (sg721-base on cw721-base): the token map (`toks`: id ↦ owner) and `token_count`.

Everything the property is silent about (payment, per-address limits, clock, whitelist, authorisation)
is an environment input: every op carries `gate : Bool` ("all those checks passed").  Randomness is a
*checked witness*: `mint` carries the position the implementation picked, `shuffle` the resulting id list,
`init` the initial permutation; the model rejects a witness that is not a current position / a permutation.
A failed op leaves the state unchanged (`step'`).
-/
namespace LP.Supply

/-! ## Collection side (sg721-base `mint`, cw721-base `burn` / `transfer_nft`) -/

structure Coll where
  /-- (token id, owner), newest first -/
  toks : List (Nat × Nat)
  /-- cw721-base `token_count` (what `NumTokens` returns) -/
  count : Nat
deriving Repr

def Coll.empty : Coll := ⟨[], 0⟩

def Coll.ids (c : Coll) : List Nat := c.toks.map (·.1)

/-- sg721-base `mint`: `tokens.update(id, |old| match old { Some(_) => Err(Claimed), None => Ok(token) })`,
then `increment_tokens` -/
def Coll.mint (c : Coll) (id owner : Nat) : Option Coll :=
  if id ∈ c.ids then none else some ⟨(id, owner) :: c.toks, c.count + 1⟩

/-- cw721-base `burn`: token must exist (authorisation is a gate), `tokens.remove`, `decrement_tokens` -/
def Coll.burn (c : Coll) (id : Nat) : Option Coll :=
  if id ∈ c.ids then some ⟨c.toks.filter (fun e => e.1 != id), c.count - 1⟩ else none

/-- cw721-base `transfer_nft` / `send_nft`: token must exist, owner replaced -/
def Coll.transfer (c : Coll) (id to : Nat) : Option Coll :=
  if id ∈ c.ids then some ⟨c.toks.map (fun e => (e.1, if e.1 == id then to else e.2)), c.count⟩ else none

def Coll.ownerOf (c : Coll) (id : Nat) : Option Nat := (c.toks.find? (fun e => e.1 == id)).map (·.2)

/-! ## Fixed-supply family -/

structure Fixed where
  /-- `config.extension.num_tokens` -/
  n : Nat
  /-- `MINTABLE_TOKEN_POSITIONS` as (position, token id), ascending by position -/
  pos : List (Nat × Nat)
  /-- `MINTABLE_NUM_TOKENS` -/
  mintable : Nat
  /-- ghost: ids minted so far, newest first -/
  minted : List Nat
  /-- ghost: number of ids removed by `BurnRemaining` -/
  burned : Nat
  coll : Coll
deriving Repr

def Fixed.keys (s : Fixed) : List Nat := s.pos.map (·.1)
def Fixed.ids (s : Fixed) : List Nat := s.pos.map (·.2)

/-- `MINTABLE_TOKEN_POSITIONS.load(position)` -/
def lookupPos (pos : List (Nat × Nat)) (p : Nat) : Option Nat :=
  (pos.find? (fun e => e.1 == p)).map (·.2)

/-- the `MintFor` loop of `_execute_mint`: `position = 0; for (pos,id) in range(Ascending) { if id == token_id
{ position = pos; break } }` — the first position holding `id`, `0` when there is none -/
def findId (pos : List (Nat × Nat)) (id : Nat) : Nat :=
  match pos.find? (fun e => e.2 == id) with
  | some e => e.1
  | none => 0

/-- instantiate: `MINTABLE_NUM_TOKENS = n`; positions `1..=n` hold `random_token_list(1..=n)` (witness `perm`) -/
def Fixed.init (n : Nat) (perm : List Nat) : Option Fixed :=
  if perm.isPerm (List.range' 1 n) then
    some { n, pos := (List.range' 1 n).zip perm, mintable := n, minted := [], burned := 0, coll := Coll.empty }
  else none

/-- tail of `_execute_mint` once a `TokenPositionMapping {position := p, token_id := id}` has been chosen:
the sg721 `Mint` sub-message (fails with `Claimed` on an existing id, which reverts everything),
`MINTABLE_TOKEN_POSITIONS.remove(p)`, `MINTABLE_NUM_TOKENS -= 1` -/
def Fixed.deliver (s : Fixed) (p id owner : Nat) : Option Fixed :=
  match s.coll.mint id owner with
  | none => none
  | some c =>
    some { s with pos := s.pos.filter (fun e => e.1 != p), mintable := s.mintable - 1,
                  minted := id :: s.minted, coll := c }

/-- `Mint {}` / `MintTo` / completing `ReceiveNft`: `SoldOut` at zero, then `random_mintable_token_mapping`
picks a position (witness `p`, must be a current key) and loads its id -/
def Fixed.takeAt (s : Fixed) (p owner : Nat) : Option Fixed :=
  if s.mintable = 0 then none
  else match lookupPos s.pos p with
    | none => none
    | some id => s.deliver p id owner

/-- `MintFor {token_id, recipient}`: `SoldOut` at zero, `InvalidTokenId` for `0` or `> num_tokens`, then the
loop (`findId`), `TokenIdAlreadySold` when it ends with position `0` -/
def Fixed.takeId (s : Fixed) (id owner : Nat) : Option Fixed :=
  if s.mintable = 0 then none
  else if id = 0 ∨ id > s.n then none
  else
    let p := findId s.pos id
    if p = 0 then none else s.deliver p id owner

/-- `execute_shuffle`: `SoldOut` at zero; same positions, ids replaced by `random_token_list(ids)` (witness) -/
def Fixed.shuffle (s : Fixed) (perm : List Nat) : Option Fixed :=
  if s.mintable = 0 then none
  else if perm.isPerm s.ids then some { s with pos := s.keys.zip perm }
  else none

/-- `execute_burn_remaining`: `SoldOut` at zero; removes every position, `MINTABLE_NUM_TOKENS -= removed` -/
def Fixed.burnAll (s : Fixed) : Option Fixed :=
  if s.mintable = 0 then none
  else some { s with pos := [], mintable := s.mintable - s.pos.length, burned := s.burned + s.pos.length }

/-- `execute_purge`: `NotSoldOut` unless the counter is zero; clears `MINTER_ADDRS` only (not supply state) -/
def Fixed.purge (s : Fixed) : Option Fixed :=
  if s.mintable = 0 then some s else none

inductive FOp where
  /-- Mint / MintTo / the ReceiveNft deposit that completes a merge; `p` = picked position (witness) -/
  | mint (gate : Bool) (p owner : Nat)
  | mintFor (gate : Bool) (id owner : Nat)
  | shuffle (gate : Bool) (perm : List Nat)
  | purge (gate : Bool)
  | burnRemaining (gate : Bool)
  /-- a holder burns / transfers a token in the collection -/
  | collBurn (gate : Bool) (id : Nat)
  | collTransfer (gate : Bool) (id to : Nat)
  /-- any other message (price/limit/time updates, incomplete deposits, clock steps): no supply effect -/
  | noise (gate : Bool)
deriving Repr

def FOp.isMint : FOp → Bool
  | .mint .. => true
  | .mintFor .. => true
  | _ => false

def Fixed.step (s : Fixed) : FOp → Option Fixed
  | .mint g p o => if g then s.takeAt p o else none
  | .mintFor g id o => if g then s.takeId id o else none
  | .shuffle g perm => if g then s.shuffle perm else none
  | .purge g => if g then s.purge else none
  | .burnRemaining g => if g then s.burnAll else none
  | .collBurn g id => if g then (s.coll.burn id).map (fun c => { s with coll := c }) else none
  | .collTransfer g id to => if g then (s.coll.transfer id to).map (fun c => { s with coll := c }) else none
  | .noise g => if g then some s else none

/-- transactional semantics: a failed message leaves the state unchanged -/
def Fixed.step' (s : Fixed) (op : FOp) : Fixed := (s.step op).getD s
def Fixed.run (s : Fixed) (ops : List FOp) : Fixed := ops.foldl Fixed.step' s

/-- `QueryMsg::MintableNumTokens` -/
def Fixed.queryMintable (s : Fixed) : Nat := s.mintable

/-- number of successful mint operations along a history -/
def Fixed.succMints (s : Fixed) : List FOp → Nat
  | [] => 0
  | op :: ops =>
    match s.step op with
    | some s' => (if op.isMint then 1 else 0) + succMints s' ops
    | none => succMints s ops

/-! ## Sequential family: open-edition ×3 and base minter -/

inductive SeqKind where
  | openEdition | openEditionFlex | openEditionMerkle | base
deriving Repr, DecidableEq

/-- open-edition-minter and -merkle-wl store `factory_params.extension.max_token_limit` in
`MINTABLE_NUM_TOKENS` when no `num_tokens` is configured; -wl-flex stores nothing (uncapped);
base-minter has no such item at all -/
def SeqKind.capturesFactoryCap : SeqKind → Bool
  | .openEdition => true
  | .openEditionMerkle => true
  | _ => false

structure Seq where
  kind : SeqKind
  /-- `config.extension.end_time.is_some()` (never changes: `UpdateEndTime` cannot add one) -/
  hasEnd : Bool
  /-- `TOKEN_INDEX` -/
  tokenIndex : Nat
  /-- `TOTAL_MINT_COUNT` (not stored by base-minter; the model keeps it as a ghost there) -/
  totalMint : Nat
  /-- `MINTABLE_NUM_TOKENS.may_load` -/
  mintable : Option Nat
  /-- ghost: the cap in force (configured `num_tokens`, or the factory limit captured at creation) -/
  cap : Option Nat
  /-- ghost: a `BurnRemaining` has succeeded -/
  burned : Bool
  /-- ghost: ids issued, newest first -/
  issued : List Nat
  coll : Coll
deriving Repr

/-- what instantiate stores in `MINTABLE_NUM_TOKENS` -/
def Seq.initialMintable (k : SeqKind) (numTokens : Option Nat) (factoryMax : Nat) : Option Nat :=
  match k with
  | .base => none
  | _ =>
    match numTokens with
    | some n => some n
    | none => if k.capturesFactoryCap then some factoryMax else none

def Seq.create (k : SeqKind) (numTokens : Option Nat) (factoryMax : Nat) (hasEnd : Bool) : Seq :=
  let m := Seq.initialMintable k numTokens factoryMax
  { kind := k, hasEnd, tokenIndex := 0, totalMint := 0, mintable := m, cap := m, burned := false,
    issued := [], coll := Coll.empty }

/-- `_execute_mint` (open edition) / `execute_mint_sender` (base): `SoldOut` when the counter is `Some(0)`;
id = `increment_token_index`; sg721 `Mint`; `TOTAL_MINT_COUNT += 1`; counter decremented when present -/
def Seq.mint (s : Seq) (owner : Nat) : Option Seq :=
  if s.mintable = some 0 then none
  else
    let id := s.tokenIndex + 1
    match s.coll.mint id owner with
    | none => none
    | some c =>
      some { s with tokenIndex := id, totalMint := s.totalMint + 1, mintable := s.mintable.map (· - 1),
                    issued := id :: s.issued, coll := c }

/-- `execute_burn_remaining` (open edition): `SoldOut` at `Some(0)`; `Some(k)` ↦ `Some(0)`; with no counter the
code reaches `mintable_num_tokens.unwrap()` and panics (= failed transaction). base-minter has no such message. -/
def Seq.burnRemaining (s : Seq) : Option Seq :=
  if s.kind = .base then none
  else match s.mintable with
    | none => none
    | some 0 => none
    | some _ => some { s with mintable := some 0, burned := true }

/-- `execute_purge` (open edition), supply-relevant guard only (the end-time comparison is a gate):
-wl-flex: `NotSoldOut` whenever the counter is non-zero; the other two only when there is no end time.
Touches `MINTER_ADDRS` (and `WHITELIST_MINTER_ADDRS` in -wl-flex) only. -/
def Seq.purge (s : Seq) : Option Seq :=
  if s.kind = .base then none
  else match s.mintable with
    | some (_ + 1) => if s.kind = .openEditionFlex || !s.hasEnd then none else some s
    | _ => some s

inductive QOp where
  /-- Mint / MintTo -/
  | mint (gate : Bool) (owner : Nat)
  | burnRemaining (gate : Bool)
  | purge (gate : Bool)
  | collBurn (gate : Bool) (id : Nat)
  | collTransfer (gate : Bool) (id to : Nat)
  | noise (gate : Bool)
deriving Repr

def QOp.isMint : QOp → Bool
  | .mint .. => true
  | _ => false

def Seq.step (s : Seq) : QOp → Option Seq
  | .mint g o => if g then s.mint o else none
  | .burnRemaining g => if g then s.burnRemaining else none
  | .purge g => if g then s.purge else none
  | .collBurn g id => if g then (s.coll.burn id).map (fun c => { s with coll := c }) else none
  | .collTransfer g id to => if g then (s.coll.transfer id to).map (fun c => { s with coll := c }) else none
  | .noise g => if g then some s else none

def Seq.step' (s : Seq) (op : QOp) : Seq := (s.step op).getD s
def Seq.run (s : Seq) (ops : List QOp) : Seq := ops.foldl Seq.step' s

/-- number of successful mints along a history -/
def Seq.succMints (s : Seq) : List QOp → Nat
  | [] => 0
  | op :: ops =>
    match s.step op with
    | some s' => (if op.isMint then 1 else 0) + succMints s' ops
    | none => succMints s ops

/-! ## Round 3 additions (definitions only ADDED; nothing above is changed)

`supplyRejects`: the SUPPLY guards of an op alone (gate and randomness witness disregarded).  The harness computes the
same predicate from its OWN bookkeeping (what it minted / burned, never from the contract's answer or an error text) and
passes `gate=1` for a failed op exactly when that predicate holds; `C01_supplyRejects_sound` (Props/C01.lean) shows the
model then fails too, for every gate and every witness.  `touchesSupply`: the ops that may change the minter-side
supply state; every other op (in particular `noise` = "any other message": SetWhitelist, price / time / limit updates,
discount price, sudo UpdateStatus, migrate, collection-side calls by non-minters, a message the model has never heard
of) is a frame op (`C01_frame`, `C01_frame_history`). -/

def Fixed.supplyRejects (s : Fixed) : FOp → Bool
  | .mint .. => decide (s.mintable = 0)
  | .mintFor _ id _ => decide (s.mintable = 0) || decide (id = 0) || decide (id > s.n) || decide (findId s.pos id = 0)
  | .shuffle .. => decide (s.mintable = 0)
  | .purge _ => decide (s.mintable ≠ 0)
  | .burnRemaining _ => decide (s.mintable = 0)
  | .collBurn _ id => decide (id ∉ s.coll.ids)
  | .collTransfer _ id _ => decide (id ∉ s.coll.ids)
  | .noise _ => false

def FOp.touchesSupply : FOp → Bool
  | .mint .. => true
  | .mintFor .. => true
  | .shuffle .. => true
  | .burnRemaining .. => true
  | _ => false

def Seq.supplyRejects (s : Seq) : QOp → Bool
  | .mint .. => decide (s.mintable = some 0)
  | .burnRemaining _ => s.burnRemaining.isNone
  | .purge _ => s.purge.isNone
  | .collBurn _ id => decide (id ∉ s.coll.ids)
  | .collTransfer _ id _ => decide (id ∉ s.coll.ids)
  | .noise _ => false

def QOp.touchesSupply : QOp → Bool
  | .mint .. => true
  | .burnRemaining .. => true
  | _ => false

end LP.Supply
