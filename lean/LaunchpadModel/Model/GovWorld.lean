import LaunchpadModel.Model.Governance
import LaunchpadModel.Model.Sg1
/-!
# Who observes the governance parameters (C18, last sentence)

A factory (one of the four kinds) plus the minters created through it. Every operation that READS a factory parameter
is modelled as a function of the factory's *current* params (`w.params`) — that is what the code does: each of these
entry points starts with `deps.querier.query_wasm_smart(config.factory, &Sg2QueryMsg::Params {})` (minters) or
`SUDO_PARAMS.load` (factory `execute_create_minter`).

Read live (Rust entry point → field):
* factory `execute_create_minter` → `creation_fee`, `allowed_sg721_code_ids`, `frozen`, `code_id` (which minter code is
  instantiated), `max_token_limit`, `max_per_address_limit`, `min_mint_price` (vending, open edition), open edition also
  `airdrop_mint_price` (zero ⇒ a token limit is required)
* minter `instantiate` (runs inside the create) → `max_per_address_limit` (3 % rule; vending family, token-merge),
  `max_trading_offset_secs`
* minter `_execute_mint` → `mint_fee_bps` (public mint), `airdrop_mint_price` + `airdrop_mint_fee_bps` (`mint_to`),
  open edition: `dev_fee_address`; base-minter `execute_mint_sender` → `mint_fee_bps`
* minter `execute_shuffle` → `shuffle_fee`; `execute_update_per_address_limit` → `max_per_address_limit`;
  `execute_update_mint_price` → `min_mint_price`; `execute_update_start_trading_time` → `max_trading_offset_secs`;
  `execute_set_whitelist` → `min_mint_price` (amount and denom against the whitelist's price; vending and open-edition families)
* every factory's `migrate(Option<UpdateParamsMsg>)` applies the SAME update as `sudo UpdateParams` when a message is given
  (`Op.mig`); `None` changes nothing

Live reads that exist in the code and are NOT modelled (out of C18's scope — the property names "creations and mints"):
`execute_update_discount_price` → `min_mint_price` (vending family), the `MintPrice` query → `airdrop_mint_price`,
minter `instantiate` with a whitelist (whitelist price ≥ `min_mint_price`).

Captured at creation (NOT re-read; changing the factory later has no effect on an existing minter):
* base-minter `CONFIG.mint_price` := the factory's `min_mint_price` at creation        → `MinterRec.price`
* open-edition `MINTABLE_NUM_TOKENS` := the factory's `max_token_limit` at creation when no `num_tokens` is given
                                                                                       → `MinterRec.mintable`
* every minter: its kind (= the `code_id` at creation), `num_tokens`, the validated `per_address_limit`, `start_time`,
  and the collection's default `start_trading_time = start + offset` (base: `now + offset`).

Everything these operations check that does NOT depend on a governance parameter and that the C18 harness keeps valid
(URL syntax, genesis time, end time, whitelists, per-address counters — every public mint is by a fresh buyer —,
admin/creator authorisation — the admin sends every admin message) is out of this aspect model; C01–C08/C19 own it.
-/
namespace LP.Gov
open LP

/-! ## the four factories behind one type -/

inductive Params where
  | v (p : VendingParams)
  | o (p : OeParams)
  | t (p : TmParams)
  | b (p : BaseParams)
deriving Repr, DecidableEq

/-- One update message for any factory: the union of the four message types (a field that a factory's message type does
not have is simply never read by that factory's projection below). -/
structure AnyUpd where
  codeId : Option Nat := none
  addIds : Option (List Nat) := none
  rmIds : Option (List Nat) := none
  frozen : Option Bool := none
  creationFee : Option Coin := none
  minMintPrice : Option Coin := none
  mintFeeBps : Option Nat := none
  maxTradingOffsetSecs : Option Nat := none
  maxTokenLimit : Option Nat := none
  maxPerAddressLimit : Option Nat := none
  airdropMintPrice : Option Coin := none
  airdropMintFeeBps : Option Nat := none
  shuffleFee : Option Coin := none
  /-- open edition only: `extension.min_mint_price` (dead field) -/
  extMinMintPrice : Option Coin := none
  /-- open edition only -/
  devFeeAddress : Option Addr := none
  /-- base factory only: `extension` = `Some(Empty{})`? -/
  extUnit : Bool := false
deriving Repr, DecidableEq

def AnyUpd.base {υ : Type} (u : AnyUpd) (ext : υ) : UpdateMsg υ :=
  { codeId := u.codeId, addIds := u.addIds, rmIds := u.rmIds, frozen := u.frozen, creationFee := u.creationFee,
    minMintPrice := u.minMintPrice, mintFeeBps := u.mintFeeBps, maxTradingOffsetSecs := u.maxTradingOffsetSecs, ext := ext }

def AnyUpd.toVending (u : AnyUpd) : VendingUpdate :=
  u.base { maxTokenLimit := u.maxTokenLimit, maxPerAddressLimit := u.maxPerAddressLimit,
           airdropMintPrice := u.airdropMintPrice, airdropMintFeeBps := u.airdropMintFeeBps, shuffleFee := u.shuffleFee }

def AnyUpd.toOe (u : AnyUpd) : OeUpdate :=
  u.base { maxTokenLimit := u.maxTokenLimit, maxPerAddressLimit := u.maxPerAddressLimit,
           minMintPrice := u.extMinMintPrice, airdropMintFeeBps := u.airdropMintFeeBps,
           airdropMintPrice := u.airdropMintPrice, devFeeAddress := u.devFeeAddress }

def AnyUpd.toTm (u : AnyUpd) : TmUpdate :=
  { codeId := u.codeId, addIds := u.addIds, rmIds := u.rmIds, frozen := u.frozen, creationFee := u.creationFee,
    maxTradingOffsetSecs := u.maxTradingOffsetSecs, maxTokenLimit := u.maxTokenLimit,
    maxPerAddressLimit := u.maxPerAddressLimit, airdropMintPrice := u.airdropMintPrice,
    airdropMintFeeBps := u.airdropMintFeeBps, shuffleFee := u.shuffleFee }

def AnyUpd.toBase (u : AnyUpd) : BaseUpdate := u.base u.extUnit

/-- `sudo(SudoMsg::UpdateParams(msg))` on whichever factory this is -/
def Params.sudo : Params → AnyUpd → Except Err Params
  | .v p, u => (sudoVending p u.toVending).map .v
  | .o p, u => (sudoOe p u.toOe).map .o
  | .t p, u => (sudoTm p u.toTm).map .t
  | .b p, u => (sudoBase p u.toBase).map .b

/-! ### field accessors (what a reader of the `Params` query sees) -/

def Params.codeId : Params → Nat
  | .v p => p.codeId | .o p => p.codeId | .t p => p.codeId | .b p => p.codeId
def Params.allowed : Params → List Nat
  | .v p => p.allowed | .o p => p.allowed | .t p => p.allowed | .b p => p.allowed
def Params.frozen : Params → Bool
  | .v p => p.frozen | .o p => p.frozen | .t p => p.frozen | .b p => p.frozen
def Params.creationFee : Params → Coin
  | .v p => p.creationFee | .o p => p.creationFee | .t p => p.creationFee | .b p => p.creationFee
def Params.offset : Params → Nat
  | .v p => p.maxTradingOffsetSecs | .o p => p.maxTradingOffsetSecs | .t p => p.maxTradingOffsetSecs
  | .b p => p.maxTradingOffsetSecs
/-- token-merge has none -/
def Params.minMintPrice : Params → Option Coin
  | .v p => some p.minMintPrice | .o p => some p.minMintPrice | .t _ => none | .b p => some p.minMintPrice
def Params.mintFeeBps : Params → Option Nat
  | .v p => some p.mintFeeBps | .o p => some p.mintFeeBps | .t _ => none | .b p => some p.mintFeeBps
def Params.maxTokenLimit : Params → Option Nat
  | .v p => some p.ext.maxTokenLimit | .o p => some p.ext.maxTokenLimit | .t p => some p.maxTokenLimit | .b _ => none
def Params.maxPal : Params → Option Nat
  | .v p => some p.ext.maxPerAddressLimit | .o p => some p.ext.maxPerAddressLimit | .t p => some p.maxPerAddressLimit
  | .b _ => none
def Params.airdropPrice : Params → Option Coin
  | .v p => some p.ext.airdropMintPrice | .o p => some p.ext.airdropMintPrice | .t p => some p.airdropMintPrice
  | .b _ => none
def Params.airdropBps : Params → Option Nat
  | .v p => some p.ext.airdropMintFeeBps | .o p => some p.ext.airdropMintFeeBps | .t p => some p.airdropMintFeeBps
  | .b _ => none
def Params.shuffleFee : Params → Option Coin
  | .v p => some p.ext.shuffleFee | .o _ => none | .t p => some p.shuffleFee | .b _ => none
def Params.dev : Params → Option Addr
  | .o p => some p.ext.devFeeAddress | _ => none

/-! ## minters -/

structure MinterRec where
  kind : MinterKind
  /-- `CONFIG.mint_price` -/
  price : Coin
  numTokens : Option Nat
  /-- `MINTABLE_NUM_TOKENS`; `none` = the item is not stored: base minter, and open-edition-minter-wl-flex created
  without `num_tokens` (that variant does not capture the factory cap — unlimited supply) -/
  mintable : Option Nat
  pal : Nat
  start : Nat
  status : Status
deriving Repr, DecidableEq

/-- environment of a case: the code ids under which the 11 minter contracts are stored (by `MinterKind.idx`) and the
code ids that are real sg721 collection contracts -/
structure Env where
  codes : List Nat
  colls : List Nat
deriving Repr

structure World where
  params : Params
  minters : List (Nat × MinterRec)
deriving Repr

def World.minter (w : World) (slot : Nat) : Option MinterRec := (w.minters.find? (fun x => x.1 == slot)).map (·.2)

def World.setMinter (w : World) (slot : Nat) (r : MinterRec) : World :=
  { w with minters := (slot, r) :: w.minters.filter (fun x => x.1 != slot) }

/-- which of the 11 minter contracts is stored under `code` -/
def Env.kindOf (e : Env) (code : Nat) : Option MinterKind :=
  if code ∈ e.codes then MinterKind.ofIdx (e.codes.idxOf code) else none

structure CreateArgs where
  sg721 : Nat
  numTokens : Option Nat
  pal : Nat
  price : Coin
  funds : List Coin
  start : Nat
  now : Nat
  /-- requested `start_trading_time` -/
  stt : Option Nat
deriving Repr

/-- the creator's account (also every minter's admin and seller in this aspect model) -/
def ADMIN : Addr := 10

/-- which minters apply the "3 % of the supply" rule (`check_dynamic_per_address_limit`) in `instantiate` and
`execute_update_per_address_limit`: vending-minter(-featured), vending-minter-merkle-wl(-featured), token-merge-minter.
The two wl-flex vending variants and the open-edition family only compare with the factory maximum. -/
def MinterKind.hasDynPal : MinterKind → Bool
  | .vending | .vendingFeatured | .vendingMerkle | .vendingMerkleFeatured | .tokenMerge => true
  | _ => false

/-- `check_dynamic_per_address_limit(per_address_limit, num_tokens, max_per_address_limit)` -/
def dynPalOk (pal num maxPal : Nat) : Bool :=
  if pal > maxPal then false
  else if num < 100 then pal ≤ 3
  else pal ≤ (num * 3 + 99) / 100

def nanos (secs : Nat) : Nat := secs * 1000000000

/-- creation fee handling shared by the four `execute_create_minter`s: `must_pay(info, fee.denom)`
(open edition: `must_pay_exact_amount`), then fair burn (native) or transfer to the launchpad DAO. -/
def payCreationFee (funds : List Coin) (fee : Coin) (exact : Bool) : Except Err (List Msg) := do
  let pay ← mustPay funds fee.denom
  if exact && pay != fee.amount then throw .payment
  if fee.denom = NATIVE then Sg1.checkedFairBurn funds 0 fee.amount none
  else Sg1.transferFundsToLaunchpadDao funds fee.amount fee.denom

/-- the gates every factory applies: fee, allowed collection code id, not frozen; and the collection code must exist -/
def createCommon (e : Env) (p : Params) (a : CreateArgs) (exact : Bool) : Except Err (List Msg) := do
  let msgs ← payCreationFee a.funds p.creationFee exact
  if !(p.allowed.contains a.sg721) then throw .invalid
  if p.frozen then throw .frozen
  if !(e.colls.contains a.sg721) then throw .invalid
  pure msgs

def sttOk (a : CreateArgs) (offset : Nat) : Bool :=
  match a.stt with
  | none => true
  | some t => t ≤ a.start + nanos offset

/-- `CreateMinter` on the factory including the minter's `instantiate` (one atomic transaction) -/
def create (e : Env) (p : Params) (a : CreateArgs) : Except Err (MinterRec × List Msg) :=
  match p with
  | .v q => do
    let msgs ← createCommon e p a false
    let n := a.numTokens.getD 0
    if n = 0 || n > q.ext.maxTokenLimit then throw .limit
    if a.pal = 0 || a.pal > q.ext.maxPerAddressLimit then throw .limit
    if q.minMintPrice.denom != a.price.denom then throw .invalid
    if q.minMintPrice.amount > a.price.amount then throw .invalid
    -- vending-minter* instantiate
    let some k := e.kindOf q.codeId | throw .invalid
    if !k.isVending then throw .invalid
    if k.hasDynPal && !dynPalOk a.pal n q.ext.maxPerAddressLimit then throw .limit
    if a.now > a.start then throw .tooLate
    if !sttOk a q.maxTradingOffsetSecs then throw .invalid
    pure ({ kind := k, price := a.price, numTokens := some n, mintable := some n, pal := a.pal, start := a.start,
            status := Status.default }, msgs)
  | .o q => do
    let msgs ← createCommon e p a true
    match a.numTokens with
    | some n => if n = 0 || n > q.ext.maxTokenLimit then throw .limit
    | none => pure ()
    if a.pal < 1 || a.pal > q.ext.maxPerAddressLimit then throw .limit
    if a.start ≤ a.now then throw .tooLate
    if q.minMintPrice.denom != a.price.denom then throw .invalid
    if a.price.amount < q.minMintPrice.amount then throw .invalid
    if a.numTokens.isNone && a.price.amount = 0 then throw .invalid
    if q.ext.airdropMintPrice.amount = 0 && a.numTokens.isNone then throw .invalid
    -- open-edition-minter* instantiate
    let some k := e.kindOf q.codeId | throw .invalid
    if !k.isOe then throw .invalid
    if !sttOk a q.maxTradingOffsetSecs then throw .invalid
    pure ({ kind := k, price := a.price, numTokens := a.numTokens,
            mintable := (match a.numTokens with
              | some n => some n
              | none => if k = .openEditionFlex then none else some q.ext.maxTokenLimit),
            pal := a.pal, start := a.start,
            status := Status.default }, msgs)
  | .t q => do
    let msgs ← createCommon e p a false
    let n := a.numTokens.getD 0
    if n = 0 || n > q.maxTokenLimit then throw .limit
    if a.pal = 0 || a.pal > q.maxPerAddressLimit then throw .limit
    -- token-merge-minter instantiate
    let some k := e.kindOf q.codeId | throw .invalid
    if k != .tokenMerge then throw .invalid
    if !dynPalOk a.pal n q.maxPerAddressLimit then throw .limit
    if a.now > a.start then throw .tooLate
    if !sttOk a q.maxTradingOffsetSecs then throw .invalid
    pure ({ kind := k, price := ⟨NATIVE, 0⟩, numTokens := some n, mintable := some n, pal := a.pal, start := a.start,
            status := Status.default }, msgs)
  | .b q => do
    let msgs ← createCommon e p a false
    -- base-minter instantiate: the price is CAPTURED from the factory's min_mint_price
    let some k := e.kindOf q.codeId | throw .invalid
    if k != .base then throw .invalid
    pure ({ kind := k, price := q.minMintPrice, numTokens := none, mintable := none, pal := 0, start := a.now,
            status := Status.default }, msgs)

/-- fee split of a mint: `network_fee = price * Decimal::bps(bps)`; fee distribution (featured / developer); the rest
to the seller (`ADMIN`); a fee above the price aborts (`Uint128` subtraction overflow / insufficient funds). -/
def mintMsgs (price : Coin) (bpsV : Nat) (featured : Bool) (dev : Option Addr) : Except Err (List Msg) :=
  let fee := mulFloor price.amount (bps bpsV)
  if fee > price.amount then .error .other
  else
    let feeMsgs := if fee = 0 then [] else Sg1.distributeMintFees ⟨price.denom, fee⟩ featured dev
    let rest := price.amount - fee
    .ok (feeMsgs ++ (if rest = 0 then [] else [Msg.send ADMIN ⟨price.denom, rest⟩]))

/-- public `Mint {}` by a fresh buyer (vending and open-edition families), `Mint{token_uri}` by the creator (base) -/
def mint (p : Params) (r : MinterRec) (now : Nat) (funds : List Coin) : Except Err (MinterRec × List Msg) :=
  if r.kind = .base then do
    let some b := p.mintFeeBps | throw .other
    let sent ← mustPay funds NATIVE
    let fee := mulFloor r.price.amount (bps b)
    if fee != sent then throw .payment
    let msgs ← Sg1.checkedFairBurn funds 0 fee none
    pure (r, msgs)
  else if r.kind = .tokenMerge then .error .other
  else do
    let some b := p.mintFeeBps | throw .other
    if now < r.start then throw .tooSoon
    if r.mintable = some 0 then throw .soldOut
    let pay ← mayPay funds r.price.denom
    if pay != r.price.amount then throw .payment
    let msgs ← mintMsgs r.price b r.kind.isFeatured p.dev
    pure ({ r with mintable := r.mintable.map (· - 1) }, msgs)

/-- admin `MintTo{recipient}`: price and fee rate are the factory's CURRENT airdrop price / airdrop fee bps -/
def airdrop (p : Params) (r : MinterRec) (funds : List Coin) : Except Err (MinterRec × List Msg) := do
  if r.kind = .base then throw .other
  let some price := p.airdropPrice | throw .other
  let some b := p.airdropBps | throw .other
  if r.mintable = some 0 then throw .soldOut
  if r.kind.isOe && price.amount = 0 && r.numTokens.isNone then throw .invalid
  let pay ← mayPay funds price.denom
  if pay != price.amount then throw .payment
  let msgs ← mintMsgs price b r.kind.isFeatured p.dev
  pure ({ r with mintable := r.mintable.map (· - 1) }, msgs)

/-- admin `UpdatePerAddressLimit{per_address_limit}` -/
def setPal (p : Params) (r : MinterRec) (limit : Nat) : Except Err MinterRec := do
  if r.kind = .base then throw .other
  let some m := p.maxPal | throw .other
  if limit = 0 || limit > m then throw .limit
  if r.kind.hasDynPal && !dynPalOk limit (r.numTokens.getD 0) m then throw .limit
  pure { r with pal := limit }

/-- anyone `Shuffle{}` (vending family, token-merge): `checked_fair_burn` of the factory's CURRENT shuffle fee -/
def shuffle (p : Params) (r : MinterRec) (funds : List Coin) : Except Err (List Msg) := do
  if !(r.kind.isVending || r.kind = .tokenMerge) then throw .other
  let some fee := p.shuffleFee | throw .other
  let msgs ← Sg1.checkedFairBurn funds 0 fee.amount none
  if r.mintable = some 0 then throw .soldOut
  pure msgs

/-- admin `UpdateStartTradingTime(t)` -/
def updateStartTradingTime (p : Params) (r : MinterRec) (now : Nat) (t : Option Nat) : Except Err Unit :=
  match t with
  | none => .ok ()
  | some t =>
    if now > t then .error .tooLate
    else if r.kind != .base && t > r.start + nanos p.offset then .error .invalid
    else .ok ()

/-- admin `UpdateMintPrice{price}` (vending and open-edition families) -/
def setPrice (p : Params) (r : MinterRec) (now : Nat) (price : Nat) : Except Err MinterRec := do
  if !(r.kind.isVending || r.kind.isOe) then throw .other
  let some m := p.minMintPrice | throw .other
  if now ≥ r.start && price ≥ r.price.amount then throw .invalid
  if m.amount > price then throw .invalid
  if r.kind.isOe && r.numTokens.isNone && price = 0 then throw .invalid
  pure { r with price := ⟨r.price.denom, price⟩ }

/-- admin `SetWhitelist{whitelist}` before the sale starts, with an inactive whitelist whose price is `wlp` (vending and
open-edition families): the whitelist price must be at least the factory's CURRENT `min_mint_price` and in its denom. (The
harness keeps the whitelist's denom equal to the minter's own price denom; that comparison is not a governance matter.) -/
def setWl (p : Params) (r : MinterRec) (now : Nat) (wlp : Coin) : Except Err Unit := do
  if !(r.kind.isVending || r.kind.isOe) then throw .other
  if now ≥ r.start then throw .tooLate
  let some m := p.minMintPrice | throw .other
  if m.amount > wlp.amount then throw .invalid
  if m.denom != wlp.denom then throw .invalid
  pure ()

/-! ## operations of the composite aspect world -/

inductive Op where
  | upd (u : AnyUpd)
  /-- `migrate` of the factory (same code id) with `Some(update message)` or `None` -/
  | mig (u : Option AnyUpd)
  | create (slot : Nat) (a : CreateArgs)
  | mint (slot now : Nat) (funds : List Coin)
  | airdrop (slot : Nat) (funds : List Coin)
  | setPal (slot limit : Nat)
  | shuffle (slot : Nat) (funds : List Coin)
  | ustt (slot now : Nat) (t : Option Nat)
  | setPrice (slot now price : Nat)
  | status (slot : Nat) (v b e : Bool)
  | setWl (slot now : Nat) (wlp : Coin)
deriving Repr

/-- The bank module (chain and cw-multi-test alike) rejects a burn / send of a zero amount
("Cannot transfer empty coins amount"), which aborts the whole transaction: e.g. a fair burn of a fee ≤ 1, or a
mint-fee distribution whose launchpad-DAO remainder is 0. -/
def bankOk (ms : List Msg) : Except Err (List Msg) :=
  if ms.all (fun m => m.amount != 0) then .ok ms else .error .payment

def step (e : Env) (w : World) : Op → Except Err (World × List Msg)
  | .upd u => do let p ← w.params.sudo u; pure ({ w with params := p }, [])
  | .mig none => pure (w, [])
  | .mig (some u) => do let p ← w.params.sudo u; pure ({ w with params := p }, [])
  | .create slot a => do let (r, ms) ← create e w.params a; let ms ← bankOk ms; pure (w.setMinter slot r, ms)
  | .mint slot now funds => do
    let some r := w.minter slot | throw .notFound
    let (r', ms) ← mint w.params r now funds; let ms ← bankOk ms; pure (w.setMinter slot r', ms)
  | .airdrop slot funds => do
    let some r := w.minter slot | throw .notFound
    let (r', ms) ← airdrop w.params r funds; let ms ← bankOk ms; pure (w.setMinter slot r', ms)
  | .setPal slot limit => do
    let some r := w.minter slot | throw .notFound
    let r' ← setPal w.params r limit; pure (w.setMinter slot r', [])
  | .shuffle slot funds => do
    let some r := w.minter slot | throw .notFound
    let ms ← shuffle w.params r funds; let ms ← bankOk ms; pure (w, ms)
  | .ustt slot now t => do
    let some r := w.minter slot | throw .notFound
    updateStartTradingTime w.params r now t; pure (w, [])
  | .setPrice slot now price => do
    let some r := w.minter slot | throw .notFound
    let r' ← setPrice w.params r now price; pure (w.setMinter slot r', [])
  | .status slot v b e' => do
    let some r := w.minter slot | throw .notFound
    let s ← updateStatus r.kind r.status v b e'; pure (w.setMinter slot { r with status := s }, [])
  | .setWl slot now wlp => do
    let some r := w.minter slot | throw .notFound
    setWl w.params r now wlp; pure (w, [])

/-- transactional step: a failed operation leaves the world unchanged -/
def step' (e : Env) (w : World) (op : Op) : World :=
  match step e w op with
  | .ok (w', _) => w'
  | .error _ => w

def run (e : Env) (w : World) (ops : List Op) : World := ops.foldl (step' e) w

/-- the governance updates contained in an operation list, in order -/
def updatesOf : List Op → List AnyUpd
  | [] => []
  | .upd u :: t => u :: updatesOf t
  | .mig (some u) :: t => u :: updatesOf t
  | _ :: t => updatesOf t

/-! ## update lines with the implementation's verdict as a CHECKED witness

The property fixes what an update that TAKES EFFECT does, and that a non-native minimum price is refused; it does not
demand that every other update be accepted (a later hardening may refuse e.g. `mint_fee_bps > 10000`). The driver is
therefore told whether the implementation accepted (`acc`): a refusal the model does not have leaves the params unchanged
on both sides and is reported outside the projection (DRIFT); an acceptance the model does not have is a disagreement. -/

inductive Verdict where
  /-- accepted by both: the params are replaced -/
  | applied
  /-- refused by both -/
  | refused
  /-- the model accepts, the implementation refused: nothing changes (outside the projection) -/
  | refusedByCodeOnly
  /-- the model refuses, the implementation accepted: DISAGREEMENT -/
  | acceptedByCodeOnly
deriving Repr, DecidableEq

def updW (P : Params) (u : AnyUpd) (acc : Bool) : Params × Verdict :=
  match P.sudo u with
  | .ok P' => if acc then (P', .applied) else (P, .refusedByCodeOnly)
  | .error _ => (P, if acc then .acceptedByCodeOnly else .refused)

end LP.Gov
