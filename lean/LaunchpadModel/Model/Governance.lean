import LaunchpadModel.Model.Basic
import LaunchpadModel.Model.Decimal
/-!
# Governance: factory `sudo UpdateParams` (4 factories) and minter `sudo UpdateStatus` (11 minters)

Mirrors (current tree, i.e. after the `fix:` commits de6038c and 8447e1a):

* `packages/sg2/src/lib.rs`            `MinterParams<T>`                       → `MinterParams ε`
* `packages/sg2/src/msg.rs`            `UpdateMinterParamsMsg<T>`              → `UpdateMsg υ`
* `base-factory/src/contract.rs`       `update_params<T, C>` (shared helper)   → `updateParams`
                                       `sudo_update_params`                    → `sudoBase`
* `vending-factory/src/contract.rs`    `sudo_update_params`                    → `sudoVending`
* `open-edition-factory/src/contract.rs` `sudo_update_params`                  → `sudoOe`
* `token-merge-factory/src/contract.rs` `update_base_params` + `sudo_update_params` → `sudoTm`
* every factory's `query_params`, `query_allowed_collection_code_ids`, `query_allowed_collection_code_id`
                                                                               → the params value itself, `.allowed`, `allowedQuery`
* `packages/sg4/src/lib.rs` `Status`, `SudoMsg::UpdateStatus`; `update_status` / `query_status` of the 11 minters
                                                                               → `Status`, `updateStatus`

Numbers are `Nat` (`u32`/`u64`/`Uint128` in the code: out-of-range JSON numbers are rejected by serde before the
contract runs — outside the model; the harness keeps values in range). `dev_fee_address` is an unvalidated `String`
in the code, an interned `Nat` here.
-/
namespace LP.Gov
open LP

/-! ## the allowed-collection code-id list -/

/-- `Vec::dedup`: removes CONSECUTIVE repeated elements only. -/
def dedup : List Nat → List Nat
  | [] => []
  | [x] => [x]
  | x :: y :: t => if x = y then dedup (y :: t) else x :: dedup (y :: t)

/-- `for code_id in rm { v.retain(|&x| x != code_id) }` -/
def removeEach (l : List Nat) (rm : List Nat) : List Nat :=
  rm.foldl (fun acc c => acc.filter (fun x => x != c)) l

/-- "add new code ids, then rm code ids": push every added id, `dedup()` (always, even with no additions),
then retain-out every removed id. -/
def applyIds (allowed : List Nat) (add rm : Option (List Nat)) : List Nat :=
  removeEach (dedup (allowed ++ add.getD [])) (rm.getD [])

/-- `AllowedCollectionCodeId(code_id)` query: `code_ids.contains(&code_id)` -/
def allowedQuery (allowed : List Nat) (x : Nat) : Bool := allowed.contains x

/-- `None`, or `Some(coin)` with `coin.denom == NATIVE_DENOM` -/
def nativeOrNone : Option Coin → Bool
  | none => true
  | some c => c.denom == NATIVE

/-! ## sg2 params and the shared `update_params` -/

structure MinterParams (ε : Type) where
  codeId : Nat
  allowed : List Nat
  frozen : Bool
  creationFee : Coin
  minMintPrice : Coin
  mintFeeBps : Nat
  maxTradingOffsetSecs : Nat
  ext : ε
deriving Repr, DecidableEq

structure UpdateMsg (υ : Type) where
  codeId : Option Nat
  addIds : Option (List Nat)
  rmIds : Option (List Nat)
  frozen : Option Bool
  creationFee : Option Coin
  minMintPrice : Option Coin
  mintFeeBps : Option Nat
  maxTradingOffsetSecs : Option Nat
  ext : υ
deriving Repr, DecidableEq

/-- base-factory `update_params<T, C>(params, param_msg)`: the only failure is a non-native `min_mint_price`
(`ensure_eq!(&min_mint_price.denom, &NATIVE_DENOM, InvalidDenom)`); the params extension is not touched and the
message extension is not read. -/
def updateParams {ε υ : Type} (p : MinterParams ε) (m : UpdateMsg υ) : Except Err (MinterParams ε) :=
  if nativeOrNone m.minMintPrice then
    .ok { codeId := m.codeId.getD p.codeId
          allowed := applyIds p.allowed m.addIds m.rmIds
          frozen := m.frozen.getD p.frozen
          creationFee := m.creationFee.getD p.creationFee
          minMintPrice := m.minMintPrice.getD p.minMintPrice
          mintFeeBps := m.mintFeeBps.getD p.mintFeeBps
          maxTradingOffsetSecs := m.maxTradingOffsetSecs.getD p.maxTradingOffsetSecs
          ext := p.ext }
  else .error .invalid

/-! ## base-factory: extension is `Option<Empty>` on both sides (one bit, carried and ignored) -/

abbrev BaseParams := MinterParams Bool
abbrev BaseUpdate := UpdateMsg Bool

def sudoBase (p : BaseParams) (m : BaseUpdate) : Except Err BaseParams := updateParams p m

/-! ## vending-factory -/

structure VendingExt where
  maxTokenLimit : Nat
  maxPerAddressLimit : Nat
  airdropMintPrice : Coin
  airdropMintFeeBps : Nat
  shuffleFee : Coin
deriving Repr, DecidableEq

structure VendingUpd where
  maxTokenLimit : Option Nat
  maxPerAddressLimit : Option Nat
  airdropMintPrice : Option Coin
  airdropMintFeeBps : Option Nat
  shuffleFee : Option Coin
deriving Repr, DecidableEq

abbrev VendingParams := MinterParams VendingExt
abbrev VendingUpdate := UpdateMsg VendingUpd

/-- vending-factory `sudo_update_params`: base update, then the five extension fields; `airdrop_mint_price` and
`shuffle_fee` must be native when supplied. Nothing is saved on error. -/
def sudoVending (p : VendingParams) (m : VendingUpdate) : Except Err VendingParams :=
  match updateParams p m with
  | .error e => .error e
  | .ok q =>
    if nativeOrNone m.ext.airdropMintPrice && nativeOrNone m.ext.shuffleFee then
      .ok { q with ext :=
        { maxTokenLimit := m.ext.maxTokenLimit.getD q.ext.maxTokenLimit
          maxPerAddressLimit := m.ext.maxPerAddressLimit.getD q.ext.maxPerAddressLimit
          airdropMintPrice := m.ext.airdropMintPrice.getD q.ext.airdropMintPrice
          airdropMintFeeBps := m.ext.airdropMintFeeBps.getD q.ext.airdropMintFeeBps
          shuffleFee := m.ext.shuffleFee.getD q.ext.shuffleFee } }
    else .error .invalid

/-! ## open-edition-factory -/

structure OeExt where
  maxTokenLimit : Nat
  maxPerAddressLimit : Nat
  airdropMintFeeBps : Nat
  airdropMintPrice : Coin
  devFeeAddress : Addr
deriving Repr, DecidableEq

/-- `OpenEditionUpdateParamsExtension`. `minMintPrice` is the message's `extension.min_mint_price`: the stored
`ParamsExtension` has no such field and `sudo_update_params` never reads it (dead message field, F-C18c). -/
structure OeUpd where
  maxTokenLimit : Option Nat
  maxPerAddressLimit : Option Nat
  minMintPrice : Option Coin
  airdropMintFeeBps : Option Nat
  airdropMintPrice : Option Coin
  devFeeAddress : Option Addr
deriving Repr, DecidableEq

abbrev OeParams := MinterParams OeExt
abbrev OeUpdate := UpdateMsg OeUpd

/-- open-edition-factory `sudo_update_params`: base update, then five extension fields, no denom check on the
airdrop price, `extension.min_mint_price` ignored. -/
def sudoOe (p : OeParams) (m : OeUpdate) : Except Err OeParams :=
  match updateParams p m with
  | .error e => .error e
  | .ok q =>
    .ok { q with ext :=
      { maxTokenLimit := m.ext.maxTokenLimit.getD q.ext.maxTokenLimit
        maxPerAddressLimit := m.ext.maxPerAddressLimit.getD q.ext.maxPerAddressLimit
        airdropMintFeeBps := m.ext.airdropMintFeeBps.getD q.ext.airdropMintFeeBps
        airdropMintPrice := m.ext.airdropMintPrice.getD q.ext.airdropMintPrice
        devFeeAddress := m.ext.devFeeAddress.getD q.ext.devFeeAddress } }

/-! ## token-merge-factory (own flat params type, no `min_mint_price`, no `mint_fee_bps`) -/

structure TmParams where
  codeId : Nat
  allowed : List Nat
  frozen : Bool
  creationFee : Coin
  maxTradingOffsetSecs : Nat
  maxTokenLimit : Nat
  maxPerAddressLimit : Nat
  airdropMintPrice : Coin
  airdropMintFeeBps : Nat
  shuffleFee : Coin
deriving Repr, DecidableEq

structure TmUpdate where
  codeId : Option Nat
  addIds : Option (List Nat)
  rmIds : Option (List Nat)
  frozen : Option Bool
  creationFee : Option Coin
  maxTradingOffsetSecs : Option Nat
  maxTokenLimit : Option Nat
  maxPerAddressLimit : Option Nat
  airdropMintPrice : Option Coin
  airdropMintFeeBps : Option Nat
  shuffleFee : Option Coin
deriving Repr, DecidableEq

/-- token-merge-factory `sudo_update_params` (= `update_base_params` + extension fields, after fix de6038c) -/
def sudoTm (p : TmParams) (m : TmUpdate) : Except Err TmParams :=
  if nativeOrNone m.airdropMintPrice && nativeOrNone m.shuffleFee then
    .ok { codeId := m.codeId.getD p.codeId
          allowed := applyIds p.allowed m.addIds m.rmIds
          frozen := m.frozen.getD p.frozen
          creationFee := m.creationFee.getD p.creationFee
          maxTradingOffsetSecs := m.maxTradingOffsetSecs.getD p.maxTradingOffsetSecs
          maxTokenLimit := m.maxTokenLimit.getD p.maxTokenLimit
          maxPerAddressLimit := m.maxPerAddressLimit.getD p.maxPerAddressLimit
          airdropMintPrice := m.airdropMintPrice.getD p.airdropMintPrice
          airdropMintFeeBps := m.airdropMintFeeBps.getD p.airdropMintFeeBps
          shuffleFee := m.shuffleFee.getD p.shuffleFee }
  else .error .invalid

/-! ## sequences of updates (transactional: a refused update leaves the params unchanged) -/

/-- one governance proposal executed: the new params on success, the old ones on failure -/
def applyUpd {P U : Type} (upd : P → U → Except Err P) (p : P) (u : U) : P :=
  match upd p u with
  | .ok p' => p'
  | .error _ => p

/-- the params after a list of governance proposals, oldest first -/
def runUpd {P U : Type} (upd : P → U → Except Err P) (p : P) (us : List U) : P :=
  us.foldl (applyUpd upd) p

/-! ## minter status (sg4) — identical code in all 11 minters -/

structure Status where
  isVerified : Bool
  isBlocked : Bool
  isExplicit : Bool
deriving Repr, DecidableEq

/-- `Status::default()` saved by every minter's `instantiate` -/
def Status.default : Status := ⟨false, false, false⟩

/-- The 11 minter contracts (order of `lp_harness::minters::ALL_MINTERS`). -/
inductive MinterKind where
  | vending | vendingFeatured | vendingFlex | vendingFlexFeatured | vendingMerkle | vendingMerkleFeatured
  | openEdition | openEditionFlex | openEditionMerkle | tokenMerge | base
deriving Repr, DecidableEq

def MinterKind.ofIdx : Nat → Option MinterKind
  | 0 => some .vending | 1 => some .vendingFeatured | 2 => some .vendingFlex | 3 => some .vendingFlexFeatured
  | 4 => some .vendingMerkle | 5 => some .vendingMerkleFeatured | 6 => some .openEdition
  | 7 => some .openEditionFlex | 8 => some .openEditionMerkle | 9 => some .tokenMerge | 10 => some .base
  | _ => none

def MinterKind.idx : MinterKind → Nat
  | .vending => 0 | .vendingFeatured => 1 | .vendingFlex => 2 | .vendingFlexFeatured => 3
  | .vendingMerkle => 4 | .vendingMerkleFeatured => 5 | .openEdition => 6 | .openEditionFlex => 7
  | .openEditionMerkle => 8 | .tokenMerge => 9 | .base => 10

def MinterKind.isVending (k : MinterKind) : Bool := k.idx < 6
def MinterKind.isOe (k : MinterKind) : Bool := 6 ≤ k.idx && k.idx < 9
def MinterKind.isFeatured : MinterKind → Bool
  | .vendingFeatured | .vendingFlexFeatured | .vendingMerkleFeatured => true
  | _ => false

/-- `sudo(SudoMsg::UpdateStatus{is_verified, is_blocked, is_explicit})` → `update_status`: load, overwrite the three
flags, SAVE (the save was missing in five minters before fix 8447e1a). Never fails on an instantiated minter. -/
def updateStatus (_k : MinterKind) (_old : Status) (v b e : Bool) : Except Err Status :=
  .ok ⟨v, b, e⟩

end LP.Gov
