/-!
# Executable BLAKE3 (default hash mode, any input length) in core Lean — no imports.

Used by the C14 driver as the concrete hash of the tiered Merkle whitelist
(`blake3::hash(..).as_bytes()[..16]` in `tiered-whitelist-merkletree/src/contract.rs`). Only the digest length of the
truncation (16) is proved here; functional correctness against the `blake3` crate is validated by the harness on every
digest it computes (incl. the chunk boundaries 1024·k ± 1 and multi-chunk trees).

The chaining value is a structure of eight `UInt32`, so the output is syntactically a 32-element list.
-/
namespace LP.Blake3

structure CV where
  a : UInt32
  b : UInt32
  c : UInt32
  d : UInt32
  e : UInt32
  f : UInt32
  g : UInt32
  h : UInt32
deriving Inhabited

def iv : CV :=
  ⟨0x6a09e667, 0xbb67ae85, 0x3c6ef372, 0xa54ff53a, 0x510e527f, 0x9b05688c, 0x1f83d9ab, 0x5be0cd19⟩

def CHUNK_START : UInt32 := 1
def CHUNK_END : UInt32 := 2
def PARENT : UInt32 := 4
def ROOT : UInt32 := 8

def perm : Array Nat := #[2, 6, 3, 10, 7, 0, 4, 13, 1, 11, 12, 5, 9, 14, 15, 8]

@[inline] def rotr (x : UInt32) (n : UInt32) : UInt32 := (x >>> n) ||| (x <<< (32 - n))

@[inline] def g (v : Array UInt32) (a b c d : Nat) (mx my : UInt32) : Array UInt32 :=
  let va := v[a]! + v[b]! + mx
  let vd := rotr (v[d]! ^^^ va) 16
  let vc := v[c]! + vd
  let vb := rotr (v[b]! ^^^ vc) 12
  let va := va + vb + my
  let vd := rotr (vd ^^^ va) 8
  let vc := vc + vd
  let vb := rotr (vb ^^^ vc) 7
  (((v.set! a va).set! b vb).set! c vc).set! d vd

def roundFn (v m : Array UInt32) : Array UInt32 :=
  let v := g v 0 4 8 12 m[0]! m[1]!
  let v := g v 1 5 9 13 m[2]! m[3]!
  let v := g v 2 6 10 14 m[4]! m[5]!
  let v := g v 3 7 11 15 m[6]! m[7]!
  let v := g v 0 5 10 15 m[8]! m[9]!
  let v := g v 1 6 11 12 m[10]! m[11]!
  let v := g v 2 7 8 13 m[12]! m[13]!
  g v 3 4 9 14 m[14]! m[15]!

def permute (m : Array UInt32) : Array UInt32 := perm.map fun i => m[i]!

/-- the compression function, returning the first 8 output words (`state[i] ^ state[i+8]`) -/
def compress (cv : CV) (block : Array UInt32) (counter : Nat) (blockLen : UInt32) (flags : UInt32) : CV := Id.run do
  let mut v : Array UInt32 := #[cv.a, cv.b, cv.c, cv.d, cv.e, cv.f, cv.g, cv.h,
    iv.a, iv.b, iv.c, iv.d,
    UInt32.ofNat (counter % 4294967296), UInt32.ofNat ((counter / 4294967296) % 4294967296), blockLen, flags]
  let mut m := block
  for r in [0:7] do
    v := roundFn v m
    if r < 6 then m := permute m
  return ⟨v[0]! ^^^ v[8]!, v[1]! ^^^ v[9]!, v[2]! ^^^ v[10]!, v[3]! ^^^ v[11]!,
          v[4]! ^^^ v[12]!, v[5]! ^^^ v[13]!, v[6]! ^^^ v[14]!, v[7]! ^^^ v[15]!⟩

/-- little-endian word at byte offset `off` of `a` restricted to `[lo, hi)`; bytes outside are zero padding -/
def wordAt (a : Array UInt8) (hi : Nat) (off : Nat) : UInt32 :=
  let b (i : Nat) : UInt32 := if off + i < hi then (a[off + i]!).toUInt32 else 0
  b 0 ||| (b 1 <<< 8) ||| (b 2 <<< 16) ||| (b 3 <<< 24)

def blockWords (a : Array UInt8) (hi : Nat) (off : Nat) : Array UInt32 := Id.run do
  let mut w : Array UInt32 := Array.mkEmpty 16
  for j in [0:16] do
    w := w.push (wordAt a hi (off + 4 * j))
  return w

/-- chaining value of the chunk `a[off, off+len)` (`len ≤ 1024`) with chunk counter `ctr`;
`rootFlag` = `ROOT` when this chunk is the whole input -/
def chunkCV (a : Array UInt8) (off len ctr : Nat) (rootFlag : UInt32) : CV := Id.run do
  let nblocks := if len = 0 then 1 else (len + 63) / 64
  let mut cv := iv
  for i in [0:nblocks] do
    let bo := off + 64 * i
    let bl := if i + 1 = nblocks then len - 64 * i else 64
    let mut flags : UInt32 := 0
    if i = 0 then flags := flags ||| CHUNK_START
    if i + 1 = nblocks then flags := flags ||| CHUNK_END ||| rootFlag
    cv := compress cv (blockWords a (off + len) bo) ctr (UInt32.ofNat bl) flags
  return cv

def parentCV (l r : CV) (rootFlag : UInt32) : CV :=
  compress iv #[l.a, l.b, l.c, l.d, l.e, l.f, l.g, l.h, r.a, r.b, r.c, r.d, r.e, r.f, r.g, r.h] 0 64 (PARENT ||| rootFlag)

/-- largest power of two ≤ n (n ≥ 1) -/
def pow2le (n : Nat) : Nat := 2 ^ (Nat.log2 n)

/-- `a[off, off+len)` starting at chunk counter `ctr`; left subtree = largest power-of-two number of chunks
strictly smaller than the whole (reference implementation `left_len`). `fuel` bounds the tree depth. -/
def subtree : Nat → Array UInt8 → Nat → Nat → Nat → UInt32 → CV
  | 0, a, off, len, ctr, rf => chunkCV a off len ctr rf
  | fuel + 1, a, off, len, ctr, rf =>
    if len ≤ 1024 then chunkCV a off len ctr rf
    else
      let left := pow2le ((len - 1) / 1024) * 1024
      parentCV (subtree fuel a off left ctr 0) (subtree fuel a (off + left) (len - left) (ctr + left / 1024) 0) rf

def le (x : UInt32) : List Nat :=
  [x.toNat % 256, (x >>> 8).toNat % 256, (x >>> 16).toNat % 256, (x >>> 24).toNat % 256]

def CV.toBytes (s : CV) : List Nat :=
  le s.a ++ le s.b ++ le s.c ++ le s.d ++ le s.e ++ le s.f ++ le s.g ++ le s.h

def toArray (msg : List Nat) : Array UInt8 := Id.run do
  let mut a : Array UInt8 := Array.mkEmpty msg.length
  for b in msg do
    a := a.push (UInt8.ofNat b)
  return a

/-- BLAKE3 (32-byte output) of a byte string -/
def blake3 (msg : List Nat) : List Nat :=
  (subtree 64 (toArray msg) 0 msg.length 0 ROOT).toBytes

/-- the 16-byte truncation used by tiered-whitelist-merkletree -/
def blake3_16 (msg : List Nat) : List Nat :=
  match blake3 msg with
  | b0 :: b1 :: b2 :: b3 :: b4 :: b5 :: b6 :: b7 :: b8 :: b9 :: b10 :: b11 :: b12 :: b13 :: b14 :: b15 :: _ =>
    [b0, b1, b2, b3, b4, b5, b6, b7, b8, b9, b10, b11, b12, b13, b14, b15]
  | l => l

theorem blake3_length (msg : List Nat) : (blake3 msg).length = 32 := rfl
theorem blake3_16_length (msg : List Nat) : (blake3_16 msg).length = 16 := rfl

end LP.Blake3
