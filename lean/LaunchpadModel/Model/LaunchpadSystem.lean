import LaunchpadModel.Model.VendingFull
import LaunchpadModel.Model.WhitelistFull
/-!
# The SYSTEM composite: vending factory + vending minter + whitelist contracts — namespace `LP.Sys`

Joins the two finished composite models:

* `LP.VF` (Model/VendingFull.lean): vending-factory + the six vending minters + the collection interface. There the whitelist
  contracts are ANSWERS only: `WlInfo` per address (written by `VF.Op.wlEnv`) and a per-mint `SenderView`, both supplied from
  outside.
* `LP.WF` (Model/WhitelistFull.lean): the seven whitelist crates, every gate and every query computed from stored state.

Here nothing about a whitelist comes from outside. The state is the minter-side state plus a table of `WF.Wl` instances keyed
by contract address, all over ONE bank and ONE clock. For the cross-contract queries of the minter, `step` computes the
`VF.WlInfo` / `VF.SenderView` that `VF` expects **from the `WF` state**, by evaluating the `WF` query functions at the current block:

* `wlInfoOf now w`     — `Config {}` (`is_active`, `mint_price`, `per_address_limit`, `member_limit == 0 && num_members == 0`),
                         the crate (= the shape of its answers and its cw2 name), `ActiveStageId {}`, `Stage {id-1}.mint_count_limit`;
* `senderViewOf now w …` — `HasMember {member: sender}`, `HasMember {member: stage‖sender‖allocation, proof_hashes}`,
                         `Member {member: sender}.mint_count`.

These two functions are the formal statement of "what the minter sees of a whitelist". The only inputs that remain witnesses
are pseudo-randomness (`CreateWit.perm`, `picked`, shuffle `perm`) and the addresses the chain allocates (`CreateWit`,
`wlInst … self`), exactly as in the two halves.

Ops: every `VF` op except `wlEnv` (`Op.minter`; a `wlEnv` or a `mint` carrying a `SenderView` given this way is refused), the
buyer's `mint` with the real message fields (`proof_hashes` as strings), whitelist `instantiate`, every whitelist `ExecuteMsg`
addressed to one of the instances.
-/
namespace LP.Sys
open LP

/-! ## State -/

structure State where
  /-- `env.block.time` (one clock) -/
  now : Nat
  codes : VF.Codes
  factoryAddr : Addr
  /-- factory `SUDO_PARAMS` -/
  params : VF.Params
  /-- one bank -/
  bank : MintPay.Bank
  minter : Option VF.Minter
  /-- the whitelist contracts, newest first, keyed by `env.contract.address` -/
  wls : List (Addr × WF.Wl)

/-- the contract at address `a` -/
def find : List (Addr × WF.Wl) → Addr → Option WF.Wl
  | [], _ => none
  | (k, w) :: rest, a => if a = k then some w else find rest a

/-- replace the contract stored at `k` -/
def replace : List (Addr × WF.Wl) → Addr → WF.Wl → List (Addr × WF.Wl)
  | [], _, _ => []
  | (k', w') :: rest, k, w => if k = k' then (k', w) :: rest else (k', w') :: replace rest k w

/-! ## What the minter sees of a whitelist -/

/-- the crate of a whitelist instance, as the minter-side tables (`MintLimits.configOk`, `answers*`, `tieredName`,
`stageOk`) name it: which `Config` / `HasMember` / `Member` / `Stage` shapes it answers, what its cw2 name contains -/
def wlKindOf (v : WF.Variant) : MintLimits.WlKind :=
  match v.store with
  | .immutable => .immutable
  | .merkle => if v.tiered then .tieredMerkle else .merkle
  | .list =>
    match v.flex, v.tiered with
    | false, false => .plain
    | true, false => .flex
    | false, true => .tiered
    | true, true => .tieredFlex

/-- `Stage {stage_id}.stage.mint_count_limit` of the tiered crates (`none`: the query fails, or no limit) -/
def stageLimitOf (w : WF.Wl) (id : Nat) : Option Nat :=
  if w.v.isMerkle then (WF.qStageMerkle w id).bind (·.1.mcl) else (WF.qStage w id).bind (·.1.mcl)

/-- the sender-independent answers of whitelist `w` at block time `now`: `Config {}`, `ActiveStageId {}`, `Stage {}` -/
def wlInfoOf (now : Nat) (w : WF.Wl) : VF.WlInfo :=
  let sid := (WF.qActiveStageId w now).getD 0
  match WF.qConfig w now with
  | some c =>
    { kind := wlKindOf w.v, active := c.active, price := c.price, limit := c.pal.getD 0,
      merkleCfg := decide (c.limit = 0) && decide (c.num = 0), stageId := sid,
      stageLimit := if 1 ≤ sid then stageLimitOf w (sid - 1) else none }
  | none =>
    -- whitelist-immutable: `{config: …}` — none of the fields a minter reads is there
    { kind := wlKindOf w.v, active := false, price := ⟨NATIVE, 0⟩, limit := 0, merkleCfg := false, stageId := sid,
      stageLimit := if 1 ≤ sid then stageLimitOf w (sid - 1) else none }

/-- ASCII decimal, zero-padded to 5 digits (`{:05}`) -/
def pad5 (n : Nat) : List Nat :=
  let d := Merkle.decBytes n
  List.replicate (5 - d.length) 48 ++ d

/-- the bech32 / test string of an account as the chain hands it to the contracts (`info.sender.to_string()`); the harness'
naming scheme: `acct{n:05}`, contracts `contract{k}` for ids `1000 + k`. (Ids 1…4, the fee recipients of `sg1`, have names
fixed by /repo; they never send a mint.) -/
def addrBytes (a : Addr) : List Nat :=
  if a < 1000 then [97, 99, 99, 116] ++ pad5 a
  else [99, 111, 110, 116, 114, 97, 99, 116] ++ Merkle.decBytes (a - 1000)

/-- the Merkle leaf the minter builds for a mint: `stage ‖ sender ‖ allocation` -/
def leafOf (sender : Addr) (stage alloc : Option Nat) : List Nat := Merkle.leafStr stage (addrBytes sender) alloc

/-- the sender-dependent answers of whitelist `w` for ONE mint message at block time `now` -/
def senderViewOf (now : Nat) (w : WF.Wl) (sender : Addr) (stage alloc : Option Nat) (proof : Option (List (List Nat))) :
    VF.SenderView :=
  { memberPlain := (WF.qHasMember w now sender).getD false
    leafOk := match proof with
      | some p => (WF.qHasMemberMerkle w now (leafOf sender stage alloc) p).getD false
      | none => false
    memberCount := (WF.qMember w now sender).getD 0 }

/-- the whitelist interface as a function of the whitelist states: what EVERY address answers right now -/
def viewOf (now : Nat) (tbl : List (Addr × WF.Wl)) : Addr → Option VF.WlInfo :=
  fun a => (find tbl a).map (wlInfoOf now)

/-- the minter-side state of the system, with the whitelist interface computed from the whitelist states -/
def vfOf (s : State) : VF.State :=
  { now := s.now, codes := s.codes, factoryAddr := s.factoryAddr, params := s.params, bank := s.bank,
    wls := viewOf s.now s.wls, minter := s.minter }

/-- write a minter-side result back (the interface component of `c` is dropped: it is recomputed, never stored) -/
def setVf (s : State) (c : VF.State) : State :=
  { now := c.now, codes := c.codes, factoryAddr := c.factoryAddr, params := c.params, bank := c.bank,
    minter := c.minter, wls := s.wls }

/-- the whitelist-side state of the system for the contract at `k` -/
def wfOf (s : State) (k : Addr) : WF.State := ⟨s.now, s.bank, find s.wls k⟩

/-! ## Operations -/

inductive Op where
  /-- any `VF` op other than `wlEnv` and `mint` (clock, `fund`, `CreateMinter`, every other minter message, both sudos, the
  collection interface); those two are refused: the system has no interface op and takes no `SenderView` -/
  | minter (op : VF.Op)
  /-- the buyer's `Mint {stage, proof_hashes, allocation}` (`Mint {}` on the plain / flex crates: all three absent) -/
  | mint (sender : Addr) (funds : List Coin) (stage alloc : Option Nat) (proof : Option (List (List Nat))) (picked : Nat)
  /-- `instantiate` of whitelist crate `v`; `self` = the address the chain gives the new contract -/
  | wlInst (v : WF.Variant) (sender : Addr) (funds : List Coin) (self : Addr) (m : WF.InstMsg)
  /-- `execute` on the whitelist contract at `k` -/
  | wlExec (k : Addr) (sender : Addr) (funds : List Coin) (m : WF.ExecMsg)

/-- the `SenderView` of a mint: the answers of the whitelist ATTACHED to the minter (nothing is asked otherwise) -/
def mintView (s : State) (sender : Addr) (stage alloc : Option Nat) (proof : Option (List (List Nat))) : VF.SenderView :=
  match s.minter with
  | none => {}
  | some m =>
    match m.whitelist with
    | none => {}
    | some a =>
      match find s.wls a with
      | none => {}
      | some w => senderViewOf s.now w sender stage alloc proof

/-- the `VF` op a system `mint` is, with its witnesses computed from the whitelist state -/
def mintOp (s : State) (sender : Addr) (funds : List Coin) (stage alloc : Option Nat) (proof : Option (List (List Nat)))
    (picked : Nat) : VF.Op :=
  .mint sender funds { stage := stage, proof := proof.isSome, alloc := alloc } (mintView s sender stage alloc proof) picked

/-- is the address already a contract of the system? (a new contract never gets such an address) -/
def taken (s : State) (a : Addr) : Bool :=
  (find s.wls a).isSome || decide (a = s.factoryAddr) ||
  (match s.minter with
   | some m => decide (a = m.addr) || decide (a = m.sg721)
   | none => false)

/-- the two `VF` ops that carry whitelist answers from outside -/
def witnessed : VF.Op → Bool
  | .wlEnv _ _ => true
  | .mint _ _ _ _ _ => true
  | _ => false

def step (s : State) : Op → Except Err State
  | .minter op =>
    if witnessed op then .error .invalid
    else
      match VF.step (vfOf s) op with
      | .ok c => .ok (setVf s c)
      | .error e => .error e
  | .mint sender funds stage alloc proof picked =>
    match VF.step (vfOf s) (mintOp s sender funds stage alloc proof picked) with
    | .ok c => .ok (setVf s c)
    | .error e => .error e
  | .wlInst v sender funds self m =>
    if taken s self then .error .other
    else
      match WF.step ⟨s.now, s.bank, none⟩ (.instantiate v sender funds self m) with
      | .error e => .error e
      | .ok r =>
        match r.wl with
        | none => .error .other
        | some w => .ok { s with bank := r.bank, wls := (self, w) :: s.wls }
  | .wlExec k sender funds m =>
    match find s.wls k with
    | none => .error .notFound
    | some w =>
      match WF.step ⟨s.now, s.bank, some w⟩ (.exec sender funds m) with
      | .error e => .error e
      | .ok r =>
        match r.wl with
        | none => .error .other
        | some w' => .ok { s with bank := r.bank, wls := replace s.wls k w' }

/-- transactional semantics: a failed message leaves the world unchanged -/
def step' (s : State) (op : Op) : State :=
  match step s op with
  | .ok s' => s'
  | .error _ => s

def run (s : State) (ops : List Op) : State := ops.foldl step' s

/-- the system's own verdict on an operation -/
def accepted (s : State) (op : Op) : Bool :=
  match step s op with
  | .ok _ => true
  | .error _ => false

/-- a fresh chain with the factory instantiated -/
def init (now : Nat) (codes : VF.Codes) (factoryAddr : Addr) (p : VF.Params) : State :=
  { now := now, codes := codes, factoryAddr := factoryAddr, params := p, bank := VF.emptyBank, minter := none, wls := [] }

/-! ## The interface refresh as `VF` ops (used by the refinement theorems) -/

/-- one `wlEnv` per whitelist contract, each carrying `wlInfoOf` of that contract's state; later table entries first, so the
newest entry of an address wins as in `find` -/
def refreshOps (now : Nat) : List (Addr × WF.Wl) → List VF.Op
  | [] => []
  | (k, w) :: rest => refreshOps now rest ++ [VF.Op.wlEnv k (some (wlInfoOf now w))]

end LP.Sys
