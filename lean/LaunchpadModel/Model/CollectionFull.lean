import LaunchpadModel.Model.Basic
import LaunchpadModel.Model.Decimal
import LaunchpadModel.Model.Sg1
import LaunchpadModel.Model.Semver
import LaunchpadModel.Model.Sg721
import LaunchpadModel.Model.MintPay
import LaunchpadModel.Generated.Constants
/-!
# Composite model of the SG-721 collection family (DESIGN §3.4) — core Lean only

ONE deterministic, executable model of `sg721-base`, `sg721-nt`, `sg721-updatable`, `sg721-metadata-onchain` (on top of
`cw721-base 0.18`, `cw-ownable 0.5`, `cw2`) as the code is now: `instantiate`, every `ExecuteMsg` of the four entry points,
the three `migrate` entry points, every `QueryMsg`, the `royalty_payout` helper, the bank effects of attached funds and
of `EnableUpdatable`'s fair burn.  (The collections have no `sudo` and no `reply` entry point.)  Every gate is computed
here: authorisation (minter = cw_ownable owner, creator, token owner / approved spender / operator with expirations),
`nonpayable` / `checked_fair_burn`, the 24 h royalty cadence and the raise limits, freezes, the message surface of each
contract (`Sg721.supported`), version / name checks of the migrations.  See `docs/COMPOSITE_COLLECTION.md`.

Taken from outside (explicit interface, never the outcome of the op):

* the chain: the block (`Op.block`), which address the chain gives the new contract (`Op.instantiate … self`), whether an
  address is a contract (`Sg721.isContract`, the harness naming scheme), `addr_validate` (`Sg721.validAddr`: ids 900…999
  are the malformed strings), `Url::parse` (`Url.valid` flag on the message), coin creation (`Op.fund`);
* the contract a token is SENT to: whether its `ReceiveNft` handler accepts (`ExecMsg.sendNft … recvOk`, computed by the
  harness from the target and the payload before the call);
* storage written by OLDER releases of the family, which today's code can only read: the stored cw2 version
  (`Op.setVersion`) and the cw721-base 0.16 `minter` item (`Op.setLegacy`) — they drive the upgrade branches of `migrate`.

Reused as it stands: the token / approval / operator / ownership / collection-info machine of the C09 aspect model
(`Sg721.State`, `Sg721.exec`, `Sg721.instantiate`) — embedded as the component `Coll.core`, with its two environment
witnesses COMPUTED here (`royaltyGate` for `royAccepted`, the receiver interface for `recvOk`); the bank of
`MintPay` (`Bank.sendFunds`, `applyMsgs`); `Sg1.checkedFairBurn`; `Semver`.  Written here independently of the other aspect
models (C10 `Royalty`, C19 `TT.Coll`, C20 `Mig`, C05 `Priv`): the royalty gate, the three migrations with the legacy
ownership upgrade, the payout helper, all queries.
Out of the model: response attributes / events, error variants, JSON shapes; foreign-code migrations (pointing a
collection at the code of ANOTHER collection kind other than sg721-updatable — unrepresentable: `migrateSelf` /
`migrateUpdatable`), chain-level migrate authorisation (the wasm admin), one collection per case.
-/
namespace LP.CF
open LP
open LP.Sg721 (Kind Block Exp Approval Token Royalty Desc Url Info Ownership Operator Action InstMsg validAddr isContract
  DAY_NS codeVersion)

abbrev Bank := MintPay.Bank

/-! ## Messages (wire level: what a JSON `ExecuteMsg` can express) -/

/-- `sg721::UpdateCollectionInfoMsg<RoyaltyInfoResponse>` as it arrives through an entry point: for `external_link` and
`royalty_info` (`Option<Option<_>>`) JSON `null` and an absent field both deserialise to the OUTER `None`, so only
"keep" (`none`) and "set" (`some`) exist. -/
structure UpdateInfo where
  description : Option Desc
  image : Option Url
  externalLink : Option Url
  explicitContent : Option Bool
  royalty : Option Royalty
  creator : Option Addr
deriving Repr, DecidableEq

def UpdateInfo.toSg (u : UpdateInfo) : Sg721.UpdateInfo :=
  ⟨u.description, u.image, u.externalLink.map some, u.explicitContent, u.royalty.map some, u.creator⟩

/-- union of the four `ExecuteMsg` enums; no environment witness except `recvOk` (the receiving contract's answer) -/
inductive ExecMsg where
  | transferNft (recipient : Addr) (id : Nat)
  | sendNft (contract : Addr) (id : Nat) (recvOk : Bool)
  | approve (spender : Addr) (id : Nat) (expires : Option Exp)
  | revoke (spender : Addr) (id : Nat)
  | approveAll (operator : Addr) (expires : Option Exp)
  | revokeAll (operator : Addr)
  | mint (id : Nat) (owner : Addr) (uri : Option Nat) (ext : Nat)
  | burn (id : Nat)
  | extension
  | updateCollectionInfo (u : UpdateInfo)
  | updateStartTradingTime (t : Option Nat)
  | freezeCollectionInfo
  | updateOwnership (a : Action)
  | freezeTokenMetadata
  | updateTokenMetadata (id : Nat) (uri : Option Nat)
  | enableUpdatable
deriving Repr, DecidableEq

/-! ## State -/

/-- one collection contract -/
structure Coll where
  /-- cw2 record (`kind` = contract name = the code it runs, `ver`), cw721-base `tokens` / `num_tokens` / `operators`,
  cw-ownable `ownership`, sg721-base `collection_info` / `frozen_collection_info` / `royalty_updated_at`, sg721-updatable
  `frozen_token_metadata` / `enable_updatable` -/
  core : Sg721.State
  /-- `env.contract.address` -/
  self : Addr
  /-- cw721-base `nft_info` item (`ContractInfoResponse {name, symbol}`), interned -/
  name : Nat
  symbol : Nat
  /-- cw721-base 0.16 `minter` item: absent in every collection instantiated by today's code -/
  legacy : Option Addr

structure State where
  block : Block
  bank : Bank
  coll : Option Coll

def State.init (b : Block) : State :=
  { block := b, bank := ⟨fun _ _ => 0, fun _ => 0, fun _ => 0⟩, coll := none }

/-! ## The royalty gate (`update_collection_info`, the `Some(Some(new_royalty_info))` block) -/

/-- `if old.share < new.share { delta > 2 % ⇒ err; new > 10 % ⇒ err }` -/
def raiseOk (old : Option Royalty) (share : Nat) : Bool :=
  match old with
  | none => true
  | some o =>
    if o.share < share then
      decide (share - o.share ≤ percent Gen.sg721_base_MAX_SHARE_DELTA_PCT)
        && decide (share ≤ percent Gen.sg721_base_MAX_ROYALTY_SHARE_PCT)
    else true

/-- all four checks of the block, on the state BEFORE the update: `royalty_updated_at + 24 h ≤ now`,
`addr_validate(payment_address)`, `share_validate`, the raise rule against the stored royalty -/
def royaltyGate (c : Sg721.State) (b : Block) (r : Royalty) : Bool :=
  decide (c.royaltyUpdatedAt + DAY_NS ≤ b.time) && validAddr r.payment && decide (r.share ≤ DEC_ONE)
    && raiseOk c.info.royalty r.share

def royAccepted (c : Sg721.State) (b : Block) (u : UpdateInfo) : Bool :=
  match u.royalty with
  | some r => royaltyGate c b r
  | none => true

/-- the aspect-model message with its witnesses computed from the composite state -/
def toExec (c : Sg721.State) (b : Block) : ExecMsg → Sg721.ExecMsg
  | .transferNft r id => .transferNft r id
  | .sendNft k id ok => .sendNft k id ok
  | .approve sp id ex => .approve sp id ex
  | .revoke sp id => .revoke sp id
  | .approveAll o ex => .approveAll o ex
  | .revokeAll o => .revokeAll o
  | .mint id o uri ext => .mint id o uri ext
  | .burn id => .burn id
  | .extension => .extension
  | .updateCollectionInfo u => .updateCollectionInfo u.toSg (royAccepted c b u)
  | .updateStartTradingTime t => .updateStartTradingTime t
  | .freezeCollectionInfo => .freezeCollectionInfo
  | .updateOwnership a => .updateOwnership a
  | .freezeTokenMetadata => .freezeTokenMetadata
  | .updateTokenMetadata id uri => .updateTokenMetadata id uri
  | .enableUpdatable => .enableUpdatable

/-! ## execute -/

/-- bank / stargate messages of the response: only `EnableUpdatable` emits any (`checked_fair_burn` with no developer) -/
def responseMsgs (self : Addr) (funds : List Coin) : ExecMsg → List LP.Msg
  | .enableUpdatable =>
    match Sg1.checkedFairBurn funds self Gen.sg721_updatable_ENABLE_UPDATABLE_FEE none with
    | .ok ms => ms
    | .error _ => []
  | _ => []

/-- one `MsgExecuteContract`: the attached funds reach the contract, the entry point runs, the response's messages run;
any failure reverts everything -/
def exec (s : State) (sender : Addr) (funds : List Coin) (m : ExecMsg) : Except Err State :=
  match s.coll with
  | none => .error .notFound
  | some c =>
    match s.bank.sendFunds sender c.self funds with
    | none => .error .payment
    | some b1 =>
      match Sg721.exec c.core ⟨s.block, sender, funds, toExec c.core s.block m⟩ with
      | .error e => .error e
      | .ok core' =>
        match MintPay.applyMsgs c.self b1 (responseMsgs c.self funds m) with
        | none => .error .other
        | some b2 => .ok { s with bank := b2, coll := some { c with core := core' } }

/-! ## instantiate -/

/-- `MsgInstantiateContract` of collection code `k`; `self` = the address the chain allocates -/
def instantiate (s : State) (k : Kind) (sender : Addr) (funds : List Coin) (name symbol : Nat) (m : InstMsg) (self : Addr) :
    Except Err State :=
  match s.coll with
  | some _ => .error .other               -- one collection per case
  | none =>
    match s.bank.sendFunds sender self funds with
    | none => .error .payment
    | some b1 =>
      match Sg721.instantiate k s.block sender funds m with
      | .error e => .error e
      | .ok core => .ok { s with bank := b1, coll := some { core := core, self := self, name := name, symbol := symbol, legacy := none } }

/-! ## migrate -/

def strOf (str : String) : List Nat := str.toList.map Char.toNat

/-- `cw721_base::upgrades::v0_17::migrate` (through `sg721_base::upgrades::v3_0_0::upgrade`): load and remove the 0.16
`minter` item, `cw_ownable::initialize_owner(Some(minter))` — ownership is REPLACED, a pending transfer is dropped -/
def upgradeOwnership (c : Coll) : Except Err Coll :=
  match c.legacy with
  | none => .error .notFound
  | some m =>
    if validAddr m then .ok { c with legacy := none, core := { c.core with ownership := ⟨some m, none, none⟩ } }
    else .error .invalid

/-- `sg721_base::upgrades::v3_1_0::upgrade`: `royalty_updated_at := now − 24 h` (`minus_seconds` panics on underflow) -/
def upgradeRoyalty (now : Nat) (c : Coll) : Except Err Coll :=
  if now < DAY_NS then .error .other
  else .ok { c with core := { c.core with royaltyUpdatedAt := now - DAY_NS } }

/-- sg721-updatable `_migrate` (the stored name is `core.kind`: an sg721-base or sg721-updatable name is required) -/
def migrateUpdatable (c : Coll) (now : Nat) : Except Err Coll :=
  let v := c.core.ver
  let code := codeVersion .updatable
  if ¬ (c.core.kind = .base ∨ c.core.kind = .updatable) then .error .invalid
  else if v < Sg721.UPD_EARLIEST then .error .version
  else if code < v then .error .version
  else if v = code ∧ c.core.kind = .updatable then .error .version
  else
    let c1 : Coll := if c.core.kind = .base then { c with core := { c.core with frozenMeta := false, updEnabled := false } } else c
    match (if v < Sg721.V_3_0_0 then upgradeOwnership c1 else .ok c1) with
    | .error e => .error e
    | .ok c2 =>
      match (if v < Sg721.V_3_1_0 then upgradeRoyalty now c2 else .ok c2) with
      | .error e => .error e
      | .ok c3 => .ok { c3 with core := { c3.core with kind := .updatable, ver := code } }

/-- sg721-metadata-onchain `entry::migrate` on an sg721-metadata-onchain collection -/
def migrateOnchain (c : Coll) : Except Err Coll :=
  let v := c.core.ver
  let code := codeVersion .onchain
  if v < Sg721.ONCHAIN_EARLIEST then .error .version
  else if code < v then .error .version
  else if code = v then .ok c
  else
    let c1 : Coll := { c with core := { c.core with ver := Sg721.ONCHAIN_TO } }
    if v < Sg721.V_3_0_0 then upgradeOwnership c1 else .ok c1

/-- sg721-nt `entry::migrate` on an sg721-nt collection: three compile-time constants compared AS STRINGS; the cw2 record
is never read -/
def migrateNt (c : Coll) : Except Err Coll :=
  let code := Semver.print (codeVersion .nt)
  let to := strOf Gen.sg721_nt_TO_VERSION
  if Semver.strLt code (strOf Gen.sg721_nt_EARLIEST_VERSION) then .error .version
  else if Semver.strLt to code then .error .version
  else if code = to then .ok c
  else upgradeOwnership { c with core := { c.core with ver := Sg721.NT_TO } }

/-- `MsgMigrateContract` to the code the collection already runs (sg721-base has no `migrate` entry point) -/
def migrateSelf (c : Coll) (now : Nat) : Except Err Coll :=
  match c.core.kind with
  | .base => .error .invalid
  | .updatable => migrateUpdatable c now
  | .onchain => migrateOnchain c
  | .nt => migrateNt c

/-! ## Operations -/

inductive Op where
  /-- next block -/
  | block (b : Block)
  /-- test setup: `BankSudo::Mint` -/
  | fund (a : Addr) (c : Coin)
  | instantiate (k : Kind) (sender : Addr) (funds : List Coin) (name symbol : Nat) (m : InstMsg) (self : Addr)
  | exec (sender : Addr) (funds : List Coin) (m : ExecMsg)
  /-- `MsgMigrateContract` to the sg721-updatable code (by the wasm admin) -/
  | migrateUpdatable
  /-- `MsgMigrateContract` to the code the collection runs (by the wasm admin) -/
  | migrateSelf
  /-- environment: the stored cw2 version is `v` (collection instantiated by release `v`) -/
  | setVersion (v : Semver.Version)
  /-- environment: the cw721-base 0.16 `minter` item holds `a` / is absent -/
  | setLegacy (a : Option Addr)
deriving Repr

def onColl (s : State) (f : Coll → Except Err Coll) : Except Err State :=
  match s.coll with
  | none => .error .notFound
  | some c =>
    match f c with
    | .error e => .error e
    | .ok c' => .ok { s with coll := some c' }

def step (s : State) : Op → Except Err State
  | .block b => .ok { s with block := b }
  | .fund a c => .ok { s with bank := s.bank.fund a c }
  | .instantiate k sender funds name symbol m self => instantiate s k sender funds name symbol m self
  | .exec sender funds m => exec s sender funds m
  | .migrateUpdatable => onColl s (migrateUpdatable · s.block.time)
  | .migrateSelf => onColl s (migrateSelf · s.block.time)
  | .setVersion v => onColl s fun c => .ok { c with core := { c.core with ver := v } }
  | .setLegacy a => onColl s fun c => .ok { c with legacy := a }

/-- transactional semantics: a failed message leaves everything untouched -/
def step' (s : State) (op : Op) : State :=
  match step s op with
  | .ok s' => s'
  | .error _ => s

def run (s : State) (ops : List Op) : State := ops.foldl step' s

/-- the composite's own verdict on an operation -/
def accepted (s : State) (op : Op) : Bool :=
  match step s op with
  | .ok _ => true
  | .error _ => false

/-! ## Queries (`sg721_base::msg::QueryMsg`, plus the three of sg721-updatable) -/

/-- token ids are stored under their decimal STRING: `AllTokens` / `Tokens` page in byte order ("10" < "2") -/
def keyLt (a b : Nat) : Bool := Semver.strLt (Semver.printNum a) (Semver.printNum b)

def insertBy {α : Type} (lt : α → α → Bool) (x : α) : List α → List α
  | [] => [x]
  | y :: ys => if lt y x then y :: insertBy lt x ys else x :: y :: ys

def sortBy {α : Type} (lt : α → α → Bool) (l : List α) : List α := l.foldl (fun acc x => insertBy lt x acc) []

/-- `limit.unwrap_or(DEFAULT_LIMIT).min(MAX_LIMIT)` of cw721-base (10 / 100) -/
def pageLimit (limit : Option Nat) : Nat := min (limit.getD 10) 100

def liveApprovals (t : Token) (b : Block) (includeExpired : Bool) : List Approval :=
  t.approvals.filter fun a => includeExpired || !a.expires.isExpired b

def getToken (c : Coll) (id : Nat) : Except Err Token :=
  match c.core.find? id with
  | some t => .ok t
  | none => .error .notFound

/-- `OwnerOf {token_id, include_expired}` -/
def qOwnerOf (c : Coll) (b : Block) (id : Nat) (ie : Bool) : Except Err (Addr × List Approval) :=
  match getToken c id with
  | .error e => .error e
  | .ok t => .ok (t.owner, liveApprovals t b ie)

/-- `Approval {token_id, spender, include_expired}`: the owner has a standing approval; `spender` is compared as a string,
never validated -/
def qApproval (c : Coll) (b : Block) (id : Nat) (spender : Addr) (ie : Bool) : Except Err Approval :=
  match getToken c id with
  | .error e => .error e
  | .ok t =>
    if t.owner = spender then .ok ⟨spender, .never⟩
    else
      match (liveApprovals t b ie).filter (fun a => decide (a.spender = spender)) with
      | a :: _ => .ok a
      | [] => .error .notFound

/-- `Approvals {token_id, include_expired}` -/
def qApprovals (c : Coll) (b : Block) (id : Nat) (ie : Bool) : Except Err (List Approval) :=
  match getToken c id with
  | .error e => .error e
  | .ok t => .ok (liveApprovals t b ie)

/-- `AllOperators {owner, include_expired, start_after, limit}`: `start_after` and `owner` are validated; entries in
address order (= id order under the harness naming scheme), expired ones filtered BEFORE the page is cut -/
def qAllOperators (c : Coll) (b : Block) (owner : Addr) (ie : Bool) (after : Option Addr) (limit : Option Nat) :
    Except Err (List (Addr × Exp)) :=
  if !(match after with | some a => validAddr a | none => true) then .error .invalid
  else if !validAddr owner then .error .invalid
  else
    let mine := (c.core.operators.filter fun o => decide (o.owner = owner)).map fun o => (o.operator, o.expires)
    let sorted := sortBy (fun (x y : Addr × Exp) => decide (x.1 < y.1)) mine
    let from_ := sorted.filter fun x => match after with | some a => decide (a < x.1) | none => true
    .ok ((from_.filter fun x => ie || !x.2.isExpired b).take (pageLimit limit))

def qNumTokens (c : Coll) : Nat := c.core.count

def qContractInfo (c : Coll) : Nat × Nat := (c.name, c.symbol)

/-- `NftInfo {token_id}`: (token_uri, extension tag) -/
def qNftInfo (c : Coll) (id : Nat) : Except Err (Option Nat × Nat) :=
  match getToken c id with
  | .error e => .error e
  | .ok t => .ok (t.uri, t.ext)

/-- `AllNftInfo {token_id, include_expired}` -/
def qAllNftInfo (c : Coll) (b : Block) (id : Nat) (ie : Bool) : Except Err ((Addr × List Approval) × (Option Nat × Nat)) :=
  match getToken c id with
  | .error e => .error e
  | .ok t => .ok ((t.owner, liveApprovals t b ie), (t.uri, t.ext))

def afterKey (after : Option Nat) (i : Nat) : Bool :=
  match after with
  | none => true
  | some a => keyLt a i

/-- `AllTokens {start_after, limit}` -/
def qAllTokens (c : Coll) (after : Option Nat) (limit : Option Nat) : List Nat :=
  ((sortBy keyLt c.core.ids).filter (afterKey after)).take (pageLimit limit)

/-- `Tokens {owner, start_after, limit}` -/
def qTokens (c : Coll) (owner : Addr) (after : Option Nat) (limit : Option Nat) : Except Err (List Nat) :=
  if !validAddr owner then .error .invalid
  else
    let mine := (c.core.tokens.filter fun t => decide (t.owner = owner)).map (·.id)
    .ok (((sortBy keyLt mine).filter (afterKey after)).take (pageLimit limit))

/-- `Minter {}` -/
def qMinter (c : Coll) : Option Addr := c.core.ownership.owner

/-- `Ownership {}` (`cw_ownable_query`): sg721-updatable's own `QueryMsg` enum lacks the variant -/
def qOwnership (c : Coll) : Except Err Ownership :=
  if c.core.kind = .updatable then .error .invalid else .ok c.core.ownership

/-- `CollectionInfo {}` -/
def qCollectionInfo (c : Coll) : Info := c.core.info

/-- sg721-updatable only (the other three `QueryMsg` enums have no such variants) -/
def qEnableUpdatable (c : Coll) : Except Err Bool :=
  if c.core.kind = .updatable then .ok c.core.updEnabled else .error .invalid

def qFrozenTokenMetadata (c : Coll) : Except Err Bool :=
  if c.core.kind = .updatable then .ok c.core.frozenMeta else .error .invalid

def qEnableUpdatableFee (c : Coll) : Except Err Nat :=
  if c.core.kind = .updatable then .ok Gen.sg721_updatable_ENABLE_UPDATABLE_FEE else .error .invalid

/-! ## The payout helper -/

/-- `CollectionInfoResponse::royalty_payout(collection, payment, protocol_fee, finders_fee, res)` on the answer of
`CollectionInfo {}`: the royalty amount and the messages pushed onto `res` -/
def royaltyPayout (c : Coll) (payment protocolFee : Nat) (finders : Option Nat) : Except Err (Nat × List LP.Msg) :=
  let fees := protocolFee + finders.getD 0
  if payment < fees then .error .other
  else
    match c.core.info.royalty with
    | none => .ok (0, [])
    | some r =>
      if r.share = 0 then .ok (0, [])
      else
        let royalty := mulFloor payment r.share
        if payment < fees + royalty then .error .other
        else .ok (royalty, [LP.Msg.send r.payment ⟨NATIVE, royalty⟩])

end LP.CF
