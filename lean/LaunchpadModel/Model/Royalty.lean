import LaunchpadModel.Model.Basic
import LaunchpadModel.Model.Decimal
import LaunchpadModel.Generated.Constants
/-!
# sg721-base / -nt / -updatable / -metadata-onchain — collection info, royalties, the 24 h royalty cadence,
the migrations that touch the cadence anchor, and the royalty payout helper

All four collection contracts run the same `Sg721Contract::{instantiate, update_collection_info,
freeze_collection_info}`; they differ in their `ExecuteMsg` dispatch (checked by the correspondence run, per kind)
and in their `migrate` entry points (`sg721-updatable::_migrate` applies `sg721_base::upgrades::v3_1_0`, which
REWINDS `royalty_updated_at` to `now − 24 h` when the stored cw2 version is below 3.1.0).

Mirrors (current /repo):

* `contracts/collections/sg721-base/src/contract.rs`: `instantiate`, `update_collection_info`,
  `freeze_collection_info`, `update_start_trading_time`, `share_validate`;
* `contracts/collections/sg721-base/src/msg.rs`: `CollectionInfoResponse::royalty_payout`;
* `contracts/collections/sg721-updatable/src/contract.rs::_migrate`, `sg721-base/src/upgrades/v3_1_0.rs`,
  the `migrate` entry points of sg721-nt and sg721-metadata-onchain (royalty frame only; whether a migration is
  *accepted* is C20's matter and enters as a witness).

Conventions (checked by the correspondence run, see `harness/src/bin/c10.rs`):

* shares are `Decimal` **atomics** (`10^18` = 100 %), times are nanoseconds;
* strings are out of the model: a description is its byte length, an image / external link is a `Nat`
  id whose *parity* says whether `Url::parse` accepts the string the harness builds for it
  (even ⇒ `https://…/<id>`, odd ⇒ not a URL), an address is an interned id and the ids `0` and `5`
  stand for the two strings `MockApi::addr_validate` rejects (`"x"`: too short, `"ACCT00005"`: not normalised);
* every other `ExecuteMsg` of the collection (the cw721 surface, `UpdateOwnership`) and the minter-only
  `UpdateStartTradingTime` are *environment* for C10: their ok/err is a witness taken from the
  implementation; the model states what they do to the royalty state (nothing).
-/
namespace LP.Royalty
open LP

/-- `last_royalty_update.plus_seconds(24 * 60 * 60)` — the inline literal of `update_collection_info`, in ns -/
def DAY_NS : Nat := 24 * 60 * 60 * 1000000000

def MAX_DESCRIPTION_LENGTH : Nat := Gen.sg721_base_MAX_DESCRIPTION_LENGTH
/-- `Decimal::percent(MAX_SHARE_DELTA_PCT)` atomics -/
def MAX_SHARE_DELTA : Nat := percent Gen.sg721_base_MAX_SHARE_DELTA_PCT
/-- `Decimal::percent(MAX_ROYALTY_SHARE_PCT)` atomics -/
def MAX_ROYALTY_SHARE : Nat := percent Gen.sg721_base_MAX_ROYALTY_SHARE_PCT

/-- `deps.api.addr_validate` on the string the harness builds for this id -/
def addrValid (a : Addr) : Bool := a != 0 && a != 5
/-- `Url::parse` on the string the harness builds for this id -/
def urlValid (u : Nat) : Bool := u % 2 == 0

def optUrlValid : Option Nat → Bool
  | none => true
  | some u => urlValid u

/-- which collection contract's code the instance currently runs -/
inductive Kind where
  | base | nt | updatable | onchain
deriving Repr, DecidableEq

/-- a cw2 / semver version `major.minor.patch` (pre-release tags are outside the model) -/
abbrev Ver := Nat × Nat × Nat

/-- `semver::Version` ordering on `major.minor.patch` -/
def verLt (a b : Ver) : Bool :=
  decide (a.1 < b.1) || (a.1 == b.1 && (decide (a.2.1 < b.2.1) || (a.2.1 == b.2.1 && decide (a.2.2 < b.2.2))))

/-- the inline `Version::new(3, 1, 0)` of `sg721-updatable::_migrate` (tied by the boundary cases 3.0.99 / 3.1.0 / 3.1.1) -/
def V310 : Ver := (3, 1, 0)

/-- `CONTRACT_VERSION = env!("CARGO_PKG_VERSION")` of each crate (regenerated from /repo) -/
def curVer : Kind → Ver
  | .base => Gen.sg721_base_CRATE_VERSION_TRIPLE
  | .nt => Gen.sg721_nt_CRATE_VERSION_TRIPLE
  | .updatable => Gen.sg721_updatable_CRATE_VERSION_TRIPLE
  | .onchain => Gen.sg721_metadata_onchain_CRATE_VERSION_TRIPLE

/-- `sg721::RoyaltyInfo` / `RoyaltyInfoResponse` -/
structure RoyaltyInfo where
  addr : Addr
  share : Nat
deriving Repr, DecidableEq, BEq

/-- The collection state C10 is about: `collection_info`, `frozen_collection_info`, `royalty_updated_at`, plus the code the
instance runs and its stored cw2 version (they decide whether a migration rewinds the cadence anchor). -/
structure Coll where
  /-- the code the instance runs -/
  kind : Kind
  /-- the contract NAME in the stored cw2 record (a migration may keep the old name: sg721-metadata-onchain's `migrate` returns
  early for an equal version without looking at, or rewriting, the record) -/
  name : Kind
  ver : Ver
  creator : Addr
  descLen : Nat
  image : Nat
  link : Option Nat
  explicit : Option Bool
  startTrading : Option Nat
  royalty : Option RoyaltyInfo
  frozen : Bool
  updatedAt : Nat
deriving Repr, DecidableEq, BEq

/-- `share_validate(share)`: "Share cannot be greater than 100%" -/
def shareValidate (share : Nat) : Except Err Nat :=
  if share > DEC_ONE then .error .invalid else .ok share

/-! ## instantiate -/

structure InstMsg where
  /-- the contract whose code is instantiated -/
  kind : Kind
  /-- `WasmQuery::ContractInfo{info.sender}` succeeds -/
  senderIsContract : Bool
  /-- amount of the single coin attached (0 = no funds) -/
  funds : Nat
  minter : Addr
  creator : Addr
  descLen : Nat
  image : Nat
  link : Option Nat
  explicit : Option Bool
  startTrading : Option Nat
  royalty : Option RoyaltyInfo
deriving Repr

/-- validation of `msg.collection_info.royalty_info` in `instantiate` -/
def instRoyalty : Option RoyaltyInfo → Except Err (Option RoyaltyInfo)
  | none => .ok none
  | some r =>
    if !addrValid r.addr then .error .invalid
    else match shareValidate r.share with
      | .error e => .error e
      | .ok s => .ok (some ⟨r.addr, s⟩)

/-- `Sg721Contract::instantiate` at block time `now` -/
def instantiate (now : Nat) (m : InstMsg) : Except Err Coll :=
  if m.funds ≠ 0 then .error .payment                      -- nonpayable
  else if !m.senderIsContract then .error .unauthorized    -- sender must be a contract
  else if !addrValid m.minter then .error .invalid         -- cw_ownable::initialize_owner
  else if m.descLen > MAX_DESCRIPTION_LENGTH then .error .invalid
  else if !urlValid m.image then .error .invalid
  else if !optUrlValid m.link then .error .invalid
  else match instRoyalty m.royalty with
    | .error e => .error e
    | .ok roy =>
      if !addrValid m.creator then .error .invalid
      else .ok { kind := m.kind, name := m.kind, ver := curVer m.kind, creator := m.creator, descLen := m.descLen, image := m.image, link := m.link,
                 explicit := m.explicit, startTrading := m.startTrading, royalty := roy,
                 frozen := false, updatedAt := now }

/-! ## execute -/

/-- `Option<Option<α>>` of `UpdateCollectionInfoMsg`: field absent / field `null` / field present.
The contract only ever sees JSON: a `null` field deserialises to the *outer* `None` (serde's `Option<Option<_>>`),
so `clear` is indistinguishable from `keep` for both `external_link` and `royalty_info` — found by the correspondence run. -/
inductive Opt2 (α : Type) where
  | keep | clear | set (a : α)
deriving Repr

structure UpdMsg where
  desc : Option Nat
  image : Option Nat
  link : Opt2 Nat
  explicit : Option Bool
  royalty : Opt2 RoyaltyInfo
  creator : Option Addr
deriving Repr

/-- the raise guard of `update_collection_info`:
`if let Some(old) = collection.royalty_info { if old.share < new.share { delta > 2% ⇒ err; new > 10% ⇒ err } }` -/
def raiseOk (old : Option RoyaltyInfo) (share : Nat) : Bool :=
  match old with
  | none => true
  | some o =>
    if o.share < share then
      if share - o.share > MAX_SHARE_DELTA then false
      else if share > MAX_ROYALTY_SHARE then false
      else true
    else true

/-- the `if let Some(Some(new_royalty_info_response)) = collection_msg.royalty_info` block, applied to the
collection `c1` whose other fields have already been replaced; `old` is the royalty before the update -/
def applyRoyalty (c1 : Coll) (now : Nat) (r : RoyaltyInfo) : Except Err Coll :=
  if c1.updatedAt + DAY_NS > now then .error .tooSoon       -- "Royalties can only be updated once per day"
  else if !addrValid r.addr then .error .invalid
  else match shareValidate r.share with
    | .error e => .error e
    | .ok share =>
      if !raiseOk c1.royalty share then .error .invalid
      else .ok { c1 with royalty := some ⟨r.addr, share⟩, updatedAt := now }

/-- `Sg721Contract::update_collection_info` -/
def updateCollectionInfo (c : Coll) (now : Nat) (sender : Addr) (m : UpdMsg) : Except Err Coll :=
  if c.frozen then .error .frozen
  else if c.creator ≠ sender then .error .unauthorized
  else if !(match m.creator with | some n => addrValid n | none => true) then .error .invalid
  else
    let creator := m.creator.getD c.creator
    let descLen := m.desc.getD c.descLen
    if descLen > MAX_DESCRIPTION_LENGTH then .error .invalid
    else
      let image := m.image.getD c.image
      if !urlValid image then .error .invalid
      else
        let link := match m.link with
          | .keep => c.link
          | .clear => c.link   -- on the wire `Some(None)` is JSON `null`, which serde reads back as the outer `None`
          | .set l => some l
        if !optUrlValid link then .error .invalid
        else
          let c1 : Coll := { c with creator := creator, descLen := descLen, image := image, link := link,
                                    explicit := m.explicit }
          match m.royalty with
          | .set r => applyRoyalty c1 now r
          | _ => .ok c1      -- `None` and `Some(None)` both leave the royalty alone

/-! ## migrate -/

/-- does a successful migration of `c` to the code of `target` run `upgrades::v3_1_0` (anchor := now − 24 h)?
Only `sg721-updatable::_migrate` does, for a stored version below 3.1.0; it accepts the stored names of sg721-base and
sg721-updatable only. -/
def rewinds (c : Coll) (target : Kind) : Bool :=
  decide (target = .updatable ∧ (c.name = .base ∨ c.name = .updatable)) && verLt c.ver V310

/-- a migration the chain ACCEPTED (the acceptance itself is a witness, C20 owns it), as far as royalties are concerned:
* → sg721-updatable (`_migrate`): stored name must be sg721-base / sg721-updatable; `v3_1_0::upgrade` iff stored version < 3.1.0;
  the record becomes (sg721-updatable, current version);
* → sg721-metadata-onchain (`migrate`): no name check; an equal version returns early (record untouched), a lower one rewrites
  the record to (sg721-metadata-onchain, `TO_VERSION` = 3.0.0); the collection state is never touched;
* → sg721-nt (`migrate`): refuses unless the crate version equals `TO_VERSION` = 3.0.0, then does nothing;
* → sg721-base: no `migrate` entry point. -/
def migrate (c : Coll) (now : Nat) (target : Kind) : Except Err Coll :=
  match target with
  | .updatable =>
    if c.name = .base ∨ c.name = .updatable then
      .ok { c with kind := .updatable, name := .updatable, ver := curVer .updatable,
                   updatedAt := if verLt c.ver V310 then now - DAY_NS else c.updatedAt }
    else .error .version        -- "Invalid contract name for migration"
  | .onchain =>
    if verLt c.ver (curVer .onchain) then .ok { c with kind := .onchain, name := .onchain, ver := (3, 0, 0) }
    else .ok { c with kind := .onchain }
  | .nt => if curVer .nt = (3, 0, 0) then .ok { c with kind := .nt } else .error .version
  | .base => .error .version

inductive Action where
  | update (m : UpdMsg)
  | freeze
  /-- `UpdateStartTradingTime` (minter only — authorisation is C05/C19 matter: witnessed) -/
  | startTrading (t : Option Nat) (ok : Bool)
  /-- any other `ExecuteMsg` of the running contract (cw721 surface, `UpdateOwnership`, token-metadata messages of
  sg721-updatable, variants the harness discovers in the JSON schema at run time): witnessed outcome -/
  | other (ok : Bool)
  /-- `MsgMigrateContract` to the code of `target` by the admin; `ok` = accepted by the chain (witness) -/
  | migrate (target : Kind) (ok : Bool)
  /-- NOT a contract message: the harness rewrites the stored cw2 version to stand for an instance created by older
  code. Histories of real messages never contain it (`Props/C10.lean: NoSetver`). -/
  | setver (v : Ver)
deriving Repr

structure Op where
  now : Nat
  sender : Addr
  act : Action
deriving Repr

def step (c : Coll) (op : Op) : Except Err Coll :=
  match op.act with
  | .update m => updateCollectionInfo c op.now op.sender m
  | .freeze => if c.creator ≠ op.sender then .error .unauthorized else .ok { c with frozen := true }
  | .startTrading t ok => if ok then .ok { c with startTrading := t } else .error .unauthorized
  | .other ok => if ok then .ok c else .error .other
  | .migrate target ok => if ok then migrate c op.now target else .error .version
  | .setver v => .ok { c with ver := v }

/-- transactional step: a failed message leaves the state unchanged -/
def step' (c : Coll) (op : Op) : Coll :=
  match step c op with
  | .ok c' => c'
  | .error _ => c

def run (c : Coll) (ops : List Op) : Coll := ops.foldl step' c

/-- is this op a royalty update (`royalty_info: Some(Some _)`) that the collection accepts in state `c`? -/
def acceptedRoyaltyUpdate (c : Coll) (op : Op) : Bool :=
  match op.act with
  | .update m =>
    (match m.royalty with | .set _ => true | _ => false) &&
    (match step c op with | .ok _ => true | .error _ => false)
  | _ => false

/-- block times of the accepted royalty updates of a history, in order -/
def acceptedTimes : Coll → List Op → List Nat
  | _, [] => []
  | c, op :: ops =>
    if acceptedRoyaltyUpdate c op then op.now :: acceptedTimes (step' c op) ops
    else acceptedTimes (step' c op) ops

/-- does this op strictly raise the stored share (old royalty present)? -/
def isRaise (c : Coll) (op : Op) : Bool :=
  match c.royalty, (step' c op).royalty with
  | some o, some n => decide (o.share < n.share)
  | _, _ => false

def raises : Coll → List Op → Nat
  | _, [] => 0
  | c, op :: ops => (if isRaise c op then 1 else 0) + raises (step' c op) ops

/-! ## the payout helper -/

/-- `CollectionInfoResponse::royalty_payout(collection, payment, protocol_fee, finders_fee, res)`:
returns the royalty amount and the messages pushed onto `res`. Since /repo 00871d3 the fees alone are checked against the
payment first, whether or not a royalty is due (before: `Ok(0)` for absent royalties / a zero share, whatever the fees). -/
def royaltyPayout (info : Option RoyaltyInfo) (payment protocolFee : Nat) (finders : Option Nat) :
    Except Err (Nat × List Msg) :=
  if payment < protocolFee + finders.getD 0 then .error .other       -- "Fees exceed payment"
  else match info with
  | none => .ok (0, [])
  | some r =>
    if r.share = 0 then .ok (0, [])
    else
      let royalty := mulFloor payment r.share
      if payment < protocolFee + finders.getD 0 + royalty then .error .other   -- "Fees exceed payment"
      else .ok (royalty, [Msg.send r.addr ⟨NATIVE, royalty⟩])

end LP.Royalty
