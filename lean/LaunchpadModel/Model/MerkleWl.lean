import LaunchpadModel.Model.Basic
import LaunchpadModel.Model.Merkle
import LaunchpadModel.Generated.Constants
/-!
# The two Merkle whitelist contracts and the Merkle gate of the minters (state machines)

* `Plain`  = `contracts/whitelists/whitelist-merkletree`  (SHA-256, 32-byte digests, one root)
* `Tiered` = `contracts/whitelists/tiered-whitelist-merkletree` (BLAKE3 truncated to 16 bytes, one root per stage,
  `query_has_member` folds against the root of the **active** stage and errors when no stage is active)
* `mint`   = the whitelist branch of `is_public_mint` + the whitelist counter of `_execute_mint` in
  `vending-minter-merkle-wl(-featured)` / `open-edition-minter-merkle-wl`, for a minter whose public sale is closed.

The whole `ExecuteMsg` surface of both whitelists is modelled (`POp`, `TOp`): `execute_update_merkle_tree` exists in
both sources but is **not** dispatched by `execute`, so no operation writes `MERKLE_ROOT` / `MERKLE_ROOTS`.
`none` = the call fails (error or index panic ⇒ the transaction is reverted).
-/
namespace LP.MerkleWl
open LP.Merkle

def GENESIS : Nat := LP.Gen.sg_utils_GENESIS_MINT_START_TIME
def MAX_PAL : Nat := LP.Gen.tiered_whitelist_merkletree_MAX_PER_ADDRESS_LIMIT

/-! ## whitelist-merkletree -/

structure Plain where
  root : List Nat          -- MERKLE_ROOT: the hex *string* as supplied at instantiate
  start : Nat
  end_ : Nat
  pal : Nat                -- per_address_limit (not validated by this contract)
  admins : List Nat
  mutable_ : Bool
deriving Repr, DecidableEq

structure PlainInit where
  root : List Nat
  uriOk : Bool             -- `Url::parse` accepted `merkle_tree_uri` (true when absent)
  start : Nat
  end_ : Nat
  pal : Nat
  admins : List Nat
  adminsOk : Bool          -- every admin passes `addr_validate`
  adminsMutable : Bool

def payOk (funds : List Coin) (fee : Nat) : Bool :=
  match LP.mustPay funds LP.NATIVE with
  | .ok p => p == fee
  | .error _ => false

def instantiatePlain (now : Nat) (funds : List Coin) (m : PlainInit) : Option Plain :=
  if !validHash 32 m.root then none
  else if !m.uriOk then none
  else if !payOk funds LP.Gen.whitelist_mtree_CREATION_FEE then none
  else if m.start > m.end_ then none
  else if now ≥ m.start then none
  else if m.start < GENESIS then none
  else if !m.adminsOk then none
  else some ⟨m.root, m.start, m.end_, m.pal, m.admins, m.adminsMutable⟩

inductive POp where
  | updateStart (sender t : Nat)
  | updateEnd (sender t : Nat)
  | updateAdmins (sender : Nat) (admins : List Nat) (ok : Bool)
  | freeze (sender : Nat)
  | migrate
deriving Repr

def Plain.exec (now : Nat) (s : Plain) : POp → Option Plain
  | .updateStart sender t =>
    if !s.admins.contains sender then none
    else if now ≥ s.start then none
    else if t > s.end_ then none
    else some { s with start := if t < GENESIS then GENESIS else t }
  | .updateEnd sender t =>
    if !s.admins.contains sender then none
    else if now ≥ s.start && t > s.end_ then none
    else if t < s.start then none
    else some { s with end_ := t }
  | .updateAdmins sender admins ok =>
    if !(s.mutable_ && s.admins.contains sender) then none
    else if !ok then none
    else some { s with admins := admins }
  | .freeze sender =>
    if !(s.mutable_ && s.admins.contains sender) then none
    else some { s with mutable_ := false }
  | .migrate => some s

def Plain.isActive (now : Nat) (s : Plain) : Bool := now ≥ s.start && now < s.end_

def Plain.hasMember (H : Bytes → Bytes) (s : Plain) (member : Bytes) (proof : List (List Nat)) : Option Bool :=
  Merkle.hasMember H 32 s.root member proof

/-! ## tiered-whitelist-merkletree -/

structure Stage where
  start : Nat
  end_ : Nat
  pal : Nat
  denom : Nat
deriving Repr, DecidableEq

structure Tiered where
  roots : List (List Nat)  -- MERKLE_ROOTS
  stages : List Stage
  admins : List Nat
  mutable_ : Bool
deriving Repr, DecidableEq

def windowsOk : List Stage → Bool
  | [] => true
  | s :: rest => s.start < s.end_ && rest.all (fun o => o.start ≥ s.end_) && windowsOk rest

/-- `validate_update` (= `validate_stages` without the "first stage starts in the future" check) -/
def stagesOk (stages : List Stage) : Bool :=
  match stages with
  | [] => false
  | s0 :: _ =>
    stages.length < 4
    && stages.all (fun s => s.pal != 0 && s.pal ≤ MAX_PAL)
    && stages.all (fun s => s.denom == s0.denom)
    && windowsOk stages

def validateStages (now : Nat) (stages : List Stage) : Bool :=
  match stages with
  | [] => false
  | s0 :: _ => stagesOk stages && s0.start > now

/-- `fetch_active_stage_index`: the first stage with `start ≤ now ≤ end` (end **inclusive**) -/
def activeIdx (now : Nat) (stages : List Stage) : Option Nat :=
  stages.findIdx? fun s => s.start ≤ now && now ≤ s.end_

structure TieredInit where
  roots : List (List Nat)
  urisOk : Bool
  stages : List Stage
  admins : List Nat
  adminsOk : Bool
  adminsMutable : Bool

def instantiateTiered (now : Nat) (funds : List Coin) (m : TieredInit) : Option Tiered :=
  if !m.roots.all (validHash 16) then none
  else if !m.urisOk then none
  else if !payOk funds LP.Gen.tiered_whitelist_merkletree_CREATION_FEE then none
  else if !validateStages now m.stages then none
  else if !m.adminsOk then none
  else some ⟨m.roots, m.stages, m.admins, m.adminsMutable⟩

inductive TOp where
  /-- `UpdateStageConfig`; absent fields keep the stored value (`name`, the price amount and `mint_count_limit`
  are not validated and not modelled; `denom` = a new `mint_price` with that denom) -/
  | updateStage (sender id : Nat) (start end_ pal denom : Option Nat)
  | updateAdmins (sender : Nat) (admins : List Nat) (ok : Bool)
  | freeze (sender : Nat)
  | migrate
deriving Repr

def Tiered.exec (s : Tiered) : TOp → Option Tiered
  | .updateStage sender id start end_ pal denom =>
    if !s.admins.contains sender then none
    else match s.stages[id]? with
      | none => none          -- `config.stages[stage_id]` panics
      | some old =>
        let st : Stage := ⟨start.getD old.start, end_.getD old.end_, pal.getD old.pal, denom.getD old.denom⟩
        let stages := s.stages.set id st
        if stagesOk stages then some { s with stages := stages } else none
  | .updateAdmins sender admins ok =>
    if !(s.mutable_ && s.admins.contains sender) then none
    else if !ok then none
    else some { s with admins := admins }
  | .freeze sender =>
    if !(s.mutable_ && s.admins.contains sender) then none
    else some { s with mutable_ := false }
  | .migrate => some s

/-- `query_has_member`: the active stage's root only; no active stage ⇒ error; a missing root ⇒ index panic -/
def Tiered.hasMember (H : Bytes → Bytes) (s : Tiered) (now : Nat) (member : Bytes) (proof : List (List Nat)) :
    Option Bool :=
  match activeIdx now s.stages with
  | none => none
  | some i =>
    match s.roots[i]? with
    | none => none
    | some r => Merkle.hasMember H 16 r member proof

/-! ## one whitelist + the minter's whitelist gate -/

inductive Wl where
  | plain (s : Plain)
  | tiered (s : Tiered)
deriving Repr

def Wl.roots : Wl → List (List Nat)
  | .plain s => [s.root]
  | .tiered s => s.roots

structure World where
  wl : Wl
  /-- whitelist mint counters of the minter: `((sender, stage key), count)`; key 0 = `WHITELIST_MINTER_ADDRS`,
  1..3 = `WHITELIST_{FS,SS,TS}_MINTER_ADDRS` -/
  counts : List ((Bytes × Nat) × Nat)
deriving Repr

def getCount (cs : List ((Bytes × Nat) × Nat)) (k : Bytes × Nat) : Nat :=
  match cs.find? (fun e => e.1 == k) with
  | some e => e.2
  | none => 0

def setCount (cs : List ((Bytes × Nat) × Nat)) (k : Bytes × Nat) (v : Nat) : List ((Bytes × Nat) × Nat) :=
  (k, v) :: cs.filter (fun e => e.1 != k)

inductive Op where
  | plain (o : POp)
  | tiered (o : TOp)
  /-- `ExecuteMsg::Mint { stage, proof_hashes, allocation }` sent by `sender` to a Merkle minter bound to this
  whitelist, with the exact whitelist price attached, tokens left, no stage `mint_count_limit`, public sale closed -/
  | mint (sender : Bytes) (stage alloc : Option Nat) (proof : Option (List (List Nat)))
deriving Repr

/-- `(stage key, per-address limit)` of the active whitelist window, `none` if the whitelist is not active -/
def Wl.active (now : Nat) : Wl → Option (Nat × Nat)
  | .plain s => if s.isActive now then some (0, s.pal) else none
  | .tiered s =>
    match activeIdx now s.stages with
    | none => none
    | some i => (s.stages[i]?).map fun st => (i + 1, st.pal)

def Wl.hasMember (H : Bytes → Bytes) (now : Nat) (wl : Wl) (member : Bytes) (proof : List (List Nat)) : Option Bool :=
  match wl with
  | .plain s => s.hasMember H member proof
  | .tiered s => s.hasMember H now member proof

/-- The whitelist gate of `execute_mint_sender`. The member string is `leafStr stage sender alloc`: the sender is the
transaction's sender, never an argument. -/
def mint (H : Bytes → Bytes) (now : Nat) (w : World) (sender : Bytes) (stage alloc : Option Nat)
    (proof : Option (List (List Nat))) : Option World :=
  match w.wl.active now with
  | none => none                       -- public mint; closed in the modelled scenario
  | some (key, pal) =>
    match proof with
    | none => none                     -- `MissingProofHashes` / un-parseable plain `HasMember` query
    | some pf =>
      match w.wl.hasMember H now (leafStr stage sender alloc) pf with
      | some true =>
        let c := getCount w.counts (sender, key)
        if c ≥ alloc.getD pal then none  -- `MaxPerAddressLimitExceeded`
        else some { w with counts := setCount w.counts (sender, key) (c + 1) }
      | _ => none                      -- `NotWhitelisted` or the query failed

def step (H : Bytes → Bytes) (now : Nat) (w : World) : Op → Option World
  | .plain o =>
    match w.wl with
    | .plain s => (s.exec now o).map fun s' => { w with wl := .plain s' }
    | .tiered _ => none
  | .tiered o =>
    match w.wl with
    | .tiered s => (s.exec o).map fun s' => { w with wl := .tiered s' }
    | .plain _ => none
  | .mint sender stage alloc proof => mint H now w sender stage alloc proof

/-- transactional step: a failed call leaves the state unchanged -/
def step' (H : Bytes → Bytes) (w : World) (top : Nat × Op) : World := (step H top.1 w top.2).getD w

/-- a history: every operation with the block time it executes at -/
def run (H : Bytes → Bytes) (w : World) (ops : List (Nat × Op)) : World := ops.foldl (step' H) w

end LP.MerkleWl
