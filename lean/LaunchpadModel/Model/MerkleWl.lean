import LaunchpadModel.Model.Basic
import LaunchpadModel.Model.Merkle
import LaunchpadModel.Generated.Constants
/-!
# The two Merkle whitelist contracts and the Merkle gate of the minters (state machines)

* `Plain`  = `contracts/whitelists/whitelist-merkletree`  (SHA-256, 32-byte digests, one root)
* `Tiered` = `contracts/whitelists/tiered-whitelist-merkletree` (BLAKE3 truncated to 16 bytes, one root per stage,
  `query_has_member` folds against the root of the **active** stage and errors when no stage is active)
* `mint`   = the whitelist branch of `is_public_mint` + the whitelist counter of `_execute_mint` in
  `vending-minter-merkle-wl(-featured)` / `open-edition-minter-merkle-wl`, for a minter whose public sale is closed.

Two layers (round 3):

* the **aspect model** the theorems and the compared (`primary`) outputs are about: `World`, `Op`, `step`, `run`.
  It owns the committed roots, the notion of "active stage", the membership query and the whitelist gate of a mint.
  Everything C14 is silent about — whether a configuration message is accepted and what windows / limits / admins it
  leaves behind (C11/C12/C13), whether the non-Merkle gates of a mint (price, supply, per-address / allocation / stage
  limits: C02/C03) accept — is a WITNESS taken from the implementation: `Op.wlMsg accepted post`, `Op.mint … res`.
  The theorems quantify over all witnesses, i.e. they hold for every possible logic in those places.
* the **prediction** of today's code for those places (`instantiatePlain/Tiered`, `POp`/`TOp`, `Plain.exec`,
  `Tiered.exec`): run by the driver next to the aspect model, printed behind ` ## ` (DRIFT diagnostics only).
  `execute_update_merkle_tree` exists in both sources but is **not** dispatched by `execute`; `POp.other`/`TOp.other`
  stand for any message outside the `ExecuteMsg` enum (it does not parse ⇒ `none`).

`none` = the call fails (error or index panic ⇒ the transaction is reverted).
-/
namespace LP.MerkleWl
open LP.Merkle

def GENESIS : Nat := LP.Gen.sg_utils_GENESIS_MINT_START_TIME
def MAX_PAL : Nat := LP.Gen.tiered_whitelist_merkletree_MAX_PER_ADDRESS_LIMIT

/-! ## whitelist-merkletree -/

structure Plain where
  root : List Nat          -- MERKLE_ROOT: the hex *string* as supplied at instantiate
  start : Nat
  end_ : Nat
  pal : Nat                -- per_address_limit (not validated by this contract)
  admins : List Nat
  mutable_ : Bool
deriving Repr, DecidableEq

structure PlainInit where
  root : List Nat
  uriOk : Bool             -- `Url::parse` accepted `merkle_tree_uri` (true when absent)
  start : Nat
  end_ : Nat
  pal : Nat
  admins : List Nat
  adminsOk : Bool          -- every admin passes `addr_validate`
  adminsMutable : Bool

def payOk (funds : List Coin) (fee : Nat) : Bool :=
  match LP.mustPay funds LP.NATIVE with
  | .ok p => p == fee
  | .error _ => false

def instantiatePlain (now : Nat) (funds : List Coin) (m : PlainInit) : Option Plain :=
  if !validHash 32 m.root then none
  else if !m.uriOk then none
  else if !payOk funds LP.Gen.whitelist_mtree_CREATION_FEE then none
  else if m.start > m.end_ then none
  else if now ≥ m.start then none
  else if m.start < GENESIS then none
  else if !m.adminsOk then none
  else some ⟨m.root, m.start, m.end_, m.pal, m.admins, m.adminsMutable⟩

inductive POp where
  | updateStart (sender t : Nat)
  | updateEnd (sender t : Nat)
  | updateAdmins (sender : Nat) (admins : List Nat) (ok : Bool)
  | freeze (sender : Nat)
  | migrate
  /-- any message that is not a variant of `ExecuteMsg` (e.g. `update_merkle_tree`): it does not parse -/
  | other
deriving Repr

def Plain.exec (now : Nat) (s : Plain) : POp → Option Plain
  | .updateStart sender t =>
    if !s.admins.contains sender then none
    else if now ≥ s.start then none
    else if t > s.end_ then none
    else some { s with start := if t < GENESIS then GENESIS else t }
  | .updateEnd sender t =>
    if !s.admins.contains sender then none
    else if now ≥ s.start && t > s.end_ then none
    else if t < s.start then none
    else some { s with end_ := t }
  | .updateAdmins sender admins ok =>
    if !(s.mutable_ && s.admins.contains sender) then none
    else if !ok then none
    else some { s with admins := admins }
  | .freeze sender =>
    if !(s.mutable_ && s.admins.contains sender) then none
    else some { s with mutable_ := false }
  | .migrate => some s
  | .other => none

def Plain.isActive (now : Nat) (s : Plain) : Bool := now ≥ s.start && now < s.end_

def Plain.hasMember (H : Bytes → Bytes) (s : Plain) (member : Bytes) (proof : List (List Nat)) : Option Bool :=
  Merkle.hasMember H 32 s.root member proof

/-! ## tiered-whitelist-merkletree -/

structure Stage where
  start : Nat
  end_ : Nat
  pal : Nat
  denom : Nat
deriving Repr, DecidableEq

structure Tiered where
  roots : List (List Nat)  -- MERKLE_ROOTS
  stages : List Stage
  admins : List Nat
  mutable_ : Bool
deriving Repr, DecidableEq

def windowsOk : List Stage → Bool
  | [] => true
  | s :: rest => s.start < s.end_ && rest.all (fun o => o.start ≥ s.end_) && windowsOk rest

/-- `validate_update` (= `validate_stages` without the "first stage starts in the future" check) -/
def stagesOk (stages : List Stage) : Bool :=
  match stages with
  | [] => false
  | s0 :: _ =>
    stages.length < 4
    && stages.all (fun s => s.pal != 0 && s.pal ≤ MAX_PAL)
    && stages.all (fun s => s.denom == s0.denom)
    && windowsOk stages

def validateStages (now : Nat) (stages : List Stage) : Bool :=
  match stages with
  | [] => false
  | s0 :: _ => stagesOk stages && s0.start > now

/-- `fetch_active_stage_index`: the first stage with `start ≤ now ≤ end` (end **inclusive**) -/
def activeIdx (now : Nat) (stages : List Stage) : Option Nat :=
  stages.findIdx? fun s => s.start ≤ now && now ≤ s.end_

structure TieredInit where
  roots : List (List Nat)
  urisOk : Bool
  stages : List Stage
  admins : List Nat
  adminsOk : Bool
  adminsMutable : Bool

def instantiateTiered (now : Nat) (funds : List Coin) (m : TieredInit) : Option Tiered :=
  if !m.roots.all (validHash 16) then none
  else if !m.urisOk then none
  else if !payOk funds LP.Gen.tiered_whitelist_merkletree_CREATION_FEE then none
  else if !validateStages now m.stages then none
  else if !m.adminsOk then none
  else some ⟨m.roots, m.stages, m.admins, m.adminsMutable⟩

inductive TOp where
  /-- `UpdateStageConfig`; absent fields keep the stored value (`name`, the price amount and `mint_count_limit`
  are not validated and not modelled; `denom` = a new `mint_price` with that denom) -/
  | updateStage (sender id : Nat) (start end_ pal denom : Option Nat)
  | updateAdmins (sender : Nat) (admins : List Nat) (ok : Bool)
  | freeze (sender : Nat)
  | migrate
  /-- any message that is not a variant of `ExecuteMsg` (e.g. `update_merkle_tree`): it does not parse -/
  | other
deriving Repr

def Tiered.exec (s : Tiered) : TOp → Option Tiered
  | .updateStage sender id start end_ pal denom =>
    if !s.admins.contains sender then none
    else match s.stages[id]? with
      | none => none          -- `config.stages[stage_id]` panics
      | some old =>
        let st : Stage := ⟨start.getD old.start, end_.getD old.end_, pal.getD old.pal, denom.getD old.denom⟩
        let stages := s.stages.set id st
        if stagesOk stages then some { s with stages := stages } else none
  | .updateAdmins sender admins ok =>
    if !(s.mutable_ && s.admins.contains sender) then none
    else if !ok then none
    else some { s with admins := admins }
  | .freeze sender =>
    if !(s.mutable_ && s.admins.contains sender) then none
    else some { s with mutable_ := false }
  | .migrate => some s
  | .other => none

/-- `query_has_member`: the active stage's root only; no active stage ⇒ error; a missing root ⇒ index panic -/
def Tiered.hasMember (H : Bytes → Bytes) (s : Tiered) (now : Nat) (member : Bytes) (proof : List (List Nat)) :
    Option Bool :=
  match activeIdx now s.stages with
  | none => none
  | some i =>
    match s.roots[i]? with
    | none => none
    | some r => Merkle.hasMember H 16 r member proof

/-! ## the part of instantiation C14 owns: the committed roots must be well-formed

Everything else `instantiate` checks (fee, windows, genesis, URI, admin addresses) is witnessed (`res`): C11/C12/C13. -/

def instPlainW (m : PlainInit) (res : Bool) : Option Plain :=
  if !validHash 32 m.root then none          -- `verify_merkle_root`: decided here, whatever `res` says
  else if res then some ⟨m.root, m.start, m.end_, m.pal, m.admins, m.adminsMutable⟩
  else none

def instTieredW (m : TieredInit) (res : Bool) : Option Tiered :=
  if !m.roots.all (validHash 16) then none
  else if res then some ⟨m.roots, m.stages, m.admins, m.adminsMutable⟩
  else none

/-! ## one whitelist + the minter's whitelist gate (the aspect model) -/

inductive Wl where
  | plain (s : Plain)
  | tiered (s : Tiered)
deriving Repr, DecidableEq

def Wl.roots : Wl → List (List Nat)
  | .plain s => [s.root]
  | .tiered s => s.roots

/-- keep the committed roots of the first argument, take everything else (windows, limits, admins) from `post`;
a `post` of the other contract kind changes nothing -/
def Wl.setCfg : Wl → Wl → Wl
  | .plain s, .plain p => .plain { p with root := s.root }
  | .tiered s, .tiered p => .tiered { p with roots := s.roots }
  | wl, _ => wl

/-- one accepted whitelist mint, as the minter saw it -/
structure MintRec where
  sender : Bytes
  /-- 0 = `WHITELIST_MINTER_ADDRS` (plain whitelist), `i+1` = stage `i` of a tiered whitelist -/
  key : Nat
  stage : Option Nat
  alloc : Option Nat
  now : Nat
deriving Repr, DecidableEq

structure World where
  wl : Wl
  /-- ghost log of the accepted whitelist mints of the bound minter, newest first -/
  minted : List MintRec
deriving Repr, DecidableEq

inductive Op where
  /-- ANY message sent to the whitelist contract — a known `ExecuteMsg` variant, one this model has never heard of,
  `migrate` — by anybody, with any arguments. `accepted` and the configuration `post` it left behind are witnesses;
  the roots of `post` are ignored: the model has no way to write a root. -/
  | wlMsg (accepted : Bool) (post : Wl)
  /-- `ExecuteMsg::Mint { stage, proof_hashes, allocation }` sent by `sender` to a Merkle minter bound to this
  whitelist while its public sale is closed. `res` = the implementation's verdict (a witness, see `mint`). -/
  | mint (sender : Bytes) (stage alloc : Option Nat) (proof : Option (List (List Nat))) (res : Bool)
deriving Repr

/-- `(stage key, per-address limit)` of the active whitelist window, `none` if the whitelist is not active -/
def Wl.active (now : Nat) : Wl → Option (Nat × Nat)
  | .plain s => if s.isActive now then some (0, s.pal) else none
  | .tiered s =>
    match activeIdx now s.stages with
    | none => none
    | some i => (s.stages[i]?).map fun st => (i + 1, st.pal)

def Wl.hasMember (H : Bytes → Bytes) (now : Nat) (wl : Wl) (member : Bytes) (proof : List (List Nat)) : Option Bool :=
  match wl with
  | .plain s => s.hasMember H member proof
  | .tiered s => s.hasMember H now member proof

/-- **The whitelist gate** of `execute_mint_sender` / `is_public_mint`: the whitelist is active, proof hashes were
supplied, and the member string `leafStr stage sender alloc` — the sender is the transaction's sender, never an
argument — verifies against the root in force. -/
def gate (H : Bytes → Bytes) (now : Nat) (wl : Wl) (sender : Bytes) (stage alloc : Option Nat)
    (proof : Option (List (List Nat))) : Bool :=
  match wl.active now, proof with
  | some _, some pf => wl.hasMember H now (leafStr stage sender alloc) pf == some true
  | _, _ => false             -- inactive ⇒ public mint (closed); no proof ⇒ `HasMember` without proof does not parse

def hasMinted (l : List MintRec) (sender : Bytes) (key : Nat) : Bool :=
  l.any fun r => r.sender == sender && r.key == key

/-- A mint through the whitelist branch.
* gate closed ⇒ rejected, whatever `res` says (soundness at the minter: decided by the model);
* gate open and this `(sender, stage key)` has never minted and the authenticated allowance (`allocation`, else the
  window's per-address limit) is at least 1 ⇒ accepted, whatever `res` says (completeness at the minter: decided by
  the model — the harness attaches the price the minter itself quotes and keeps supply available);
* gate open otherwise ⇒ `res`: how many further mints the limits allow is C03's subject. -/
def mint (H : Bytes → Bytes) (now : Nat) (w : World) (sender : Bytes) (stage alloc : Option Nat)
    (proof : Option (List (List Nat))) (res : Bool) : Option World :=
  match w.wl.active now with
  | none => none
  | some (key, pal) =>
    if !gate H now w.wl sender stage alloc proof then none
    else if (!hasMinted w.minted sender key && decide (1 ≤ alloc.getD pal)) || res then
      some { w with minted := ⟨sender, key, stage, alloc, now⟩ :: w.minted }
    else none

def step (H : Bytes → Bytes) (now : Nat) (w : World) : Op → Option World
  | .wlMsg accepted post => if accepted then some { w with wl := w.wl.setCfg post } else none
  | .mint sender stage alloc proof res => mint H now w sender stage alloc proof res

/-- transactional step: a failed call leaves the state unchanged -/
def step' (H : Bytes → Bytes) (w : World) (top : Nat × Op) : World := (step H top.1 w top.2).getD w

/-- a history: every operation with the block time it executes at -/
def run (H : Bytes → Bytes) (w : World) (ops : List (Nat × Op)) : World := ops.foldl (step' H) w

/-- number of accepted whitelist mints of `sender` (all windows) -/
def mintedBy (w : World) (sender : Bytes) : Nat := (w.minted.filter fun r => r.sender == sender).length

/-! ## prediction of today's configuration messages (DRIFT diagnostics; `C14_predicted_*` show it writes no root either) -/

inductive WlOp where
  | plain (o : POp)
  | tiered (o : TOp)
deriving Repr

def predict (now : Nat) (wl : Wl) : WlOp → Option Wl
  | .plain o => match wl with
    | .plain s => (s.exec now o).map Wl.plain
    | .tiered _ => none
  | .tiered o => match wl with
    | .tiered s => (s.exec o).map Wl.tiered
    | .plain _ => none

end LP.MerkleWl
