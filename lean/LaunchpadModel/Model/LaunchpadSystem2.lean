import LaunchpadModel.Model.LaunchpadSystem
import LaunchpadModel.Model.CollectionFull
/-!
# SYSTEM composite 2: `LP.Sys` with the REAL collection model — namespace `LP.Sys2`

`LP.Sys` (Model/LaunchpadSystem.lean) = vending factory + vending minter + whitelist contracts; the sg721 collection enters it
only through a SIMPLIFIED interface: the token table `Supply.Coll` (inside `VF.Minter.supply`) and the ownership / creator /
trading-time record `TT.Coll` (`VF.Minter.tt`), with holders' and the creator's messages as the six interface ops `collTransfer …
collOwn`.  `LP.CF` (Model/CollectionFull.lean) = the four sg721 contracts with every execute / query / migrate path computed.

Here the simplified component is REPLACED by a `CF.Coll` instance:

* **state** = the `Sys` state, but the minter record (`Sys2.Minter`) has NO token table and NO `TT.Coll`; next to it sits the
  collection contract `CF.Coll` the minter's `instantiate` sub-message created (its kind chosen by the requested code id), and the
  block height (cw721 expirations read it).  One bank, one clock.
* **what `Sys` assumed about the collection is COMPUTED**: `viewOfColl c = (tokView c.core, ttView c.core)` (`collViewOf` on a
  `CF.State`) is the `Supply.Coll × TT.Coll` pair the simplified interface stands for; `sysOf s` = the `Sys.State` whose minter
  carries that view.  The minter-side code (`Sys.step`, i.e. `VF.step` + the whitelist states) runs on `sysOf s`.
* **the minter's sub-messages to the collection are executed by the `CF` step**: `Mint {token_id, owner, token_uri, extension:
  None}` (sender = the minter contract, no funds) and `UpdateStartTradingTime`; `instantiate` at `CreateMinter`.  Their failure
  fails the whole transaction.  (sg721-metadata-onchain: `Mint.extension` is a non-optional `Metadata`, the minter's `None` does
  not parse — `mintMsg` has no message to send, the mint fails.)  The collection-side result is what is stored; the refinement
  theorems (Props/CompositeSystem2.lean) prove that its view IS what the simplified interface computed.
* **ops** = every `Sys` op (`Op.sys`; the six interface ops are read as the `CF` message they stand for; a `VF.Op.create`, which
  carries the flag `collOk` from outside, is refused — `Op.create` carries the real `collection_params` instead), plus every `CF`
  execute message addressed to the collection by ANY sender (`Op.collExec`), the two collection migrations, the environment op
  `collSetVersion` ("the system was deployed by release v"), and `Op.block` (height and time).

Witnesses that remain: pseudo-randomness (`perm`, `picked`), allocated addresses (`CreateWit`, `self`), `Url::parse` flags and the
answer of a contract OUTSIDE the system that a token is sent to (`sendNft … recvOk`) — exactly those of the two halves.
No `setLegacy`: the collection is instantiated by today's code, the cw721-0.16 `minter` item never exists (`legacy = none`).
-/
namespace LP.Sys2
open LP

/-! ## What `Sys` assumed about the collection, computed from the collection contract -/

def ttKind : Sg721.Kind → TT.CollKind
  | .base => .base | .updatable => .updatable | .nt => .nt | .onchain => .metadata

def cfKind : TT.CollKind → Sg721.Kind
  | .base => .base | .updatable => .updatable | .nt => .nt | .metadata => .onchain

/-- the token table of the simplified interface: (id, owner), newest first, and `token_count` -/
def tokView (c : Sg721.State) : Supply.Coll :=
  ⟨(c.tokens.map fun t => (t.id, t.owner)).reverse, c.count⟩

/-- the ownership / creator / freeze / trading-time record of the simplified interface -/
def ttView (c : Sg721.State) : TT.Coll :=
  { kind := ttKind c.kind, owner := c.ownership.owner, pending := c.ownership.pending, creator := c.info.creator,
    frozen := c.frozenInfo, trading := c.info.startTradingTime }

def viewOfColl (c : CF.Coll) : Supply.Coll × TT.Coll := (tokView c.core, ttView c.core)

/-- what `LP.Sys` assumed about the collection (no collection yet: the empty table and a placeholder record nobody reads) -/
def collViewOf (s : CF.State) : Supply.Coll × TT.Coll :=
  match s.coll with
  | some c => viewOfColl c
  | none => (Supply.Coll.empty, TT.Coll.init .base 0 0 none)

/-! ## State -/

/-- `Supply.Fixed` without the collection's token table -/
structure MSupply where
  n : Nat
  pos : List (Nat × Nat)
  mintable : Nat
  minted : List Nat
  burned : Nat
deriving Repr

/-- `VF.Minter` without the two collection components (`supply.coll`, `tt`) -/
structure Minter where
  v : VF.Variant
  addr : Addr
  factory : Addr
  collectionCodeId : Nat
  mintPrice : Coin
  admin : Addr
  paymentAddress : Option Addr
  whitelist : Option Addr
  startTime : Nat
  perAddressLimit : Nat
  discountPrice : Option Coin
  sg721 : Addr
  supply : MSupply
  pub : Addr → Nat
  wlc : Addr → Nat
  stg : Nat → Addr → Nat
  tot : Nat → Nat
  airdropCount : Nat
  lastDiscount : Nat
  status : VF.Status
  received : Addr → Nat

/-- the minter record `VF` / `Sys` run on: the stored fields plus the VIEW of the collection contract -/
def vmOf (m : Minter) (c : CF.Coll) : VF.Minter :=
  { v := m.v, addr := m.addr, factory := m.factory, collectionCodeId := m.collectionCodeId, mintPrice := m.mintPrice,
    admin := m.admin, paymentAddress := m.paymentAddress, whitelist := m.whitelist, startTime := m.startTime,
    perAddressLimit := m.perAddressLimit, discountPrice := m.discountPrice, sg721 := m.sg721,
    supply := { n := m.supply.n, pos := m.supply.pos, mintable := m.supply.mintable, minted := m.supply.minted,
                burned := m.supply.burned, coll := tokView c.core },
    pub := m.pub, wlc := m.wlc, stg := m.stg, tot := m.tot, airdropCount := m.airdropCount, lastDiscount := m.lastDiscount,
    status := m.status, received := m.received, tt := ttView c.core }

/-- forget the view (it is recomputed, never stored) -/
def ofVm (m : VF.Minter) : Minter :=
  { v := m.v, addr := m.addr, factory := m.factory, collectionCodeId := m.collectionCodeId, mintPrice := m.mintPrice,
    admin := m.admin, paymentAddress := m.paymentAddress, whitelist := m.whitelist, startTime := m.startTime,
    perAddressLimit := m.perAddressLimit, discountPrice := m.discountPrice, sg721 := m.sg721,
    supply := { n := m.supply.n, pos := m.supply.pos, mintable := m.supply.mintable, minted := m.supply.minted,
                burned := m.supply.burned },
    pub := m.pub, wlc := m.wlc, stg := m.stg, tot := m.tot, airdropCount := m.airdropCount, lastDiscount := m.lastDiscount,
    status := m.status, received := m.received }

structure State where
  /-- `env.block.height` -/
  height : Nat
  /-- `env.block.time` (one clock) -/
  now : Nat
  codes : VF.Codes
  factoryAddr : Addr
  /-- factory `SUDO_PARAMS` -/
  params : VF.Params
  /-- one bank -/
  bank : MintPay.Bank
  /-- the minter and the collection contract its `instantiate` created (both or neither) -/
  mc : Option (Minter × CF.Coll)
  /-- the whitelist contracts -/
  wls : List (Addr × WF.Wl)

def State.block (s : State) : Sg721.Block := ⟨s.height, s.now⟩

/-- the `Sys` state the minter-side code runs in: the collection enters through its view -/
def sysOf (s : State) : Sys.State :=
  { now := s.now, codes := s.codes, factoryAddr := s.factoryAddr, params := s.params, bank := s.bank,
    minter := s.mc.map fun mc => vmOf mc.1 mc.2, wls := s.wls }

/-- the `CF` state of the collection contract of the system -/
def cfOf (s : State) : CF.State := ⟨s.block, s.bank, s.mc.map (·.2)⟩

/-- write a minter-side result `r` and a collection-side result `c` back -/
def setSys (s : State) (r : Sys.State) (bank : MintPay.Bank) (c : Option CF.Coll) : State :=
  { height := s.height, now := r.now, codes := r.codes, factoryAddr := r.factoryAddr, params := r.params, bank := bank,
    wls := r.wls,
    mc := match r.minter, c with
      | some vm, some c => some (ofVm vm, c)
      | _, _ => none }

/-! ## Operations -/

/-- `collection_params` of `CreateMinter` (name, symbol and the `CollectionInfo` fields the simplified interface folded into the
flag `collOk`); creator and `start_trading_time` are on `VF.CreateMsg` -/
structure CollInit where
  name : Nat
  symbol : Nat
  description : Sg721.Desc
  image : Sg721.Url
  externalLink : Option Sg721.Url
  explicitContent : Option Bool
  royalty : Option Sg721.Royalty
deriving Repr

inductive Op where
  /-- every `Sys` op.  The six collection-interface ops of `VF` are executed as the `CF` message they stand for; `VF.Op.create`
  (it carries `collOk` from outside) is refused — see `create` -/
  | sys (op : Sys.Op)
  /-- factory `CreateMinter` with the real `collection_params` (`msg.collOk` is ignored: the collection's own `instantiate` decides) -/
  | create (sender : Addr) (funds : List Coin) (msg : VF.CreateMsg) (w : VF.CreateWit) (ci : CollInit)
  /-- next block: height and time (the clock never runs backwards, as `VF.Op.setTime`) -/
  | block (h t : Nat)
  /-- ANY `ExecuteMsg` of the collection contract, by any sender, with any funds -/
  | collExec (sender : Addr) (funds : List Coin) (m : CF.ExecMsg)
  /-- `MsgMigrateContract` of the collection to the sg721-updatable code / to the code it already runs -/
  | collMigrateUpdatable
  | collMigrateSelf
  /-- environment: the stored cw2 version of the collection is `v` (system deployed by release `v`) -/
  | collSetVersion (v : Semver.Version)

/-- the `CF` message (and its sender) a collection-interface op of `VF` stands for -/
def ifaceMsg : VF.Op → Option (Addr × CF.ExecMsg)
  | .collTransfer sender id to => some (sender, .transferNft to id)
  | .collBurn sender id => some (sender, .burn id)
  | .collTrading sender t => some (sender, .updateStartTradingTime t)
  | .collCreator sender new => some (sender, .updateCollectionInfo ⟨none, none, none, none, none, some new⟩)
  | .collFreeze sender => some (sender, .freezeCollectionInfo)
  | .collOwn sender (.transfer new) => some (sender, .updateOwnership (.transfer new none))
  | .collOwn sender .accept => some (sender, .updateOwnership .accept)
  | .collOwn sender .renounce => some (sender, .updateOwnership .renounce)
  | _ => none

def isCreate : VF.Op → Bool
  | .create .. => true
  | _ => false

/-- what the minter sends to its collection while handling a message -/
inductive Sub where
  | none
  /-- `Mint {token_id, owner := rcpt, …}` for the picked token -/
  | mint (rcpt : Addr) (pk : VF.Pick)
  /-- `UpdateStartTradingTime(t)` -/
  | trading (t : Option Nat)

def subOf : Sys.Op → Sub
  | .mint sender _ _ _ _ picked => .mint sender (.at picked)
  | .minter (.mintTo _ _ rcpt picked) => .mint rcpt (.at picked)
  | .minter (.mintFor _ _ id rcpt) => .mint rcpt (.id id)
  | .minter (.updateStartTradingTime _ _ t) => .trading t
  | _ => .none

/-- the token id `_execute_mint` hands to the collection (read BEFORE the position is removed) -/
def pickedId (pos : List (Nat × Nat)) : VF.Pick → Option Nat
  | .at p => Supply.lookupPos pos p
  | .id id => some id

/-- interned `token_uri` of a token minted by the minter: `format!("{base_token_uri}/{token_id}")` -/
def URI_BASE : Nat := 1000000

/-- the `Mint` message of `_execute_mint` as the collection of kind `k` decodes it: `token_uri = base/id`, `extension: None`.
sg721-metadata-onchain is `sg721::ExecuteMsg<Metadata, Empty>`: its `Mint.extension` is a `Metadata`, `None` does not parse. -/
def mintMsg (k : Sg721.Kind) (id : Nat) (rcpt : Addr) : Except Err CF.ExecMsg :=
  if k = .onchain then .error .invalid else .ok (.mint id rcpt (some (URI_BASE + id)) 0)

/-- the message of a sub-message kind, for the minter `m` (pre-state) and its collection `c` -/
def subMsg (m : Minter) (c : CF.Coll) : Sub → Except Err (Option CF.ExecMsg)
  | .none => .ok none
  | .mint rcpt pk =>
    match pickedId m.supply.pos pk with
    | none => .error .other
    | some id =>
      match mintMsg c.core.kind id rcpt with
      | .error e => .error e
      | .ok msg => .ok (some msg)
  | .trading t => .ok (some (.updateStartTradingTime t))

/-- one `WasmMsg::Execute {contract_addr: sg721, msg, funds: []}` sent by the minter contract: a `CF` step in the current block,
on the bank the minter-side handler left -/
def runSub (b : Sg721.Block) (bank : MintPay.Bank) (minter : Addr) (c : CF.Coll) (msg : Option CF.ExecMsg) :
    Except Err (MintPay.Bank × CF.Coll) :=
  match msg with
  | none => .ok (bank, c)
  | some m =>
    match CF.exec ⟨b, bank, some c⟩ minter [] m with
    | .error e => .error e
    | .ok q =>
      match q.coll with
      | none => .error .other
      | some c' => .ok (q.bank, c')

/-- a message to the collection contract from outside (`MsgExecuteContract`) -/
def collExec (s : State) (sender : Addr) (funds : List Coin) (m : CF.ExecMsg) : Except Err State :=
  match s.mc with
  | none => .error .notFound
  | some (mn, _) =>
    match CF.exec (cfOf s) sender funds m with
    | .error e => .error e
    | .ok q =>
      match q.coll with
      | none => .error .other
      | some c' => .ok { s with bank := q.bank, mc := some (mn, c') }

/-- a chain-level / environment step of the collection contract (`migrateUpdatable`, `migrateSelf`, `setVersion`) -/
def collEnv (s : State) (op : CF.Op) : Except Err State :=
  match s.mc with
  | none => .error .notFound
  | some (mn, _) =>
    match CF.step (cfOf s) op with
    | .error e => .error e
    | .ok q =>
      match q.coll with
      | none => .error .other
      | some c' => .ok { s with bank := q.bank, mc := some (mn, c') }

/-- `sg721::InstantiateMsg` as the minter's `instantiate` assembles it: `minter` = the minter contract itself,
`collection_info` = the creator's fields with `start_trading_time` replaced by the bounded / defaulted value -/
def instMsg (minter creator : Addr) (trading : Option Nat) (ci : CollInit) : Sg721.InstMsg :=
  ⟨minter, ⟨creator, ci.description, ci.image, ci.externalLink, ci.explicitContent, trading, ci.royalty⟩⟩

/-- factory `CreateMinter` → minter `instantiate` → sg721 `instantiate` (a `CF` step, sender = the new minter) → minter `reply` -/
def create (s : State) (sender : Addr) (funds : List Coin) (msg : VF.CreateMsg) (w : VF.CreateWit) (ci : CollInit) :
    Except Err State :=
  match Sys.step (sysOf s) (.minter (.create sender funds { msg with collOk := true } w)) with
  | .error e => .error e
  | .ok r =>
    match r.minter with
    | none => .error .other
    | some vm =>
      match CF.instantiate ⟨s.block, r.bank, none⟩ (cfKind vm.tt.kind) vm.addr [] ci.name ci.symbol
              (instMsg vm.addr msg.creator vm.tt.trading ci) vm.sg721 with
      | .error e => .error e
      | .ok q => .ok (setSys s r q.bank q.coll)

/-- every other `Sys` op: the minter-side handler on `sysOf s`, then the sub-message it emits on the collection contract -/
def sysStep (s : State) (op : Sys.Op) : Except Err State :=
  match Sys.step (sysOf s) op with
  | .error e => .error e
  | .ok r =>
    match s.mc with
    | none => .ok (setSys s r r.bank none)
    | some (m, c) =>
      match subMsg m c (subOf op) with
      | .error e => .error e
      | .ok msg =>
        match runSub s.block r.bank m.addr c msg with
        | .error e => .error e
        | .ok (bank, c') => .ok (setSys s r bank (some c'))

def step (s : State) : Op → Except Err State
  | .sys (.minter op) =>
    match ifaceMsg op with
    | some (sender, m) => collExec s sender [] m
    | none => if isCreate op then .error .invalid else sysStep s (.minter op)
  | .sys op => sysStep s op
  | .create sender funds msg w ci => create s sender funds msg w ci
  | .block h t => if t < s.now then .error .invalid else .ok { s with height := h, now := t }
  | .collExec sender funds m => collExec s sender funds m
  | .collMigrateUpdatable => collEnv s .migrateUpdatable
  | .collMigrateSelf => collEnv s .migrateSelf
  | .collSetVersion v => collEnv s (.setVersion v)

/-- transactional semantics: a failed message leaves the world unchanged -/
def step' (s : State) (op : Op) : State :=
  match step s op with
  | .ok s' => s'
  | .error _ => s

def run (s : State) (ops : List Op) : State := ops.foldl step' s

/-- the system's own verdict on an operation -/
def accepted (s : State) (op : Op) : Bool :=
  match step s op with
  | .ok _ => true
  | .error _ => false

/-- a fresh chain with the factory instantiated -/
def init (height now : Nat) (codes : VF.Codes) (factoryAddr : Addr) (p : VF.Params) : State :=
  { height := height, now := now, codes := codes, factoryAddr := factoryAddr, params := p, bank := VF.emptyBank, mc := none,
    wls := [] }

end LP.Sys2
