import LaunchpadModel.Model.Airdrop
import LaunchpadModel.Model.Keccak
import LaunchpadModel.Model.Secp256k1
/-!
# The concrete `Crypto` of the ETH airdrop: Lean Keccak-256 + Lean secp256k1

`realCrypto` instantiates the three parameters of `LP.Airdrop.Crypto` with executable Lean code, so that
`claim realCrypto s sender eth sig` is decided from the raw bytes alone. Both implementations are cross-validated against
the crates the contract uses (`sha3`, `cosmwasm-crypto` → `k256`) on every run of the C16 check (`keccak`, `secp` lines;
`rc=` on every claim / `verify` line).
-/
namespace LP.Secp

/-- `ethereum_address_raw` of a recovered point: last 20 bytes of Keccak-256 of `X ‖ Y` -/
def ethAddressRaw (pt : Nat × Nat) : List Nat := ethAddressRawWith LP.Keccak.keccak256 pt

end LP.Secp

namespace LP.Airdrop

/-- Keccak-256, `secp256k1_recover_pubkey`, `secp256k1_verify` — computed in Lean -/
def realCrypto : Crypto :=
  { keccak := LP.Keccak.keccak256
    recover := LP.Secp.recoverBytes
    verify := LP.Secp.verifyBytes }

end LP.Airdrop
