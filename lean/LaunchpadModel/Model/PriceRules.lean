import LaunchpadModel.Model.Basic
import LaunchpadModel.Model.Sg1
import LaunchpadModel.Generated.Constants
/-!
# Price rules of the vending / open-edition minters and their factories (aspect model for C07)

Mirrors, for the 6 vending and 3 open-edition minters (they differ only in the `Variant` flags below):

* factory `execute_create_minter` (price floor / denom checks) + minter `instantiate` (`LAST_DISCOUNT_TIME` anchor),
* `execute_update_mint_price`, `execute_update_discount_price`, `execute_remove_discount_price`,
  `execute_set_whitelist`, `execute_update_start_time`, `mint_price()`, `query_mint_price`,
  the payment gate of `execute_mint_sender` / `_execute_mint` for a non-admin caller,
* factory `sudo_update_params` restricted to `min_mint_price` / `airdrop_mint_price`,
* `migrate` as far as it touches `LAST_DISCOUNT_TIME` (`migrateLast`).

State = what the code stores: `Config.mint_price`, `Config.extension.discount_price`, `LAST_DISCOUNT_TIME`,
`start_time`, `end_time`, `whitelist`, the factory's `min_mint_price` / `airdrop_mint_price`, and the (immutable)
price and window of every whitelist contract that exists.  Everything else a mint depends on (membership,
per-address limits, sold-out) is outside this aspect: the harness only uses eligible buyers.
-/
namespace LP.PriceRules

/-- nanoseconds -/
def HOUR : Nat := 60 * 60 * 1000000000
/-- `plus_seconds(12 * 60 * 60)` -/
def H12 : Nat := 12 * HOUR

def GENESIS : Nat := LP.Gen.sg_utils_GENESIS_MINT_START_TIME

/-- The places where the nine contracts differ as far as prices are concerned. -/
structure Variant where
  /-- open-edition family: no discount messages, `end_time`, optional `num_tokens` -/
  oe : Bool
  /-- `execute_set_whitelist` also compares the whitelist denom with the minter's own price denom
      (missing in vending-minter-wl-flex and vending-minter-wl-flex-featured) -/
  checkCfgDenom : Bool
  /-- the `-featured` variants call `distribute_mint_fees(.., is_featured = true, ..)` -/
  featured : Bool
deriving Repr, DecidableEq

/-- 0 vending, 1 -featured, 2 -wl-flex, 3 -wl-flex-featured, 4 -merkle-wl, 5 -merkle-wl-featured,
    6 open-edition, 7 open-edition-wl-flex, 8 open-edition-merkle-wl (= `MinterKind::idx` in the harness) -/
def variantOf (k : Nat) : Variant :=
  { oe := decide (6 ≤ k), checkCfgDenom := !(k == 2 || k == 3), featured := (k == 1 || k == 3 || k == 5) }

/-- a whitelist contract: `Config.mint_price`, `start_time`, `end_time` (never changed by the harness) -/
structure Wl where
  price : Coin
  start : Nat
  stop : Nat
deriving Repr, DecidableEq

/-- `is_active` of the whitelist `Config` query -/
def Wl.active (w : Wl) (now : Nat) : Bool := decide (w.start ≤ now) && decide (now < w.stop)

structure Factory where
  /-- `params.min_mint_price` -/
  minPrice : Coin
  /-- `params.extension.airdrop_mint_price` -/
  airdrop : Coin
  /-- `params.mint_fee_bps` -/
  feeBps : Nat
deriving Repr, DecidableEq

structure Minter where
  admin : Addr
  /-- `config.mint_price` -/
  price : Coin
  /-- `config.extension.discount_price` (always `none` for open edition) -/
  discount : Option Coin
  /-- `LAST_DISCOUNT_TIME` (vending only) -/
  lastDiscount : Nat
  start : Nat
  /-- open edition `end_time` -/
  stop : Option Nat
  /-- open edition: `num_tokens.is_some()`; vending: `true` -/
  hasCap : Bool
  /-- index of the attached whitelist in `World.wls` -/
  wl : Option Nat
deriving Repr, DecidableEq

structure World where
  v : Variant
  now : Nat
  fac : Factory
  wls : List Wl
  m : Option Minter
deriving Repr, DecidableEq

inductive Op where
  /-- next block time -/
  | setTime (t : Nat)
  /-- a whitelist contract is instantiated (appended to `wls`) -/
  | newWl (price : Coin) (start stop : Nat)
  /-- `CreateMinter` on the factory (creation fee etc. correct; only price / time / whitelist vary) -/
  | create (creator : Addr) (price : Coin) (start : Nat) (stop : Option Nat) (hasCap : Bool) (wl : Option Nat)
  | updateMintPrice (sender : Addr) (paid : Bool) (p : Nat)
  | updateDiscount (sender : Addr) (paid : Bool) (p : Nat)
  | removeDiscount (sender : Addr) (paid : Bool)
  | setWhitelist (sender : Addr) (paid : Bool) (wl : Nat)
  | updateStart (sender : Addr) (paid : Bool) (t : Nat)
  /-- governance: `sudo UpdateParams{min_mint_price}` -/
  | sudoMin (c : Coin)
  /-- governance: `sudo UpdateParams{extension.airdrop_mint_price}` -/
  | sudoAirdrop (c : Coin)
  /-- `Mint {}` by an eligible non-admin buyer with these funds -/
  | mint (funds : List Coin)
  /-- open edition `UpdateEndTime` (added last, round 3: `Minter.stop` gates `updateMintPrice` and `mintGate`) -/
  | updateEnd (sender : Addr) (paid : Bool) (t : Nat)
deriving Repr, DecidableEq

/-- the whitelist contract the minter points to -/
def wlOf (w : World) (m : Minter) : Option Wl := m.wl.bind (fun k => w.wls[k]?)

/-- is a whitelist stage open right now (`wl_config.is_active`) -/
def wlActive (w : World) (m : Minter) : Bool :=
  match wlOf w m with
  | some wl => wl.active w.now
  | none => false

/-- `mint_price(deps, false)`: whitelist price while the whitelist is active, else discount, else public price -/
def currentPrice (w : World) (m : Minter) : Coin :=
  match wlOf w m with
  | some wl => if wl.active w.now then wl.price else m.discount.getD m.price
  | none => m.discount.getD m.price

/-- the `MintPrice` query -/
structure PriceResp where
  publicPrice : Coin
  airdropPrice : Coin
  whitelistPrice : Option Coin
  currentPrice : Coin
  discountPrice : Option Coin
deriving Repr, DecidableEq

def queryMintPrice (w : World) (m : Minter) : PriceResp :=
  { publicPrice := m.price
    airdropPrice := ⟨m.price.denom, w.fac.airdrop.amount⟩
    whitelistPrice := (wlOf w m).map (·.price)
    currentPrice := currentPrice w m
    discountPrice := m.discount }

/-- time window in which `execute_mint_sender` lets an eligible non-admin buyer through to the payment check:
a public mint needs `now ≥ start_time`; open edition additionally `now < end_time` -/
def mintGate (w : World) (m : Minter) : Bool :=
  (wlActive w m || decide (m.start ≤ w.now)) &&
  (match m.stop with
   | some e => decide (w.now < e)
   | none => true)

/-- `_execute_mint` forwards `price × mint_fee_bps` (floor) through `sg1::distribute_mint_fees` (developer share for
open edition). The bank refuses a zero-amount send, so a dust fee whose split has an empty part fails the mint. -/
def feeSendable (w : World) (price : Coin) : Bool :=
  let fee := mulFloor price.amount (bps w.fac.feeBps)
  fee == 0 ||
    (Sg1.distributeMintFees ⟨price.denom, fee⟩ w.v.featured (if w.v.oe then some 0 else none)).all
      (fun msg => msg.amount != 0)

/-- non-admin `Mint {}`: gate, then `may_pay(info, price.denom)? == price.amount` (exact payment only), then the
fee messages must be deliverable -/
def mintCheck (w : World) (m : Minter) (funds : List Coin) : Except Err Unit :=
  if !mintGate w m then .error .tooSoon
  else
    let price := currentPrice w m
    match mayPay funds price.denom with
    | .error e => .error e
    | .ok paid =>
      if paid ≠ price.amount then .error .payment
      else if !feeSendable w price then .error .other
      else .ok ()

/-- `nonpayable` + admin check shared by all the admin messages -/
def adminOk (m : Minter) (sender : Addr) (paid : Bool) : Bool := !paid && sender == m.admin

def setMinter (w : World) (m : Minter) : World := { w with m := some m }

/-- the minter record written by `instantiate` -/
def freshMinter (w : World) (creator : Addr) (price : Coin) (start : Nat) (stop : Option Nat) (hasCap : Bool)
    (wl : Option Nat) : Minter :=
  { admin := creator, price := price, discount := none,
    lastDiscount := if w.v.oe then 0 else w.now - H12,
    start := start, stop := if w.v.oe then stop else none,
    hasCap := if w.v.oe then hasCap else true, wl := wl }

/-- the optional whitelist named at creation must exist and must not be active -/
def createWlOk (w : World) (wl : Option Nat) : Bool :=
  match wl with
  | none => true
  | some k =>
    match w.wls[k]? with
    | none => false
    | some x => !x.active w.now

/-- everything `execute_create_minter` (factory) and `instantiate` (minter) check that concerns prices, times and
the whitelist (the error kind is not observable, so the checks are one conjunction) -/
def createOk (w : World) (price : Coin) (start : Nat) (stop : Option Nat) (hasCap : Bool) (wl : Option Nat) : Bool :=
  w.m.isNone &&                                                   -- the model follows one minter per case
  -- factory: denom, floor
  decide (w.fac.minPrice.denom = price.denom) && decide (w.fac.minPrice.amount ≤ price.amount) &&
  (if w.v.oe then
     -- open-edition factory: without a token cap the price and the airdrop price must be non-zero and an end time given
     (hasCap || (decide (price.amount ≠ 0) && decide (w.fac.airdrop.amount ≠ 0) && stop.isSome)) &&
     decide (w.now < start) &&
     (match stop with | some e => decide (start < e) | none => true)
   else
     -- vending instantiate; `env.block.time.minus_seconds(12h)` panics on underflow
     decide (GENESIS ≤ start) && decide (w.now ≤ start) && decide (H12 ≤ w.now)) &&
  createWlOk w wl

def createMinter (w : World) (creator : Addr) (price : Coin) (start : Nat) (stop : Option Nat) (hasCap : Bool)
    (wl : Option Nat) : Except Err World :=
  if createOk w price start stop hasCap wl then .ok (setMinter w (freshMinter w creator price start stop hasCap wl))
  else .error .invalid

/-- fix 100f319: a standing discount above the new price is dropped -/
def keepDiscount (d : Option Coin) (p : Nat) : Option Coin :=
  match d with
  | some c => if c.amount > p then none else some c
  | none => none

def updateMintPrice (w : World) (sender : Addr) (paid : Bool) (p : Nat) : Except Err World :=
  match w.m with
  | none => .error .notFound
  | some m =>
    if !adminOk m sender paid then .error .unauthorized
    else if w.v.oe && (match m.stop with | some e => decide (e ≤ w.now) | none => false) then .error .tooLate
    -- after the start only lowering is allowed
    else if decide (m.start ≤ w.now) && decide (m.price.amount ≤ p) then .error .invalid
    else if w.fac.minPrice.amount > p then .error .invalid
    else if w.v.oe && !m.hasCap && decide (p = 0) then .error .invalid
    else .ok (setMinter w { m with price := ⟨m.price.denom, p⟩, discount := keepDiscount m.discount p })

def updateDiscount (w : World) (sender : Addr) (paid : Bool) (p : Nat) : Except Err World :=
  match w.m with
  | none => .error .notFound
  | some m =>
    if w.v.oe then .error .invalid                         -- open edition has no such message
    else if !adminOk m sender paid then .error .unauthorized
    else if w.now < m.start then .error .tooSoon
    else if m.lastDiscount + H12 > w.now then .error .tooSoon
    else if p > m.price.amount then .error .invalid
    else if w.fac.minPrice.amount > p then .error .invalid
    else .ok (setMinter w { m with discount := some ⟨m.price.denom, p⟩, lastDiscount := w.now })

def removeDiscount (w : World) (sender : Addr) (paid : Bool) : Except Err World :=
  match w.m with
  | none => .error .notFound
  | some m =>
    if w.v.oe then .error .invalid
    else if !adminOk m sender paid then .error .unauthorized
    else if m.lastDiscount + HOUR > w.now then .error .tooSoon
    else .ok (setMinter w { m with discount := none, lastDiscount := w.now })

def setWhitelist (w : World) (sender : Addr) (paid : Bool) (k : Nat) : Except Err World :=
  match w.m with
  | none => .error .notFound
  | some m =>
    if !adminOk m sender paid then .error .unauthorized
    else if m.start ≤ w.now then .error .tooLate
    else if wlActive w m then .error .tooLate
    else
      match w.wls[k]? with
      | none => .error .notFound
      | some x =>
        if x.active w.now then .error .tooLate
        else if w.v.checkCfgDenom && decide (x.price.denom ≠ m.price.denom) then .error .invalid
        else if w.fac.minPrice.amount > x.price.amount then .error .invalid
        else if w.fac.minPrice.denom ≠ x.price.denom then .error .invalid
        else .ok (setMinter w { m with wl := some k })

def updateStart (w : World) (sender : Addr) (paid : Bool) (t : Nat) : Except Err World :=
  match w.m with
  | none => .error .notFound
  | some m =>
    if !adminOk m sender paid then .error .unauthorized
    else if m.start ≤ w.now then .error .tooLate
    else if w.now > t then .error .invalid
    else if w.v.oe && (match m.stop with | some e => decide (t > e) | none => false) then .error .invalid
    else if !w.v.oe && decide (t < GENESIS) then .error .invalid
    else .ok (setMinter w { m with start := t })

/-- `execute_update_end_time` (identical in the three open-edition minters; the vending family has no such message):
nonpayable, admin, an end time must have been given at creation and must not have passed (`now >= end` refused), the new
one not in the past (`now > t` refused) and not before the start (`t < start` refused) -/
def updateEnd (w : World) (sender : Addr) (paid : Bool) (t : Nat) : Except Err World :=
  match w.m with
  | none => .error .notFound
  | some m =>
    if !w.v.oe then .error .invalid
    else if !adminOk m sender paid then .error .unauthorized
    else
      match m.stop with
      | none => .error .invalid
      | some e =>
        if e ≤ w.now then .error .tooLate
        else if w.now > t then .error .invalid
        else if t < m.start then .error .invalid
        else .ok (setMinter w { m with stop := some t })

def newWl (w : World) (price : Coin) (start stop : Nat) : Except Err World :=
  if start > stop then .error .invalid
  else if w.now ≥ start then .error .tooLate
  else if start < GENESIS then .error .invalid
  else .ok { w with wls := w.wls ++ [⟨price, start, stop⟩] }

/-- `base_factory::update_params`: a new minimum is only accepted in the native denom -/
def sudoMin (w : World) (c : Coin) : Except Err World :=
  if c.denom ≠ NATIVE then .error .invalid
  else .ok { w with fac := { w.fac with minPrice := c } }

/-- the vending factory insists on the native denom for the airdrop price, the open-edition factory does not -/
def sudoAirdrop (w : World) (c : Coin) : Except Err World :=
  if !w.v.oe && decide (c.denom ≠ NATIVE) then .error .invalid
  else .ok { w with fac := { w.fac with airdrop := c } }

def mintOp (w : World) (funds : List Coin) : Except Err World :=
  match w.m with
  | none => .error .notFound
  | some m =>
    match mintCheck w m funds with
    | .ok _ => .ok w
    | .error e => .error e

def step (w : World) : Op → Except Err World
  | .setTime t => .ok { w with now := t }
  | .newWl p s e => newWl w p s e
  | .create c p s e cap wl => createMinter w c p s e cap wl
  | .updateMintPrice s paid p => updateMintPrice w s paid p
  | .updateDiscount s paid p => updateDiscount w s paid p
  | .removeDiscount s paid => removeDiscount w s paid
  | .setWhitelist s paid k => setWhitelist w s paid k
  | .updateStart s paid t => updateStart w s paid t
  | .sudoMin c => sudoMin w c
  | .sudoAirdrop c => sudoAirdrop w c
  | .mint f => mintOp w f
  | .updateEnd s paid t => updateEnd w s paid t

/-- transactions are atomic: a failed message leaves the state unchanged -/
def step' (w : World) (op : Op) : World :=
  match step w op with
  | .ok w' => w'
  | .error _ => w

def run (w : World) (ops : List Op) : World := ops.foldl step' w

/-- a fresh world: the factory exists, no whitelist, no minter -/
def init (v : Variant) (now : Nat) (fac : Factory) : World := { v := v, now := now, fac := fac, wls := [], m := none }

/-! ## migrate (outside `step`: a migration from a pre-3.9.0 version is not something the current code can be
brought to by any message; the harness rewrites the stored cw2 version to exercise it) -/

def verLt (a b : Nat × Nat × Nat) : Bool :=
  decide (a.1 < b.1) || (a.1 == b.1 && (decide (a.2.1 < b.2.1) || (a.2.1 == b.2.1 && decide (a.2.2 < b.2.2))))

/-- vending `migrate`: `from` = stored version, `cur` = CONTRACT_VERSION. Result: the new `LAST_DISCOUNT_TIME`. -/
def migrateLast (fromV cur : Nat × Nat × Nat) (now last : Nat) : Except Err Nat :=
  if verLt cur fromV then .error .version
  else if fromV = cur then .ok last
  else if verLt fromV (3, 9, 0) then (if now < H12 then .error .other else .ok (now - H12))
  else .ok last

def vendingVersion : Nat × Nat × Nat := LP.Gen.vending_minter_CRATE_VERSION_TRIPLE

/-- migrate the (vending) minter of a world whose stored version is `fromV` -/
def migrate (w : World) (fromV : Nat × Nat × Nat) : Except Err World :=
  match w.m with
  | none => .error .notFound
  | some m =>
    if w.v.oe then
      (if verLt vendingVersion fromV then .error .version else .ok w)
    else
      match migrateLast fromV vendingVersion w.now m.lastDiscount with
      | .ok l => .ok (setMinter w { m with lastDiscount := l })
      | .error e => .error e

end LP.PriceRules
