import LaunchpadModel.Model.Basic
import LaunchpadModel.Model.Semver
/-!
# The `migrate` entry points of /repo (core Lean only)

22 `migrate` functions exist; reading them gives seven behaviours (`Kind`):

| kind | contracts | name check | version check | writes |
|---|---|---|---|---|
| `factory k` | base-, vending-, open-edition-, token-merge-factory | `== CONTRACT_NAME` | semver, `stored > code` refused | **nothing** in cw2; `SUDO_PARAMS` only when an update message is supplied |
| `plain` | open-edition-minter, -wl-flex, -merkle-wl, token-merge-minter, sg-splits, whitelist-merkletree, tiered-whitelist-merkletree | `== CONTRACT_NAME` | semver, `>` refused, `==` no-op | cw2 := (name, code version) |
| `vending` | vending-minter, -featured, -wl-flex, -wl-flex-featured, -merkle-wl, -merkle-wl-featured | as `plain` | as `plain` | + `last_discount_time := now − 12 h` when `stored < 3.9.0` |
| `updatable` | sg721-updatable | ∈ 4 compatible names | semver, `< 0.16.0` refused, `>` refused, (same name ∧ same version) refused | cw2; flags := false when coming from an sg721-base name; cw721 0.17 ownership upgrade when `< 3.0.0`; `royalty_updated_at := now − 24 h` when `< 3.1.0` |
| `metaOnchain` | sg721-metadata-onchain (not in C20's scope) | **none** | semver, `< EARLIEST` refused, `>` refused, `==` no-op | cw2 := (name, `TO_VERSION`); ownership upgrade when `< 3.0.0` |
| `nt` | sg721-nt (not in scope) | none | compares three *constants* as strings, never reads cw2 | — |
| `base721` | `Sg721Contract::migrate` of sg721-base (a method, no entry point; not in scope) | `== CONTRACT_NAME` | **string** comparison `stored >= code` refused | cw2; upgrades by string comparison with "3.0.0"/"3.1.0" |

State: the *mechanism* items `migrate` can touch are typed fields; everything else in the contract's storage is the
opaque list `other` (key id ↦ value digest), which no `migrate` mentions — the correspondence compares the **raw
storage diff** of the real contract with `changedKeys`, so a write outside these fields is a disagreement.

Names are interned naturals (the driver owns the string table); version strings are `List Nat` char codes.
-/
namespace LP.Mig
open LP LP.Semver

abbrev NameId := Nat

/-- the `cw2` record `contract_info` as stored: (name, raw version string) -/
structure Cw2 where
  name : NameId
  ver : List Nat
deriving DecidableEq, Repr

/-- `cw_ownable::Ownership` reduced to what migrations touch -/
structure Own where
  owner : Option Addr
  pending : Bool
deriving DecidableEq, Repr

/-- governance parameters of a factory: superset over the four factories (unused fields stay untouched) -/
structure FParams where
  codeId : Nat
  ids : List Nat
  frozen : Bool
  creationFee : Coin
  minMintPrice : Coin
  mintFeeBps : Nat
  offset : Nat
  maxTokenLimit : Nat
  maxPerAddr : Nat
  airdropPrice : Coin
  airdropBps : Nat
  shuffleFee : Coin
  devFeeAddr : Nat
deriving DecidableEq, Repr

/-- the optional update message of a factory migration (`UpdateMinterParamsMsg<Ext>`), superset over the factories -/
structure FMsg where
  codeId : Option Nat := none
  addIds : Option (List Nat) := none
  rmIds : Option (List Nat) := none
  frozen : Option Bool := none
  creationFee : Option Coin := none
  minMintPrice : Option Coin := none
  mintFeeBps : Option Nat := none
  offset : Option Nat := none
  maxTokenLimit : Option Nat := none
  maxPerAddr : Option Nat := none
  airdropPrice : Option Coin := none
  airdropBps : Option Nat := none
  shuffleFee : Option Coin := none
  devFeeAddr : Option Nat := none
deriving DecidableEq, Repr

structure St where
  cw2 : Option Cw2
  /-- vending family `LAST_DISCOUNT_TIME` (`last_discount_time`), ns -/
  lastDiscount : Option Nat
  /-- sg721-updatable `FROZEN_TOKEN_METADATA` -/
  frozenMeta : Option Bool
  /-- sg721-updatable `ENABLE_UPDATABLE` -/
  enableUpd : Option Bool
  /-- sg721-base `royalty_updated_at`, ns -/
  royaltyAt : Option Nat
  /-- cw721-base 0.16 `minter` item (pre-3.0.0 collections) -/
  legacyMinter : Option Addr
  /-- cw-ownable `ownership` item -/
  ownership : Option Own
  /-- factory `SUDO_PARAMS` (`sudo-params`) -/
  params : Option FParams
  /-- every other storage entry (config, supply, counters, token maps, …): opaque -/
  other : List (Nat × Nat)
deriving DecidableEq, Repr

inductive FKind where
  | base | vending | openEdition | tokenMerge
deriving DecidableEq, Repr

inductive Kind where
  | factory (k : FKind)
  | plain
  | vending
  | updatable
  | metaOnchain
  | nt
  | base721
deriving DecidableEq, Repr

/-- What the compiled code knows about itself. -/
structure Spec where
  kind : Kind
  /-- `CONTRACT_NAME` -/
  own : NameId
  /-- `CONTRACT_VERSION` = `CARGO_PKG_VERSION` -/
  code : Version
  /-- names accepted as the stored identity (`[own]` except for sg721-updatable) -/
  accepted : List NameId := [own]
  /-- sg721-updatable: the sg721-base names (flags are initialised when coming from these) -/
  baseNames : List NameId := []
  /-- sg721-updatable `EARLIEST_COMPATIBLE_VERSION`, sg721-metadata-onchain / sg721-nt `EARLIEST_VERSION` -/
  earliest : Version := ⟨0, 0, 0⟩
  /-- sg721-metadata-onchain / sg721-nt `TO_VERSION` (raw string) -/
  toVer : List Nat := []
  /-- sg721-nt compares the raw strings -/
  earliestStr : List Nat := []
deriving Repr

/-! ## constants written inline in the Rust (`Version::new(3, 9, 0)`, `60 * 60 * 12`, …) -/

def V_3_9_0 : Version := ⟨3, 9, 0⟩
def V_3_0_0 : Version := ⟨3, 0, 0⟩
def V_3_1_0 : Version := ⟨3, 1, 0⟩
def NS_PER_S : Nat := 1000000000
/-- `env.block.time.minus_seconds(60 * 60 * 12)` -/
def DISCOUNT_BACKDATE_NS : Nat := 60 * 60 * 12 * NS_PER_S
/-- `env.block.time.minus_seconds(60 * 60 * 24)` -/
def ROYALTY_BACKDATE_NS : Nat := 60 * 60 * 24 * NS_PER_S
/-- "3.0.0" / "3.1.0" as sg721-base compares them (strings) -/
def S_3_0_0 : List Nat := [51, 46, 48, 46, 48]
def S_3_1_0 : List Nat := [51, 46, 49, 46, 48]

/-- `Timestamp::minus_seconds` panics on underflow (an aborted transaction) -/
def minusNs (now d : Nat) : Except Err Nat := if now < d then .error .other else .ok (now - d)

def getCw2 (s : St) : Except Err Cw2 :=
  match s.cw2 with
  | some c => .ok c
  | none => .error .notFound

def parseVer (cs : List Nat) : Except Err Version :=
  match parse cs with
  | some v => .ok v
  | none => .error .version

/-- what `set_contract_version(storage, CONTRACT_NAME, CONTRACT_VERSION)` leaves in storage -/
def codeRecord (sp : Spec) : Cw2 := ⟨sp.own, print sp.code⟩

/-! ## factories -/

/-- `Vec::dedup`: removes *consecutive* repeats -/
def dedupAdj : List Nat → List Nat
  | [] => []
  | [a] => [a]
  | a :: b :: t => if a = b then dedupAdj (b :: t) else a :: dedupAdj (b :: t)

/-- add, `dedup`, then remove — `allowed_sg721_code_ids` in `update_params` -/
def updIds (ids : List Nat) (add rm : Option (List Nat)) : List Nat :=
  let a := dedupAdj (ids ++ add.getD [])
  (rm.getD []).foldl (fun l x => l.filter (· != x)) a

/-- a supplied coin that must be in the native denom (`ensure_eq!(denom, NATIVE_DENOM)`) -/
def nativeOr (cur : Coin) (m : Option Coin) : Except Err Coin :=
  match m with
  | none => .ok cur
  | some c => if c.denom = NATIVE then .ok c else .error .invalid

/-- the body of `if let Some(msg) = msg { … }` in the four factory `migrate`s -/
def applyMsg (k : FKind) (p : FParams) (m : FMsg) : Except Err FParams :=
  match k with
  | .base => do
    -- base_factory::update_params
    let mmp ← nativeOr p.minMintPrice m.minMintPrice
    pure { p with codeId := m.codeId.getD p.codeId, frozen := m.frozen.getD p.frozen,
                  creationFee := m.creationFee.getD p.creationFee, minMintPrice := mmp,
                  ids := updIds p.ids m.addIds m.rmIds, mintFeeBps := m.mintFeeBps.getD p.mintFeeBps,
                  offset := m.offset.getD p.offset }
  | .vending => do
    let mmp ← nativeOr p.minMintPrice m.minMintPrice
    let ap ← nativeOr p.airdropPrice m.airdropPrice
    let sf ← nativeOr p.shuffleFee m.shuffleFee
    pure { p with codeId := m.codeId.getD p.codeId, frozen := m.frozen.getD p.frozen,
                  creationFee := m.creationFee.getD p.creationFee, minMintPrice := mmp,
                  ids := updIds p.ids m.addIds m.rmIds, mintFeeBps := m.mintFeeBps.getD p.mintFeeBps,
                  offset := m.offset.getD p.offset,
                  maxTokenLimit := m.maxTokenLimit.getD p.maxTokenLimit, maxPerAddr := m.maxPerAddr.getD p.maxPerAddr,
                  airdropPrice := ap, airdropBps := m.airdropBps.getD p.airdropBps, shuffleFee := sf }
  | .openEdition => do
    -- no denom check on the airdrop price here; the extension's own `min_mint_price` is never read
    let mmp ← nativeOr p.minMintPrice m.minMintPrice
    pure { p with codeId := m.codeId.getD p.codeId, frozen := m.frozen.getD p.frozen,
                  creationFee := m.creationFee.getD p.creationFee, minMintPrice := mmp,
                  ids := updIds p.ids m.addIds m.rmIds, mintFeeBps := m.mintFeeBps.getD p.mintFeeBps,
                  offset := m.offset.getD p.offset,
                  maxTokenLimit := m.maxTokenLimit.getD p.maxTokenLimit, devFeeAddr := m.devFeeAddr.getD p.devFeeAddr,
                  airdropPrice := m.airdropPrice.getD p.airdropPrice, airdropBps := m.airdropBps.getD p.airdropBps,
                  maxPerAddr := m.maxPerAddr.getD p.maxPerAddr }
  | .tokenMerge => do
    -- update_base_params: no min_mint_price / mint_fee_bps in this factory's params
    let ap ← nativeOr p.airdropPrice m.airdropPrice
    let sf ← nativeOr p.shuffleFee m.shuffleFee
    pure { p with codeId := m.codeId.getD p.codeId, frozen := m.frozen.getD p.frozen,
                  creationFee := m.creationFee.getD p.creationFee,
                  ids := updIds p.ids m.addIds m.rmIds, offset := m.offset.getD p.offset,
                  maxTokenLimit := m.maxTokenLimit.getD p.maxTokenLimit, maxPerAddr := m.maxPerAddr.getD p.maxPerAddr,
                  airdropPrice := ap, airdropBps := m.airdropBps.getD p.airdropBps, shuffleFee := sf }

def migrateFactory (k : FKind) (sp : Spec) (msg : Option FMsg) (s : St) : Except Err St := do
  let c ← getCw2 s
  let v ← parseVer c.ver
  if c.name ≠ sp.own then throw .invalid
  if sp.code < v then throw .version
  match msg with
  | none => pure s
  | some m =>
    match s.params with
    | none => throw .notFound
    | some p => do
      let p' ← applyMsg k p m
      pure { s with params := some p' }

/-! ## minters (non-vending), splits, Merkle whitelists -/

/-- the shared prefix: name, parse, downgrade check; returns the stored version -/
def checkOwn (sp : Spec) (s : St) : Except Err Version := do
  let c ← getCw2 s
  if c.name ≠ sp.own then throw .invalid
  let v ← parseVer c.ver
  if sp.code < v then throw .version
  pure v

def migratePlain (sp : Spec) (s : St) : Except Err St := do
  let v ← checkOwn sp s
  if v = sp.code then pure s
  else pure { s with cw2 := some (codeRecord sp) }

/-! ## vending family -/

def migrateVending (sp : Spec) (now : Nat) (s : St) : Except Err St := do
  let v ← checkOwn sp s
  if v = sp.code then pure s
  else if v < V_3_9_0 then do
    let t ← minusNs now DISCOUNT_BACKDATE_NS
    pure { s with lastDiscount := some t, cw2 := some (codeRecord sp) }
  else pure { s with cw2 := some (codeRecord sp) }

/-! ## sg721 collections -/

/-- `cw721_base::upgrades::v0_17::migrate`: move the 0.16 `minter` item into cw-ownable `ownership` -/
def upgradeOwnership (s : St) : Except Err St :=
  match s.legacyMinter with
  | none => .error .notFound
  | some m => .ok { s with legacyMinter := none, ownership := some ⟨some m, false⟩ }

/-- `sg721_base::upgrades::v3_1_0::upgrade` -/
def upgradeRoyalty (now : Nat) (s : St) : Except Err St := do
  let t ← minusNs now ROYALTY_BACKDATE_NS
  pure { s with royaltyAt := some t }

def migrateUpdatable (sp : Spec) (now : Nat) (s : St) : Except Err St := do
  let c ← getCw2 s
  let v ← parseVer c.ver
  if ¬ c.name ∈ sp.accepted then throw .invalid
  if v < sp.earliest then throw .version
  if sp.code < v then throw .version
  if v = sp.code ∧ c.name = sp.own then throw .version
  let s1 := if c.name ∈ sp.baseNames then { s with frozenMeta := some false, enableUpd := some false } else s
  let s2 ← if v < V_3_0_0 then upgradeOwnership s1 else pure s1
  let s3 ← if v < V_3_1_0 then upgradeRoyalty now s2 else pure s2
  pure { s3 with cw2 := some (codeRecord sp) }

/-- sg721-metadata-onchain (not in C20's scope; modelled for completeness): no name check, records `TO_VERSION` -/
def migrateMetaOnchain (sp : Spec) (s : St) : Except Err St := do
  let c ← getCw2 s
  let v ← parseVer c.ver
  if v < sp.earliest then throw .version
  if sp.code < v then throw .version
  if sp.code = v then pure s
  else
    let s1 := { s with cw2 := some ⟨sp.own, sp.toVer⟩ }
    if v < V_3_0_0 then upgradeOwnership s1 else pure s1

/-- sg721-nt (not in scope): compares `CONTRACT_VERSION`, `EARLIEST_VERSION`, `TO_VERSION` as strings; cw2 is not read -/
def migrateNt (sp : Spec) (s : St) : Except Err St :=
  let codeStr := print sp.code
  if strLt codeStr sp.earliestStr then .error .version
  else if strLt sp.toVer codeStr then .error .version
  else if codeStr = sp.toVer then .ok s
  else upgradeOwnership { s with cw2 := some ⟨sp.own, sp.toVer⟩ }

/-- `Sg721Contract::migrate` in sg721-base (not in scope): every comparison is on the raw strings -/
def migrateBase721 (sp : Spec) (now : Nat) (s : St) : Except Err St := do
  let c ← getCw2 s
  if c.name ≠ sp.own then throw .invalid
  if strGe c.ver (print sp.code) then throw .version
  let s2 ← if strLt c.ver S_3_0_0 then upgradeOwnership s else pure s
  let s3 ← if strLt c.ver S_3_1_0 then upgradeRoyalty now s2 else pure s2
  pure { s3 with cw2 := some (codeRecord sp) }

/-! ## one entry point for all kinds -/

def migrate (sp : Spec) (now : Nat) (msg : Option FMsg) (s : St) : Except Err St :=
  match sp.kind with
  | .factory k => migrateFactory k sp msg s
  | .plain => migratePlain sp s
  | .vending => migrateVending sp now s
  | .updatable => migrateUpdatable sp now s
  | .metaOnchain => migrateMetaOnchain sp s
  | .nt => migrateNt sp s
  | .base721 => migrateBase721 sp now s

/-- transactional semantics: a refused migration leaves the state as it was -/
def migrate' (sp : Spec) (now : Nat) (msg : Option FMsg) (s : St) : St :=
  match migrate sp now msg s with
  | .ok s' => s'
  | .error _ => s

/-- one step of a history: a code upload (`Spec`, may differ from step to step) migrated to at block time `now` -/
structure MigOp where
  sp : Spec
  now : Nat
  msg : Option FMsg

def run (s : St) (ops : List MigOp) : St := ops.foldl (fun s o => migrate' o.sp o.now o.msg s) s

/-- the recorded version, when it is a well-formed one -/
def recorded (s : St) : Option Version := s.cw2.bind fun c => parse c.ver

/-! ## storage keys (for the raw-diff comparison) -/

def K_CW2 : Nat := 0
def K_LAST_DISCOUNT : Nat := 1
def K_FROZEN_META : Nat := 2
def K_ENABLE_UPD : Nat := 3
def K_ROYALTY_AT : Nat := 4
def K_LEGACY_MINTER : Nat := 5
def K_OWNERSHIP : Nat := 6
def K_PARAMS : Nat := 7

/-- ids of the typed storage items whose value differs between two states (ascending) -/
def changedKeys (a b : St) : List Nat :=
  (if a.cw2 = b.cw2 then [] else [K_CW2]) ++
  (if a.lastDiscount = b.lastDiscount then [] else [K_LAST_DISCOUNT]) ++
  (if a.frozenMeta = b.frozenMeta then [] else [K_FROZEN_META]) ++
  (if a.enableUpd = b.enableUpd then [] else [K_ENABLE_UPD]) ++
  (if a.royaltyAt = b.royaltyAt then [] else [K_ROYALTY_AT]) ++
  (if a.legacyMinter = b.legacyMinter then [] else [K_LEGACY_MINTER]) ++
  (if a.ownership = b.ownership then [] else [K_OWNERSHIP]) ++
  (if a.params = b.params then [] else [K_PARAMS])

end LP.Mig
