import LaunchpadModel.Model.VendingFull
/-!
# Composite model of the token-merge family: `token-merge-factory` + `token-merge-minter` (DESIGN §3.4)

ONE executable deterministic model of everything the two contracts do: the factory (`instantiate`, `CreateMinter`,
`sudo UpdateParams`, queries), the minter (`instantiate` through the factory and directly, the sg721 instantiate sub-message and
`reply`, all 9 `ExecuteMsg` kinds incl. the `ReceiveNft` hook, `sudo UpdateStatus`, all queries), the minter's own sg721
collection as far as the family drives it (mint, holder transfer / burn, trading time, ownership), and the bank.

Outside the family and therefore entering through an explicit interface:
* randomness (`random_token_list`, `random_mintable_token_mapping`): checked witnesses `perm`, `picked`;
* the SOURCE collections (independent sg721 contracts whose tokens are burned to mint): the composite keeps, per source
  contract, who owns which token (`Srcs`) and offers the three messages that matter to the family — `srcGive` (the source's own
  minter issues a token: environment), `srcTransfer` (`TransferNft` by the owner) and `send` (`SendNft` by the owner: transfer,
  then the `ReceiveNft` hook of the receiving contract).  cw721 approvals / operators of the source contracts are NOT modelled
  here (the family's code never reads them; C17's own aspect model covers them): composite sends are by owners.
* the inner `msg` of `SendNft` / `ReceiveNft` decodes to `DepositToken {recipient}` with a valid recipient string: `msgOk`.

Reused as they are: `VF.Status / Codes / Pick / takeToken / nativeOr / updateAllowed / emptyBank`, `Supply.Fixed` (positions,
counter, mint log, the collection's token table), `MintPay.Bank/applyMsgs`, `TT.Coll` + `boundedOrDefault / tradingUpdateOk`.
The deposit ledger, the gates, the airdrop price / fee / payout and the schedule rules are transcribed here independently of the
aspect models `LP.TM` (C17) and `LP.MintPay` (C02).

| Lean | Rust |
|---|---|
| `init`, `updateParams` | `token_merge_factory::contract::{instantiate, sudo_update_params, update_base_params}` |
| `factoryChecks`, `creationFeeMsgs`, `createMinter` | `execute_create_minter` (`must_pay` — NOT exact —, allowed collection, frozen, fee, `num_tokens` and `per_address_limit` ranges) |
| `dynLimitOk` | `validation::check_dynamic_per_address_limit` |
| `instantiateMinter` | minter `instantiate` + sg721 instantiate + `reply` |
| `requiredOf`, `allReceived`, `clearLedger`, `receiveNft`, `burnDeposit` | `execute_receive_nft`, `check_all_mint_tokens_received`, the `burn_message` branch of `_execute_mint`, dispatch of the `Burn` sub-message |
| `airdropMsgs`, `deliver`, `mintAdmin` | `_execute_mint`, `execute_mint_to`, `execute_mint_for` |
| `purge`, `updateStartTime`, `updateStartTradingTime`, `updatePerAddressLimit`, `shuffle`, `burnRemaining` | the same-named `execute_*` |
| `sendNft` | cw721-base `send_nft` of a source collection (owner only here) + the hook |
-/
namespace LP.TMF
open LP
open LP.VF (Status Codes Pick takeToken GENESIS)

/-! ## Stored records -/

/-- `token_merge_factory::state::TokenMergeFactoryParams` -/
structure Params where
  codeId : Nat
  allowed : List Nat
  frozen : Bool
  creationFee : Coin
  maxTradingOffsetSecs : Nat
  maxTokenLimit : Nat
  maxPerAddressLimit : Nat
  airdropMintPrice : Coin
  airdropMintFeeBps : Nat
  shuffleFee : Coin
deriving DecidableEq, Repr

/-- `TokenMergeUpdateParamsMsg` -/
structure ParamsUpdate where
  codeId : Option Nat := none
  addCodes : Option (List Nat) := none
  rmCodes : Option (List Nat) := none
  frozen : Option Bool := none
  creationFee : Option Coin := none
  maxTradingOffsetSecs : Option Nat := none
  maxTokenLimit : Option Nat := none
  maxPerAddressLimit : Option Nat := none
  airdropMintPrice : Option Coin := none
  airdropMintFeeBps : Option Nat := none
  shuffleFee : Option Coin := none
deriving DecidableEq, Repr

/-- the source collections (outside the family): which addresses are sg721 contracts, who owns which token, `num_tokens` -/
structure Srcs where
  colls : List Addr
  owner : Addr → Nat → Option Addr
  num : Addr → Nat

structure Minter where
  addr : Addr
  -- `CONFIG`
  factory : Addr
  collectionCodeId : Nat
  admin : Addr
  startTime : Nat
  perAddressLimit : Nat
  /-- `config.extension.mint_tokens` in order: (collection, amount); the collection strings are never validated -/
  mintTokens : List (Addr × Nat)
  /-- `SG721_ADDRESS` -/
  sg721 : Addr
  /-- `config.extension.num_tokens` (`n`), `MINTABLE_TOKEN_POSITIONS`, `MINTABLE_NUM_TOKENS`, ghosts, the collection's token table -/
  supply : Supply.Fixed
  /-- `MINTER_ADDRS` -/
  mintCount : Addr → Nat
  /-- `RECEIVED_TOKENS` : recipient → collection → credited tokens -/
  ledger : Addr → Addr → Nat
  status : Status
  tt : TT.Coll

structure State where
  now : Nat
  codes : Codes
  factoryAddr : Addr
  params : Params
  bank : MintPay.Bank
  srcs : Srcs
  minter : Option Minter

/-! ## Messages -/

structure CreateMsg where
  collCode : Nat
  creator : Addr
  trading : Option Nat
  /-- `Url::parse(base_token_uri.trim())` succeeds -/
  uriOk : Bool
  startTime : Nat
  numTokens : Nat
  mintTokens : List (Addr × Nat)
  perAddressLimit : Nat
  /-- the sg721 contract's own instantiate checks pass -/
  collOk : Bool
deriving Repr

structure CreateWit where
  minterAddr : Addr
  collAddr : Addr
  /-- `random_token_list(1..=n)` -/
  perm : List Nat
deriving Repr

inductive Op where
  | setTime (t : Nat)
  | fund (a : Addr) (c : Coin)
  /-- environment: an address becomes a source sg721 contract -/
  | srcNew (coll : Addr)
  /-- environment: the source collection's own minter issues token `id` to `to` -/
  | srcGive (coll : Addr) (id : Nat) (to : Addr)
  /-- `TransferNft` on a source collection by the owner -/
  | srcTransfer (caller coll : Addr) (id : Nat) (to : Addr)
  /-- `SendNft {contract, token_id, msg}` on a source collection by the owner -/
  | send (caller coll : Addr) (id : Nat) (contract : Addr) (recipient : Option Addr) (msgOk : Bool) (picked : Nat)
  /-- a transaction calling the minter's `ReceiveNft` hook directly -/
  | receive (caller sender : Addr) (id : Nat) (recipient : Option Addr) (msgOk : Bool) (picked : Nat)
  | create (sender : Addr) (funds : List Coin) (msg : CreateMsg) (w : CreateWit)
  | instantiateDirect (sender : Addr)
  | mintTo (sender : Addr) (funds : List Coin) (rcpt : Addr) (picked : Nat)
  | mintFor (sender : Addr) (funds : List Coin) (id : Nat) (rcpt : Addr)
  | purge (sender : Addr) (funds : List Coin)
  | updateStartTime (sender : Addr) (funds : List Coin) (t : Nat)
  | updateStartTradingTime (sender : Addr) (funds : List Coin) (t : Option Nat)
  | updatePerAddressLimit (sender : Addr) (funds : List Coin) (n : Nat)
  | shuffle (sender : Addr) (funds : List Coin) (perm : List Nat)
  | burnRemaining (sender : Addr) (funds : List Coin)
  | sudoStatus (verified blocked explicit : Bool)
  | sudoParams (u : ParamsUpdate)
  | collTransfer (sender : Addr) (id : Nat) (to : Addr)
  | collBurn (sender : Addr) (id : Nat)
  | collTrading (sender : Addr) (t : Option Nat)
  | collCreator (sender : Addr) (new : Addr)
  | collFreeze (sender : Addr)
  | collOwn (sender : Addr) (a : TT.OwnAction)

/-! ## Factory -/

/-- `update_base_params` + the extension part of `sudo_update_params` (nothing is saved when a denom check fails) -/
def updateParams (p : Params) (u : ParamsUpdate) : Except Err Params :=
  match VF.nativeOr u.airdropMintPrice p.airdropMintPrice with
  | .error e => .error e
  | .ok airp =>
    match VF.nativeOr u.shuffleFee p.shuffleFee with
    | .error e => .error e
    | .ok shuf =>
      .ok { codeId := u.codeId.getD p.codeId
            allowed := VF.updateAllowed p.allowed u.addCodes u.rmCodes
            frozen := u.frozen.getD p.frozen
            creationFee := u.creationFee.getD p.creationFee
            maxTradingOffsetSecs := u.maxTradingOffsetSecs.getD p.maxTradingOffsetSecs
            maxTokenLimit := u.maxTokenLimit.getD p.maxTokenLimit
            maxPerAddressLimit := u.maxPerAddressLimit.getD p.maxPerAddressLimit
            airdropMintPrice := airp
            airdropMintFeeBps := u.airdropMintFeeBps.getD p.airdropMintFeeBps
            shuffleFee := shuf }

def creationFeeMsgs (s : State) (funds : List Coin) : Except Err (List Msg) :=
  if s.params.creationFee.denom = NATIVE then
    Sg1.checkedFairBurn funds s.factoryAddr s.params.creationFee.amount none
  else
    Sg1.transferFundsToLaunchpadDao funds s.params.creationFee.amount s.params.creationFee.denom

/-- everything `execute_create_minter` does before the `WasmMsg::Instantiate`.  `must_pay` only asks for ONE non-zero coin of the
fee denom; the fee library then refuses less than the fee and takes exactly the fee (native) or the whole payment (other denom) -/
def factoryChecks (s : State) (funds : List Coin) (msg : CreateMsg) : Except Err (List Msg) :=
  match mustPay funds s.params.creationFee.denom with
  | .error e => .error e
  | .ok _ =>
    if !(s.params.allowed.contains msg.collCode) then .error .invalid
    else if s.params.frozen then .error .frozen
    else
      match creationFeeMsgs s funds with
      | .error e => .error e
      | .ok ms =>
        if msg.numTokens = 0 ∨ msg.numTokens > s.params.maxTokenLimit then .error .invalid
        else if msg.perAddressLimit = 0 ∨ msg.perAddressLimit > s.params.maxPerAddressLimit then .error .invalid
        else .ok ms

/-- `check_dynamic_per_address_limit`: at most the factory maximum; at most 3 below 100 tokens, else at most ⌈3 %⌉ -/
def dynLimitOk (limit numTokens maxLimit : Nat) : Bool :=
  if limit > maxLimit then false
  else if numTokens < 100 then decide (limit ≤ 3)
  else decide (limit ≤ (numTokens * 3 + 99) / 100)

/-- minter `instantiate` (sender = the factory) + the sg721 instantiate sub-message + `reply` -/
def instantiateMinter (s : State) (msg : CreateMsg) (w : CreateWit) : Except Err Minter :=
  if dynLimitOk msg.perAddressLimit msg.numTokens s.params.maxPerAddressLimit = false then .error .invalid
  else if msg.uriOk = false then .error .invalid
  else if msg.startTime < GENESIS then .error .invalid
  else if s.now > msg.startTime then .error .invalid
  else
    match TT.boundedOrDefault msg.startTime s.params.maxTradingOffsetSecs msg.trading with
    | .error e => .error e
    | .ok trading =>
      match Supply.Fixed.init msg.numTokens w.perm with
      | none => .error .other
      | some sup =>
        match s.codes.collKindOf msg.collCode with
        | none => .error .notFound
        | some ck =>
          if msg.collOk = false then .error .invalid
          else
            .ok { addr := w.minterAddr, factory := s.factoryAddr, collectionCodeId := msg.collCode, admin := msg.creator,
                  startTime := msg.startTime, perAddressLimit := msg.perAddressLimit, mintTokens := msg.mintTokens,
                  sg721 := w.collAddr, supply := sup, mintCount := MintLimits.zero, ledger := fun _ => MintLimits.zero,
                  status := {}, tt := TT.Coll.init ck w.minterAddr msg.creator trading }

def createMinter (s : State) (sender : Addr) (funds : List Coin) (msg : CreateMsg) (w : CreateWit) : Except Err State :=
  if s.minter.isSome then .error .other        -- the model follows ONE minter per case
  else
    match s.bank.sendFunds sender s.factoryAddr funds with
    | none => .error .payment
    | some b1 =>
      match factoryChecks s funds msg with
      | .error e => .error e
      | .ok ms =>
        match MintPay.applyMsgs s.factoryAddr b1 ms with
        | none => .error .other
        | some b2 =>
          -- `params.code_id` must be the token-merge-minter code
          if !(s.codes.minters.contains s.params.codeId) then .error .notFound
          else
            match instantiateMinter s msg w with
            | .error e => .error e
            | .ok m => .ok { s with bank := b2, minter := some m }

/-! ## Source collections (outside the family) -/

def Srcs.set (x : Srcs) (c : Addr) (id : Nat) (o : Option Addr) : Addr → Nat → Option Addr :=
  fun c' id' => if c' = c ∧ id' = id then o else x.owner c' id'

/-- the source's own minter issues a fresh token -/
def srcGive (x : Srcs) (c : Addr) (id : Nat) (to : Addr) : Except Err Srcs :=
  if c ∈ x.colls ∧ x.owner c id = none then
    .ok { x with owner := x.set c id (some to), num := fun c' => if c' = c then x.num c + 1 else x.num c' }
  else .error .invalid

/-- cw721-base `_transfer_nft` by the owner -/
def srcTransfer (x : Srcs) (caller c : Addr) (id : Nat) (to : Addr) : Except Err Srcs :=
  if c ∈ x.colls ∧ x.owner c id = some caller then .ok { x with owner := x.set c id (some to) }
  else .error .unauthorized

/-- cw721-base `burn` by the owner; a message to an address that is no contract fails -/
def srcBurn (x : Srcs) (caller c : Addr) (id : Nat) : Except Err Srcs :=
  if c ∈ x.colls ∧ x.owner c id = some caller then
    .ok { x with owner := x.set c id none, num := fun c' => if c' = c then x.num c - 1 else x.num c' }
  else .error .unauthorized

/-! ## Minter: the deposit ledger -/

/-- `mint_tokens.iter().find(|t| t.collection == info.sender)`: the FIRST entry naming the collection -/
def requiredOf : List (Addr × Nat) → Addr → Option Nat
  | [], _ => none
  | (c', n) :: rest, c => if c' = c then some n else requiredOf rest c

/-- `check_all_mint_tokens_received`: every entry has `received ≥ amount` -/
def allReceived (req : List (Addr × Nat)) (led : Addr → Nat) : Bool :=
  req.all fun cn => decide (cn.2 ≤ led cn.1)

/-- `for mint_token in mint_tokens { RECEIVED_TOKENS.remove((recipient, collection)) }` -/
def clearLedger (led : Addr → Addr → Nat) (r : Addr) (req : List (Addr × Nat)) : Addr → Addr → Nat :=
  fun x y => if x = r ∧ y ∈ req.map Prod.fst then 0 else led x y

def creditLedger (led : Addr → Addr → Nat) (r c : Addr) : Addr → Addr → Nat :=
  fun x y => if x = r ∧ y = c then led r c + 1 else led x y

/-- does the collection contract of kind `ck` accept the `Mint {extension: None}` sub-message (sg721-metadata-onchain wants a
`Metadata`) -/
def mintParses (ck : TT.CollKind) : Bool := decide (ck ≠ .metadata)

/-- the tail of `_execute_mint` common to deposits and airdrops: the sg721 `Mint` sub-message (only the collection's cw_ownable
owner may mint; the message must parse), the position bookkeeping, `MINTER_ADDRS[recipient] += 1` -/
def deliver (m : Minter) (pk : Pick) (rcpt : Addr) : Except Err Minter :=
  if m.supply.mintable = 0 then .error .soldOut
  else if m.tt.owner ≠ some m.addr then .error .unauthorized
  else if mintParses m.tt.kind = false then .error .invalid
  else
    match takeToken m.supply pk rcpt with
    | none => .error .other
    | some sup => .ok { m with supply := sup, mintCount := MintLimits.upd m.mintCount rcpt (m.mintCount rcpt + 1) }

/-- the `Burn {token_id}` sub-message the minter sends to `info.sender` -/
def burnDeposit (s : State) (m : Minter) (caller : Addr) (tokenId : Nat) (m' : Minter) : Except Err State :=
  match srcBurn s.srcs m.addr caller tokenId with
  | .error e => .error e
  | .ok x => .ok { s with srcs := x, minter := some m' }

/-- `execute_receive_nft(info.sender = caller, Cw721ReceiveMsg {sender, token_id, DepositToken {recipient}})` and the dispatch
of its response (`[Mint?, Burn]`) -/
def receiveNft (s : State) (m : Minter) (caller sender : Addr) (tokenId : Nat) (recipient : Option Addr) (picked : Nat) :
    Except Err State :=
  if ¬ m.startTime < s.now then .error .tooSoon
  else if ¬ m.mintCount (recipient.getD sender) < m.perAddressLimit then .error .limit
  else
    match requiredOf m.mintTokens caller with
    | none => .error .invalid
    | some amt =>
      if ¬ m.ledger (recipient.getD sender) caller < amt then .error .limit
      else if allReceived m.mintTokens (creditLedger m.ledger (recipient.getD sender) caller (recipient.getD sender)) then
        match deliver m (.at picked) (recipient.getD sender) with
        | .error e => .error e
        | .ok m1 =>
          burnDeposit s m caller tokenId
            { m1 with ledger := clearLedger (creditLedger m.ledger (recipient.getD sender) caller) (recipient.getD sender)
                                  m.mintTokens }
      else
        burnDeposit s m caller tokenId { m with ledger := creditLedger m.ledger (recipient.getD sender) caller }

/-- cw721-base `send_nft` on a source collection: transfer, then the `ReceiveNft` sub-message to `contract` (the only contract
with such a hook in this world is the minter; anything else fails and reverts the transfer) -/
def sendNft (s : State) (caller coll : Addr) (id : Nat) (contract : Addr) (recipient : Option Addr) (msgOk : Bool)
    (picked : Nat) : Except Err State :=
  match srcTransfer s.srcs caller coll id contract with
  | .error e => .error e
  | .ok x =>
    match s.minter with
    | none => .error .notFound
    | some m =>
      if contract ≠ m.addr then .error .invalid
      else if msgOk = false then .error .invalid
      else receiveNft { s with srcs := x } m coll caller id recipient picked

/-- a direct call of the hook -/
def receiveDirect (s : State) (m : Minter) (caller sender : Addr) (id : Nat) (recipient : Option Addr) (msgOk : Bool)
    (picked : Nat) : Except Err State :=
  if msgOk = false then .error .invalid else receiveNft s m caller sender id recipient picked

/-! ## Minter: airdrops -/

/-- `airdrop_mint_price × airdrop_mint_fee_bps` (floor) -/
def networkFee (p : Params) : Nat := mulFloor p.airdropMintPrice.amount (bps p.airdropMintFeeBps)

/-- the bank messages of an admin `_execute_mint`: `distribute_mint_fees(fee, false, None)` when the fee is non-zero, then
`price − fee` to the ADMIN (there is no payment address) when non-zero; `price − fee` underflows when the fee exceeds the price -/
def airdropMsgs (p : Params) (m : Minter) : Except Err (List Msg) :=
  if p.airdropMintPrice.amount < networkFee p then .error .other
  else
    .ok ((if networkFee p = 0 then [] else Sg1.distributeMintFees ⟨p.airdropMintPrice.denom, networkFee p⟩ false none) ++
         (if p.airdropMintPrice.amount - networkFee p = 0 then []
          else [Msg.send m.admin ⟨p.airdropMintPrice.denom, p.airdropMintPrice.amount - networkFee p⟩]))

/-- `execute_mint_to` / `execute_mint_for` (the id range / "already sold" checks of `MintFor` are `Supply.Fixed.takeId`) -/
def mintAdmin (s : State) (m : Minter) (sender : Addr) (funds : List Coin) (rcpt : Addr) (pk : Pick) : Except Err State :=
  match s.bank.sendFunds sender m.addr funds with
  | none => .error .payment
  | some b1 =>
    if sender ≠ m.admin then .error .unauthorized
    else
      match mayPay funds s.params.airdropMintPrice.denom with
      | .error e => .error e
      | .ok payment =>
        if payment ≠ s.params.airdropMintPrice.amount then .error .payment
        else
          match airdropMsgs s.params m with
          | .error e => .error e
          | .ok ms =>
            match deliver m pk rcpt with
            | .error e => .error e
            | .ok m1 =>
              match MintPay.applyMsgs m.addr b1 ms with
              | none => .error .other
              | some b2 => .ok { s with bank := b2, minter := some m1 }

/-! ## Minter: configuration messages -/

def adminOnly (m : Minter) (sender : Addr) (funds : List Coin) : Except Err Unit :=
  match nonpayable funds with
  | .error e => .error e
  | .ok _ => if sender ≠ m.admin then .error .unauthorized else .ok ()

/-- `execute_purge` (anyone) -/
def purge (m : Minter) (funds : List Coin) : Except Err Minter :=
  match nonpayable funds with
  | .error e => .error e
  | .ok _ => if m.supply.mintable ≠ 0 then .error .other else .ok { m with mintCount := MintLimits.zero }

/-- `execute_update_start_time` -/
def updateStartTime (s : State) (m : Minter) (sender : Addr) (funds : List Coin) (t : Nat) : Except Err Minter :=
  match adminOnly m sender funds with
  | .error e => .error e
  | .ok _ =>
    if s.now ≥ m.startTime then .error .tooLate
    else if s.now > t then .error .invalid
    else if t < GENESIS then .error .invalid
    else .ok { m with startTime := t }

/-- `execute_update_start_trading_time` + the sub-message to the collection -/
def updateStartTradingTime (s : State) (m : Minter) (sender : Addr) (funds : List Coin) (t : Option Nat) : Except Err Minter :=
  match adminOnly m sender funds with
  | .error e => .error e
  | .ok _ =>
    if TT.tradingUpdateOk .tokenMerge s.now m.startTime s.params.maxTradingOffsetSecs t = false then .error .invalid
    else
      match m.tt.updateTrading m.addr t with
      | .error e => .error e
      | .ok c => .ok { m with tt := c }

/-- `execute_update_per_address_limit` -/
def updatePerAddressLimit (s : State) (m : Minter) (sender : Addr) (funds : List Coin) (n : Nat) : Except Err Minter :=
  match adminOnly m sender funds with
  | .error e => .error e
  | .ok _ =>
    if n = 0 ∨ n > s.params.maxPerAddressLimit then .error .invalid
    else if dynLimitOk n m.supply.n s.params.maxPerAddressLimit = false then .error .invalid
    else .ok { m with perAddressLimit := n }

/-- `execute_shuffle` (anyone, no `nonpayable`): the fee is fair-burned by the minter, then the ids are permuted -/
def shuffle (s : State) (m : Minter) (sender : Addr) (funds : List Coin) (perm : List Nat) : Except Err State :=
  match s.bank.sendFunds sender m.addr funds with
  | none => .error .payment
  | some b1 =>
    match Sg1.checkedFairBurn funds m.addr s.params.shuffleFee.amount none with
    | .error e => .error e
    | .ok ms =>
      match m.supply.shuffle perm with
      | none => .error .other
      | some sup =>
        match MintPay.applyMsgs m.addr b1 ms with
        | none => .error .other
        | some b2 => .ok { s with bank := b2, minter := some { m with supply := sup } }

/-- `execute_burn_remaining` -/
def burnRemaining (m : Minter) (sender : Addr) (funds : List Coin) : Except Err Minter :=
  match adminOnly m sender funds with
  | .error e => .error e
  | .ok _ =>
    match m.supply.burnAll with
    | none => .error .soldOut
    | some sup => .ok { m with supply := sup }

/-! ## The minter's own collection (holder messages) -/

/-- cw721-base `transfer_nft` by the owner (sg721-nt refuses transfers) -/
def collTransfer (m : Minter) (sender : Addr) (id : Nat) (to : Addr) : Except Err Minter :=
  if m.tt.kind = .nt then .error .unauthorized
  else if m.supply.coll.ownerOf id ≠ some sender then .error .unauthorized
  else
    match m.supply.coll.transfer id to with
    | none => .error .notFound
    | some c => .ok { m with supply := { m.supply with coll := c } }

/-- cw721-base `burn` by the owner -/
def collBurn (m : Minter) (sender : Addr) (id : Nat) : Except Err Minter :=
  if m.supply.coll.ownerOf id ≠ some sender then .error .unauthorized
  else
    match m.supply.coll.burn id with
    | none => .error .notFound
    | some c => .ok { m with supply := { m.supply with coll := c } }

/-! ## step -/

def withMinter (s : State) (f : Minter → Except Err Minter) : Except Err State :=
  match s.minter with
  | none => .error .notFound
  | some m =>
    match f m with
    | .error e => .error e
    | .ok m' => .ok { s with minter := some m' }

def withMinterS (s : State) (f : Minter → Except Err State) : Except Err State :=
  match s.minter with
  | none => .error .notFound
  | some m => f m

def onColl (s : State) (f : TT.Coll → Except Err TT.Coll) : Except Err State :=
  withMinter s fun m =>
    match f m.tt with
    | .error e => .error e
    | .ok c => .ok { m with tt := c }

def onSrcs (s : State) (f : Srcs → Except Err Srcs) : Except Err State :=
  match f s.srcs with
  | .error e => .error e
  | .ok x => .ok { s with srcs := x }

def step (s : State) : Op → Except Err State
  | .setTime t => if t < s.now then .error .invalid else .ok { s with now := t }
  | .fund a c => .ok { s with bank := s.bank.fund a c }
  | .srcNew c => .ok { s with srcs := { s.srcs with colls := c :: s.srcs.colls } }
  | .srcGive c id to => onSrcs s (srcGive · c id to)
  | .srcTransfer caller c id to => onSrcs s (srcTransfer · caller c id to)
  | .send caller coll id contract recipient msgOk picked => sendNft s caller coll id contract recipient msgOk picked
  | .receive caller sender id recipient msgOk picked =>
    withMinterS s (receiveDirect s · caller sender id recipient msgOk picked)
  | .create sender funds msg w => createMinter s sender funds msg w
  | .instantiateDirect _ => .error .unauthorized
  | .mintTo sender funds rcpt picked => withMinterS s (mintAdmin s · sender funds rcpt (.at picked))
  | .mintFor sender funds id rcpt => withMinterS s (mintAdmin s · sender funds rcpt (.id id))
  | .purge _ funds => withMinter s (purge · funds)
  | .updateStartTime sender funds t => withMinter s (updateStartTime s · sender funds t)
  | .updateStartTradingTime sender funds t => withMinter s (updateStartTradingTime s · sender funds t)
  | .updatePerAddressLimit sender funds n => withMinter s (updatePerAddressLimit s · sender funds n)
  | .shuffle sender funds perm => withMinterS s (shuffle s · sender funds perm)
  | .burnRemaining sender funds => withMinter s (burnRemaining · sender funds)
  | .sudoStatus v b e => withMinter s fun m => .ok { m with status := ⟨v, b, e⟩ }
  | .sudoParams u =>
    match updateParams s.params u with
    | .error e => .error e
    | .ok p => .ok { s with params := p }
  | .collTransfer sender id to => withMinter s (collTransfer · sender id to)
  | .collBurn sender id => withMinter s (collBurn · sender id)
  | .collTrading sender t => onColl s (·.updateTrading sender t)
  | .collCreator sender new => onColl s (·.updateCreator sender new)
  | .collFreeze sender => onColl s (·.freeze sender)
  | .collOwn sender a => onColl s (·.updateOwnership sender a)

/-- transactions are atomic: a failed message leaves the state unchanged -/
def step' (s : State) (op : Op) : State :=
  match step s op with
  | .ok s' => s'
  | .error _ => s

def run (s : State) (ops : List Op) : State := ops.foldl step' s

/-- factory `instantiate`: stores the parameters as given (no validation) -/
def init (now : Nat) (codes : Codes) (factoryAddr : Addr) (p : Params) : State :=
  { now := now, codes := codes, factoryAddr := factoryAddr, params := p, bank := VF.emptyBank,
    srcs := { colls := [], owner := fun _ _ => none, num := fun _ => 0 }, minter := none }

/-! ## Queries -/

/-- factory `AllowedCollectionCodeId(code)` -/
def queryAllowed (s : State) (code : Nat) : Bool := s.params.allowed.contains code

/-- `MintableNumTokens {}` -/
def queryMintable (m : Minter) : Nat := m.supply.mintable

/-- `MintCount {address}` -/
def queryMintCount (m : Minter) (a : Addr) : Nat := m.mintCount a

/-- `DepositedTokens {address}`: the stored (non-zero) credits, one per listed collection -/
def queryDeposited (m : Minter) (a : Addr) (colls : List Addr) : List (Addr × Nat) :=
  colls.filterMap fun c => if m.ledger a c = 0 then none else some (c, m.ledger a c)

end LP.TMF
