import LaunchpadModel.Model.Basic
import LaunchpadModel.Model.Decimal
import LaunchpadModel.Generated.Constants
/-!
# `packages/sg1` — fee library (fair burn, mint-fee distribution, launchpad-DAO transfer)

Each function returns the list of messages the Rust function pushes onto the response, in order.
-/
namespace LP.Sg1
open LP

/-- `fair_burn(sender, fee, developer, res)` -/
def fairBurn (sender : Addr) (fee : Nat) (dev : Option Addr) : List Msg :=
  let burnFee := mulFloor fee (percent Gen.sg1_FEE_BURN_PERCENT)
  let remainder := fee - burnFee
  [ Msg.burn ⟨NATIVE, burnFee⟩,
    match dev with
    | some d => Msg.send d ⟨NATIVE, remainder⟩
    | none => Msg.fundPool sender ⟨NATIVE, remainder⟩ ]

/-- `checked_fair_burn(info, env, fee, developer, res)`; `self` = `env.contract.address` -/
def checkedFairBurn (funds : List Coin) (self : Addr) (fee : Nat) (dev : Option Addr) : Except Err (List Msg) := do
  let payment ← mayPay funds NATIVE
  if payment < fee then throw .insufficientFee
  if payment ≠ 0 then pure (fairBurn self fee dev) else pure []

/-- `distribute_mint_fees(fee, res, is_featured, developer)` -/
def distributeMintFees (fee : Coin) (featured : Bool) (dev : Option Addr) : List Msg :=
  let ratio := if featured then fromRatio 1 8 else fromRatio 1 5
  match dev with
  | some d =>
    let devFee := mulCeil fee.amount (percent Gen.sg1_FEE_BURN_PERCENT)
    let remaining := fee.amount - devFee
    let liq := mulCeil remaining ratio
    [ Msg.send d ⟨fee.denom, devFee⟩,
      Msg.send LIQUIDITY_DAO ⟨fee.denom, liq⟩,
      Msg.send LAUNCHPAD_DAO ⟨fee.denom, remaining - liq⟩ ]
  | none =>
    let liq := mulCeil fee.amount ratio
    [ Msg.send LIQUIDITY_DAO ⟨fee.denom, liq⟩,
      Msg.send LAUNCHPAD_DAO ⟨fee.denom, fee.amount - liq⟩ ]

/-- `ibc_denom_fair_burn(fee, developer, res)` -/
def ibcDenomFairBurn (fee : Coin) (dev : Option Addr) : List Msg :=
  match dev with
  | some d =>
    let devFee := mulCeil fee.amount (percent Gen.sg1_FEE_BURN_PERCENT)
    [ Msg.send d ⟨fee.denom, devFee⟩, Msg.send FOUNDATION ⟨fee.denom, fee.amount - devFee⟩ ]
  | none => [ Msg.send FOUNDATION fee ]

/-- `transfer_funds_to_launchpad_dao(info, fee, accepted_denom, res)` -/
def transferFundsToLaunchpadDao (funds : List Coin) (fee : Nat) (denom : Denom) : Except Err (List Msg) := do
  let payment ← mustPay funds denom
  if payment < fee then throw .insufficientFee
  pure [ Msg.send LAUNCHPAD_DAO ⟨denom, payment⟩ ]

end LP.Sg1
