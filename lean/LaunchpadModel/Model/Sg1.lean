import LaunchpadModel.Model.Basic
import LaunchpadModel.Model.Decimal
import LaunchpadModel.Generated.Constants
/-!
# `packages/sg1` — fee library (fair burn, mint-fee distribution, launchpad-DAO transfer)

Each function returns the list of messages the Rust function pushes onto the response, in order.
-/
namespace LP.Sg1
open LP

/-- `fair_burn(sender, fee, developer, res)` -/
def fairBurn (sender : Addr) (fee : Nat) (dev : Option Addr) : List Msg :=
  let burnFee := mulFloor fee (percent Gen.sg1_FEE_BURN_PERCENT)
  let remainder := fee - burnFee
  [ Msg.burn ⟨NATIVE, burnFee⟩,
    match dev with
    | some d => Msg.send d ⟨NATIVE, remainder⟩
    | none => Msg.fundPool sender ⟨NATIVE, remainder⟩ ]

/-- `checked_fair_burn(info, env, fee, developer, res)`; `self` = `env.contract.address` -/
def checkedFairBurn (funds : List Coin) (self : Addr) (fee : Nat) (dev : Option Addr) : Except Err (List Msg) := do
  let payment ← mayPay funds NATIVE
  if payment < fee then throw .insufficientFee
  if payment ≠ 0 then pure (fairBurn self fee dev) else pure []

/-- `distribute_mint_fees(fee, res, is_featured, developer)` -/
def distributeMintFees (fee : Coin) (featured : Bool) (dev : Option Addr) : List Msg :=
  let ratio := if featured then fromRatio 1 8 else fromRatio 1 5
  match dev with
  | some d =>
    let devFee := mulCeil fee.amount (percent Gen.sg1_FEE_BURN_PERCENT)
    let remaining := fee.amount - devFee
    let liq := mulCeil remaining ratio
    [ Msg.send d ⟨fee.denom, devFee⟩,
      Msg.send LIQUIDITY_DAO ⟨fee.denom, liq⟩,
      Msg.send LAUNCHPAD_DAO ⟨fee.denom, remaining - liq⟩ ]
  | none =>
    let liq := mulCeil fee.amount ratio
    [ Msg.send LIQUIDITY_DAO ⟨fee.denom, liq⟩,
      Msg.send LAUNCHPAD_DAO ⟨fee.denom, fee.amount - liq⟩ ]

/-- `ibc_denom_fair_burn(fee, developer, res)` -/
def ibcDenomFairBurn (fee : Coin) (dev : Option Addr) : List Msg :=
  match dev with
  | some d =>
    let devFee := mulCeil fee.amount (percent Gen.sg1_FEE_BURN_PERCENT)
    [ Msg.send d ⟨fee.denom, devFee⟩, Msg.send FOUNDATION ⟨fee.denom, fee.amount - devFee⟩ ]
  | none => [ Msg.send FOUNDATION fee ]

/-- `transfer_funds_to_launchpad_dao(info, fee, accepted_denom, res)` -/
def transferFundsToLaunchpadDao (funds : List Coin) (fee : Nat) (denom : Denom) : Except Err (List Msg) := do
  let payment ← mustPay funds denom
  if payment < fee then throw .insufficientFee
  pure [ Msg.send LAUNCHPAD_DAO ⟨denom, payment⟩ ]

/-! ## Who calls the fee library how (the published schedule by caller)

Index = the harness' `ALL_MINTERS` order: 0 vending, 1 -featured, 2 -wl-flex, 3 -wl-flex-featured, 4 -merkle-wl,
5 -merkle-wl-featured, 6 open-edition, 7 -wl-flex, 8 -merkle-wl, 9 token-merge, 10 base. Featured minters are the three whose
name says so; a developer address is passed by the three open-edition minters only. -/
def callerFeatured (k : Nat) : Bool := k == 1 || k == 3 || k == 5
def callerHasDev (k : Nat) : Bool := k == 6 || k == 7 || k == 8

/-- total amount the message list sends to `a` -/
def sentTo (a : Addr) : List Msg → Nat
  | [] => 0
  | Msg.send d c :: ms => (if d == a then c.amount else 0) + sentTo a ms
  | Msg.fundPool _ c :: ms => (if a == FAIRBURN_POOL then c.amount else 0) + sentTo a ms
  | _ :: ms => sentTo a ms
/-- total amount burned -/
def burnedBy : List Msg → Nat
  | [] => 0
  | Msg.burn c :: ms => c.amount + burnedBy ms
  | _ :: ms => burnedBy ms
/-- the bank refuses a transfer/burn of a zero amount: a fee split with a zero part aborts the whole transaction -/
def msgAmount : Msg → Nat
  | Msg.send _ c => c.amount
  | Msg.burn c => c.amount
  | Msg.fundPool _ c => c.amount
def allNonzero (ms : List Msg) : Bool := ms.all (fun m => msgAmount m != 0)

/-- the fee messages of one public mint at `price` on minter kind `k` with factory `mint_fee_bps = b`: `network_fee = price × bps`
(floor); nothing when it is zero; otherwise `distribute_mint_fees(network_fee, featured(k), developer(k))` -/
def mintFeeMsgs (k : Nat) (price b : Nat) (dev : Addr) : List Msg :=
  let fee := mulFloor price (bps b)
  if fee = 0 then [] else distributeMintFees ⟨NATIVE, fee⟩ (callerFeatured k) (if callerHasDev k then some dev else none)

/-- the creation-fee routing of the four factories' `execute_create_minter` (identical in all four): a native creation fee is
fair-burned on behalf of the factory (`checked_fair_burn(info, env, fee, None)`), a fee in any other denom goes in full to the
launchpad DAO (`transfer_funds_to_launchpad_dao`). Which branch is taken depends on the CREATION FEE's denom only. -/
def creationFeeMsgs (self : Addr) (feeDenom fee : Nat) (funds : List Coin) : Except Err (List Msg) :=
  if feeDenom = NATIVE then checkedFairBurn funds self fee none else transferFundsToLaunchpadDao funds fee feeDenom

/-- whitelist fees (plain, flex, tiered, tiered-flex): 100 STARS per STARTED thousand of the member limit at creation, and per
newly started thousand on `IncreaseMemberLimit`; the whole fee is fair-burned on behalf of the whitelist contract. `per1000` is the
crate's `PRICE_PER_1000_MEMBERS`. -/
def wlTiers (memberLimit : Nat) : Nat := (memberLimit + 999) / 1000
def wlCreationFee (per1000 memberLimit : Nat) : Nat := wlTiers memberLimit * per1000
def wlUpgradeFee (per1000 oldLimit newLimit : Nat) : Nat := (wlTiers newLimit - wlTiers oldLimit) * per1000
def wlFeeMsgs (self : Addr) (fee : Nat) : List Msg := if fee = 0 then [] else fairBurn self fee none

end LP.Sg1
