/-!
# secp256k1 ECDSA public-key recovery and verification — executable, over `Nat` (core Lean only)

Mirrors what `cosmwasm_crypto::secp256k1_recover_pubkey` / `secp256k1_verify` (cosmwasm-crypto 1.5.10 on k256 0.13.4 /
ecdsa 0.16.9) do with their byte arguments:

* `recoverBytes hash rs recId`  — `read_hash` (32 bytes), `read_signature` (64 bytes), recovery id 0 | 1 only,
  `Signature::from_bytes` (1 ≤ r, s < n), `normalize_s` (s > n/2 ↦ n − s with the parity bit flipped),
  `VerifyingKey::recover_from_digest` (z = hash mod n; R = the point with x = r and the requested parity of y, error when
  x³ + 7 is not a square; Q = (−z/r)·G + (s/r)·R, error when Q is the identity; **then the signature is verified with Q**,
  error when that fails), uncompressed SEC1 encoding `04 ‖ X ‖ Y`.
* `verifyBytes hash rs pubkey` — `read_hash`, `read_signature`, `check_pubkey` (33 bytes `02|03 ‖ X` or 65 bytes `04 ‖ X ‖ Y`),
  `Signature::from_bytes`, `normalize_s`, `VerifyingKey::from_sec1_bytes` (coordinates < p, on the curve), ECDSA
  verification x((z/s)·G + (r/s)·Q) mod n = r (`Ok(false)` when it does not hold).

Arithmetic: field and scalar arithmetic are `Nat` operations followed by `%`; inverses by Fermat (`powMod` by squaring,
256 structural steps); points in Jacobian coordinates (`z = 0` = the identity) with a complete addition (equal points ↦
doubling, opposite points ↦ identity); `lincomb` is the simultaneous double-and-add over the 256 bits of both scalars.
Everything is total and structurally recursive. Nothing about the group law is proved; the functions are cross-validated
against k256 on every run of the C16 check (line kind `secp`).
-/
namespace LP.Secp

/-- the field prime 2²⁵⁶ − 2³² − 977 -/
def p : Nat := 0xFFFFFFFFFFFFFFFFFFFFFFFFFFFFFFFFFFFFFFFFFFFFFFFFFFFFFFFEFFFFFC2F
/-- the group order -/
def n : Nat := 0xFFFFFFFFFFFFFFFFFFFFFFFFFFFFFFFEBAAEDCE6AF48A03BBFD25E8CD0364141
def Gx : Nat := 0x79BE667EF9DCBBAC55A06295CE870B07029BFCDB2DCE28D959F2815B16F81798
def Gy : Nat := 0x483ADA7726A3C4655DA4FBFC0E1108A8FD17B448A68554199C47D08FFB10D4B8

/-! ## modular arithmetic -/

/-- `b ^ e mod m` for `e < 2 ^ bits`, square-and-multiply from the top bit -/
def powModAux (b e m : Nat) : Nat → Nat → Nat
  | 0, acc => acc
  | k + 1, acc =>
    let sq := acc * acc % m
    powModAux b e m k (if e.testBit k then sq * b % m else sq)

def powMod (b e m : Nat) : Nat := powModAux b e m 256 (1 % m)

/-- inverse modulo a prime `m` (Fermat); `0 ↦ 0` -/
def invMod (a m : Nat) : Nat := powMod (a % m) (m - 2) m

def fadd (a b : Nat) : Nat := (a + b) % p
/-- `a − b` for `b ≤ p` (all callers pass reduced values; `Nat` subtraction truncates otherwise) -/
def fsub (a b : Nat) : Nat := (a + (p - b)) % p
def fmul (a b : Nat) : Nat := a * b % p

/-- square root modulo `p` (`p ≡ 3 mod 4`): `some y` with `y² = a`, or `none` when `a` is not a square -/
def fsqrt (a : Nat) : Option Nat :=
  let y := powMod (a % p) ((p + 1) / 4) p
  if fmul y y = a % p then some y else none

/-- the curve equation y² = x³ + 7 over the field -/
def onCurve (x y : Nat) : Bool := x < p && y < p && fmul y y == fadd (fmul (fmul x x) x) 7

/-! ## points -/

/-- Jacobian coordinates: (X : Y : Z) ↦ (X/Z², Y/Z³); `z = 0` is the identity -/
structure JPoint where
  x : Nat
  y : Nat
  z : Nat

def JPoint.inf : JPoint := ⟨1, 1, 0⟩
def JPoint.isInf (P : JPoint) : Bool := P.z == 0
def JPoint.ofAffine (x y : Nat) : JPoint := ⟨x, y, 1⟩
def G : JPoint := .ofAffine Gx Gy

def double (P : JPoint) : JPoint :=
  if P.z == 0 || P.y == 0 then .inf
  else
    let a := fmul P.x P.x
    let b := fmul P.y P.y
    let c := fmul b b
    let xb := fadd P.x b
    let d := fmul 2 (fsub (fsub (fmul xb xb) a) c)
    let e := fmul 3 a
    let f := fmul e e
    let x3 := fsub f (fmul 2 d)
    let y3 := fsub (fmul e (fsub d x3)) (fmul 8 c)
    let z3 := fmul 2 (fmul P.y P.z)
    ⟨x3, y3, z3⟩

/-- complete addition (the multiplications by `Q.z` are skipped when `Q.z = 1`: same values) -/
def add (P Q : JPoint) : JPoint :=
  if P.z == 0 then Q
  else if Q.z == 0 then P
  else
    let qAffine := Q.z == 1
    let z1z1 := fmul P.z P.z
    let z2z2 := if qAffine then 1 else fmul Q.z Q.z
    let u1 := if qAffine then P.x else fmul P.x z2z2
    let u2 := fmul Q.x z1z1
    let s1 := if qAffine then P.y else fmul P.y (fmul Q.z z2z2)
    let s2 := fmul Q.y (fmul P.z z1z1)
    if u1 == u2 then
      if s1 == s2 then double P else .inf
    else
      let h := fsub u2 u1
      let r := fsub s2 s1
      let h2 := fmul h h
      let h3 := fmul h h2
      let v := fmul u1 h2
      let x3 := fsub (fsub (fmul r r) h3) (fmul 2 v)
      let y3 := fsub (fmul r (fsub v x3)) (fmul s1 h3)
      let z3 := if qAffine then fmul h P.z else fmul h (fmul P.z Q.z)
      ⟨x3, y3, z3⟩

/-- affine coordinates; `none` = the identity -/
def toAffine (P : JPoint) : Option (Nat × Nat) :=
  if P.z == 0 then none
  else
    let zi := invMod P.z p
    let zi2 := fmul zi zi
    some (fmul P.x zi2, fmul P.y (fmul zi2 zi))

def lincombAux (a : Nat) (P : JPoint) (b : Nat) (Q PQ : JPoint) : Nat → JPoint → JPoint
  | 0, acc => acc
  | k + 1, acc =>
    let acc2 := double acc
    let acc3 :=
      match a.testBit k, b.testBit k with
      | false, false => acc2
      | true, false => add acc2 P
      | false, true => add acc2 Q
      | true, true => add acc2 PQ
    lincombAux a P b Q PQ k acc3

/-- `a·P + b·Q` for `a, b < 2²⁵⁶` (simultaneous double-and-add, top bit first) -/
def lincomb (a : Nat) (P : JPoint) (b : Nat) (Q : JPoint) : JPoint :=
  lincombAux a P b Q (add P Q) 256 .inf

/-- `k·P` for `k < 2²⁵⁶` -/
def scalarMul (k : Nat) (P : JPoint) : JPoint := lincomb k P 0 .inf

/-- the point with abscissa `x` and the given parity of `y` (k256 `AffinePoint::decompress`) -/
def decompress (x : Nat) (yOdd : Bool) : Option (Nat × Nat) :=
  if p ≤ x then none
  else
    match fsqrt (fadd (fmul (fmul x x) x) 7) with
    | none => none
    | some y => some (x, if (y % 2 == 1) == yOdd then y else (p - y) % p)

/-! ## bytes -/

/-- big-endian -/
def bytesToNat (b : List Nat) : Nat := b.foldl (fun acc x => acc * 256 + x) 0

def natToBytesAux (v : Nat) : Nat → List Nat → List Nat
  | 0, acc => acc
  | k + 1, acc => natToBytesAux (v / 256) k (v % 256 :: acc)

/-- `len` bytes, big-endian (the value is taken modulo `256 ^ len`) -/
def natToBytes (len v : Nat) : List Nat := natToBytesAux v len []

/-- uncompressed SEC1: `04 ‖ X ‖ Y`, 65 bytes -/
def serialize (pt : Nat × Nat) : List Nat := 4 :: (natToBytes 32 pt.1 ++ natToBytes 32 pt.2)

/-- `VerifyingKey::from_sec1_bytes` after `check_pubkey`: 65 bytes `04‖X‖Y` or 33 bytes `02|03‖X`; the point must be on the curve -/
def parsePubkey (pk : List Nat) : Option (Nat × Nat) :=
  match pk with
  | [] => none
  | tag :: data =>
    if tag = 4 then
      if data.length ≠ 64 then none
      else
        let x := bytesToNat (data.take 32)
        let y := bytesToNat (data.drop 32)
        if onCurve x y then some (x, y) else none
    else if tag = 2 ∨ tag = 3 then
      if data.length ≠ 32 then none
      else decompress (bytesToNat data) (tag == 3)
    else none

/-! ## ECDSA -/

/-- `s` is "high" (k256 `is_high`): `s > n / 2` -/
def isHigh (s : Nat) : Bool := n / 2 < s

/-- ECDSA verification proper (ecdsa `hazmat::verify_prehashed`) for 1 ≤ r, s < n and a curve point `Q`:
x((z/s)·G + (r/s)·Q) mod n = r. The identity (no x) gives x = 0 in k256, hence `false` since r ≠ 0. -/
def verifyCore (z r s : Nat) (Q : Nat × Nat) : Bool :=
  let si := invMod s n
  let u1 := z % n * si % n
  let u2 := r * si % n
  match toAffine (lincomb u1 G u2 (.ofAffine Q.1 Q.2)) with
  | none => false
  | some (x, _) => x % n == r

/-- `secp256k1_verify` on parsed arguments: `none` = `Err`, `some b` = `Ok(b)` -/
def verify (hash : List Nat) (r s : Nat) (pubkey : List Nat) : Option Bool :=
  if r = 0 ∨ s = 0 ∨ n ≤ r ∨ n ≤ s then none
  else
    let s' := if isHigh s then n - s else s
    match parsePubkey pubkey with
    | none => none
    | some Q => some (verifyCore (bytesToNat hash) r s' Q)

/-- `secp256k1_recover_pubkey` on parsed arguments (`recId` 0 | 1): `none` = `Err` -/
def recoverPubkey (hash : List Nat) (r s recId : Nat) : Option (Nat × Nat) :=
  if r = 0 ∨ s = 0 ∨ n ≤ r ∨ n ≤ s then none
  else if 1 < recId then none
  else
    -- normalize_s: (r, n − s) with the other parity names the same key
    let high := isHigh s
    let s' := if high then n - s else s
    let yOdd := (recId == 1) != high
    let z := bytesToNat hash % n
    match decompress r yOdd with
    | none => none
    | some R =>
      let ri := invMod r n
      let u1 := (n - ri * z % n) % n
      let u2 := ri * s' % n
      match toAffine (lincomb u1 G u2 (.ofAffine R.1 R.2)) with
      | none => none
      | some Q =>
        -- `recover_from_prehash` ends with `vk.verify_prehash(prehash, signature)?`
        if verifyCore z r s' Q then some Q else none

/-- `Api::secp256k1_recover_pubkey hash rs recovery_param`: 32-byte hash, 64-byte `r ‖ s`; result `04 ‖ X ‖ Y` -/
def recoverBytes (hash rs : List Nat) (recId : Nat) : Option (List Nat) :=
  if hash.length ≠ 32 then none
  else if rs.length ≠ 64 then none
  else (recoverPubkey hash (bytesToNat (rs.take 32)) (bytesToNat (rs.drop 32)) recId).map serialize

/-- `Api::secp256k1_verify hash rs pubkey` -/
def verifyBytes (hash rs pubkey : List Nat) : Option Bool :=
  if hash.length ≠ 32 then none
  else if rs.length ≠ 64 then none
  else verify hash (bytesToNat (rs.take 32)) (bytesToNat (rs.drop 32)) pubkey

/-- Ethereum address of a point: the last 20 bytes of Keccak-256 (`keccak`) of the 64 bytes `X ‖ Y` -/
def ethAddressRawWith (keccak : List Nat → List Nat) (pt : Nat × Nat) : List Nat :=
  let h := keccak (natToBytes 32 pt.1 ++ natToBytes 32 pt.2)
  h.drop (h.length - 20)

end LP.Secp
