import LaunchpadModel.Model.Basic
import LaunchpadModel.Generated.Constants
/-!
# C19 — trading start time: composite of factory offset + minter + collection (core Lean only)

Mirrors, for this aspect only:

* the four factories: `params.max_trading_offset_secs` (seconds) and `sudo UpdateParams` (`Some v ⇒ v`, `None ⇒ unchanged`)
  (`base-factory::update_params`, `token-merge-factory::update_base_params`), and the time checks a factory makes at
  `CreateMinter` (`open-edition-factory::OpenEditionMinterInitMsgExtension::validate`);
* the 11 minters' `instantiate` (default / bound of `start_trading_time`), `execute_update_start_trading_time`,
  `execute_update_start_time`, `execute_update_end_time` (open edition);
* `sg721-base` (and the three wrappers): `instantiate`, `update_start_trading_time` (minter = cw_ownable owner only),
  `update_collection_info` (creator only — the creator is base-minter's admin), `freeze_collection_info`,
  `UpdateOwnership` (cw_ownable; only sg721-base and sg721-metadata-onchain expose the message).

Timestamps are `Nat` nanoseconds; `Timestamp::plus_seconds s = + s * 10^9`.
A message the contract's `ExecuteMsg` does not have (e.g. `UpdateStartTradingTime` on sg721-nt) fails to deserialise: `err`.
-/
namespace LP.TT

/-- the four minter families (6 vending variants, 3 open-edition variants, token-merge, base behave identically per family
for this aspect — checked by the correspondence for every one of the 11 crates) -/
inductive Family where
  | vending | openEdition | tokenMerge | base
deriving Repr, DecidableEq, BEq

inductive CollKind where
  | base | updatable | nt | metadata
deriving Repr, DecidableEq, BEq

/-- sg721-nt's `ExecuteMsg` has no `UpdateStartTradingTime` -/
def CollKind.hasTradingMsg : CollKind → Bool
  | .nt => false
  | _ => true

/-- only `sg721::ExecuteMsg` (sg721-base, sg721-metadata-onchain) carries `UpdateOwnership` -/
def CollKind.hasOwnershipMsg : CollKind → Bool
  | .base => true
  | .metadata => true
  | _ => false

def NANOS : Nat := 1000000000

/-- `Timestamp::plus_seconds` -/
def plusSeconds (t secs : Nat) : Nat := t + secs * NANOS

def GENESIS : Nat := LP.Gen.sg_utils_GENESIS_MINT_START_TIME

/-! ## the collection (sg721-base) -/

structure Coll where
  kind : CollKind
  /-- cw_ownable owner = "the minter" -/
  owner : Option Addr
  pending : Option Addr
  creator : Addr
  frozen : Bool
  /-- `collection_info.start_trading_time` -/
  trading : Option Nat
deriving Repr, DecidableEq

/-- `Sg721Contract::instantiate`: owner := msg.minter, trading := msg.collection_info.start_trading_time -/
def Coll.init (kind : CollKind) (minter creator : Addr) (trading : Option Nat) : Coll :=
  { kind := kind, owner := some minter, pending := none, creator := creator, frozen := false, trading := trading }

/-- `Sg721Contract::update_start_trading_time` (`assert_minter_owner`) -/
def Coll.updateTrading (c : Coll) (sender : Addr) (t : Option Nat) : Except Err Coll :=
  if c.kind.hasTradingMsg = false then .error .invalid
  else if c.owner = some sender then .ok { c with trading := t }
  else .error .unauthorized

/-- `update_collection_info` with only `creator` supplied -/
def Coll.updateCreator (c : Coll) (sender new : Addr) : Except Err Coll :=
  if c.frozen then .error .frozen
  else if c.creator = sender then .ok { c with creator := new }
  else .error .unauthorized

/-- `freeze_collection_info` -/
def Coll.freeze (c : Coll) (sender : Addr) : Except Err Coll :=
  if c.creator = sender then .ok { c with frozen := true } else .error .unauthorized

inductive OwnAction where
  | transfer (new : Addr) | accept | renounce
deriving Repr, DecidableEq

/-- `cw_ownable::update_ownership` (expiry never supplied) -/
def Coll.updateOwnership (c : Coll) (sender : Addr) (a : OwnAction) : Except Err Coll :=
  if c.kind.hasOwnershipMsg = false then .error .invalid
  else match a with
    | .transfer new =>
      if c.owner = some sender then .ok { c with pending := some new } else .error .unauthorized
    | .accept =>
      if c.pending = some sender then .ok { c with owner := some sender, pending := none } else .error .unauthorized
    | .renounce =>
      if c.owner = some sender then .ok { c with owner := none, pending := none } else .error .unauthorized

/-! ## the minter -/

structure Minter where
  /-- `config.extension.admin` (= `collection_params.info.creator` at instantiate; never changes).
  base-minter has no admin of its own: it asks the collection for its current `creator`. -/
  admin : Addr
  /-- `config.extension.start_time` (meaningless for base-minter) -/
  mintStart : Nat
  /-- open edition `config.extension.end_time` -/
  endTime : Option Nat
deriving Repr, DecidableEq

structure World where
  family : Family
  now : Nat
  /-- factory `params.max_trading_offset_secs` -/
  offset : Nat
  /-- the address the chain gives to the minter contract -/
  minterAddr : Addr
  mc : Option (Minter × Coll)
deriving Repr, DecidableEq

/-- who may ask the minter for a change of trading time -/
def adminOf (fam : Family) (m : Minter) (c : Coll) : Addr :=
  if fam = .base then c.creator else m.admin

/-- bound + default of `instantiate` (vending / open edition / token merge): `start_time.plus_seconds(offset)` -/
def boundedOrDefault (start offset : Nat) (req : Option Nat) : Except Err (Option Nat) :=
  match req with
  | some t => if t > plusSeconds start offset then .error .invalid else .ok (some t)
  | none => .ok (some (plusSeconds start offset))

/-- the trading time a CreateMinter stores in the collection, or `err` (time-related checks of factory + minter instantiate;
all other arguments are held valid by the harness) -/
def createTrading (fam : Family) (now offset start : Nat) (end_ req : Option Nat) : Except Err (Option Nat) :=
  match fam with
  | .base =>
    -- `.or_else(|| Some(env.block.time.plus_seconds(offset)))`, no bound
    match req with
    | some t => .ok (some t)
    | none => .ok (some (plusSeconds now offset))
  | .openEdition =>
    -- factory: `start_time <= now` ⇒ err; `end_time <= start_time` ⇒ err
    if start ≤ now then .error .invalid
    else if (match end_ with | some e => decide (e ≤ start) | none => false) then .error .invalid
    else boundedOrDefault start offset req
  | _ =>
    -- vending family / token merge: `start_time < genesis` ⇒ err; `now > start_time` ⇒ err
    if start < GENESIS then .error .invalid
    else if now > start then .error .invalid
    else boundedOrDefault start offset req

/-- the decision of `execute_update_start_trading_time` on the requested value:
`now > t` ⇒ err; (not base) `t > start_time.plus_seconds(offset)` ⇒ err; `None` passes -/
def tradingUpdateOk (fam : Family) (now mintStart offset : Nat) (req : Option Nat) : Bool :=
  match req with
  | none => true
  | some t =>
    if now > t then false
    else if fam ≠ .base ∧ t > plusSeconds mintStart offset then false
    else true

inductive Op where
  /-- next block time -/
  | setTime (t : Nat)
  /-- governance: factory `sudo UpdateParams { max_trading_offset_secs }` -/
  | sudoOffset (v : Option Nat)
  /-- `CreateMinter` through the factory (creator = sender = `collection_params.info.creator`) -/
  | create (kind : CollKind) (creator : Addr) (start : Nat) (end_ : Option Nat) (req : Option Nat)
  /-- minter `UpdateStartTradingTime(req)` with `funds` attached -/
  | updTrading (sender : Addr) (req : Option Nat) (funds : Nat)
  /-- minter `UpdateStartTime(t)` -/
  | updStart (sender : Addr) (t : Nat) (funds : Nat)
  /-- open-edition minter `UpdateEndTime(t)` -/
  | updEnd (sender : Addr) (t : Nat) (funds : Nat)
  /-- `UpdateStartTradingTime` sent directly to the collection -/
  | collTrading (sender : Addr) (req : Option Nat)
  | collCreator (sender : Addr) (new : Addr)
  | collFreeze (sender : Addr)
  | collOwn (sender : Addr) (a : OwnAction)
deriving Repr, DecidableEq

/-- the minter's config after `instantiate` -/
def mkMinter (fam : Family) (creator : Addr) (start : Nat) (end_ : Option Nat) : Minter :=
  { admin := creator
    mintStart := if fam = .base then 0 else start
    endTime := if fam = .openEdition then end_ else none }

def create (w : World) (kind : CollKind) (creator : Addr) (start : Nat) (end_ req : Option Nat) : Except Err World :=
  match w.mc with
  | some _ => .error .other          -- the model follows ONE minter per case
  | none =>
    match createTrading w.family w.now w.offset start end_ req with
    | .error e => .error e
    | .ok tr => .ok { w with mc := some (mkMinter w.family creator start end_, Coll.init kind w.minterAddr creator tr) }

/-- `execute_update_start_trading_time` + the sub-message to the collection (whole transaction fails if it fails) -/
def updTrading (w : World) (sender : Addr) (req : Option Nat) (funds : Nat) : Except Err World :=
  match w.mc with
  | none => .error .notFound
  | some (m, c) =>
    if funds ≠ 0 then .error .payment
    else if sender ≠ adminOf w.family m c then .error .unauthorized
    else if tradingUpdateOk w.family w.now m.mintStart w.offset req = false then .error .invalid
    else match c.updateTrading w.minterAddr req with
      | .error e => .error e
      | .ok c' => .ok { w with mc := some (m, c') }

/-- `execute_update_start_time` (no such message on base-minter). Does not touch the trading time. -/
def updStart (w : World) (sender : Addr) (t : Nat) (funds : Nat) : Except Err World :=
  match w.mc with
  | none => .error .notFound
  | some (m, c) =>
    if w.family = .base then .error .invalid
    else if funds ≠ 0 then .error .payment
    else if sender ≠ m.admin then .error .unauthorized
    else if w.now ≥ m.mintStart then .error .tooLate
    else if w.now > t then .error .invalid
    else if w.family = .openEdition then
      if (match m.endTime with | some e => decide (t > e) | none => false) then .error .invalid
      else .ok { w with mc := some ({ m with mintStart := t }, c) }
    else if t < GENESIS then .error .invalid
    else .ok { w with mc := some ({ m with mintStart := t }, c) }

/-- open edition `execute_update_end_time` -/
def updEnd (w : World) (sender : Addr) (t : Nat) (funds : Nat) : Except Err World :=
  match w.mc with
  | none => .error .notFound
  | some (m, c) =>
    if w.family ≠ .openEdition then .error .invalid
    else if funds ≠ 0 then .error .payment
    else if sender ≠ m.admin then .error .unauthorized
    else match m.endTime with
      | none => .error .invalid
      | some e =>
        if w.now ≥ e then .error .tooLate
        else if w.now > t then .error .invalid
        else if t < m.mintStart then .error .invalid
        else .ok { w with mc := some ({ m with endTime := some t }, c) }

def onColl (w : World) (f : Coll → Except Err Coll) : Except Err World :=
  match w.mc with
  | none => .error .notFound
  | some (m, c) =>
    match f c with
    | .error e => .error e
    | .ok c' => .ok { w with mc := some (m, c') }

def step (w : World) : Op → Except Err World
  | .setTime t => .ok { w with now := t }
  | .sudoOffset v => .ok { w with offset := v.getD w.offset }
  | .create kind creator start end_ req => create w kind creator start end_ req
  | .updTrading s req f => updTrading w s req f
  | .updStart s t f => updStart w s t f
  | .updEnd s t f => updEnd w s t f
  | .collTrading s req => onColl w (·.updateTrading s req)
  | .collCreator s n => onColl w (·.updateCreator s n)
  | .collFreeze s => onColl w (·.freeze s)
  | .collOwn s a => onColl w (·.updateOwnership s a)

/-- transactional semantics: a failed op leaves the world unchanged -/
def step' (w : World) (op : Op) : World :=
  match step w op with
  | .ok w' => w'
  | .error _ => w

def run (w : World) (ops : List Op) : World := ops.foldl step' w

/-- what `CollectionInfo {}` shows: `none` = no collection yet -/
def visible (w : World) : Option (Option Nat) := w.mc.map (·.2.trading)

def init (fam : Family) (now offset minterAddr : Nat) : World :=
  { family := fam, now := now, offset := offset, minterAddr := minterAddr, mc := none }

end LP.TT
