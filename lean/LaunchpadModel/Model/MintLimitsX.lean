import LaunchpadModel.Model.MintLimits
/-!
# C03 — the layer the driver executes on top of `LP.MintLimits.step` (round 3)

`LP.MintLimits` (shared with the composite model, never changed) leaves three things to free environment bits:

* `View.leafOk` — "the leaf verified" — without saying WHICH leaf;
* `View.limit` / `memberPlain` / `memberCount` — the whitelist's *active-stage* answers — without tying them to the stage
  `View.stageId` the mint is booked under;
* `Op.purge`'s `pre`, with mints allowed again after a purge.

This file closes them **inside the model**:

* `leafOf` — the byte string `stage ‖ sender ‖ allocation` the Merkle minters `format!`; the environment is an
  oracle `verify : leaf → Bool` (the whitelist's `HasMember {member, proof_hashes}` for the proof of the message), and the
  mint reads `leafOk := verify (leafOf fields senderBytes)`;
* `stageEnt` — what the booked stage's OWN record (`StageMemberInfo {stage_id: sid-1, member}`) grants the sender; `coherent`
  says the active-stage answers name the same entitlement;
* `XState.closed` — set by a successful `Purge`; `Mint`/`MintTo`/`MintFor` fail afterwards.  This is the model's statement of
  "purge only happens after sell-out / after the end, which is final" (vending: `MINTABLE_NUM_TOKENS == 0` and nothing ever
  increases it; open edition: `now > end_time`, mints need `now < end_time`, `UpdateEndTime` refuses once `now ≥ end_time`).
  It is VALIDATED by the harness (every generated case that purges tries to mint afterwards), not proved from the code.

Core Lean only (the driver links this file).
-/
namespace LP.MintLimits

/-! ## Leaves -/

/-- ASCII decimal digits of `n`, least significant first -/
def digitsRev (n : Nat) : List Nat :=
  if n < 10 then [48 + n] else (48 + n % 10) :: digitsRev (n / 10)
decreasing_by omega

/-- Rust `u32::to_string` as bytes -/
def decimal (n : Nat) : List Nat := (digitsRev n).reverse

def optDecimal : Option Nat → List Nat
  | none => []
  | some n => decimal n

/-- The leaf the Merkle minters build (`vending-minter-merkle-wl`, `-featured`, `open-edition-minter-merkle-wl`):
`(None, Some(a)) => format!("{}{}", sender, a)`, `(Some(s), None) => format!("{}{}", s, sender)`,
`(Some(s), Some(a)) => format!("{}{}{}", s, sender, a)`, `(None, None) => sender` — i.e. always this concatenation. -/
def leafOf (f : Fields) (sender : List Nat) : List Nat :=
  optDecimal f.stage ++ sender ++ optDecimal f.alloc

def isDigit (c : Nat) : Bool := decide (48 ≤ c) && decide (c ≤ 57)

/-- a bech32 / test address: non-empty, does not start with a decimal digit -/
def addrLike (sender : List Nat) : Bool :=
  match sender with
  | [] => false
  | c :: _ => !isDigit c

/-! ## The whitelist as an oracle -/

/-- What the attached whitelist answers at the block of the mint. -/
structure Oracle where
  /-- the answers that do not depend on the message (`leafOk` of this record is never read) -/
  view : View
  /-- `HasMember {member: leaf, proof_hashes: <the proof of the message>}` answered `true` -/
  verify : List Nat → Bool
  /-- list-based tiered whitelists: what the record of stage `view.stageId` itself grants the sender
  (`StageMemberInfo {stage_id: stageId-1, member}`: member ⇒ its `per_address_limit` (tiered-flex: its `mint_count`),
  non-member ⇒ 0); `none` = the whitelist has no such query (non-tiered, tiered-merkle) -/
  stageEnt : Option Nat := none

/-- the `View` a mint by `sender` with message fields `f` sees -/
def Oracle.viewFor (o : Oracle) (f : Fields) (sender : List Nat) : View :=
  { o.view with leafOk := o.verify (leafOf f sender) }

/-- entitlement according to the whitelist's ACTIVE-stage answers (`Config` / `HasMember` / `Member`) -/
def activeEnt (fl : Flavor) (v : View) : Nat :=
  if v.memberPlain then (match fl with | .flex => v.memberCount | _ => v.limit) else 0

/-- the active-stage answers and the booked stage's own record name the same entitlement -/
def Oracle.coherent (o : Oracle) (fl : Flavor) : Bool :=
  match o.stageEnt with
  | none => true
  | some r => decide (r = activeEnt fl o.view)

/-! ## State and operations -/

structure XState where
  base : State
  /-- a `Purge` has succeeded -/
  closed : Bool := false

inductive XOp where
  /-- `Mint {stage, proof_hashes, allocation}` by `a`, whose address string is `sb` -/
  | mint (a : Addr) (sb : List Nat) (f : Fields) (o : Oracle) (started pre : Bool)
  | mintTo (sender recipient : Addr) (forId pre : Bool)
  | setLimit (sender : Addr) (n : Nat) (funds : Bool)
  | setWhitelist (sender : Addr) (id : Nat) (wk : WlKind) (funds started oldActive newActive pre : Bool)
  | purge (funds pre : Bool)
  /-- clock, whitelist-side edits, every other `ExecuteMsg` variant, `migrate` -/
  | env
  /-- governance replaces the factory's `max_per_address_limit` (read live by `UpdatePerAddressLimit`) -/
  | govern (maxPer : Nat)

/-- the `MintLimits.Op` an `XOp` runs -/
def XOp.toOp : XOp → Op
  | .mint a sb f o st pre => .mint a f (o.viewFor f sb) st pre
  | .mintTo s r fid pre => .mintTo s r fid pre
  | .setLimit s n fu => .setLimit s n fu
  | .setWhitelist s id wk fu st oa na pre => .setWhitelist s id wk fu st oa na pre
  | .purge fu pre => .purge fu pre
  | .env => .env
  | .govern mp => .govern mp

def XOp.mints : XOp → Bool
  | .mint .. => true
  | .mintTo .. => true
  | _ => false

def XOp.isPurge : XOp → Bool
  | .purge .. => true
  | _ => false

def stepX (x : XState) (op : XOp) : Except Err (XState × Event) :=
  if x.closed = true ∧ op.mints = true then .error .soldOut
  else
    match step x.base op.toOp with
    | .error e => .error e
    | .ok (s', e) => .ok ({ base := s', closed := x.closed || op.isPurge }, e)

def stepAccX (p : XState × List Event) (op : XOp) : XState × List Event :=
  match stepX p.1 op with
  | .ok (x', e) => (x', p.2 ++ [e])
  | .error _ => p

def runX (x : XState) (ops : List XOp) : XState × List Event := ops.foldl stepAccX (x, [])

end LP.MintLimits
