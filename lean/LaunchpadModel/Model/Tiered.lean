import LaunchpadModel.Model.Basic
import LaunchpadModel.Generated.Constants
/-!
# Tiered whitelists (plain / flex / Merkle) — the model behind C13

One model, parametrised by `Variant`, of

* `contracts/whitelists/tiered-whitelist`            (`Variant.plain`)
* `contracts/whitelists/tiered-whitelist-flex`       (`Variant.flex`)
* `contracts/whitelists/tiered-whitelist-merkletree` (`Variant.merkle`)

`src/contract.rs` + `src/helpers.rs` (`helpers/utils.rs` in the Merkle crate). Every difference between
the three crates is listed in `/verif/docs/C13.md`; each one is a `match v with` below.

Conventions: times are `Nat` nanoseconds, addresses are interned naturals (`0` = a string that
`addr_validate` rejects), denoms interned naturals, stage names interned naturals, a Merkle root is the
128-bit value of its (lower-case) hex string.  Core Lean only (the driver links this file).
-/
namespace LP.Tiered
open LP

inductive Variant where
  | plain | flex | merkle
deriving DecidableEq, Repr

/-- `state::Stage`. `pal` = `per_address_limit` (the flex crate has no such field: always `0` there);
`mcl` = `mint_count_limit`. -/
structure Stage where
  name : Nat
  start : Nat
  stop : Nat
  denom : Denom
  price : Nat
  pal : Nat
  mcl : Option Nat
deriving DecidableEq, Repr

/-- `stage.start_time <= current_time && current_time <= stage.end_time` — the CLOSED window
(`fetch_active_stage`, `fetch_active_stage_index`). -/
def Stage.contains (s : Stage) (t : Nat) : Bool := decide (s.start ≤ t) && decide (t ≤ s.stop)

/-! ## `helpers.rs` -/

/-- `MAX_PER_ADDRESS_LIMIT` of the crate (flex has no per-address limit on stages). -/
def maxPal : Variant → Nat
  | .plain => Gen.sg_tiered_whitelist_MAX_PER_ADDRESS_LIMIT
  | .flex => 0
  | .merkle => Gen.tiered_whitelist_merkletree_MAX_PER_ADDRESS_LIMIT

/-- "Check per address limit is valid": `per_address_limit == 0 || per_address_limit > MAX` is an error
(plain, Merkle); the flex helpers have no such check. -/
def palOk (v : Variant) (s : Stage) : Bool :=
  match v with
  | .flex => true
  | _ => !(s.pal == 0 || decide (s.pal > maxPal v))

/-- the double loop at the end of `validate_stages` / `validate_update`:
`stage.start_time < stage.end_time` and, for every LATER stage, `other.start_time >= stage.end_time`. -/
def windowsOk : List Stage → Bool
  | [] => true
  | s :: rest =>
    decide (s.start < s.stop) && rest.all (fun o => decide (o.start ≥ s.stop)) && windowsOk rest

/-- the part shared by `validate_stages` and `validate_update`: non-empty, `len < 4`, per-address limits,
all mint-price denoms equal to the first stage's. -/
def commonOk (v : Variant) (l : List Stage) : Bool :=
  match l with
  | [] => false
  | s0 :: _ => decide (l.length < 4) && l.all (palOk v) && l.all (fun s => s.denom == s0.denom)

/-- `stages[0].start_time > env.block.time` -/
def firstFuture (now : Nat) (l : List Stage) : Bool :=
  match l with
  | [] => false
  | s0 :: _ => decide (s0.start > now)

/-- `validate_stages(env, stages)` (instantiate, add_stage) -/
def validateStages (v : Variant) (now : Nat) (l : List Stage) : Bool :=
  commonOk v l && firstFuture now l && windowsOk l

/-- `validate_update(env, stages)` (update_stage_config): as above WITHOUT the start-in-the-future check -/
def validateUpdate (v : Variant) (l : List Stage) : Bool :=
  commonOk v l && windowsOk l

/-- `fetch_active_stage_index`: `stages.iter().position(closed window contains now)` -/
def activeIdx (l : List Stage) (t : Nat) : Option Nat := l.findIdx? (fun s => s.contains t)

/-- `fetch_active_stage`: `stages.iter().find(closed window contains now)` -/
def activeStage (l : List Stage) (t : Nat) : Option Stage := l.find? (fun s => s.contains t)

/-! ## State -/

/-- one entry of `WHITELIST_STAGES : Map<(u32, Addr), bool | u32>`: (stage id, address, value).
plain stores `true` (modelled as the count given on the line, never observed). -/
abbrev Entry := Nat × Addr × Nat

structure State where
  /-- `Config.stages` -/
  stages : List Stage
  /-- `WHITELIST_STAGES` (plain, flex) -/
  members : List Entry
  /-- `MEMBER_COUNT : Map<u32,u32>`, absent = 0 (`may_load(..).unwrap_or(0)`) -/
  counts : Nat → Nat
  /-- `Config.num_members` -/
  num : Nat
  /-- `Config.member_limit` -/
  limit : Nat
  /-- `Config.whale_cap` (flex only) -/
  whale : Option Nat
  /-- `MERKLE_ROOTS` (Merkle only) -/
  roots : List Nat
  /-- `ADMIN_LIST` -/
  admins : List Addr
  mutable : Bool

/-- `WHITELIST_STAGES.has(storage, (k, a))` -/
def hasKey (ms : List Entry) (k : Nat) (a : Addr) : Bool := ms.any (fun m => m.1 == k && m.2.1 == a)

/-- `WHITELIST_STAGES.may_load(storage, (k, a))` -/
def lookup (ms : List Entry) (k : Nat) (a : Addr) : Option Nat :=
  (ms.find? (fun m => m.1 == k && m.2.1 == a)).map (fun m => m.2.2)

/-- `addr_validate` succeeds (id 0 stands for a string it rejects) -/
def validAddr (a : Addr) : Bool := a != 0

/-- `is_admin` -/
def isAdmin (s : State) (a : Addr) : Bool := s.admins.contains a

/-- insertion sort (structural, so that concrete traces reduce by `decide`) -/
def insertAsc (a : Nat) : List Nat → List Nat
  | [] => [a]
  | b :: rest => if a ≤ b then a :: b :: rest else b :: insertAsc a rest

def sortAsc (l : List Nat) : List Nat := l.foldr insertAsc []

/-- `sort_unstable(); dedup()` on the member strings (plain only). Harness names are fixed-length, so string
order = id order. -/
def sortDedup (l : List (Addr × Nat)) : List (Addr × Nat) :=
  (sortAsc (l.map (·.1))).eraseDups.map (fun a => (a, 1))

def whaleExceeded (whale : Option Nat) (c : Nat) : Bool :=
  match whale with
  | some w => decide (c > w)
  | none => false

/-- accumulator of the member-adding loops: the map, `config.num_members`, number of entries saved -/
structure Acc where
  members : List Entry
  num : Nat
  added : Nat

/-- the loop of `execute_add_members` (`whale = none`: the cap is NOT checked there) and `execute_add_stage`
(`whale = config.whale_cap`): limit check first, then `addr_validate`, then whale cap, then skip-if-present. -/
def addLoop (limit : Nat) (whale : Option Nat) (k : Nat) : List (Addr × Nat) → Acc → Except Err Acc
  | [], acc => .ok acc
  | (a, c) :: rest, acc =>
    if acc.num ≥ limit then .error .limit
    else if !validAddr a then .error .invalid
    else if whaleExceeded whale c then .error .limit
    else if hasKey acc.members k a then addLoop limit whale k rest acc
    else addLoop limit whale k rest
      { members := acc.members ++ [(k, a, c)], num := acc.num + 1, added := acc.added + 1 }

/-- the per-stage loop of `instantiate` (no limit check inside; flex checks the whale cap and skips duplicates;
plain lists were deduplicated before, so the skip never triggers there) -/
def instLoop (whale : Option Nat) (k : Nat) : List (Addr × Nat) → Acc → Except Err Acc
  | [], acc => .ok acc
  | (a, c) :: rest, acc =>
    if !validAddr a then .error .invalid
    else if whaleExceeded whale c then .error .limit
    else if hasKey acc.members k a then instLoop whale k rest acc
    else instLoop whale k rest
      { members := acc.members ++ [(k, a, c)], num := acc.num + 1, added := acc.added + 1 }

/-- `for stage in 0..stages.len()` of `instantiate`; `msg.members[stage]` panics when the list is short
(cannot happen after the length check, kept for totality). Returns the map, Σ counts and `MEMBER_COUNT`. -/
def instStages (whale : Option Nat) : Nat → Nat → List (List (Addr × Nat)) → List Entry → (Nat → Nat) → Nat →
    Except Err (List Entry × (Nat → Nat) × Nat)
  | 0, _, _, ms, cnt, num => .ok (ms, cnt, num)
  | n + 1, k, lists, ms, cnt, num =>
    match lists with
    | [] => .error .other
    | l :: rest =>
      match instLoop whale k l { members := ms, num := 0, added := 0 } with
      | .error e => .error e
      | .ok acc =>
        instStages whale n (k + 1) rest acc.members (fun j => if j = k then acc.added else cnt j) (num + acc.added)

/-- `Decimal::new(limit, 3).ceil() * PRICE_PER_1000_MEMBERS` -/
def thousands (limit : Nat) : Nat := (limit + 999) / 1000

def pricePer1000 : Variant → Nat
  | .flex => Gen.sg_tiered_whitelist_flex_PRICE_PER_1000_MEMBERS
  | _ => Gen.sg_tiered_whitelist_PRICE_PER_1000_MEMBERS

def maxMembers : Variant → Nat
  | .flex => Gen.sg_tiered_whitelist_flex_MAX_MEMBERS
  | _ => Gen.sg_tiered_whitelist_MAX_MEMBERS

/-! ## Messages -/

/-- `UpdateStageConfigMsg` (every field optional; `mcl : Option (Option Nat)`; flex has no `pal`) -/
structure StageUpdate where
  id : Nat
  name : Option Nat
  start : Option Nat
  stop : Option Nat
  price : Option (Denom × Nat)
  pal : Option Nat
  mcl : Option (Option Nat)

inductive Op where
  /-- instantiate a fresh contract (replaces the current one when it succeeds).
  `members` (plain, flex), `roots`/`uriBad` (Merkle; `uriBad` = a tree URI that `Url::parse` rejects was supplied) -/
  | inst (now : Nat) (sender : Addr) (funds : List Coin) (limit : Nat) (whale : Option Nat)
      (admins : List Addr) (mutable : Bool) (stages : List Stage) (members : List (List (Addr × Nat)))
      (roots : List Nat) (uriBad : Bool)
  | addStage (now : Nat) (sender : Addr) (stage : Stage) (members : List (Addr × Nat))
  | removeStage (now : Nat) (sender : Addr) (id : Nat)
  | updateStage (now : Nat) (sender : Addr) (u : StageUpdate)
  | addMembers (now : Nat) (sender : Addr) (id : Nat) (members : List (Addr × Nat))
  | removeMembers (now : Nat) (sender : Addr) (id : Nat) (addrs : List Addr)
  | increaseLimit (now : Nat) (sender : Addr) (funds : List Coin) (limit : Nat)
  | updateAdmins (now : Nat) (sender : Addr) (admins : List Addr)
  | freeze (now : Nat) (sender : Addr)
  /-- `migrate` to the same code (only the Merkle crate has a `migrate` entry point; with an unchanged
  version it returns early without touching storage) -/
  | migrate (now : Nat) (sender : Addr)
  /-- any JSON message that is not a variant of the crate's `ExecuteMsg` (deserialisation fails) -/
  | unknown (now : Nat) (sender : Addr)

/-- the block time an operation is executed at -/
def Op.now : Op → Nat
  | .inst now .. => now
  | .addStage now .. => now
  | .removeStage now .. => now
  | .updateStage now .. => now
  | .addMembers now .. => now
  | .removeMembers now .. => now
  | .increaseLimit now .. => now
  | .updateAdmins now .. => now
  | .freeze now .. => now
  | .migrate now .. => now
  | .unknown now .. => now

def Op.isInst : Op → Bool
  | .inst .. => true
  | _ => false

def Op.isUpdateStage : Op → Bool
  | .updateStage .. => true
  | _ => false

/-- the flex crate's `Stage` has no `per_address_limit` field: whatever the protocol line carries is dropped -/
def normStage (v : Variant) (st : Stage) : Stage := if v == .flex then { st with pal := 0 } else st

/-- the contract does not exist before the first successful `inst` -/
abbrev World := Option State

def ofBool (b : Bool) (e : Err) : Except Err Unit := if b then .ok () else .error e

/-! ## instantiate -/

def instantiate (v : Variant) (now : Nat) (funds : List Coin) (limit : Nat) (whale : Option Nat)
    (admins : List Addr) (mutable : Bool) (stages : List Stage) (members : List (List (Addr × Nat)))
    (roots : List Nat) (uriBad : Bool) : Except Err State :=
  let stages := stages.map (normStage v)
  match v with
  | .merkle => do
    -- merkle roots were checked to be 16-byte hex by the driver's parser (a bad one never reaches the model as a Nat)
    ofBool (!uriBad) .invalid
    let pay ← mustPay funds NATIVE
    ofBool (pay == Gen.tiered_whitelist_merkletree_CREATION_FEE) .payment
    ofBool (validateStages v now stages) .invalid
    ofBool (admins.all validAddr) .invalid
    pure { stages := stages, members := [], counts := fun _ => 0, num := 0, limit := 0, whale := none,
           roots := roots, admins := admins, mutable := mutable }
  | _ => do
    ofBool (!(limit == 0 || decide (limit > maxMembers v))) .limit
    ofBool (validateStages v now stages) .invalid
    ofBool (members.length == stages.length) .invalid
    let pay ← mustPay funds NATIVE
    ofBool (pay == thousands limit * pricePer1000 v) .payment
    let whale := if v == .flex then whale else none
    ofBool (match whale with | some w => decide (w > limit) | none => true) .invalid
    let members := if v == .plain then members.map sortDedup else members
    let num0 := (members.map List.length).sum
    ofBool (admins.all validAddr) .invalid
    ofBool (!decide (limit < num0)) .limit
    let (ms, cnt, num) ← instStages whale stages.length 0 members [] (fun _ => 0) 0
    -- plain keeps `num_members = Σ len` of the deduplicated lists; flex recounts the entries actually saved
    pure { stages := stages, members := ms, counts := cnt, num := if v == .plain then num0 else num, limit := limit, whale := whale,
           roots := [], admins := admins, mutable := mutable }

/-! ## execute -/

def applyUpdate (v : Variant) (old : Stage) (u : StageUpdate) : Stage :=
  { name := u.name.getD old.name
    start := u.start.getD old.start
    stop := u.stop.getD old.stop
    denom := (u.price.map (·.1)).getD old.denom
    price := (u.price.map (·.2)).getD old.price
    pal := if v == .flex then old.pal else u.pal.getD old.pal
    mcl := u.mcl.getD old.mcl }

/-- `execute_update_stage_config` (all three crates): indexing `config.stages[stage_id]` panics when out of range -/
def updateStage (v : Variant) (s : State) (sender : Addr) (u : StageUpdate) : Except Err State := do
  ofBool (isAdmin s sender) .unauthorized
  match s.stages[u.id]? with
  | none => .error .notFound
  | some old =>
    let stages' := s.stages.set u.id (applyUpdate v old u)
    ofBool (validateUpdate v stages') .invalid
    pure { s with stages := stages' }

/-- `execute_add_stage` (plain, flex) -/
def addStage (v : Variant) (s : State) (now : Nat) (sender : Addr) (st : Stage) (members : List (Addr × Nat)) :
    Except Err State := do
  ofBool (isAdmin s sender) .unauthorized
  ofBool (decide (s.stages.length < 3)) .limit
  let stages' := s.stages ++ [normStage v st]
  ofBool (validateStages v now stages') .invalid
  let k := stages'.length - 1
  let members := if v == .plain then sortDedup members else members
  let acc ← addLoop s.limit s.whale k members { members := s.members, num := s.num, added := 0 }
  -- plain: `MEMBER_COUNT = members.len()` (deduplicated message list); flex: number actually saved
  let c := if v == .plain then members.length else acc.added
  pure { s with stages := stages', members := acc.members, num := acc.num,
                counts := fun j => if j = k then c else s.counts j }

/-- `execute_remove_stage` (plain, flex): only before `stages[id].start_time`; removes every member of stage
`id` and of all later stages, their `MEMBER_COUNT` entries, and truncates `stages` to `take id`. -/
def removeStage (s : State) (now : Nat) (sender : Addr) (id : Nat) : Except Err State := do
  ofBool (isAdmin s sender) .unauthorized
  match s.stages[id]? with
  | none => .error .notFound
  | some st =>
    ofBool (decide (now < st.start)) .tooLate
    let gone := s.members.filter (fun m => decide (id ≤ m.1) && decide (m.1 < s.stages.length))
    let keep := s.members.filter (fun m => !(decide (id ≤ m.1) && decide (m.1 < s.stages.length)))
    pure { s with stages := s.stages.take id, members := keep, num := s.num - gone.length,
                  counts := fun j => if id ≤ j ∧ j < s.stages.length then 0 else s.counts j }

/-- `execute_add_members` (plain sorts + dedups the message list first) -/
def addMembers (v : Variant) (s : State) (sender : Addr) (id : Nat) (members : List (Addr × Nat)) :
    Except Err State := do
  ofBool (isAdmin s sender) .unauthorized
  ofBool (decide (id < s.stages.length)) .notFound
  let members := if v == .plain then sortDedup members else members
  let acc ← addLoop s.limit none id members { members := s.members, num := s.num, added := 0 }
  pure { s with members := acc.members, num := acc.num,
                counts := fun j => if j = id then s.counts id + acc.added else s.counts j }

/-- the loop of `execute_remove_members`: `NoMemberFound` unless present; `num_members -= 1` -/
def removeLoop (k : Nat) : List Addr → Acc → Except Err Acc
  | [], acc => .ok acc
  | a :: rest, acc =>
    if !validAddr a then .error .invalid
    else if !hasKey acc.members k a then .error .notFound
    else removeLoop k rest
      { members := acc.members.filter (fun m => !(m.1 == k && m.2.1 == a)), num := acc.num - 1, added := acc.added + 1 }

/-- `execute_remove_members`: only before the stage starts -/
def removeMembers (s : State) (now : Nat) (sender : Addr) (id : Nat) (addrs : List Addr) : Except Err State := do
  ofBool (isAdmin s sender) .unauthorized
  match s.stages[id]? with
  | none => .error .notFound
  | some st =>
    ofBool (decide (now < st.start)) .tooLate
    let acc ← removeLoop id addrs { members := s.members, num := s.num, added := 0 }
    pure { s with members := acc.members, num := acc.num,
                  counts := fun j => if j = id then s.counts id - acc.added else s.counts j }

/-- `execute_increase_member_limit` (no admin check in the code) -/
def increaseLimit (v : Variant) (s : State) (funds : List Coin) (limit : Nat) : Except Err State := do
  ofBool (!(decide (s.limit ≥ limit) || decide (limit > maxMembers v))) .limit
  let fee := if thousands limit > thousands s.limit then (thousands limit - thousands s.limit) * pricePer1000 v else 0
  let pay ← mayPay funds NATIVE
  ofBool (pay == fee) .payment
  pure { s with limit := limit }

/-- `execute_update_admins`: `can_modify` = mutable ∧ admin; every new admin must validate -/
def updateAdmins (s : State) (sender : Addr) (admins : List Addr) : Except Err State := do
  ofBool (s.mutable && isAdmin s sender) .unauthorized
  ofBool (admins.all validAddr) .invalid
  pure { s with admins := admins }

def freeze (s : State) (sender : Addr) : Except Err State := do
  ofBool (s.mutable && isAdmin s sender) .unauthorized
  pure { s with mutable := false }

/-- list-based messages do not exist in the Merkle crate's `ExecuteMsg` (deserialisation fails) -/
def listBased : Variant → Except Err Unit
  | .merkle => .error .invalid
  | _ => .ok ()

/-- an execute message against an instantiated contract -/
def exec (v : Variant) (s : State) : Op → Except Err State
  | .inst .. => .error .other
  | .addStage now sender st ms => do listBased v; addStage v s now sender st ms
  | .removeStage now sender id => do listBased v; removeStage s now sender id
  | .updateStage _ sender u => updateStage v s sender u
  | .addMembers _ sender id ms => do listBased v; addMembers v s sender id ms
  | .removeMembers now sender id as => do listBased v; removeMembers s now sender id as
  | .increaseLimit _ _ funds limit => do listBased v; increaseLimit v s funds limit
  | .updateAdmins _ sender admins => updateAdmins s sender admins
  | .freeze _ sender => freeze s sender
  | .migrate _ _ => if v == .merkle then .ok s else .error .other
  | .unknown _ _ => .error .invalid

/-- one transaction against the current world. `inst` creates a fresh contract (the new current one). -/
def step (v : Variant) (w : World) (op : Op) : Except Err World :=
  match op with
  | .inst now _ funds limit whale admins mutable stages members roots uriBad =>
    (instantiate v now funds limit whale admins mutable stages members roots uriBad).map some
  | op =>
    match w with
    | none => .error .notFound
    | some s => (exec v s op).map some

/-- transactional semantics: a failed message leaves the world unchanged -/
def step' (v : Variant) (w : World) (op : Op) : World :=
  match step v w op with
  | .ok w' => w'
  | .error _ => w

def run (v : Variant) (w : World) (ops : List Op) : World := ops.foldl (step' v) w

/-! ## queries -/

/-- members of stage `k`, in storage (= address) order -/
def insertPair (a : Addr × Nat) : List (Addr × Nat) → List (Addr × Nat)
  | [] => [a]
  | b :: rest => if a.1 ≤ b.1 then a :: b :: rest else b :: insertPair a rest

def membersOf (s : State) (k : Nat) : List (Addr × Nat) :=
  ((s.members.filter (fun m => m.1 == k)).map (fun m => (m.2.1, m.2.2))).foldr insertPair []

/-- `query_has_member` of the list-based crates: the ACTIVE stage's map only; no active stage ⇒ `false` -/
def hasMember (s : State) (now : Nat) (a : Addr) : Except Err Bool :=
  if !validAddr a then .error .invalid
  else match activeIdx s.stages now with
    | some i => .ok (hasKey s.members i a)
    | none => .ok false

/-- `query_has_member` of the Merkle crate: error without an active stage; `roots[active]` (index panic when
the root list is shorter); `folded` = result of folding the proof over the leaf hash (`none` = a proof element
is not 16-byte hex), supplied by the environment — hashing is C14's subject. -/
def hasMemberMerkle (s : State) (now : Nat) (folded : Option Nat) : Except Err Bool :=
  match activeIdx s.stages now with
  | none => .error .notFound
  | some i =>
    match s.roots[i]? with
    | none => .error .other
    | some r =>
      match folded with
      | none => .error .invalid
      | some f => .ok (r == f)

/-- flex `query_member`: error without an active stage or when absent from the active stage -/
def memberQ (s : State) (now : Nat) (a : Addr) : Except Err Nat :=
  if !validAddr a then .error .invalid
  else match activeIdx s.stages now with
    | none => .error .notFound
    | some i =>
      match lookup s.members i a with
      | some c => .ok c
      | none => .error .notFound

/-- `ConfigResponse`: (num_members, per_address_limit, member_limit, start, end, denom, amount, is_active, whale_cap) -/
structure ConfigR where
  num : Nat
  pal : Nat
  limit : Nat
  start : Nat
  stop : Nat
  denom : Denom
  price : Nat
  active : Bool
  whale : Option Nat

/-- `query_config`: the active stage's fields; otherwise the first stage before it starts, else the last stage;
zeros when there is no stage. The Merkle crate reports `num_members = member_limit = 0`. -/
def configQ (s : State) (now : Nat) : ConfigR :=
  let mk (st : Stage) (act : Bool) : ConfigR :=
    { num := s.num, pal := st.pal, limit := s.limit, start := st.start, stop := st.stop, denom := st.denom,
      price := st.price, active := act, whale := s.whale }
  match activeStage s.stages now with
  | some st => mk st true
  | none =>
    match s.stages with
    | [] => { num := s.num, pal := 0, limit := s.limit, start := 0, stop := 0, denom := NATIVE, price := 0,
              active := false, whale := s.whale }
    | s0 :: _ =>
      if now < s0.start then mk s0 false else mk (s.stages.getLast?.getD s0) false

def hasStarted (s : State) (now : Nat) : Bool :=
  match s.stages with
  | [] => false
  | s0 :: _ => decide (now ≥ s0.start)

def hasEnded (s : State) (now : Nat) : Bool :=
  match s.stages.getLast? with
  | none => false
  | some l => decide (now ≥ l.stop)

def isActive (s : State) (now : Nat) : Bool := (activeStage s.stages now).isSome

/-- `ActiveStageId`: `map_or(0, |i| i + 1)` -/
def activeStageId (s : State) (now : Nat) : Nat :=
  match activeIdx s.stages now with
  | some i => i + 1
  | none => 0

/-- `query_stage`: stage + `MEMBER_COUNT` (list-based) or `roots[id]` (Merkle; index panic if short) -/
def stageQ (v : Variant) (s : State) (id : Nat) : Except Err (Stage × Nat) :=
  match s.stages[id]? with
  | none => .error .notFound
  | some st =>
    if v == .merkle then
      match s.roots[id]? with
      | none => .error .other
      | some r => .ok (st, r)
    else .ok (st, s.counts id)

def stagesFrom (v : Variant) (s : State) : Nat → List Stage → Except Err (List (Stage × Nat))
  | _, [] => .ok []
  | k, st :: rest =>
    match (if v == .merkle then s.roots[k]? else some (s.counts k)) with
    | none => .error .other
    | some c =>
      match stagesFrom v s (k + 1) rest with
      | .ok l => .ok ((st, c) :: l)
      | .error e => .error e

/-- `query_stage_list`: error when empty -/
def stagesQ (v : Variant) (s : State) : Except Err (List (Stage × Nat)) :=
  if s.stages.isEmpty then .error .notFound else stagesFrom v s 0 s.stages

/-- `query_stage_member_info`: plain indexes `config.stages[stage_id]` (panic when out of range) and reports the
stage's per-address limit; flex reports the member's own `mint_count` (0 when absent) and never fails. -/
def stageMemberInfo (v : Variant) (s : State) (id : Nat) (a : Addr) : Except Err (Bool × Nat) :=
  if !validAddr a then .error .invalid
  else if v == .flex then
    match lookup s.members id a with
    | some c => .ok (true, c)
    | none => .ok (false, 0)
  else
    match s.stages[id]? with
    | none => .error .other
    | some st => .ok (hasKey s.members id a, st.pal)

/-- the loop of `query_all_stage_member_info`: `n` more stages starting at stage `k` -/
def smiFrom (v : Variant) (s : State) (a : Addr) : Nat → Nat → Except Err (List (Bool × Nat))
  | 0, _ => .ok []
  | n + 1, k =>
    match stageMemberInfo v s k a with
    | .error e => .error e
    | .ok r =>
      match smiFrom v s a n (k + 1) with
      | .ok l => .ok (r :: l)
      | .error e => .error e

/-- `query_all_stage_member_info`: one `StageMemberInfo` answer per EXISTING stage, in stage order
(`for stage_id in 0..config.stages.len()`); fails only when the address does not validate. -/
def allStageMemberInfo (v : Variant) (s : State) (a : Addr) : Except Err (List (Bool × Nat)) :=
  if !validAddr a then .error .invalid else smiFrom v s a s.stages.length 0

end LP.Tiered
