import LaunchpadModel.Model.Basic
/-!
# Protobuf wire encoding of `MsgFundFairburnPool` (what `packages/sg1` builds with the `anybuf` crate)

```
fn encode_msg_fund_fairburn_pool(sender: String, amount: &Coin) -> Vec<u8> {
    let coin = Anybuf::new().append_string(1, &amount.denom).append_string(2, amount.amount.to_string());
    Anybuf::new().append_string(1, sender).append_message(2, &coin).into_vec()
}
```

`anybuf 0.5.2`: `append_string` = `append_bytes`; `append_message(f, m)` = `append_bytes(f, m.as_bytes())`;
`append_bytes(f, data)` writes NOTHING when `data` is empty (proto3 default), otherwise the tag `(f << 3) | 2` as a varint, the length as a
varint, the bytes. Note that this makes an EMPTY nested message disappear as well (prost would write `12 00` for an empty element of a
repeated message field): see `appendBytes`, `encodeCoins`.

Bytes are `Nat`s (`< 256` for real inputs; nothing below depends on it). Core Lean only.
-/
namespace LP.Pb

abbrev Bytes := List Nat

/-- base-128 varint, least significant group first, continuation bit `0x80` (`anybuf::varint::unsigned_varint_encode`) -/
def encVarint (n : Nat) : Bytes :=
  if n < 128 then [n] else (n % 128 + 128) :: encVarint (n / 128)
termination_by n
decreasing_by omega

/-- reads one varint from the front; `none` if the input ends inside it -/
def decVarint : Bytes → Option (Nat × Bytes)
  | [] => none
  | b :: rest =>
    if b < 128 then some (b, rest)
    else match decVarint rest with
      | some (v, r) => some ((b - 128) + 128 * v, r)
      | none => none

/-- one length-delimited field (wire type 2): tag, length, payload -/
def encLen (field : Nat) (data : Bytes) : Bytes :=
  encVarint (field * 8 + 2) ++ (encVarint data.length ++ data)

/-- `Anybuf::append_bytes` / `append_string` / `append_message`: nothing at all for empty data -/
def appendBytes (field : Nat) (data : Bytes) : Bytes :=
  if data.isEmpty then [] else encLen field data

/-- `cosmos.base.v1beta1.Coin { 1: denom, 2: amount }`, both strings -/
def encodeCoin (denom amount : Bytes) : Bytes :=
  appendBytes 1 denom ++ appendBytes 2 amount

/-- field 2 (`repeated Coin amount`), one `append_message(2, coin)` per coin -/
def encodeCoins : List (Bytes × Bytes) → Bytes
  | [] => []
  | c :: cs => appendBytes 2 (encodeCoin c.1 c.2) ++ encodeCoins cs

/-- `MsgFundFairburnPool { 1: sender, 2: repeated Coin amount }` -/
def encodeFundFairburnPool (sender : Bytes) (coins : List (Bytes × Bytes)) : Bytes :=
  appendBytes 1 sender ++ encodeCoins coins

/-! ## Decoder (total; fuel = input length) -/

/-- a sequence of length-delimited fields `(field number, payload)`; any other wire type, a truncated varint or a length that
exceeds the rest of the input is an error -/
def parseFields : Nat → Bytes → Option (List (Nat × Bytes))
  | 0, bs => if bs.isEmpty then some [] else none
  | fuel + 1, bs =>
    if bs.isEmpty then some [] else
    match decVarint bs with
    | none => none
    | some (key, r1) =>
      if key % 8 != 2 then none else
      match decVarint r1 with
      | none => none
      | some (len, r2) =>
        if r2.length < len then none else
        match parseFields fuel (r2.drop len) with
        | none => none
        | some fs => some ((key / 8, r2.take len) :: fs)

/-- proto3 scalar field: the LAST occurrence wins, absent = empty -/
def lastField (n : Nat) (fs : List (Nat × Bytes)) : Bytes :=
  fs.foldl (fun acc f => if f.1 == n then f.2 else acc) []

def knownFields (fs : List (Nat × Bytes)) : Bool := fs.all (fun f => f.1 == 1 || f.1 == 2)

def decodeCoin (bs : Bytes) : Option (Bytes × Bytes) :=
  match parseFields bs.length bs with
  | none => none
  | some fs => if knownFields fs then some (lastField 1 fs, lastField 2 fs) else none

/-- every field-2 payload decoded as a `Coin`, in order -/
def decodeCoins : List (Nat × Bytes) → Option (List (Bytes × Bytes))
  | [] => some []
  | f :: fs =>
    if f.1 == 2 then
      match decodeCoin f.2, decodeCoins fs with
      | some c, some cs => some (c :: cs)
      | _, _ => none
    else decodeCoins fs

/-- strict decoder of `MsgFundFairburnPool`: only fields 1 and 2, both length-delimited -/
def decodeFundFairburnPool (bs : Bytes) : Option (Bytes × List (Bytes × Bytes)) :=
  match parseFields bs.length bs with
  | none => none
  | some fs =>
    if knownFields fs then
      match decodeCoins fs with
      | some cs => some (lastField 1 fs, cs)
      | none => none
    else none

/-! ## `Uint128::to_string` -/

/-- decimal ASCII digits, no leading zeros, `0` ↦ "0" -/
def decDigits (n : Nat) : Bytes :=
  if n < 10 then [48 + n] else decDigits (n / 10) ++ [48 + n % 10]
termination_by n
decreasing_by omega

def parseDec (bs : Bytes) : Nat := bs.foldl (fun acc b => acc * 10 + (b - 48)) 0

/-! ## The message `sg1` emits -/

/-- "ustars" (`sg_utils::NATIVE_DENOM`) -/
def ustars : Bytes := [117, 115, 116, 97, 114, 115]

/-- the Stargate payload for a model message: only `fundPool` is a Stargate message. `addrB` / `denomB` render the interned ids. -/
def encodeMsg (addrB : Addr → Bytes) (denomB : Denom → Bytes) : Msg → Option Bytes
  | Msg.fundPool s c => some (encodeFundFairburnPool (addrB s) [(denomB c.denom, decDigits c.amount)])
  | _ => none

/-- the first Stargate payload in a message list -/
def firstStargate (addrB : Addr → Bytes) (denomB : Denom → Bytes) : List Msg → Option Bytes
  | [] => none
  | m :: ms => match encodeMsg addrB denomB m with
    | some b => some b
    | none => firstStargate addrB denomB ms

end LP.Pb
