import LaunchpadModel.Model.TradingTime
/-!
# C19 — run-time message surface on top of `LP.TT` (round 3; `Model/TradingTime.lean` itself is untouched: the composite model
refines it)

`LP.TT.Op` names the ten messages the property talks about. The harness now sends MORE than those (every `ExecuteMsg`
variant it finds in the JSON schemas of the 11 minter crates and the 4 collection crates, sudo messages, migrations of the
factory / minter / collection), and it no longer lets C19 fail for acceptance rules that belong to OTHER properties.
`OpX` is the operation set the driver executes:

* `base op`        — an `LP.TT.Op`, decided by `LP.TT.step` (everything C19 owns: `UpdateStartTradingTime` on the minter and on
                     the collection, `UpdateOwnership`, governance offset changes, the clock).
* `migFactory v`   — factory `migrate` carrying `Some(UpdateParams{max_trading_offset_secs: v, …})`: the four factories run the
                     same `update_params` helper as for sudo, so it is `sudoOffset v`.
* `inert`          — minter / collection migration at the same code id (optionally from an older cw2 version), and every
                     minter / collection / sudo message that is NOT named in `Op`: no effect on anything C19 observes. This is a
                     modelling claim validated by the harness only (the harness sends them and compares the observation).
* `env e`          — the EFFECT of a message whose acceptance rules are owned by another property (C04: `UpdateStartTime`,
                     `UpdateEndTime`; C10/C18: `UpdateCollectionInfo{creator}`, `FreezeCollectionInfo`). The harness reports
                     whether the real contract accepted; only then is the effect applied. `LP.TT.step`'s own decision for the
                     same message is printed behind ` ## ` (DRIFT when it differs, never a failure of C19).
* `createW … acc`  — `CreateMinter` with the implementation's verdict `acc` as a witness: the trading-time bound/default (the
                     part C19 owns, `tradingAtCreate`) is CHECKED by the model — an accepted creation beyond the bound is a
                     disagreement — while the other time rules of creation (start vs now/genesis/end: C04) are taken from `acc`.
-/
namespace LP.TT

/-- the part of `CreateMinter`'s decision that belongs to this property: bound and default of the trading time
(base minter: no bound, default = creation time + offset) -/
def tradingAtCreate (fam : Family) (now offset start : Nat) (req : Option Nat) : Except Err (Option Nat) :=
  match fam with
  | .base =>
    match req with
    | some t => .ok (some t)
    | none => .ok (some (plusSeconds now offset))
  | _ => boundedOrDefault start offset req

inductive EnvEffect where
  /-- an accepted `UpdateStartTime(t)` -/
  | startSet (t : Nat)
  /-- an accepted `UpdateEndTime(t)` -/
  | endSet (t : Nat)
  /-- an accepted `UpdateCollectionInfo{creator: a}` -/
  | creatorSet (a : Addr)
  /-- an accepted `FreezeCollectionInfo` -/
  | frozenSet
deriving Repr, DecidableEq

inductive OpX where
  | base (op : Op)
  | migFactory (v : Option Nat)
  | inert
  | env (e : EnvEffect)
  | createW (kind : CollKind) (creator : Addr) (start : Nat) (end_ req : Option Nat) (acc : Bool)
deriving Repr, DecidableEq

def applyEnv (w : World) (e : EnvEffect) : Except Err World :=
  match w.mc with
  | none => .error .notFound
  | some (m, c) =>
    match e with
    | .startSet t =>
      if w.family = .base then .error .invalid else .ok { w with mc := some ({ m with mintStart := t }, c) }
    | .endSet t => .ok { w with mc := some ({ m with endTime := some t }, c) }
    | .creatorSet a => .ok { w with mc := some (m, { c with creator := a }) }
    | .frozenSet => .ok { w with mc := some (m, { c with frozen := true }) }

def createW (w : World) (kind : CollKind) (creator : Addr) (start : Nat) (end_ req : Option Nat) (acc : Bool) :
    Except Err World :=
  match w.mc with
  | some _ => .error .other
  | none =>
    match tradingAtCreate w.family w.now w.offset start req with
    | .error e => .error e
    | .ok tr =>
      if acc then .ok { w with mc := some (mkMinter w.family creator start end_, Coll.init kind w.minterAddr creator tr) }
      else .error .other

def stepX (w : World) : OpX → Except Err World
  | .base op => step w op
  | .migFactory v => step w (.sudoOffset v)
  | .inert => .ok w
  | .env e => applyEnv w e
  | .createW kind creator start end_ req acc => createW w kind creator start end_ req acc

def stepX' (w : World) (op : OpX) : World :=
  match stepX w op with
  | .ok w' => w'
  | .error _ => w

def runX (w : World) (ops : List OpX) : World := ops.foldl stepX' w

/-- the harness's ghost: the offset governance last set EXPLICITLY (instantiate value, then every sudo / migrate that names
one); partial updates that omit it, and everything else, keep it -/
def ghostStep (off : Nat) : OpX → Nat
  | .base (.sudoOffset (some v)) => v
  | .migFactory (some v) => v
  | _ => off

def ghostOffset (off0 : Nat) (ops : List OpX) : Nat := ops.foldl ghostStep off0

end LP.TT
