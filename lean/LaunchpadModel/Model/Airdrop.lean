import LaunchpadModel.Model.Basic
import LaunchpadModel.Generated.Constants
/-!
# `contracts/sg-eth-airdrop` + `packages/ethereum-verify` + `whitelist-immutable` + the collection whitelist

Strings are byte lists (`Bytes := List Nat`, the UTF-8 bytes of the Rust `String`); accounts are keyed by the
address *string* because the claim text is built from `info.sender.as_ref()`.

Cryptography is a **parameter** (`Crypto`): Keccak-256, `Api::secp256k1_recover_pubkey`, `Api::secp256k1_verify`.
Everything the Rust code itself does around those primitives is modelled concretely:
the personal-sign envelope, `decode_address`, `hex::decode`, `get_recovery_param`, `ethereum_address_raw`,
`split_last`, the comparison of the recovered address with the claimed one, `str::replace`.

Model ↔ code map (see docs/C16.md):
* `replaceAll`/`claimText`      — `compute_plaintext_msg` (`str::replace(template, "{wallet}", sender)`)
* `hexDecode`                   — `hex::decode`
* `decodeAddress`               — `ethereum_verify::decode_address`
* `getRecoveryParam`            — `ethereum_verify::get_recovery_param`
* `ethereumAddressRaw`          — `ethereum_verify::ethereum_address_raw`
* `verifyEthereumText`          — `ethereum_verify::verify_ethereum_text`
* `claim`                       — `claim_airdrop` (= `validate_claim`; `claim_and_whitelist_add`;
                                   `increment_local_mint_count_for_address`) + the two dispatched messages
* `CollWl.addMember`            — sg-whitelist `execute_add_members` for a one-element list
* `instantiate`                 — `contract::instantiate` + reply + whitelist-immutable `instantiate`
* `EnvOp.setCwl` / `.time`      — the minter admin's `SetWhitelist` (any other whitelist state), block time
* `Op.other`                    — every other message to the airdrop contract / whitelist-immutable (there is none)
-/
namespace LP.Airdrop
open LP

abbrev Bytes := List Nat

/-! ## `str::replace` as split-and-join -/

set_option linter.unusedVariables false in
/-- split `s` on non-overlapping left-to-right occurrences of `pat` (as Rust's `match_indices`). -/
def splitPat (pat : Bytes) (acc : Bytes) (s : Bytes) : List Bytes :=
  match s with
  | [] => [acc.reverse]
  | c :: cs =>
    if h : pat ≠ [] ∧ pat.isPrefixOf (c :: cs) = true then
      acc.reverse :: splitPat pat [] ((c :: cs).drop pat.length)
    else splitPat pat (c :: acc) cs
termination_by s.length
decreasing_by
  · simp only [List.length_drop, List.length_cons]
    have : 0 < pat.length := List.length_pos_iff.mpr h.1
    omega
  · simp

def join (sep : Bytes) : List Bytes → Bytes
  | [] => []
  | [x] => x
  | x :: y :: rest => x ++ sep ++ join sep (y :: rest)

/-- `str::replace(s, pat, rep)` for a non-empty pattern -/
def replaceAll (pat rep s : Bytes) : Bytes := join rep (splitPat pat [] s)

/-- `str::contains` -/
def containsPat (pat : Bytes) : Bytes → Bool
  | [] => pat.isEmpty
  | c :: cs => pat.isPrefixOf (c :: cs) || containsPat pat cs

/-- the bytes of `"{wallet}"` -/
def WALLET : Bytes := [123, 119, 97, 108, 108, 101, 116, 125]

/-- `compute_plaintext_msg(config, info)` -/
def claimText (template sender : Bytes) : Bytes := replaceAll WALLET sender template

/-! ## hex, `decode_address`, `get_recovery_param` -/

def hexVal (c : Nat) : Option Nat :=
  if 48 ≤ c ∧ c ≤ 57 then some (c - 48)
  else if 97 ≤ c ∧ c ≤ 102 then some (c - 87)
  else if 65 ≤ c ∧ c ≤ 70 then some (c - 55)
  else none

/-- `hex::decode`: odd length or a non-hex character is an error -/
def hexDecode : Bytes → Option Bytes
  | [] => some []
  | [_] => none
  | a :: b :: rest =>
    match hexVal a, hexVal b, hexDecode rest with
    | some x, some y, some r => some ((x * 16 + y) :: r)
    | _, _, _ => none

/-- `decode_address`: exactly 42 bytes, starts with `0x`, 40 hex digits -/
def decodeAddress (s : Bytes) : Option Bytes :=
  if s.length ≠ 42 then none
  else if s.take 2 ≠ [48, 120] then none
  else hexDecode (s.drop 2)

/-- `get_recovery_param` -/
def getRecoveryParam (v : Nat) : Option Nat :=
  if v = 0 ∨ v = 1 then some v
  else if v = 27 then some 0
  else if v = 28 then some 1
  else none

/-! ## the personal-sign envelope -/

/-- decimal digits of `n` as ASCII (Rust `format!("{}", n)`) -/
def decDigits (n : Nat) : Bytes :=
  if n < 10 then [48 + n] else decDigits (n / 10) ++ [48 + n % 10]

/-- `"\x19Ethereum Signed Message:\n"` -/
def ETH_PREFIX : Bytes :=
  [25, 69, 116, 104, 101, 114, 101, 117, 109, 32, 83, 105, 103, 110, 101, 100, 32, 77, 101, 115, 115, 97, 103, 101, 58, 10]

/-- what `verify_ethereum_text` feeds to Keccak: prefix, decimal byte length, the message -/
def envelope (text : Bytes) : Bytes := ETH_PREFIX ++ decDigits text.length ++ text

/-! ## cryptographic primitives as parameters -/

structure Crypto where
  /-- Keccak-256 -/
  keccak : Bytes → Bytes
  /-- `Api::secp256k1_recover_pubkey hash rs recovery_param`; `none` = the call returns an error -/
  recover : Bytes → Bytes → Nat → Option Bytes
  /-- `Api::secp256k1_verify hash rs pubkey`; `none` = the call returns an error -/
  verify : Bytes → Bytes → Bytes → Option Bool

def digest (C : Crypto) (text : Bytes) : Bytes := C.keccak (envelope text)

/-- `ethereum_address_raw`: `0x04 ‖ 64 bytes` ↦ last 20 bytes of the Keccak of the 64 bytes -/
def ethereumAddressRaw (C : Crypto) (pk : Bytes) : Option Bytes :=
  match pk with
  | [] => none
  | tag :: data =>
    if tag ≠ 4 then none
    else if data.length ≠ 64 then none
    else some ((C.keccak data).drop ((C.keccak data).length - 20))

/-- `verify_ethereum_text(deps, message, signature, signer_address)`.
`none` = `Err(_)`, `some b` = `Ok(b)`. The 64-byte check on `rs` is cosmwasm-crypto's `read_signature`. -/
def verifyEthereumText (C : Crypto) (text sig signer : Bytes) : Option Bool :=
  match decodeAddress signer with
  | none => none
  | some a =>
    if sig = [] then none
    else
      match getRecoveryParam (sig.getLast?.getD 0) with
      | none => none
      | some rec =>
        if sig.dropLast.length ≠ 64 then none
        else
          match C.recover (digest C text) sig.dropLast rec with
          | none => none
          | some pk =>
            match ethereumAddressRaw C pk with
            | none => none
            | some calcAddr =>
              if a ≠ calcAddr then some false
              else C.verify (digest C text) sig.dropLast pk

/-! ## bank (native denom only) -/

abbrev Bal := Bytes → Nat

def credit (bal : Bal) (a : Bytes) (n : Nat) : Bal := fun x => if x = a then bal x + n else bal x

def debit (bal : Bal) (a : Bytes) (n : Nat) : Option Bal :=
  if bal a < n then none else some (fun x => if x = a then bal x - n else bal x)

/-- `BankMsg::Send` -/
def send (bal : Bal) (src dst : Bytes) (n : Nat) : Option Bal :=
  match debit bal src n with
  | none => none
  | some b => some (credit b dst n)

/-! ## the collection whitelist (sg-whitelist) the minter's config points to -/

structure CollWl where
  members : List Bytes
  memberLimit : Nat
  admins : List Bytes
  mutable : Bool
  /-- `Config.start_time` in nanoseconds: `RemoveMembers` is refused from this instant on (`AddMembers` never is) -/
  start : Nat := 0

/-- `execute_add_members` with `to_add = [member]`, sent by `sender` -/
def CollWl.addMember (w : CollWl) (sender member : Bytes) : Except Err CollWl :=
  if ¬ w.admins.contains sender then .error .unauthorized
  else if w.memberLimit ≤ w.members.length then .error .limit
  else if w.members.contains member then .ok w
  else .ok { w with members := member :: w.members }

/-- `execute_remove_members` with `to_remove = [member]` at block time `now` (only before the whitelist's start time) -/
def CollWl.removeMember (w : CollWl) (now : Nat) (sender member : Bytes) : Except Err CollWl :=
  if ¬ w.admins.contains sender then .error .unauthorized
  else if w.start ≤ now then .error .invalid
  else if ¬ w.members.contains member then .error .notFound
  else .ok { w with members := w.members.filter (· != member) }

/-- `execute_update_admins` -/
def CollWl.updateAdmins (w : CollWl) (sender : Bytes) (admins : List Bytes) : Except Err CollWl :=
  if ¬ (w.mutable && w.admins.contains sender) then .error .unauthorized
  else .ok { w with admins := admins }

/-- `execute_freeze` -/
def CollWl.freeze (w : CollWl) (sender : Bytes) : Except Err CollWl :=
  if ¬ (w.mutable && w.admins.contains sender) then .error .unauthorized
  else .ok { w with mutable := false }

/-! ## environment of the airdrop contract: bank balances and the minter's whitelist -/

structure Env where
  bal : Bal
  /-- `MinterContract(minter).config().whitelist` resolved to that contract's state; `none` = no whitelist set -/
  cwl : Option CollWl
  /-- block time, nanoseconds -/
  now : Nat := 0

inductive EnvOp where
  /-- coins appear in an account (bank mint / a transfer from outside the modelled accounts) -/
  | fund (to : Bytes) (amt : Nat)
  | cwlAdd (sender member : Bytes)
  | cwlRemove (sender member : Bytes)
  | cwlAdmins (sender : Bytes) (admins : List Bytes)
  | cwlFreeze (sender : Bytes)
  /-- the minter's `Config.whitelist` now resolves to a whitelist in state `w` (`none`: no whitelist): the minter admin's
  `SetWhitelist` swapping in ANOTHER contract between two claims, or any change whatsoever of the collection whitelist
  that the operations above do not describe. Deliberately unconstrained (the rules of `SetWhitelist` belong to the
  minter, not to this property): every history theorem holds for every such change. -/
  | setCwl (w : Option CollWl)
  /-- time passes (any block time; the whitelist may start or end between two claims) -/
  | time (t : Nat)

def Env.step (e : Env) : EnvOp → Except Err Env
  | .fund to amt => .ok { e with bal := credit e.bal to amt }
  | .cwlAdd sender member =>
    match e.cwl with
    | none => .error .notFound
    | some w => match w.addMember sender member with
      | .ok w' => .ok { e with cwl := some w' }
      | .error x => .error x
  | .cwlRemove sender member =>
    match e.cwl with
    | none => .error .notFound
    | some w => match w.removeMember e.now sender member with
      | .ok w' => .ok { e with cwl := some w' }
      | .error x => .error x
  | .cwlAdmins sender admins =>
    match e.cwl with
    | none => .error .notFound
    | some w => match w.updateAdmins sender admins with
      | .ok w' => .ok { e with cwl := some w' }
      | .error x => .error x
  | .cwlFreeze sender =>
    match e.cwl with
    | none => .error .notFound
    | some w => match w.freeze sender with
      | .ok w' => .ok { e with cwl := some w' }
      | .error x => .error x
  | .setCwl w => .ok { e with cwl := w }
  | .time t => .ok { e with now := t }

/-! ## the airdrop contract -/

structure State where
  env : Env
  /-- address of the airdrop contract itself -/
  self : Bytes
  /-- `Config.claim_msg_plaintext` -/
  template : Bytes
  /-- `Config.airdrop_amount` -/
  amount : Nat
  /-- keys of whitelist-immutable's `WHITELIST` map -/
  eligible : List Bytes
  /-- whitelist-immutable `Config.per_address_limit` -/
  perAddressLimit : Nat
  /-- `ADDRS_TO_MINT_COUNT` (absent = 0), keyed by the Ethereum address *string* -/
  counts : Bytes → Nat

def bump (f : Bytes → Nat) (k : Bytes) : Bytes → Nat := fun x => if x = k then f x + 1 else f x

/-- `execute(ClaimAirdrop{eth_address, eth_sig})` sent by `sender`, including the two messages it dispatches
(`BankMsg::Send` of `airdrop_amount` to the sender, `AddMembers([sender])` on the collection whitelist).
Any failure anywhere reverts the whole transaction. -/
def claim (C : Crypto) (s : State) (sender eth sig : Bytes) : Except Err State :=
  -- validate_is_eligible
  if ¬ s.eligible.contains eth then .error .notFound
  else
    -- validate_eth_sig
    match hexDecode sig with
    | none => .error .invalid
    | some sigBytes =>
      match verifyEthereumText C (claimText s.template sender) sigBytes eth with
      | none => .error .invalid
      | some false => .error .unauthorized
      | some true =>
        -- validate_mints_remaining
        if ¬ s.counts eth < s.perAddressLimit then .error .limit
        else
          -- query_collection_whitelist
          match s.env.cwl with
          | none => .error .notFound
          | some w =>
            -- dispatched: BankMsg::Send
            match send s.env.bal s.self sender s.amount with
            | none => .error .payment
            | some bal' =>
              -- dispatched: AddMembers
              match w.addMember s.self sender with
              | .error x => .error x
              | .ok w' =>
                .ok { s with env := { s.env with bal := bal', cwl := some w' }, counts := bump s.counts eth }

/-- `query(AirdropEligible{eth_address})` -/
def airdropEligible (s : State) (eth : Bytes) : Bool := s.eligible.contains eth

/-- whitelist-immutable `query(AddressCount)`: the list is sorted and de-duplicated at instantiate -/
def addressCount (s : State) : Nat := s.eligible.eraseDups.length

inductive Op where
  | claim (sender eth sig : Bytes)
  | env (e : EnvOp)
  /-- ANY other message addressed to the airdrop contract or to its whitelist-immutable — another `execute` variant,
  `sudo`, `migrate`, by anybody: the code has none (`ExecuteMsg` has the single variant `ClaimAirdrop`, whitelist-immutable's
  `ExecuteMsg` is an empty enum, neither crate exports `sudo`/`migrate`), so it is refused. That this is all there is
  is a fact about the code, validated by the harness at run time (ops `exec_raw`, schema enumeration) — not provable here. -/
  | other (sender : Bytes)

def step (C : Crypto) (s : State) : Op → Except Err State
  | .claim sender eth sig => claim C s sender eth sig
  | .env e => match s.env.step e with
    | .ok e' => .ok { s with env := e' }
    | .error x => .error x
  | .other _ => .error .invalid

/-- transactional semantics: a failed operation leaves the state unchanged -/
def step' (C : Crypto) (s : State) (op : Op) : State :=
  match step C s op with
  | .ok s' => s'
  | .error _ => s

def run (C : Crypto) (s : State) (ops : List Op) : State := ops.foldl (step' C) s

/-! ## instantiate -/

structure InstMsg where
  template : Bytes
  amount : Nat
  addresses : List Bytes
  perAddressLimit : Nat

/-- `instantiate` sent by `sender` with `funds`, the new contract getting address `self`.
cw-multi-test / wasmd move the funds to the new contract first; `fair_burn(INSTANTIATION_FEE)` then takes the fee
out of the contract (burn + fair-burn pool, see C06); the reply stores the new whitelist-immutable's address.
whitelist-immutable: de-duplicated list must be non-empty. -/
def instantiate (e : Env) (self sender : Bytes) (funds : List Coin) (m : InstMsg) : Except Err State :=
  if m.amount < Gen.sg_eth_airdrop_MIN_AIRDROP then .error .invalid
  else if Gen.sg_eth_airdrop_MAX_AIRDROP < m.amount then .error .invalid
  else if ¬ containsPat WALLET m.template then .error .invalid
  else if 1000 < m.template.length then .error .invalid
  else
    match mustPay funds NATIVE with
    | .error x => .error x
    | .ok paid =>
      if paid < Gen.sg_eth_airdrop_INSTANTIATION_FEE then .error .insufficientFee
      else
        match send e.bal sender self paid with
        | none => .error .payment
        | some b1 =>
          match debit b1 self Gen.sg_eth_airdrop_INSTANTIATION_FEE with
          | none => .error .payment
          | some b2 =>
            if m.addresses.isEmpty then .error .invalid
            else
              .ok { env := { e with bal := b2 }, self := self, template := m.template, amount := m.amount,
                    eligible := m.addresses, perAddressLimit := m.perAddressLimit, counts := fun _ => 0 }

end LP.Airdrop
