/-!
# Basic vocabulary shared by every model file (core Lean only — no imports, so drivers link).

* `Addr`, `Denom` are interned naturals (the harness keeps the string table).
* `Coin` = (denom, amount).  `Msg` = the bank / stargate messages a contract response may carry.
* `Err` is a small error enum; correspondence compares ok/err, never error text.
-/
namespace LP

/-- interned account address -/
abbrev Addr := Nat
/-- interned denom; `0` is the native denom `ustars` -/
abbrev Denom := Nat

def NATIVE : Denom := 0

/-- Well-known accounts. The harness interns the real bech32 strings to these ids. -/
def FOUNDATION : Addr := 1
def LAUNCHPAD_DAO : Addr := 2
def LIQUIDITY_DAO : Addr := 3
def FAIRBURN_POOL : Addr := 4

structure Coin where
  denom : Denom
  amount : Nat
deriving Repr, DecidableEq, BEq

inductive Msg where
  | burn (c : Coin)
  | send (to : Addr) (c : Coin)
  /-- `MsgFundFairburnPool{sender, amount}` (stargate) -/
  | fundPool (sender : Addr) (c : Coin)
deriving Repr, DecidableEq, BEq

inductive Err where
  | unauthorized | payment | insufficientFee | invalid | notFound | tooSoon | tooLate
  | limit | soldOut | frozen | version | other
deriving Repr, DecidableEq, BEq

def Msg.render : Msg → String
  | .burn c => s!"burn:{c.denom}:{c.amount}"
  | .send to c => s!"send:{to}:{c.denom}:{c.amount}"
  | .fundPool s c => s!"pool:{s}:{c.denom}:{c.amount}"

def renderMsgs (ms : List Msg) : String :=
  if ms.isEmpty then "-" else String.intercalate "," (ms.map Msg.render)

/-- amount a message moves out of the emitting contract -/
def Msg.amount : Msg → Nat
  | .burn c => c.amount
  | .send _ c => c.amount
  | .fundPool _ c => c.amount

def Msg.denom : Msg → Denom
  | .burn c => c.denom
  | .send _ c => c.denom
  | .fundPool _ c => c.denom

def sumAmounts (ms : List Msg) : Nat := (ms.map Msg.amount).sum

/-! ## cw-utils payment helpers (`may_pay`, `must_pay`, `nonpayable`, `one_coin`) -/

/-- `cw_utils::may_pay`: nothing ⇒ 0; exactly one coin of `denom` ⇒ its amount; anything else ⇒ error.
(The real function panics on two coins of the *same* denom; the chain never delivers that.) -/
def mayPay (funds : List Coin) (denom : Denom) : Except Err Nat :=
  match funds with
  | [] => .ok 0
  | [c] => if c.denom = denom then .ok c.amount else .error .payment
  | _ => .error .payment

/-- `cw_utils::must_pay`: exactly one coin, non-zero, of `denom`. -/
def mustPay (funds : List Coin) (denom : Denom) : Except Err Nat :=
  match funds with
  | [c] => if c.amount = 0 then .error .payment
           else if c.denom = denom then .ok c.amount else .error .payment
  | _ => .error .payment

/-- `cw_utils::nonpayable` -/
def nonpayable (funds : List Coin) : Except Err Unit :=
  if funds.isEmpty then .ok () else .error .payment

end LP
