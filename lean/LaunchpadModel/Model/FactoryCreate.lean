import LaunchpadModel.Model.Sg1
/-!
# C08 — the four factories' `CreateMinter`, the minter/collection instantiation they trigger,
# governance `UpdateParams`, and the minters' `UpdatePerAddressLimit`

Mirrors (see docs/C08.md for the line-by-line map):

* `contracts/factories/{base,vending,open-edition,token-merge}-factory/src/contract.rs` `execute_create_minter`,
  `sudo_update_params`, `base_factory::contract::update_params`;
* `contracts/factories/open-edition-factory/src/msg.rs` `OpenEditionMinterInitMsgExtension::validate`;
* `contracts/minters/*/src/contract.rs` `instantiate`, `reply`, `execute_update_per_address_limit`;
* `contracts/minters/vending-minter/src/validation.rs` (3 % rule);
* `contracts/collections/sg721-base/src/contract.rs` `instantiate`;
* `packages/sg1` via `LP.Sg1` (fee disposal); the bank as cw-multi-test / the chain executes the emitted messages
  (a zero-amount burn / send aborts the transaction).

A transaction is atomic: `create` either returns the complete post-state or an error (state unchanged, `step'`).
Strings (URLs, address strings) enter as validity flags chosen by the harness, which sends a representative string.
-/
namespace LP.FC
open LP

/-! ## Kinds and the code table (the order in which `lp_harness::minters::World::new` stores code) -/

inductive FKind where
  | vending | openEdition | tokenMerge | base
deriving DecidableEq, Repr

inductive MKind where
  | vending | vendingFeatured | vendingFlex | vendingFlexFeatured | vendingMerkle | vendingMerkleFeatured
  | openEdition | openEditionFlex | openEditionMerkle | tokenMerge | base
deriving DecidableEq, Repr

/-- whose `instantiate` logic a minter kind runs -/
def MKind.family : MKind → FKind
  | .openEdition | .openEditionFlex | .openEditionMerkle => .openEdition
  | .tokenMerge => .tokenMerge
  | .base => .base
  | _ => .vending

/-- minters that call `check_dynamic_per_address_limit` (in `instantiate` and in `execute_update_per_address_limit`).
The two `wl-flex` vending variants and the open-edition family do not. -/
def MKind.threePct : MKind → Bool
  | .vending | .vendingFeatured | .vendingMerkle | .vendingMerkleFeatured | .tokenMerge => true
  | _ => false

/-- minters that read the whitelist's `Config` with the *flex* response type -/
def MKind.flexWl : MKind → Bool
  | .vendingFlex | .vendingFlexFeatured | .openEditionFlex => true
  | _ => false

def MKind.ofCode : Nat → Option MKind
  | 1 => some .vending | 2 => some .vendingFeatured | 3 => some .vendingFlex | 4 => some .vendingFlexFeatured
  | 5 => some .vendingMerkle | 6 => some .vendingMerkleFeatured | 7 => some .openEdition
  | 8 => some .openEditionFlex | 9 => some .openEditionMerkle | 10 => some .tokenMerge | 11 => some .base
  | _ => none

/-- code ids 16..19 are the four sg721 collection contracts -/
def isSg721Code (c : Nat) : Bool := decide (16 ≤ c) && decide (c ≤ 19)

/-- A factory can instantiate the minter code `mk` with its own `CreateMinterMsg` JSON: its own family, and —
because `Option<Empty>` accepts any object — the base minter under the vending and open-edition factories. -/
def compat (fk : FKind) (mk : MKind) : Bool :=
  decide (mk.family = fk) || (decide (mk = .base) && (decide (fk = .vending) || decide (fk = .openEdition)))

/-! ## Governance parameters -/

/-- `SUDO_PARAMS` of a factory (superset over the four; unused fields are kept at zero by `normalize`) -/
structure Params where
  kind : FKind
  codeId : Nat
  allowed : List Nat
  frozen : Bool
  fee : Coin
  minPrice : Coin
  offset : Nat
  maxTokens : Nat
  maxPerAddr : Nat
  airdropPrice : Coin
deriving Repr, DecidableEq

def Params.normalize (p : Params) : Params :=
  match p.kind with
  | .base => { p with maxTokens := 0, maxPerAddr := 0, airdropPrice := ⟨0, 0⟩ }
  | .tokenMerge => { p with minPrice := ⟨0, 0⟩ }
  | _ => p

/-- `UpdateMinterParamsMsg<Extension>`; `none` = field omitted -/
structure Update where
  code : Option Nat := none
  add : Option (List Nat) := none
  rm : Option (List Nat) := none
  frozen : Option Bool := none
  fee : Option Coin := none
  minPrice : Option Coin := none
  offset : Option Nat := none
  maxTokens : Option Nat := none
  maxPerAddr : Option Nat := none
  airdropPrice : Option Coin := none
deriving Repr

/-- `Vec::dedup` — removes *consecutive* repetitions only -/
def dedupAdj : List Nat → List Nat
  | [] => []
  | [a] => [a]
  | a :: b :: t => if a = b then dedupAdj (b :: t) else a :: dedupAdj (b :: t)

def removeAll (l rm : List Nat) : List Nat := rm.foldl (fun acc c => acc.filter (· != c)) l

/-- `sudo_update_params` of the factory `p.kind` (an error leaves the stored params untouched) -/
def applyUpdate (p : Params) (u : Update) : Except Err Params :=
  let hasMin := p.kind != .tokenMerge
  let hasExt := p.kind != .base
  let badMin := hasMin && (match u.minPrice with | some c => c.denom != NATIVE | none => false)
  let badAir := (p.kind == .vending || p.kind == .tokenMerge) &&
    (match u.airdropPrice with | some c => c.denom != NATIVE | none => false)
  if badMin || badAir then .error .invalid
  else
    .ok { p with
      codeId := u.code.getD p.codeId
      frozen := u.frozen.getD p.frozen
      fee := u.fee.getD p.fee
      minPrice := if hasMin then u.minPrice.getD p.minPrice else p.minPrice
      allowed := removeAll (dedupAdj (p.allowed ++ u.add.getD [])) (u.rm.getD [])
      offset := u.offset.getD p.offset
      maxTokens := if hasExt then u.maxTokens.getD p.maxTokens else p.maxTokens
      maxPerAddr := if hasExt then u.maxPerAddr.getD p.maxPerAddr else p.maxPerAddr
      airdropPrice := if hasExt then u.airdropPrice.getD p.airdropPrice else p.airdropPrice }

/-! ## The create message -/

inductive WlRef where
  | none
  /-- a string `addr_validate` rejects: silently dropped (`and_then(|w| addr_validate(w).ok())`) -/
  | bad
  | addr (a : Addr)
deriving Repr, DecidableEq

structure CreateMsg where
  sender : Addr
  funds : List Coin
  sg721Code : Nat
  /-- `collection_params.info.creator`; `none` = a string `addr_validate` rejects -/
  creator : Option Addr
  /-- vending / token-merge: required `u32` (`none` is sent as 0); open edition: optional cap -/
  numTokens : Option Nat
  perAddr : Nat
  start : Nat
  endTime : Option Nat
  price : Coin
  /-- `none` omitted; `some none` a string `addr_validate` rejects -/
  payAddr : Option (Option Addr)
  wl : WlRef
  trade : Option Nat
  /-- (share atomics, payment address or `none` if invalid) -/
  royalty : Option (Nat × Option Addr)
  descLen : Nat
  imageOk : Bool
  linkOk : Option Bool
  /-- base token uri / nft token uri parses as a URL -/
  uriOk : Bool
  /-- open edition: `NftData::valid_nft_data` -/
  nftOk : Bool
deriving Repr

/-! ## 3 % rule (`vending-minter/src/validation.rs`) -/

/-- `get_three_percent_of_tokens`: `Uint128::checked_mul_ceil((3, 100))` -/
def threePercentOfTokens (n : Nat) : Nat :=
  let p := n * 3
  if p % 100 = 0 then p / 100 else p / 100 + 1

/-- `check_dynamic_per_address_limit(per_address_limit, num_tokens, max_per_address_limit)` -/
def checkDynamic (l n m : Nat) : Bool :=
  if l > m then false
  else if n < 100 then decide (l ≤ 3)
  else decide (l ≤ threePercentOfTokens n)

/-! ## World -/

abbrev Bank := Addr → Denom → Nat
abbrev Supply := Denom → Nat

structure ContractInfo where
  addr : Addr
  code : Nat
  /-- `ContractInfoResponse.creator`: who instantiated it -/
  instantiator : Addr
  /-- wasm-level (migration) admin -/
  admin : Option Addr
deriving Repr, DecidableEq

structure Factory where
  addr : Addr
  p : Params
deriving Repr

structure Whitelist where
  addr : Addr
  flex : Bool
  start : Nat
  end_ : Nat
deriving Repr

/-- minter `Config` (+ `SG721_ADDRESS`); fields a kind does not have are `none` -/
structure Minter where
  addr : Addr
  kind : MKind
  factory : Addr
  admin : Option Addr
  sg721 : Addr
  sg721Code : Nat
  numTokens : Option Nat
  perAddr : Option Nat
  start : Option Nat
  endTime : Option Nat
  price : Option Coin
  wl : Option Addr
  payAddr : Option Addr
deriving Repr, DecidableEq

structure Collection where
  addr : Addr
  /-- cw-ownable owner = the `minter` of the sg721 instantiate message -/
  owner : Addr
  creator : Addr
  trade : Option Nat
  royalty : Option (Nat × Addr)
deriving Repr, DecidableEq

structure World where
  now : Nat := 0
  /-- number of contracts instantiated so far; cw-multi-test names the next one `contract{next}` = id `1000+next` -/
  next : Nat := 0
  bal : Bank := fun _ _ => 0
  supply : Supply := fun _ => 0
  contracts : List ContractInfo := []
  factories : List Factory := []
  whitelists : List Whitelist := []
  minters : List Minter := []
  collections : List Collection := []

def World.factory? (w : World) (a : Addr) : Option Factory := w.factories.find? (fun f => f.addr == a)
def World.whitelist? (w : World) (a : Addr) : Option Whitelist := w.whitelists.find? (fun f => f.addr == a)
def World.minter? (w : World) (a : Addr) : Option Minter := w.minters.find? (fun f => f.addr == a)
def World.collection? (w : World) (a : Addr) : Option Collection := w.collections.find? (fun f => f.addr == a)
def World.contract? (w : World) (a : Addr) : Option ContractInfo := w.contracts.find? (fun f => f.addr == a)

/-! ## Bank (cw-multi-test `BankKeeper` / x/bank): zero-amount transfers and overdrafts abort -/

def credit (b : Bank) (a : Addr) (c : Coin) : Bank :=
  fun x d => if x = a ∧ d = c.denom then b x d + c.amount else b x d

def debit? (b : Bank) (a : Addr) (c : Coin) : Option Bank :=
  if c.amount = 0 then none
  else if b a c.denom < c.amount then none
  else some (fun x d => if x = a ∧ d = c.denom then b x d - c.amount else b x d)

def transfer? (b : Bank) (src dst : Addr) (c : Coin) : Option Bank :=
  (debit? b src c).map (fun b1 => credit b1 dst c)

/-- one message of a contract response, executed with the contract `self` as sender -/
def execMsg (self : Addr) (s : Bank × Supply) : Msg → Option (Bank × Supply)
  | .burn c => (debit? s.1 self c).map (fun b => (b, fun d => if d = c.denom then s.2 d - c.amount else s.2 d))
  | .send to c => (transfer? s.1 self to c).map (fun b => (b, s.2))
  | .fundPool _ c => (transfer? s.1 self FAIRBURN_POOL c).map (fun b => (b, s.2))

def execMsgs (self : Addr) (s : Bank × Supply) : List Msg → Option (Bank × Supply)
  | [] => some s
  | m :: ms => (execMsg self s m).bind (fun s1 => execMsgs self s1 ms)

/-! ## Factory level: `execute_create_minter` -/

/-- `must_pay` (base, vending, token-merge) / `must_pay_exact_amount` (open edition) -/
def payOk (p : Params) (funds : List Coin) : Bool :=
  match mustPay funds p.fee.denom with
  | .ok a => if p.kind = .openEdition then decide (a = p.fee.amount) else true
  | .error _ => false

/-- the fee branch: native ⇒ `checked_fair_burn(info, env, fee, None)`, otherwise `transfer_funds_to_launchpad_dao` -/
def feeMsgs (self : Addr) (p : Params) (funds : List Coin) : Except Err (List Msg) :=
  if p.fee.denom = NATIVE then Sg1.checkedFairBurn funds self p.fee.amount none
  else Sg1.transferFundsToLaunchpadDao funds p.fee.amount p.fee.denom

def tokensOk (p : Params) (n : Nat) : Bool := decide (1 ≤ n) && decide (n ≤ p.maxTokens)
def perAddrOk (p : Params) (l : Nat) : Bool := decide (1 ≤ l) && decide (l ≤ p.maxPerAddr)
def priceOk (p : Params) (c : Coin) : Bool := decide (p.minPrice.denom = c.denom) && decide (p.minPrice.amount ≤ c.amount)

/-- the sale-parameter checks of each factory (open edition: `validate` + the checks after it) -/
def saleOk (p : Params) (now : Nat) (m : CreateMsg) : Bool :=
  match p.kind with
  | .vending => tokensOk p (m.numTokens.getD 0) && perAddrOk p m.perAddr && priceOk p m.price
  | .tokenMerge => tokensOk p (m.numTokens.getD 0) && perAddrOk p m.perAddr
  | .openEdition =>
    m.nftOk
    && (match m.numTokens with | none => true | some n => tokensOk p n)
    && perAddrOk p m.perAddr
    && decide (now < m.start)
    && (match m.endTime with | none => true | some e => decide (m.start < e))
    && (m.endTime.isSome || m.numTokens.isSome)
    && priceOk p m.price
    && (m.numTokens.isSome || decide (m.price.amount ≠ 0))
    && (decide (p.airdropPrice.amount ≠ 0) || m.numTokens.isSome)
  | .base => true

def factoryOk (self : Addr) (p : Params) (now : Nat) (m : CreateMsg) : Bool :=
  payOk p m.funds && decide (m.sg721Code ∈ p.allowed) && !p.frozen
  && (feeMsgs self p m.funds).isOk && saleOk p now m

/-! ## Minter level: `instantiate` of the code `params.code_id` -/

def wlOk (w : World) (flex : Bool) : WlRef → Bool
  | .none => true
  | .bad => true
  | .addr a =>
    match w.whitelist? a with
    | none => false
    | some wl => (wl.flex == flex) && !(decide (wl.start ≤ w.now) && decide (w.now < wl.end_))

def tradeOk (p : Params) (m : CreateMsg) : Bool :=
  match m.trade with
  | none => true
  | some t => decide (t ≤ m.start + p.offset * 10^9)

def payAddrOk (m : CreateMsg) : Bool :=
  match m.payAddr with
  | some none => false
  | _ => true

def GENESIS : Nat := Gen.sg_utils_GENESIS_MINT_START_TIME

def minterOk (mk : MKind) (p : Params) (w : World) (m : CreateMsg) : Bool :=
  match mk.family with
  | .vending =>
    (!mk.threePct || checkDynamic m.perAddr (m.numTokens.getD 0) p.maxPerAddr)
    && m.uriOk && decide (GENESIS ≤ m.start) && decide (w.now ≤ m.start)
    && wlOk w mk.flexWl m.wl && tradeOk p m && m.creator.isSome && payAddrOk m
  | .tokenMerge =>
    checkDynamic m.perAddr (m.numTokens.getD 0) p.maxPerAddr
    && m.uriOk && decide (GENESIS ≤ m.start) && decide (w.now ≤ m.start)
    && tradeOk p m && m.creator.isSome
  | .openEdition =>
    m.uriOk && wlOk w mk.flexWl m.wl && tradeOk p m && m.creator.isSome && payAddrOk m
  | .base => m.creator.isSome

/-! ## Collection level: sg721 `instantiate` (sub-message of the minter, reply records the address) -/

def royaltyOk (m : CreateMsg) : Bool :=
  match m.royalty with
  | none => true
  | some (share, pay) => pay.isSome && decide (share ≤ DEC_ONE)

def collectionOk (m : CreateMsg) : Bool :=
  isSg721Code m.sg721Code
  && decide (m.descLen ≤ Gen.sg721_base_MAX_DESCRIPTION_LENGTH)
  && m.imageOk && (m.linkOk != some false) && royaltyOk m && m.creator.isSome

/-! ## Bank effect of a create: funds to the factory, then the fee messages -/

def bankStep (b : Bank) (s : Supply) (self : Addr) (p : Params) (m : CreateMsg) : Option (Bank × Supply) :=
  match m.funds, feeMsgs self p m.funds with
  | [c], .ok msgs => (transfer? b m.sender self c).bind (fun b1 => execMsgs self (b1, s) msgs)
  | _, _ => none

/-- everything the transaction checks -/
def createOk (self : Addr) (p : Params) (w : World) (m : CreateMsg) : Bool :=
  match MKind.ofCode p.codeId with
  | none => false
  | some mk =>
    compat p.kind mk && factoryOk self p w.now m && minterOk mk p w m && collectionOk m
    && (bankStep w.bal w.supply self p m).isSome

/-! ## Post-state -/

def tradeStored (mk : MKind) (p : Params) (now : Nat) (m : CreateMsg) : Nat :=
  match m.trade with
  | some t => t
  | none => (if mk.family = .base then now else m.start) + p.offset * 10^9

def wlStored : WlRef → Option Addr
  | .addr a => some a
  | _ => none

def minterRec (mk : MKind) (self : Addr) (p : Params) (m : CreateMsg) (creator ma ca : Addr) : Minter :=
  match mk.family with
  | .vending =>
    { addr := ma, kind := mk, factory := self, admin := some creator, sg721 := ca, sg721Code := m.sg721Code,
      numTokens := some (m.numTokens.getD 0), perAddr := some m.perAddr, start := some m.start, endTime := none,
      price := some m.price, wl := wlStored m.wl, payAddr := none }
  | .tokenMerge =>
    { addr := ma, kind := mk, factory := self, admin := some creator, sg721 := ca, sg721Code := m.sg721Code,
      numTokens := some (m.numTokens.getD 0), perAddr := some m.perAddr, start := some m.start, endTime := none,
      price := none, wl := none, payAddr := none }
  | .openEdition =>
    { addr := ma, kind := mk, factory := self, admin := some creator, sg721 := ca, sg721Code := m.sg721Code,
      numTokens := m.numTokens, perAddr := some m.perAddr, start := some m.start, endTime := m.endTime,
      price := some m.price, wl := wlStored m.wl, payAddr := m.payAddr.bind id }
  | .base =>
    { addr := ma, kind := mk, factory := self, admin := none, sg721 := ca, sg721Code := m.sg721Code,
      numTokens := none, perAddr := none, start := none, endTime := none,
      price := some p.minPrice, wl := none, payAddr := none }

def royaltyStored (m : CreateMsg) : Option (Nat × Addr) :=
  match m.royalty with
  | some (share, some pay) => some (share, pay)
  | _ => none

def minterAddr (w : World) : Addr := 1000 + w.next
def collectionAddr (w : World) : Addr := 1000 + w.next + 1

def post (w : World) (self : Addr) (p : Params) (mk : MKind) (m : CreateMsg) (creator : Addr)
    (bs : Bank × Supply) : World :=
  let ma := minterAddr w
  let ca := collectionAddr w
  { w with
    next := w.next + 2
    bal := bs.1
    supply := bs.2
    contracts := w.contracts ++ [⟨ma, p.codeId, self, some m.sender⟩, ⟨ca, m.sg721Code, ma, some creator⟩]
    minters := w.minters ++ [minterRec mk self p m creator ma ca]
    collections := w.collections ++ [⟨ca, ma, creator, some (tradeStored mk p w.now m), royaltyStored m⟩] }

/-- `CreateMinter` sent to the contract at `self` -/
def create (w : World) (self : Addr) (m : CreateMsg) : Except Err World :=
  match w.factory? self with
  | none => .error .notFound
  | some f =>
    if createOk self f.p w m then
      match MKind.ofCode f.p.codeId, m.creator, bankStep w.bal w.supply self f.p m with
      | some mk, some creator, some bs => .ok (post w self f.p mk m creator bs)
      | _, _, _ => .error .other
    else .error .invalid

/-! ## `execute_update_per_address_limit` -/

def limitOk (mt : Minter) (p : Params) (sender : Addr) (funds : List Coin) (l : Nat) : Bool :=
  decide (mt.kind.family ≠ .base) && funds.isEmpty && decide (mt.admin = some sender)
  && perAddrOk p l
  && (!mt.kind.threePct || checkDynamic l (mt.numTokens.getD 0) p.maxPerAddr)

def setLimit (w : World) (ma sender : Addr) (funds : List Coin) (l : Nat) : Except Err World :=
  match w.minter? ma with
  | none => .error .notFound
  | some mt =>
    match w.factory? mt.factory with
    | none => .error .notFound
    | some f =>
      if limitOk mt f.p sender funds l then
        .ok { w with minters := w.minters.map (fun x => if x.addr = ma then { x with perAddr := some l } else x) }
      else .error .invalid

/-! ## Operations -/

inductive Op where
  | time (t : Nat)
  | fund (who : Addr) (d : Denom) (amt : Nat)
  /-- factory `instantiate` (stores the params verbatim) -/
  | mkFactory (p : Params)
  | updateParams (f : Addr) (u : Update)
  /-- a whitelist was instantiated by the environment (`ok` = whether that succeeded; `poolD`, `supD` = what its own
  creation fee added to the fair-burn pool / the native supply — environment witnesses, not part of C08) -/
  | mkWl (flex : Bool) (start end_ : Nat) (ok : Bool) (poolD supD : Nat)
  | create (f : Addr) (m : CreateMsg)
  | setLimit (ma sender : Addr) (funds : List Coin) (l : Nat)

def factoryCode : FKind → Nat
  | .vending => 12 | .openEdition => 13 | .tokenMerge => 14 | .base => 15

def GOV : Addr := 90

def step (w : World) : Op → Except Err World
  | .time t => .ok { w with now := t }
  | .fund who d amt =>
    .ok { w with bal := credit w.bal who ⟨d, amt⟩, supply := fun x => if x = d then w.supply x + amt else w.supply x }
  | .mkFactory p =>
    let a := 1000 + w.next
    .ok { w with next := w.next + 1
                 contracts := w.contracts ++ [⟨a, factoryCode p.kind, GOV, none⟩]
                 factories := w.factories ++ [⟨a, p.normalize⟩] }
  | .updateParams fa u =>
    match w.factory? fa with
    | none => .error .notFound
    | some f =>
      match applyUpdate f.p u with
      | .error e => .error e
      | .ok p' => .ok { w with factories := w.factories.map (fun x => if x.addr = fa then { x with p := p' } else x) }
  | .mkWl flex s e ok poolD supD =>
    if ok then
      let a := 1000 + w.next
      .ok { w with next := w.next + 1
                   bal := credit w.bal FAIRBURN_POOL ⟨NATIVE, poolD⟩
                   supply := fun x => if x = NATIVE then w.supply x + supD else w.supply x
                   contracts := w.contracts ++ [⟨a, if flex then 21 else 20, 11, none⟩]
                   whitelists := w.whitelists ++ [⟨a, flex, s, e⟩] }
    else .error .invalid
  | .create f m => create w f m
  | .setLimit ma sender funds l => setLimit w ma sender funds l

/-- transactional semantics: a failed operation leaves the world unchanged -/
def step' (w : World) (op : Op) : World :=
  match step w op with
  | .ok w' => w'
  | .error _ => w

def run (w : World) (ops : List Op) : World := ops.foldl step' w

/-- wasm-level `MsgMigrateContract`: the chain lets only the registry's (wasm) admin of a contract migrate it. For a minter
that is the SENDER of `CreateMinter` (`WasmMsg::Instantiate { admin: Some(info.sender) }` in all four factories), not the
creator named in the request. -/
def mayMigrate (w : World) (a sender : Addr) : Bool :=
  match w.contract? a with
  | some c => c.admin == some sender
  | none => false

end LP.FC
