import LaunchpadModel.Model.VendingFull
/-!
# Composite model of the base family: `base-factory` + `base-minter` (DESIGN §3.4) — core Lean only

ONE deterministic, executable model of `contracts/factories/base-factory` and `contracts/minters/base-minter` as the code is
now: factory `instantiate` / `CreateMinter` / `sudo UpdateParams` / `migrate` / the three queries; minter `instantiate`
(through the factory and directly), the sg721 instantiate sub-message and `reply`, both `ExecuteMsg` kinds (`Mint {token_uri}`,
`UpdateStartTradingTime`), `sudo UpdateStatus`, both queries.  Every gate is computed here: creator-only authorisation (read
LIVE from the collection's `collection_info.creator`), `must_pay` / exact payment, the price captured at creation
(= the factory's `min_mint_price` THEN) times the factory's `mint_fee_bps` NOW, the whole of it fair-burned, the clock rule of
`UpdateStartTradingTime`, the factory's fee / allow-list / frozen rules, the sg721 `instantiate` checks.
See `docs/COMPOSITE_BASE.md` for the function-by-function map.

Variants: the minter crate is one; what varies is the collection contract it is wired to (`Variant.coll`: sg721-base,
-updatable, -nt, -metadata-onchain — looked up from `collection_params.code_id` at `CreateMinter` time). It decides whether the
`Mint` sub-message parses (`mintParses`), whether `UpdateStartTradingTime` exists on the collection (`TT.CollKind.hasTradingMsg`),
whether tokens can be transferred (`collTransfer`) and whether `UpdateOwnership` exists (`TT.CollKind.hasOwnershipMsg`).

Taken from outside (explicit interface, as in `LP.VF` / `LP.OE`):

* no pseudo-randomness exists in this family (token ids are sequential);
* the chain: the addresses given to the new minter / collection (`CreateWit`), the code-id tables (`VF.Codes`: `minters` = the
  code ids that are `base-minter`, `colls` = the four sg721 codes), the wasm admin of the factory;
* the sg721 collection enters through the interface only: its `instantiate` checks (transcribed in `collectionChecks` from the
  flags of `CreateMsg`), the token table (`Supply.Coll` inside `Supply.Seq`), the ownership / creator / frozen / trading-time
  record (`TT.Coll`), the stored token URIs and royalty; what other parties send to the collection are the interface ops
  `collTransfer … collOwn`;
* `Url::parse(token_uri)` = the flag `uriOk` on the mint; `addr_validate` of user strings = `Option Addr` (`none` = rejected).

Reused as they stand: `VF.Status / Codes / nativeOr / updateAllowed / emptyBank`, `Supply.Seq` (+ `mint`), `Supply.Coll`,
`MintPay.Bank / applyMsgs`, `Sg1.*`, `mayPay / mustPay / nonpayable`, `TT.Coll.*`, `TT.plusSeconds`.
One minter per factory per case (as in every aspect model and the other composites).
-/
namespace LP.BF
open LP
open LP.VF (Status Codes)

/-! ## Variants -/

/-- which collection contract the minter is wired to -/
structure Variant where
  coll : TT.CollKind
deriving DecidableEq, Repr

def variantOf (c : Codes) (collCode : Nat) : Option Variant :=
  match c.collKindOf collCode with
  | some k => some ⟨k⟩
  | none => none

/-- does the collection contract deserialise the `Mint` sub-message base-minter sends
(`sg721::ExecuteMsg::<Option<Empty>, Empty>::Mint {extension: None}`)?  sg721-metadata-onchain wants a `Metadata` there
(measured by `compbase.rs`: a base minter on that collection can never mint) -/
def mintParses (k : TT.CollKind) : Bool := decide (k ≠ .metadata)

/-! ## Stored records -/

/-- `base_factory::state::BaseMinterParams` = `sg2::MinterParams<Option<Empty>>` -/
structure Params where
  codeId : Nat
  allowed : List Nat
  frozen : Bool
  creationFee : Coin
  minMintPrice : Coin
  mintFeeBps : Nat
  maxTradingOffsetSecs : Nat
  /-- `extension`: `Some(Empty {})`? (stored at instantiate, never read, never changed) -/
  ext : Bool
deriving DecidableEq, Repr

/-- `BaseUpdateParamsMsg` = `sg2::msg::UpdateMinterParamsMsg<Option<Empty>>` (`ext` is accepted and ignored) -/
structure ParamsUpdate where
  codeId : Option Nat := none
  addCodes : Option (List Nat) := none
  rmCodes : Option (List Nat) := none
  frozen : Option Bool := none
  creationFee : Option Coin := none
  minMintPrice : Option Coin := none
  mintFeeBps : Option Nat := none
  maxTradingOffsetSecs : Option Nat := none
  ext : Bool := false
deriving DecidableEq, Repr

/-- One base minter together with the part of its collection (and of the chain's contract registry) the interface exposes. -/
structure Minter where
  v : Variant
  /-- `env.contract.address` -/
  addr : Addr
  -- `CONFIG` (`sg4::MinterConfig<Empty>`)
  factory : Addr
  collectionCodeId : Nat
  /-- the factory's `min_mint_price` AT CREATION (never re-read) -/
  mintPrice : Coin
  /-- `COLLECTION_ADDRESS` (written by `reply`) -/
  sg721 : Addr
  /-- `TOKEN_INDEX` (`tokenIndex`), ghosts, and the collection's token table -/
  seq : Supply.Seq
  /-- `STATUS` -/
  status : Status
  /-- collection side: token id ↦ interned `token_uri` as stored -/
  uris : List (Nat × Nat)
  /-- collection side: cw_ownable owner / pending, `collection_info.creator`, frozen flag, `start_trading_time` -/
  tt : TT.Coll
  /-- collection side: `collection_info.royalty_info` (share atomics, payment address) -/
  royalty : Option (Nat × Addr)
  /-- collection side: `royalty_updated_at` = the block time of the creation -/
  createdAt : Nat
  -- the chain's contract registry
  /-- the code the factory instantiated (`params.code_id` then) -/
  codeId : Nat
  /-- wasm (migration) admin of the minter = the SENDER of `CreateMinter` -/
  wasmAdmin : Addr
  /-- wasm admin of the collection = the creator named in the request -/
  collAdmin : Addr

structure State where
  now : Nat
  codes : Codes
  factoryAddr : Addr
  /-- wasm admin of the factory (who may `migrate` it) -/
  factoryAdmin : Option Addr
  params : Params
  bank : MintPay.Bank
  minter : Option Minter

/-! ## Messages -/

/-- `BaseMinterCreateMsg` = `CreateMinterMsg<Option<Empty>>` (`name` / `symbol` / `explicit_content` are not modelled) -/
structure CreateMsg where
  /-- `init_msg`: `Some(Empty {})`? — accepted and ignored -/
  initExt : Bool := false
  /-- `collection_params.code_id` -/
  collCode : Nat
  /-- `collection_params.info.creator`; `none` = a string `addr_validate` rejects -/
  creator : Option Addr
  /-- `collection_params.info.start_trading_time` -/
  trading : Option Nat
  /-- byte length of `info.description` -/
  descLen : Nat
  /-- `Url::parse(info.image)` succeeds -/
  imageOk : Bool
  /-- `info.external_link`: absent, or whether it parses -/
  linkOk : Option Bool
  /-- `info.royalty_info`: (share atomics, payment address or `none` when `addr_validate` rejects it) -/
  royalty : Option (Nat × Option Addr)
deriving Repr

structure CreateWit where
  minterAddr : Addr
  collAddr : Addr
deriving Repr

inductive Op where
  | setTime (t : Nat)
  | fund (a : Addr) (c : Coin)
  | create (sender : Addr) (funds : List Coin) (msg : CreateMsg) (w : CreateWit)
  | instantiateDirect (sender : Addr)
  | mint (sender : Addr) (funds : List Coin) (uri : Nat) (uriOk : Bool)
  | updateStartTradingTime (sender : Addr) (funds : List Coin) (t : Option Nat)
  | sudoStatus (verified blocked explicit : Bool)
  | sudoParams (u : ParamsUpdate)
  /-- `MsgMigrateContract` of the factory to its own code with `Some(update)` / `None` -/
  | migrate (sender : Addr) (u : Option ParamsUpdate)
  /-- a message kind neither contract of the family has (another family's `ExecuteMsg`, a sudo message through `execute`, …) -/
  | foreign (sender : Addr)
  | collTransfer (sender : Addr) (id : Nat) (to : Addr)
  | collBurn (sender : Addr) (id : Nat)
  | collTrading (sender : Addr) (t : Option Nat)
  | collCreator (sender : Addr) (new : Addr)
  | collFreeze (sender : Addr)
  | collOwn (sender : Addr) (a : TT.OwnAction)

/-! ## Factory -/

/-- `base_factory::contract::update_params` (the only failure: a non-native `min_mint_price`; nothing is saved then) -/
def updateParams (p : Params) (u : ParamsUpdate) : Except Err Params :=
  match VF.nativeOr u.minMintPrice p.minMintPrice with
  | .error e => .error e
  | .ok minp =>
    .ok { codeId := u.codeId.getD p.codeId
          allowed := VF.updateAllowed p.allowed u.addCodes u.rmCodes
          frozen := u.frozen.getD p.frozen
          creationFee := u.creationFee.getD p.creationFee
          minMintPrice := minp
          mintFeeBps := u.mintFeeBps.getD p.mintFeeBps
          maxTradingOffsetSecs := u.maxTradingOffsetSecs.getD p.maxTradingOffsetSecs
          ext := p.ext }

/-- the fee branch of `execute_create_minter`: a native fee is fair-burned on behalf of the factory (`fee`, not the payment),
any other denom goes in full to the launchpad DAO -/
def creationFeeMsgs (s : State) (funds : List Coin) : Except Err (List Msg) :=
  if s.params.creationFee.denom = NATIVE then
    Sg1.checkedFairBurn funds s.factoryAddr s.params.creationFee.amount none
  else
    Sg1.transferFundsToLaunchpadDao funds s.params.creationFee.amount s.params.creationFee.denom

/-- everything `execute_create_minter` does before the `WasmMsg::Instantiate`: `must_pay` (NOT the exact amount),
`must_be_allowed_collection`, `must_not_be_frozen`, the fee messages -/
def factoryChecks (s : State) (funds : List Coin) (msg : CreateMsg) : Except Err (List Msg) :=
  match mustPay funds s.params.creationFee.denom with
  | .error e => .error e
  | .ok _ =>
    if !(s.params.allowed.contains msg.collCode) then .error .invalid
    else if s.params.frozen then .error .frozen
    else creationFeeMsgs s funds

/-- `royalty_info`: `addr_validate(payment_address)`, `share_validate` (≤ 100 %) -/
def royaltyOk (r : Option (Nat × Option Addr)) : Bool :=
  match r with
  | none => true
  | some (share, pay) => pay.isSome && decide (share ≤ DEC_ONE)

/-- what the collection stores -/
def royaltyStored (r : Option (Nat × Option Addr)) : Option (Nat × Addr) :=
  match r with
  | some (share, some pay) => some (share, pay)
  | _ => none

/-- `Sg721Contract::instantiate`: description length, image URL, external link, royalty (the creator string has already been
validated by the minter; the sender is the minter contract; no funds are forwarded) -/
def collectionChecks (msg : CreateMsg) : Bool :=
  decide (msg.descLen ≤ Gen.sg721_base_MAX_DESCRIPTION_LENGTH) && msg.imageOk && (msg.linkOk != some false)
    && royaltyOk msg.royalty

/-- `.or_else(|| Some(env.block.time.plus_seconds(offset)))` — no bound, not even "not in the past" -/
def createTrading (s : State) (msg : CreateMsg) : Nat :=
  match msg.trading with
  | some t => t
  | none => TT.plusSeconds s.now s.params.maxTradingOffsetSecs

/-- minter `instantiate` (sender = the factory, whose `Params {}` answer parses) + the sg721 instantiate sub-message + `reply` -/
def instantiateMinter (s : State) (sender : Addr) (msg : CreateMsg) (w : CreateWit) : Except Err Minter :=
  match msg.creator with
  | none => .error .invalid
  | some creator =>
    match variantOf s.codes msg.collCode with
    | none => .error .notFound
    | some v =>
      if collectionChecks msg = false then .error .invalid
      else
        .ok { v := v, addr := w.minterAddr, factory := s.factoryAddr, collectionCodeId := msg.collCode,
              mintPrice := s.params.minMintPrice, sg721 := w.collAddr,
              seq := Supply.Seq.create .base none 0 false, status := {}, uris := [],
              tt := TT.Coll.init v.coll w.minterAddr creator (some (createTrading s msg)),
              royalty := royaltyStored msg.royalty, createdAt := s.now,
              codeId := s.params.codeId, wasmAdmin := sender, collAdmin := creator }

/-- the whole `CreateMinter` transaction -/
def createMinter (s : State) (sender : Addr) (funds : List Coin) (msg : CreateMsg) (w : CreateWit) : Except Err State :=
  if s.minter.isSome then .error .other        -- the model follows ONE minter per case
  else
    match s.bank.sendFunds sender s.factoryAddr funds with
    | none => .error .payment
    | some b1 =>
      match factoryChecks s funds msg with
      | .error e => .error e
      | .ok ms =>
        match MintPay.applyMsgs s.factoryAddr b1 ms with
        | none => .error .other
        | some b2 =>
          -- `WasmMsg::Instantiate {code_id: params.code_id}`: only base-minter code parses `BaseMinterCreateMsg`
          if !(s.codes.minters.contains s.params.codeId) then .error .notFound
          else
            match instantiateMinter s sender msg w with
            | .error e => .error e
            | .ok m => .ok { s with bank := b2, minter := some m }

/-! ## Minter -/

/-- `config.mint_price.amount * Decimal::bps(factory_params.mint_fee_bps)`: captured price × the LIVE fee rate -/
def networkFee (p : Params) (m : Minter) : Nat := mulFloor m.mintPrice.amount (bps p.mintFeeBps)

/-- payment part of `execute_mint_sender`: `must_pay(NATIVE)` (whatever the denom of the captured price), the fee must equal
the payment, `checked_fair_burn(fee, None)` on behalf of the minter -/
def mintMsgs (p : Params) (m : Minter) (funds : List Coin) : Except Err (List Msg) :=
  match mustPay funds NATIVE with
  | .error e => .error e
  | .ok sent =>
    if networkFee p m ≠ sent then .error .payment
    else Sg1.checkedFairBurn funds m.addr (networkFee p m) none

/-- `execute_mint_sender` + the `Mint` sub-message to the collection -/
def mint (s : State) (m : Minter) (sender : Addr) (funds : List Coin) (uri : Nat) (uriOk : Bool) : Except Err State :=
  match s.bank.sendFunds sender m.addr funds with
  | none => .error .payment
  | some b1 =>
    -- "allow only sg721 creator address to mint"
    if m.tt.creator ≠ sender then .error .unauthorized
    else if uriOk = false then .error .invalid
    else
      match mintMsgs s.params m funds with
      | .error e => .error e
      | .ok ms =>
        if m.tt.owner ≠ some m.addr then .error .unauthorized
        else if mintParses m.v.coll = false then .error .invalid
        else
          match m.seq.mint sender with
          | none => .error .other
          | some sq =>
            match MintPay.applyMsgs m.addr b1 ms with
            | none => .error .other
            | some b2 =>
              .ok { s with bank := b2, minter := some { m with seq := sq, uris := (sq.tokenIndex, uri) :: m.uris } }

/-- `env.block.time > start_time` -/
def tradingInPast (now : Nat) (t : Option Nat) : Bool :=
  match t with
  | some t => decide (now > t)
  | none => false

/-- `execute_update_start_trading_time` + the sub-message to the collection -/
def updateStartTradingTime (s : State) (m : Minter) (sender : Addr) (funds : List Coin) (t : Option Nat) : Except Err Minter :=
  match nonpayable funds with
  | .error e => .error e
  | .ok _ =>
    if sender ≠ m.tt.creator then .error .unauthorized
    else if tradingInPast s.now t then .error .invalid
    else
      match m.tt.updateTrading m.addr t with
      | .error e => .error e
      | .ok c => .ok { m with tt := c }

/-! ## Collection interface -/

def collTransfer (m : Minter) (sender : Addr) (id : Nat) (to : Addr) : Except Err Minter :=
  if m.v.coll = .nt then .error .unauthorized
  else if m.seq.coll.ownerOf id ≠ some sender then .error .unauthorized
  else
    match m.seq.coll.transfer id to with
    | none => .error .notFound
    | some c => .ok { m with seq := { m.seq with coll := c } }

def collBurn (m : Minter) (sender : Addr) (id : Nat) : Except Err Minter :=
  if m.seq.coll.ownerOf id ≠ some sender then .error .unauthorized
  else
    match m.seq.coll.burn id with
    | none => .error .notFound
    | some c => .ok { m with seq := { m.seq with coll := c }, uris := m.uris.filter fun e => e.1 != id }

/-! ## step -/

def withMinter (s : State) (f : Minter → Except Err Minter) : Except Err State :=
  match s.minter with
  | none => .error .notFound
  | some m =>
    match f m with
    | .error e => .error e
    | .ok m' => .ok { s with minter := some m' }

def withMinterS (s : State) (f : Minter → Except Err State) : Except Err State :=
  match s.minter with
  | none => .error .notFound
  | some m => f m

def onColl (s : State) (f : TT.Coll → Except Err TT.Coll) : Except Err State :=
  withMinter s fun m =>
    match f m.tt with
    | .error e => .error e
    | .ok c => .ok { m with tt := c }

def sudoParams (s : State) (u : ParamsUpdate) : Except Err State :=
  match updateParams s.params u with
  | .error e => .error e
  | .ok p => .ok { s with params := p }

/-- `base_factory::contract::migrate` (same code: the cw2 name matches and the stored version is not newer): the chain lets
only the wasm admin through; `Some(msg)` applies the same update as `sudo UpdateParams`, `None` changes nothing -/
def migrate (s : State) (sender : Addr) (u : Option ParamsUpdate) : Except Err State :=
  if s.factoryAdmin ≠ some sender then .error .unauthorized
  else
    match u with
    | none => .ok s
    | some u => sudoParams s u

def step (s : State) : Op → Except Err State
  | .setTime t => if t < s.now then .error .invalid else .ok { s with now := t }
  | .fund a c => .ok { s with bank := s.bank.fund a c }
  | .create sender funds msg w => createMinter s sender funds msg w
  | .instantiateDirect _ => .error .unauthorized
  | .mint sender funds uri uriOk => withMinterS s (mint s · sender funds uri uriOk)
  | .updateStartTradingTime sender funds t => withMinter s (updateStartTradingTime s · sender funds t)
  | .sudoStatus v b e => withMinter s fun m => .ok { m with status := ⟨v, b, e⟩ }
  | .sudoParams u => sudoParams s u
  | .migrate sender u => migrate s sender u
  | .foreign _ => .error .invalid
  | .collTransfer sender id to => withMinter s (collTransfer · sender id to)
  | .collBurn sender id => withMinter s (collBurn · sender id)
  | .collTrading sender t => onColl s (·.updateTrading sender t)
  | .collCreator sender new => onColl s (·.updateCreator sender new)
  | .collFreeze sender => onColl s (·.freeze sender)
  | .collOwn sender a => onColl s (·.updateOwnership sender a)

/-- transactions are atomic: a failed message leaves the state unchanged -/
def step' (s : State) (op : Op) : State :=
  match step s op with
  | .ok s' => s'
  | .error _ => s

def run (s : State) (ops : List Op) : State := ops.foldl step' s

/-- factory `instantiate`: the params are stored verbatim (nothing is validated) -/
def init (now : Nat) (codes : Codes) (factoryAddr : Addr) (factoryAdmin : Option Addr) (p : Params) : State :=
  { now := now, codes := codes, factoryAddr := factoryAddr, factoryAdmin := factoryAdmin, params := p,
    bank := VF.emptyBank, minter := none }

/-! ## Queries -/

/-- factory `AllowedCollectionCodeId(code)` -/
def queryAllowed (s : State) (code : Nat) : Bool := s.params.allowed.contains code

/-- factory `AllowedCollectionCodeIds {}` -/
def queryAllowedIds (s : State) : List Nat := s.params.allowed

/-- factory `Params {}` -/
def queryParams (s : State) : Params := s.params

structure ConfigResp where
  factory : Addr
  collectionCodeId : Nat
  mintPrice : Coin
  collectionAddress : Addr
deriving Repr, DecidableEq

/-- minter `Config {}` -/
def queryConfig (m : Minter) : ConfigResp :=
  { factory := m.factory, collectionCodeId := m.collectionCodeId, mintPrice := m.mintPrice, collectionAddress := m.sg721 }

/-- minter `Status {}` -/
def queryStatus (m : Minter) : Status := m.status

end LP.BF
