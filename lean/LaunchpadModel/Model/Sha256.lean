/-!
# Executable SHA-256 (FIPS 180-4) in core Lean — no imports.

Used by the C14 driver as the concrete instance of the abstract hash `H` of `Model/Merkle.lean`
(`rs_merkle::algorithms::Sha256::hash` = `sha2::Sha256::digest` in the contracts). The theorems of C14 are
about an arbitrary `H`; the only fact about this instance that is *proved* is the digest length (32).
Functional correctness against the `sha2` crate is validated by the harness on every digest it computes.

The state is a structure of eight `UInt32` (not an array) so that the output is syntactically a 32-element list.
-/
namespace LP.Sha256

structure St where
  a : UInt32
  b : UInt32
  c : UInt32
  d : UInt32
  e : UInt32
  f : UInt32
  g : UInt32
  h : UInt32

def iv : St :=
  ⟨0x6a09e667, 0xbb67ae85, 0x3c6ef372, 0xa54ff53a, 0x510e527f, 0x9b05688c, 0x1f83d9ab, 0x5be0cd19⟩

def K : Array UInt32 := #[
  0x428a2f98, 0x71374491, 0xb5c0fbcf, 0xe9b5dba5, 0x3956c25b, 0x59f111f1, 0x923f82a4, 0xab1c5ed5,
  0xd807aa98, 0x12835b01, 0x243185be, 0x550c7dc3, 0x72be5d74, 0x80deb1fe, 0x9bdc06a7, 0xc19bf174,
  0xe49b69c1, 0xefbe4786, 0x0fc19dc6, 0x240ca1cc, 0x2de92c6f, 0x4a7484aa, 0x5cb0a9dc, 0x76f988da,
  0x983e5152, 0xa831c66d, 0xb00327c8, 0xbf597fc7, 0xc6e00bf3, 0xd5a79147, 0x06ca6351, 0x14292967,
  0x27b70a85, 0x2e1b2138, 0x4d2c6dfc, 0x53380d13, 0x650a7354, 0x766a0abb, 0x81c2c92e, 0x92722c85,
  0xa2bfe8a1, 0xa81a664b, 0xc24b8b70, 0xc76c51a3, 0xd192e819, 0xd6990624, 0xf40e3585, 0x106aa070,
  0x19a4c116, 0x1e376c08, 0x2748774c, 0x34b0bcb5, 0x391c0cb3, 0x4ed8aa4a, 0x5b9cca4f, 0x682e6ff3,
  0x748f82ee, 0x78a5636f, 0x84c87814, 0x8cc70208, 0x90befffa, 0xa4506ceb, 0xbef9a3f7, 0xc67178f2]

@[inline] def rotr (x : UInt32) (n : UInt32) : UInt32 := (x >>> n) ||| (x <<< (32 - n))

/-- extend the 16 message words of a block to the 64-word schedule -/
def schedule (w16 : Array UInt32) : Array UInt32 := Id.run do
  let mut w := w16
  for i in [16:64] do
    let w15 := w[i - 15]!
    let w2 := w[i - 2]!
    let s0 := rotr w15 7 ^^^ rotr w15 18 ^^^ (w15 >>> 3)
    let s1 := rotr w2 17 ^^^ rotr w2 19 ^^^ (w2 >>> 10)
    w := w.push (w[i - 16]! + s0 + w[i - 7]! + s1)
  return w

def round (s : St) (k w : UInt32) : St :=
  let S1 := rotr s.e 6 ^^^ rotr s.e 11 ^^^ rotr s.e 25
  let ch := (s.e &&& s.f) ^^^ ((~~~ s.e) &&& s.g)
  let t1 := s.h + S1 + ch + k + w
  let S0 := rotr s.a 2 ^^^ rotr s.a 13 ^^^ rotr s.a 22
  let maj := (s.a &&& s.b) ^^^ (s.a &&& s.c) ^^^ (s.b &&& s.c)
  let t2 := S0 + maj
  ⟨t1 + t2, s.a, s.b, s.c, s.d + t1, s.e, s.f, s.g⟩

def compress (st : St) (w16 : Array UInt32) : St := Id.run do
  let w := schedule w16
  let mut s := st
  for i in [0:64] do
    s := round s K[i]! w[i]!
  return ⟨st.a + s.a, st.b + s.b, st.c + s.c, st.d + s.d, st.e + s.e, st.f + s.f, st.g + s.g, st.h + s.h⟩

/-- message ‖ 0x80 ‖ 0…0 ‖ 64-bit big-endian bit length, a multiple of 64 bytes -/
def pad (msg : List Nat) : Array UInt8 := Id.run do
  let n := msg.length
  let mut a : Array UInt8 := Array.mkEmpty (n + 72)
  for b in msg do
    a := a.push (UInt8.ofNat b)
  a := a.push 0x80
  let zeros := (119 - n % 64) % 64     -- so that (n + 1 + zeros) % 64 = 56
  for _ in [0:zeros] do
    a := a.push 0
  let bits := n * 8
  for i in [0:8] do
    a := a.push (UInt8.ofNat ((bits >>> (8 * (7 - i))) % 256))
  return a

def wordAt (a : Array UInt8) (off : Nat) : UInt32 :=
  ((a[off]!).toUInt32 <<< 24) ||| ((a[off + 1]!).toUInt32 <<< 16) ||| ((a[off + 2]!).toUInt32 <<< 8) ||| (a[off + 3]!).toUInt32

def blockWords (a : Array UInt8) (blk : Nat) : Array UInt32 := Id.run do
  let mut w : Array UInt32 := Array.mkEmpty 64
  for j in [0:16] do
    w := w.push (wordAt a (blk * 64 + 4 * j))
  return w

def process (msg : List Nat) : St := Id.run do
  let a := pad msg
  let mut s := iv
  for blk in [0:a.size / 64] do
    s := compress s (blockWords a blk)
  return s

def be (x : UInt32) : List Nat :=
  [(x >>> 24).toNat % 256, (x >>> 16).toNat % 256, (x >>> 8).toNat % 256, x.toNat % 256]

def St.toBytes (s : St) : List Nat :=
  be s.a ++ be s.b ++ be s.c ++ be s.d ++ be s.e ++ be s.f ++ be s.g ++ be s.h

/-- SHA-256 of a byte string (bytes as naturals; values ≥ 256 are reduced mod 256) -/
def sha256 (msg : List Nat) : List Nat := (process msg).toBytes

theorem sha256_length (msg : List Nat) : (sha256 msg).length = 32 := rfl

end LP.Sha256
