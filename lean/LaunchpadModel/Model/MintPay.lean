import LaunchpadModel.Model.Sg1
/-!
# C02 aspect model — what a mint charges and where the money goes (all 11 minters)

Mirrors, per family, `mint_price()` and the payment / fee / payout part of `_execute_mint`
(`contracts/minters/*/src/contract.rs`, after fix commit e08eaf1) and `execute_mint_sender` of `base-minter`,
on top of a small bank (`cw-multi-test` 1.2 bank semantics, which agree with the chain where it matters here: a
transfer of more than the balance fails; a `Send`/`Burn` whose coins are all zero fails ("Cannot transfer empty coins
amount"), zero coins inside a longer list are ignored; the attached funds reach the contract before it runs; a failing
call commits nothing).

Everything C02 is silent about (per-address limits, sale window, supply, whitelist membership, authorisation,
the acceptance rules of price updates) is an environment-witnessed boolean (`allowed` / `acc`).  Prices, fees,
recipients and amounts are all computed here.
-/
namespace LP.MintPay
open LP

/-! ## Bank -/

structure Bank where
  bal : Addr → Denom → Nat
  /-- coins ever created per denom (initial supply + `fund`) -/
  minted : Denom → Nat
  /-- coins ever burned per denom -/
  burned : Denom → Nat

namespace Bank

def supply (b : Bank) (d : Denom) : Nat := b.minted d - b.burned d

def credit (b : Bank) (a : Addr) (d : Denom) (n : Nat) : Bank :=
  { b with bal := fun a' d' => if a' = a ∧ d' = d then b.bal a' d' + n else b.bal a' d' }

/-- fails when the balance is insufficient -/
def debit (b : Bank) (a : Addr) (d : Denom) (n : Nat) : Option Bank :=
  if n ≤ b.bal a d then
    some { b with bal := fun a' d' => if a' = a ∧ d' = d then b.bal a' d' - n else b.bal a' d' }
  else none

/-- `BankMsg::Send` of one coin; a zero amount is rejected -/
def send (b : Bank) (src dst : Addr) (c : Coin) : Option Bank :=
  if c.amount = 0 then none
  else
    match b.debit src c.denom c.amount with
    | none => none
    | some b' => some (b'.credit dst c.denom c.amount)

/-- `BankMsg::Burn` of one coin; a zero amount is rejected -/
def burn (b : Bank) (src : Addr) (c : Coin) : Option Bank :=
  if c.amount = 0 then none
  else
    match b.debit src c.denom c.amount with
    | none => none
    | some b' => some { b' with burned := fun d => if d = c.denom then b'.burned d + c.amount else b'.burned d }

/-- test-setup only: create coins (`BankSudo::Mint`) -/
def fund (b : Bank) (dst : Addr) (c : Coin) : Bank :=
  { b.credit dst c.denom c.amount with
    minted := fun d => if d = c.denom then b.minted d + c.amount else b.minted d }

/-- several coins, one after the other (all-or-nothing) -/
def sendAll (b : Bank) (src dst : Addr) : List Coin → Option Bank
  | [] => some b
  | c :: cs =>
    match b.send src dst c with
    | none => none
    | some b' => sendAll b' src dst cs

/-- the funds attached to a call move from the caller to the contract before it runs: nothing for an empty list;
otherwise the zero coins are dropped and at least one coin must remain -/
def sendFunds (b : Bank) (src dst : Addr) (funds : List Coin) : Option Bank :=
  match funds with
  | [] => some b
  | _ =>
    if (funds.filter fun c => c.amount != 0).isEmpty then none
    else sendAll b src dst (funds.filter fun c => c.amount != 0)

/-- sum of the balances of `accts` in denom `d` -/
def total (b : Bank) (accts : List Addr) (d : Denom) : Nat := (accts.map fun a => b.bal a d).sum

end Bank

/-- the account credited by a message (`none` for a burn) -/
def msgDest : Msg → Option Addr
  | .burn _ => none
  | .send to _ => some to
  | .fundPool _ _ => some FAIRBURN_POOL

/-- execute one bank/stargate message emitted by contract `self` (the stargate keeper debits the emitter) -/
def applyMsg (self : Addr) (b : Bank) : Msg → Option Bank
  | .burn c => b.burn self c
  | .send to c => b.send self to c
  | .fundPool _ c => b.send self FAIRBURN_POOL c

def applyMsgs (self : Addr) (b : Bank) : List Msg → Option Bank
  | [] => some b
  | m :: ms =>
    match applyMsg self b m with
    | none => none
    | some b' => applyMsgs self b' ms

/-- amount leaving the emitter in denom `d` -/
def outflow (d : Denom) : List Msg → Nat
  | [] => 0
  | m :: ms => (if m.denom = d then m.amount else 0) + outflow d ms

/-- amount credited to `a` in denom `d` -/
def inflow (a : Addr) (d : Denom) : List Msg → Nat
  | [] => 0
  | m :: ms => (if msgDest m = some a ∧ m.denom = d then m.amount else 0) + inflow a d ms

/-- amount destroyed in denom `d` -/
def burnt (d : Denom) : List Msg → Nat
  | [] => 0
  | m :: ms => (if msgDest m = none ∧ m.denom = d then m.amount else 0) + burnt d ms

/-! ## Contracts -/

inductive Family where
  | vending | openEdition | tokenMerge | base
deriving DecidableEq, Repr

/-- `featured` = the literal passed to `distribute_mint_fees` by that crate's `_execute_mint` -/
structure Variant where
  family : Family
  featured : Bool
deriving DecidableEq, Repr

/-- the 11 deployed minters in the harness's `MinterKind` order:
vending, -featured, -wl-flex, -wl-flex-featured, -merkle-wl, -merkle-wl-featured,
open-edition, -wl-flex, -merkle-wl, token-merge, base -/
def variants : List Variant :=
  [ ⟨.vending, false⟩, ⟨.vending, true⟩, ⟨.vending, false⟩, ⟨.vending, true⟩, ⟨.vending, false⟩, ⟨.vending, true⟩,
    ⟨.openEdition, false⟩, ⟨.openEdition, false⟩, ⟨.openEdition, false⟩, ⟨.tokenMerge, false⟩, ⟨.base, false⟩ ]

/-- the factory parameters a mint reads (`Sg2QueryMsg::Params`) -/
structure Factory where
  mintFeeBps : Nat
  airdropPrice : Coin
  airdropFeeBps : Nat
  /-- open-edition `dev_fee_address` -/
  devAddr : Addr

/-- what the minter reads from the whitelist's `Config {}` -/
structure Whitelist where
  price : Coin
  startT : Nat
  endT : Nat

/-- `is_active` of the whitelist contracts -/
def Whitelist.active (w : Whitelist) (now : Nat) : Bool := decide (w.startT ≤ now) && decide (now < w.endT)

structure Minter where
  addr : Addr
  admin : Addr
  paymentAddr : Option Addr
  /-- `config.mint_price` (base-minter: the factory `min_mint_price` captured at instantiation) -/
  mintPrice : Coin
  /-- vending family only -/
  discount : Option Coin
  whitelist : Option Whitelist
  /-- open edition: `config.extension.num_tokens.is_some()` -/
  hasCap : Bool

/-! ## Price selection — `mint_price(deps, is_admin)` -/

/-- price when no whitelist is active: vending = discount price if set, else `config.mint_price`;
open edition = `config.mint_price` -/
def publicPrice (v : Variant) (m : Minter) : Coin :=
  match v.family with
  | .vending => m.discount.getD m.mintPrice
  | _ => m.mintPrice

/-- price of a `Mint {}` -/
def senderPrice (v : Variant) (m : Minter) (now : Nat) : Coin :=
  match m.whitelist with
  | none => publicPrice v m
  | some wl => if wl.active now then wl.price else publicPrice v m

def selectPrice (v : Variant) (f : Factory) (m : Minter) (now : Nat) (isAdmin : Bool) : Except Err Coin :=
  if isAdmin then
    -- open edition: "Open Edition collections should have a non-zero airdrop price"
    if v.family = .openEdition ∧ f.airdropPrice.amount = 0 ∧ m.hasCap = false then .error .invalid
    else .ok f.airdropPrice
  else .ok (senderPrice v m now)

/-! ## Fee and payout -/

def feeBps (f : Factory) (isAdmin : Bool) : Nat := if isAdmin then f.airdropFeeBps else f.mintFeeBps

/-- `mint_price.amount * Decimal::bps(fee_bps)` -/
def networkFee (f : Factory) (isAdmin : Bool) (price : Coin) : Nat := mulFloor price.amount (bps (feeBps f isAdmin))

/-- developer argument of `distribute_mint_fees`: open edition passes the factory's `dev_fee_address` -/
def devOf (v : Variant) (f : Factory) : Option Addr :=
  match v.family with
  | .openEdition => some f.devAddr
  | _ => none

/-- `is_featured` argument of `distribute_mint_fees` -/
def featuredOf (v : Variant) : Bool :=
  match v.family with
  | .vending => v.featured
  | _ => false

/-- who receives `price − fee`: `payment_address.unwrap_or(admin)`; token-merge has no payment address -/
def sellerOf (v : Variant) (m : Minter) : Addr :=
  match v.family with
  | .tokenMerge => m.admin
  | _ => m.paymentAddr.getD m.admin

def feeMsgs (v : Variant) (f : Factory) (price : Coin) (fee : Nat) : List Msg :=
  if fee = 0 then [] else Sg1.distributeMintFees ⟨price.denom, fee⟩ (featuredOf v) (devOf v f)

def sellerMsgs (v : Variant) (m : Minter) (price : Coin) (fee : Nat) : List Msg :=
  if price.amount - fee = 0 then [] else [Msg.send (sellerOf v m) ⟨price.denom, price.amount - fee⟩]

/-- fee distribution then seller payout for a given network fee; `price − fee` underflows (panic / `checked_sub`
error) when the fee exceeds the price -/
def splitWith (v : Variant) (f : Factory) (m : Minter) (price : Coin) (fee : Nat) : Except Err (List Msg) :=
  if price.amount < fee then .error .other
  else .ok (feeMsgs v f price fee ++ sellerMsgs v m price fee)

def splitMsgs (v : Variant) (f : Factory) (m : Minter) (isAdmin : Bool) (price : Coin) : Except Err (List Msg) :=
  splitWith v f m price (networkFee f isAdmin price)

/-- vending / open-edition `_execute_mint`, token-merge admin branch: exact payment, then the messages -/
def paySale (v : Variant) (f : Factory) (m : Minter) (now : Nat) (isAdmin : Bool) (funds : List Coin) :
    Except Err (Coin × List Msg) :=
  match selectPrice v f m now isAdmin with
  | .error e => .error e
  | .ok price =>
    match mayPay funds price.denom with
    | .error e => .error e
    | .ok payment =>
      if payment ≠ price.amount then .error .payment
      else
        match splitMsgs v f m isAdmin price with
        | .error e => .error e
        | .ok ms => .ok (price, ms)

/-- base-minter `execute_mint_sender` for a given `network_fee`: `must_pay(NATIVE)`, the fee must equal the payment,
all of it fair-burned on behalf of the minter -/
def payBaseWith (fee : Nat) (m : Minter) (funds : List Coin) : Except Err (Coin × List Msg) :=
  match mustPay funds NATIVE with
  | .error e => .error e
  | .ok sent =>
    if fee ≠ sent then .error .payment
    else
      match Sg1.checkedFairBurn funds m.addr fee none with
      | .error e => .error e
      | .ok ms => .ok (⟨NATIVE, fee⟩, ms)

/-- base-minter: `network_fee = config.mint_price.amount * Decimal::bps(factory.mint_fee_bps)` (`config.mint_price` is
the factory `min_mint_price` captured at instantiation) -/
def payBase (f : Factory) (m : Minter) (funds : List Coin) : Except Err (Coin × List Msg) :=
  payBaseWith (mulFloor m.mintPrice.amount (bps f.mintFeeBps)) m funds

/-- the price charged and the bank messages emitted by a mint.
Token-merge `ReceiveNft` deposits (`isAdmin = false`) involve no payment check and emit nothing. -/
def payMint (v : Variant) (f : Factory) (m : Minter) (now : Nat) (isAdmin : Bool) (funds : List Coin) :
    Except Err (Coin × List Msg) :=
  match v.family with
  | .base => payBase f m funds
  | .tokenMerge => if isAdmin then paySale v f m now isAdmin funds else .ok (⟨NATIVE, 0⟩, [])
  | _ => paySale v f m now isAdmin funds

/-! ## World and operations -/

structure World where
  v : Variant
  f : Factory
  m : Minter
  bank : Bank
  now : Nat

/-- One mint call (`Mint`, `MintTo`, `MintFor`, token-merge deposit, base `Mint`) by `sender`.
`allowed` = every check C02 is silent about passed (environment witness). -/
def mint (w : World) (sender : Addr) (isAdmin : Bool) (funds : List Coin) (allowed : Bool) : Except Err World :=
  match w.bank.sendFunds sender w.m.addr funds with
  | none => .error .payment
  | some b1 =>
    if allowed = false then .error .other
    else
      match payMint w.v w.f w.m w.now isAdmin funds with
      | .error e => .error e
      | .ok (_, ms) =>
        match applyMsgs w.m.addr b1 ms with
        | none => .error .other
        | some b2 => .ok { w with bank := b2 }

inductive Op where
  | time (t : Nat)
  | fund (a : Addr) (c : Coin)
  | mint (sender : Addr) (isAdmin : Bool) (funds : List Coin) (allowed : Bool)
  /-- `UpdateMintPrice` (accepted = `acc`); vending drops a standing discount above the new price -/
  | setPrice (p : Nat) (acc : Bool)
  /-- `UpdateDiscountPrice` -/
  | setDiscount (p : Nat) (acc : Bool)
  /-- `RemoveDiscountPrice` -/
  | rmDiscount (acc : Bool)
  /-- `SetWhitelist` -/
  | setWhitelist (wl : Whitelist) (acc : Bool)
  /-- factory `sudo UpdateParams` -/
  | sudoParams (mintFeeBps : Nat) (airdropPrice : Coin) (airdropFeeBps : Nat) (dev : Addr) (acc : Bool)

def setPrice (v : Variant) (m : Minter) (p : Nat) : Minter :=
  let m' := { m with mintPrice := ⟨m.mintPrice.denom, p⟩ }
  match v.family with
  | .vending =>
    match m.discount with
    | some dc => if dc.amount > p then { m' with discount := none } else m'
    | none => m'
  | _ => m'

def step (w : World) : Op → Except Err World
  | .time t => .ok { w with now := t }
  | .fund a c => .ok { w with bank := w.bank.fund a c }
  | .mint s ad fu al => mint w s ad fu al
  | .setPrice p acc => if acc then .ok { w with m := setPrice w.v w.m p } else .error .other
  | .setDiscount p acc =>
    if acc then .ok { w with m := { w.m with discount := some ⟨w.m.mintPrice.denom, p⟩ } } else .error .other
  | .rmDiscount acc => if acc then .ok { w with m := { w.m with discount := none } } else .error .other
  | .setWhitelist wl acc => if acc then .ok { w with m := { w.m with whitelist := some wl } } else .error .other
  | .sudoParams fb ap ab dev acc =>
    if acc then .ok { w with f := { mintFeeBps := fb, airdropPrice := ap, airdropFeeBps := ab, devAddr := dev } }
    else .error .other

/-- transactions are atomic: a failed operation leaves the world unchanged -/
def step' (w : World) (op : Op) : World :=
  match step w op with
  | .ok w' => w'
  | .error _ => w

def run (w : World) (ops : List Op) : World := ops.foldl step' w

end LP.MintPay
