import LaunchpadModel.Model.PriceRules
/-!
# Price rules with a CHANGING environment (layer on top of `LP.PriceRules`, for C07 round 3)

`LP.PriceRules` (the aspect model the composite vending model refines) is left untouched. This file adds, around it,
what the first version froze:

* whitelist contracts of the **tiered** kinds (`tiered-whitelist`, `-flex`, `-merkletree`): up to three stages, each with
  its own price and a CLOSED window `start ≤ now ≤ end`; `query_config` answers with the active stage, else with stage 0
  (before it starts) or the LAST stage (`is_active = false`);
* whitelist contracts whose content changes after they were attached (`UpdateStartTime` / `UpdateEndTime` of the plain
  kinds, `UpdateStageConfig` / `AddStage` / `RemoveStage` of the tiered kinds) — `wlSet`, an environment step: whether the
  whitelist contract accepts an update is owned by C11–C13, the harness hands over the content the contract reports;
* governance changing `mint_fee_bps`, the factory's `migrate` (which can carry the same `UpdateParamsMsg` as `sudo`),
  the minter's `migrate`, and "any other message of the minter" (`other`, a frame step).

Every message of the aspect model runs through `PriceRules.step` on `sync w` — the aspect world in which each whitelist
is replaced by what its `Config` query answers at the current block time (`WlC.view`). So every theorem about
`PriceRules.step` applies verbatim to `stepT w (.base op)`.
-/
namespace LP.PriceRulesT
open LP LP.PriceRules

/-- one stage of a tiered whitelist -/
structure Stage where
  price : Coin
  start : Nat
  stop : Nat
deriving Repr, DecidableEq

/-- `fetch_active_stage`: `stage.start_time <= now && now <= stage.end_time` (closed on both sides) -/
def Stage.active (s : Stage) (now : Nat) : Bool := decide (s.start ≤ now) && decide (now ≤ s.stop)

/-- a whitelist contract -/
inductive WlC where
  /-- `whitelist`, `whitelist-flex`, `whitelist-merkletree`: one price, one half-open window -/
  | plain (w : Wl)
  /-- `tiered-whitelist`, `-flex`, `-merkletree` -/
  | tiered (stages : List Stage)
deriving Repr, DecidableEq

/-- tiered `query_config`: `(mint_price, is_active)` — the first active stage; else stage 0 before it starts, else the
last stage; no stages: zero native coins -/
def tieredConfig (stages : List Stage) (now : Nat) : Coin × Bool :=
  match stages.find? (fun s => s.active now) with
  | some s => (s.price, true)
  | none =>
    match stages.head?, stages.getLast? with
    | some s0, some sl => if now < s0.start then (s0.price, false) else (sl.price, false)
    | _, _ => (⟨NATIVE, 0⟩, false)

/-- what the `Config` query of the whitelist answers at block time `now`, as the aspect model's `Wl` record:
`(view now c).price` = `mint_price`, `(view now c).active now` = `is_active` -/
def WlC.view (now : Nat) : WlC → Wl
  | .plain w => w
  | .tiered st =>
    let c := tieredConfig st now
    if c.2 then ⟨c.1, now, now + 1⟩ else ⟨c.1, now + 1, now + 1⟩

/-- every price a buyer can ever be charged through this whitelist -/
def WlC.prices : WlC → List Coin
  | .plain w => [w.price]
  | .tiered st => st.map (·.price)

structure WorldT where
  /-- the aspect world; its `wls` field is recomputed by `sync` before every use -/
  base : World
  /-- the whitelist contracts that exist, in creation order -/
  wlcs : List WlC
deriving Repr, DecidableEq

/-- the aspect world at this instant: every whitelist replaced by its current `Config` answer -/
def sync (w : WorldT) : World := { w.base with wls := w.wlcs.map (WlC.view w.base.now) }

inductive OpT where
  /-- a message of the aspect model (everything except `newWl`: whitelists enter through `wlSet`) -/
  | base (op : Op)
  /-- environment: whitelist contract `k` is instantiated (`k = wlcs.length`) or changed by its own admin -/
  | wlSet (k : Nat) (c : WlC)
  /-- governance: `sudo UpdateParams{mint_fee_bps}` -/
  | sudoFee (bps : Nat)
  /-- the factory's `migrate` with `Some(UpdateParamsMsg{min_mint_price, mint_fee_bps})` (or `None`) -/
  | facMigrate (min : Option Coin) (bps : Option Nat)
  /-- the minter's `migrate`, stored cw2 version `fromV` -/
  | migrate (fromV : Nat × Nat × Nat)
  /-- environment form of an `end_time` change (kept for replays of early round-3 files; `UpdateEndTime` itself is
      `.base (.updateEnd ..)` = `PriceRules.updateEnd` since the base model has the operation) -/
  | envStop (stop : Option Nat)
  /-- any other message of the minter's `ExecuteMsg` (purge, shuffle, burn_remaining, update_per_address_limit,
      update_start_trading_time, mint_to, mint_for, …, from anybody): it does not touch the price state -/
  | other
deriving Repr, DecidableEq

def setBase (w : WorldT) (b : World) : WorldT := { w with base := b }

def wlSet (w : WorldT) (k : Nat) (c : WlC) : Except Err WorldT :=
  if k < w.wlcs.length then .ok { w with wlcs := w.wlcs.set k c }
  else if k = w.wlcs.length then .ok { w with wlcs := w.wlcs ++ [c] }
  else .error .notFound

def setFee (w : WorldT) (bps : Nat) : WorldT := setBase w { w.base with fac := { w.base.fac with feeBps := bps } }

/-- `migrate(deps, env, Some(msg))` runs `base_factory::update_params`: a new minimum only in the native denom -/
def facMigrate (w : WorldT) (min : Option Coin) (bps : Option Nat) : Except Err WorldT :=
  match min with
  | some c =>
    if c.denom ≠ NATIVE then .error .invalid
    else
      let w1 := setBase w { w.base with fac := { w.base.fac with minPrice := c } }
      .ok (match bps with | some b => setFee w1 b | none => w1)
  | none => .ok (match bps with | some b => setFee w b | none => w)

def stepT (w : WorldT) : OpT → Except Err WorldT
  | .base (.newWl _ _ _) => .error .invalid
  | .base op =>
    match step (sync w) op with
    | .ok b => .ok (setBase w b)
    | .error e => .error e
  | .wlSet k c => wlSet w k c
  | .sudoFee bps => .ok (setFee w bps)
  | .facMigrate min bps => facMigrate w min bps
  | .migrate v =>
    match PriceRules.migrate (sync w) v with
    | .ok b => .ok (setBase w b)
    | .error e => .error e
  | .envStop e =>
    match w.base.m with
    | some m => .ok (setBase w (setMinter w.base { m with stop := e }))
    | none => .ok w
  | .other => .ok w

/-- transactions are atomic -/
def stepT' (w : WorldT) (op : OpT) : WorldT :=
  match stepT w op with
  | .ok w' => w'
  | .error _ => w

def runT (w : WorldT) (ops : List OpT) : WorldT := ops.foldl stepT' w

def initT (v : Variant) (now : Nat) (fac : Factory) : WorldT := { base := init v now fac, wlcs := [] }

/-- a network fee so small that `sg1::distribute_mint_fees` may produce an empty part (owned by C06/C02): whether a
mint at such a price goes through is outside this property's projection -/
def dusty (w : World) (price : Coin) : Bool :=
  let fee := mulFloor price.amount (bps w.fac.feeBps)
  decide (0 < fee) && decide (fee < 16)

end LP.PriceRulesT
