import LaunchpadModel.Model.VendingFull
/-!
# Composite model of the open-edition minter family (DESIGN §3.4) — core Lean only

ONE deterministic, executable model of `open-edition-factory` + `open-edition-minter`, `-wl-flex`, `-merkle-wl` as the code is
now: every instantiate / execute / sudo / query / reply path, every stored item, every gate computed here.  Same recipe and the
same explicit interface as `LP.VF` (Model/VendingFull.lean): randomness does not exist in this family (ids are sequential);
the chain's address allocation and code-id tables, whitelist contracts (`VF.WlInfo`, `VF.SenderView`) and the sg721 collection
(`Supply.Coll` inside `Supply.Seq`, `TT.Coll`) enter through the interface.  See `docs/COMPOSITE_OPEN_EDITION.md`.

Reused from `LP.VF` (types and pure helpers only — nothing of VendingFull is changed): `Status`, `WlInfo`, `SenderView`,
`MintKind`, `Codes.collKindOf`, `dedupAdj`, `updateAllowed`, `emptyBank`.  Reused from aspect models: `Supply.Seq`
(+`mint/burnRemaining/purge`), `MintPay.Bank/applyMsgs`, `Sg1.*`, `TT.Coll.*`, `TT.boundedOrDefault/tradingUpdateOk`,
`MintLimits.Flavor/WlKind/Fields/configOk/stageOk/WlKind.answers*/upd/upd2/zero`.
-/
namespace LP.OE
open LP
open LP.VF (Status WlInfo SenderView MintKind Codes)

/-! ## Variants -/

/-- The three crates differ in the whitelist dialect only:
`flex` = limit from `Member {}`; no factory-wide cap captured at instantiate (`MINTABLE_NUM_TOKENS` absent without `num_tokens`);
`Purge` refuses whenever the counter is non-zero and also clears `WHITELIST_MINTER_ADDRS`; an uncapped edition also applies the
minter's own `per_address_limit` to whitelist mints; `MintCount` answers `count` + `whitelist_count`.
`merkle` = `Mint {stage, proof_hashes, allocation}`, proof hashes mandatory while the whitelist is active, `allocation` as limit. -/
structure Variant where
  flavor : MintLimits.Flavor
deriving DecidableEq, Repr

def Variant.ofIdx : Nat → Option Variant
  | 0 => some ⟨.plain⟩ | 1 => some ⟨.flex⟩ | 2 => some ⟨.merkle⟩
  | _ => none

def Variant.kind (v : Variant) : MintLimits.MinterKind :=
  match v.flavor with
  | .plain => .openEdition | .flex => .openEditionFlex | .merkle => .openEditionMerkle

def Variant.seqKind (v : Variant) : Supply.SeqKind :=
  match v.flavor with
  | .plain => .openEdition | .flex => .openEditionFlex | .merkle => .openEditionMerkle

def Variant.isFlex (v : Variant) : Bool := decide (v.flavor = .flex)

def variantOf (c : Codes) (code : Nat) : Option Variant :=
  match c.minters.findIdx? (· == code) with
  | some i => Variant.ofIdx i
  | none => none

/-! ## Stored records -/

/-- `open_edition_factory::state::OpenEditionMinterParams` -/
structure Params where
  codeId : Nat
  allowed : List Nat
  frozen : Bool
  creationFee : Coin
  minMintPrice : Coin
  mintFeeBps : Nat
  maxTradingOffsetSecs : Nat
  maxTokenLimit : Nat
  maxPerAddressLimit : Nat
  airdropMintFeeBps : Nat
  airdropMintPrice : Coin
  /-- `dev_fee_address` (a string in the contract): `none` = a string `addr_validate` rejects -/
  dev : Option Addr
deriving DecidableEq, Repr

/-- `OpenEditionUpdateParamsMsg` (its `extension.min_mint_price` is accepted by serde and ignored by the code) -/
structure ParamsUpdate where
  codeId : Option Nat := none
  addCodes : Option (List Nat) := none
  rmCodes : Option (List Nat) := none
  frozen : Option Bool := none
  creationFee : Option Coin := none
  minMintPrice : Option Coin := none
  mintFeeBps : Option Nat := none
  maxTradingOffsetSecs : Option Nat := none
  maxTokenLimit : Option Nat := none
  maxPerAddressLimit : Option Nat := none
  airdropMintFeeBps : Option Nat := none
  airdropMintPrice : Option Coin := none
  dev : Option (Option Addr) := none
deriving DecidableEq, Repr

structure Minter where
  v : Variant
  addr : Addr
  -- `CONFIG`
  factory : Addr
  collectionCodeId : Nat
  mintPrice : Coin
  admin : Addr
  paymentAddress : Option Addr
  whitelist : Option Addr
  startTime : Nat
  endTime : Option Nat
  perAddressLimit : Nat
  numTokens : Option Nat
  /-- `nft_data.nft_data_type == OnChainMetadata` -/
  onChain : Bool
  /-- `SG721_ADDRESS` -/
  sg721 : Addr
  /-- `TOKEN_INDEX`, `TOTAL_MINT_COUNT`, `MINTABLE_NUM_TOKENS` (optional), ghosts, and the collection's token table -/
  seq : Supply.Seq
  pub : Addr → Nat
  wlc : Addr → Nat
  stg : Nat → Addr → Nat
  tot : Nat → Nat
  airdropCount : Nat
  status : Status
  /-- ghost: tokens delivered per recipient -/
  received : Addr → Nat
  tt : TT.Coll

structure State where
  now : Nat
  codes : Codes
  factoryAddr : Addr
  params : Params
  bank : MintPay.Bank
  wls : Addr → Option WlInfo
  minter : Option Minter

/-! ## Messages -/

structure CreateMsg where
  collCode : Nat
  creator : Addr
  trading : Option Nat
  /-- `NftData::valid_nft_data()` (factory) -/
  nftValid : Bool
  /-- on-chain metadata edition -/
  onChain : Bool
  /-- the URL the minter parses (`token_uri` / `extension.image`) is acceptable -/
  uriOk : Bool
  paymentAddress : Option Addr
  startTime : Nat
  endTime : Option Nat
  numTokens : Option Nat
  mintPrice : Coin
  perAddressLimit : Nat
  whitelist : Option Addr
  whitelistValid : Bool
  /-- the sg721 contract's own instantiate checks pass -/
  collOk : Bool
deriving Repr

structure CreateWit where
  minterAddr : Addr
  collAddr : Addr
deriving Repr

inductive Op where
  | setTime (t : Nat)
  | fund (a : Addr) (c : Coin)
  | wlEnv (k : Addr) (info : Option WlInfo)
  | create (sender : Addr) (funds : List Coin) (msg : CreateMsg) (w : CreateWit)
  | instantiateDirect (sender : Addr)
  | mint (sender : Addr) (funds : List Coin) (f : MintLimits.Fields) (sv : SenderView)
  | mintTo (sender : Addr) (funds : List Coin) (rcpt : Addr)
  | setWhitelist (sender : Addr) (funds : List Coin) (wl : Addr) (valid : Bool)
  | purge (sender : Addr) (funds : List Coin)
  | updateMintPrice (sender : Addr) (funds : List Coin) (price : Nat)
  | updateStartTime (sender : Addr) (funds : List Coin) (t : Nat)
  | updateEndTime (sender : Addr) (funds : List Coin) (t : Nat)
  | updateStartTradingTime (sender : Addr) (funds : List Coin) (t : Option Nat)
  | updatePerAddressLimit (sender : Addr) (funds : List Coin) (n : Nat)
  | burnRemaining (sender : Addr) (funds : List Coin)
  | sudoStatus (verified blocked explicit : Bool)
  | sudoParams (u : ParamsUpdate)
  | collTransfer (sender : Addr) (id : Nat) (to : Addr)
  | collBurn (sender : Addr) (id : Nat)
  | collTrading (sender : Addr) (t : Option Nat)
  | collCreator (sender : Addr) (new : Addr)
  | collFreeze (sender : Addr)
  | collOwn (sender : Addr) (a : TT.OwnAction)

/-! ## Helpers -/

def wlConfig (s : State) (v : Variant) (a : Addr) : Except Err WlInfo :=
  match s.wls a with
  | none => .error .notFound
  | some i => if MintLimits.configOk v.flavor i.kind then .ok i else .error .invalid

/-- does the collection contract of kind `ck` accept the `Mint` sub-message this edition sends?
off-chain editions send `sg721::ExecuteMsg<Extension, Empty>::Mint {extension: None}` (sg721-metadata-onchain wants a `Metadata`),
on-chain editions send `ExecuteMsg<Metadata, Empty>::Mint {extension: Metadata}`: every collection parses it
(sg721-base / -updatable / -nt read it as `Option<Empty>`, and `cosmwasm_std::Empty` does not deny unknown fields;
measured by `compoe.rs`, matrix cases) -/
def mintParses (onChain : Bool) (ck : TT.CollKind) : Bool :=
  if onChain then true else decide (ck ≠ .metadata)

/-! ## Factory -/

/-- `base_factory::update_params` + the extension part of `open_edition_factory::sudo_update_params` (no denom rule for the
airdrop price; the minimum must be native) -/
def updateParams (p : Params) (u : ParamsUpdate) : Except Err Params :=
  match VF.nativeOr u.minMintPrice p.minMintPrice with
  | .error e => .error e
  | .ok minp =>
    .ok { codeId := u.codeId.getD p.codeId
          allowed := VF.updateAllowed p.allowed u.addCodes u.rmCodes
          frozen := u.frozen.getD p.frozen
          creationFee := u.creationFee.getD p.creationFee
          minMintPrice := minp
          mintFeeBps := u.mintFeeBps.getD p.mintFeeBps
          maxTradingOffsetSecs := u.maxTradingOffsetSecs.getD p.maxTradingOffsetSecs
          maxTokenLimit := u.maxTokenLimit.getD p.maxTokenLimit
          maxPerAddressLimit := u.maxPerAddressLimit.getD p.maxPerAddressLimit
          airdropMintFeeBps := u.airdropMintFeeBps.getD p.airdropMintFeeBps
          airdropMintPrice := u.airdropMintPrice.getD p.airdropMintPrice
          dev := u.dev.getD p.dev }

def creationFeeMsgs (s : State) (funds : List Coin) : Except Err (List Msg) :=
  if s.params.creationFee.denom = NATIVE then
    Sg1.checkedFairBurn funds s.factoryAddr s.params.creationFee.amount none
  else
    Sg1.transferFundsToLaunchpadDao funds s.params.creationFee.amount s.params.creationFee.denom

/-- `num_tokens == Some(0)` or above `max_token_limit` -/
def badNumTokens (p : Params) (msg : CreateMsg) : Bool :=
  match msg.numTokens with
  | some n => decide (n = 0 ∨ n > p.maxTokenLimit)
  | none => false

/-- `end_time <= start_time` -/
def endNotAfterStart (msg : CreateMsg) : Bool :=
  match msg.endTime with
  | some e => decide (e ≤ msg.startTime)
  | none => false

/-- `OpenEditionMinterInitMsgExtension::validate` + the checks of `execute_create_minter` that follow it -/
def validateInit (s : State) (msg : CreateMsg) : Except Err Unit :=
  if msg.nftValid = false then .error .invalid
  else if badNumTokens s.params msg then .error .invalid
  else if msg.perAddressLimit < 1 ∨ msg.perAddressLimit > s.params.maxPerAddressLimit then .error .invalid
  else if msg.startTime ≤ s.now then .error .invalid
  else if endNotAfterStart msg then .error .invalid
  else if msg.endTime.isNone ∧ msg.numTokens.isNone then .error .invalid
  else if msg.mintPrice.amount < s.params.minMintPrice.amount then .error .invalid
  else if s.params.minMintPrice.denom ≠ msg.mintPrice.denom then .error .invalid
  else if msg.numTokens.isNone ∧ msg.mintPrice.amount = 0 then .error .invalid
  else if s.params.airdropMintPrice.amount = 0 ∧ msg.numTokens.isNone then .error .invalid
  else .ok ()

/-- everything `execute_create_minter` does before the `WasmMsg::Instantiate` -/
def factoryChecks (s : State) (funds : List Coin) (msg : CreateMsg) : Except Err (List Msg) :=
  match mustPay funds s.params.creationFee.denom with
  | .error e => .error e
  | .ok paid =>
    -- `must_pay_exact_amount`
    if paid ≠ s.params.creationFee.amount then .error .payment
    else if !(s.params.allowed.contains msg.collCode) then .error .invalid
    else if s.params.frozen then .error .frozen
    else
      match creationFeeMsgs s funds with
      | .error e => .error e
      | .ok ms =>
        match validateInit s msg with
        | .error e => .error e
        | .ok _ => .ok ms

def createWhitelist (s : State) (v : Variant) (msg : CreateMsg) : Except Err (Option Addr) :=
  match msg.whitelist with
  | none => .ok none
  | some a =>
    if msg.whitelistValid = false then .ok none
    else
      match wlConfig s v a with
      | .error e => .error e
      | .ok i => if i.active then .error .tooLate else .ok (some a)

/-- minter `instantiate` (sender = the factory) + the sg721 instantiate sub-message + `reply` -/
def instantiateMinter (s : State) (v : Variant) (msg : CreateMsg) (w : CreateWit) : Except Err Minter :=
  if msg.uriOk = false then .error .invalid
  else
    match createWhitelist s v msg with
    | .error e => .error e
    | .ok wl =>
      match TT.boundedOrDefault msg.startTime s.params.maxTradingOffsetSecs msg.trading with
      | .error e => .error e
      | .ok trading =>
        match s.codes.collKindOf msg.collCode with
        | none => .error .notFound
        | some ck =>
          if msg.collOk = false then .error .invalid
          else
            .ok { v := v, addr := w.minterAddr, factory := s.factoryAddr, collectionCodeId := msg.collCode,
                  mintPrice := msg.mintPrice, admin := msg.creator, paymentAddress := msg.paymentAddress,
                  whitelist := wl, startTime := msg.startTime, endTime := msg.endTime,
                  perAddressLimit := msg.perAddressLimit, numTokens := msg.numTokens, onChain := msg.onChain,
                  sg721 := w.collAddr,
                  seq := Supply.Seq.create v.seqKind msg.numTokens s.params.maxTokenLimit msg.endTime.isSome,
                  pub := MintLimits.zero, wlc := MintLimits.zero, stg := fun _ => MintLimits.zero,
                  tot := MintLimits.zero, airdropCount := 0, status := {}, received := MintLimits.zero,
                  tt := TT.Coll.init ck w.minterAddr msg.creator trading }

def createMinter (s : State) (sender : Addr) (funds : List Coin) (msg : CreateMsg) (w : CreateWit) : Except Err State :=
  if s.minter.isSome then .error .other        -- the model follows ONE minter per case
  else
    match s.bank.sendFunds sender s.factoryAddr funds with
    | none => .error .payment
    | some b1 =>
      match factoryChecks s funds msg with
      | .error e => .error e
      | .ok ms =>
        match MintPay.applyMsgs s.factoryAddr b1 ms with
        | none => .error .other
        | some b2 =>
          match variantOf s.codes s.params.codeId with
          | none => .error .notFound
          | some v =>
            match instantiateMinter s v msg w with
            | .error e => .error e
            | .ok m => .ok { s with bank := b2, minter := some m }

/-! ## Minter: mint -/

/-- "no mint of any kind at or after `end_time`" -/
def ended (s : State) (m : Minter) : Bool :=
  match m.endTime with
  | some e => decide (s.now ≥ e)
  | none => false

/-- there is an end time and it has not been passed STRICTLY (`now <= end_time`): `Purge` / `BurnRemaining` refuse -/
def notYetOver (s : State) (m : Minter) : Bool :=
  match m.endTime with
  | some e => decide (s.now ≤ e)
  | none => false

/-- the requested start lies after the end time -/
def startAfterEnd (m : Minter) (t : Nat) : Bool :=
  match m.endTime with
  | some e => decide (t > e)
  | none => false


/-- `HasMember` as the minter asks it: (has_member, the membership came from a verified Merkle leaf).
open-edition-minter-merkle-wl: proof hashes are mandatory while the whitelist is active (`MissingProofHashes`). -/
def hasMember (v : Variant) (i : WlInfo) (f : MintLimits.Fields) (sv : SenderView) : Except Err (Bool × Bool) :=
  if v.flavor = .merkle then
    if f.proof = false then .error .invalid
    else if i.kind.answersHasMemberProof then .ok (sv.leafOk, true) else .error .invalid
  else
    if i.kind.answersHasMember then .ok (sv.memberPlain, false) else .error .invalid

/-- `whitelist_mint_count` -/
def whitelistMintCount (m : Minter) (i : WlInfo) (sender : Addr) : Except Err (Nat × Nat) :=
  if i.kind.tieredName then
    if 1 ≤ i.stageId ∧ i.stageId ≤ 3 then .ok (m.stg i.stageId sender, i.stageId) else .error .invalid
  else .ok (m.wlc sender, 0)

/-- `Config.per_address_limit` (plain), `Member.mint_count` (flex), `allocation.unwrap_or(per_address_limit)` (merkle) -/
def wlEntitlement (v : Variant) (i : WlInfo) (f : MintLimits.Fields) (sv : SenderView) : Except Err Nat :=
  match v.flavor with
  | .plain => .ok i.limit
  | .flex => if i.kind.answersMember then .ok sv.memberCount else .error .invalid
  | .merkle => .ok (f.alloc.getD i.limit)

def wlMintChecks (m : Minter) (i : WlInfo) (sender : Addr) (f : MintLimits.Fields) (sv : SenderView) : Except Err MintKind :=
  match hasMember m.v i f sv with
  | .error e => .error e
  | .ok (false, _) => .error .unauthorized
  | .ok (true, _) =>
    match whitelistMintCount m i sender with
    | .error e => .error e
    | .ok (cnt, sid) =>
      -- open-edition-minter-wl-flex: an uncapped edition also applies the minter's own limit to whitelist mints
      if m.v.flavor = .flex ∧ m.numTokens.isNone ∧ ¬ cnt < m.perAddressLimit then .error .limit
      else
        match wlEntitlement m.v i f sv with
        | .error e => .error e
        | .ok ent =>
          if ¬ cnt < ent then .error .limit
          else if sid = 0 then .ok (.wl 0 cnt)
          else if MintLimits.stageOk m.v.flavor i.kind = false then .error .invalid
          else
            match i.stageLimit with
            | none => .ok (.wl sid cnt)
            | some L => if m.tot sid < L then .ok (.wl sid cnt) else .error .limit

/-- `is_public_mint` -/
def isPublicMint (s : State) (m : Minter) (sender : Addr) (f : MintLimits.Fields) (sv : SenderView) : Except Err MintKind :=
  match m.whitelist with
  | none => .ok .pub
  | some a =>
    match wlConfig s m.v a with
    | .error e => .error e
    | .ok i => if i.active = false then .ok .pub else wlMintChecks m i sender f sv

/-- `mint_price(deps, is_admin)` -/
def mintPrice (s : State) (m : Minter) (isAdmin : Bool) : Except Err Coin :=
  if isAdmin then
    -- "Open Edition collections should have a non-zero airdrop price"
    if s.params.airdropMintPrice.amount = 0 ∧ m.numTokens.isNone then .error .invalid
    else .ok s.params.airdropMintPrice
  else
    match m.whitelist with
    | none => .ok m.mintPrice
    | some a =>
      match wlConfig s m.v a with
      | .error e => .error e
      | .ok i => if i.active then .ok i.price else .ok m.mintPrice

def networkFee (p : Params) (isAdmin : Bool) (price : Coin) : Nat :=
  mulFloor price.amount (bps (if isAdmin then p.airdropMintFeeBps else p.mintFeeBps))

def seller (m : Minter) : Addr := m.paymentAddress.getD m.admin

/-- the bank messages of `_execute_mint`: `distribute_mint_fees(fee, false, Some(dev))` when the fee is non-zero (the
developer address is validated only then), the seller payout when non-zero; `checked_sub` fails when the fee exceeds the price -/
def mintMsgs (p : Params) (m : Minter) (isAdmin : Bool) (price : Coin) : Except Err (List Msg) :=
  -- `addr_validate(dev_fee_address)` is only reached when the fee is non-zero
  if networkFee p isAdmin price ≠ 0 ∧ p.dev.isNone then .error .invalid
  else if price.amount < networkFee p isAdmin price then .error .other
  else
    .ok ((if networkFee p isAdmin price = 0 then []
          else Sg1.distributeMintFees ⟨price.denom, networkFee p isAdmin price⟩ false (some (p.dev.getD LAUNCHPAD_DAO))) ++
         (if price.amount - networkFee p isAdmin price = 0 then []
          else [Msg.send (seller m) ⟨price.denom, price.amount - networkFee p isAdmin price⟩]))

def bookCount (m : Minter) (sender : Addr) (g : MintKind) : Minter :=
  match g with
  | .pub => { m with pub := MintLimits.upd m.pub sender (m.pub sender + 1) }
  | .wl sid cnt =>
    if sid = 0 then { m with wlc := MintLimits.upd m.wlc sender (cnt + 1) }
    else { m with stg := MintLimits.upd2 m.stg sid sender (cnt + 1), tot := MintLimits.upd m.tot sid (m.tot sid + 1) }

/-- `_execute_mint` (the attached funds have already reached the contract: `b1`) -/
def executeMint (s : State) (m : Minter) (b1 : MintPay.Bank) (sender : Addr) (funds : List Coin) (isAdmin : Bool)
    (rcpt : Addr) (g : MintKind) : Except Err State :=
  if m.seq.mintable = some 0 then .error .soldOut
  else
    match mintPrice s m isAdmin with
    | .error e => .error e
    | .ok price =>
      match mayPay funds price.denom with
      | .error e => .error e
      | .ok payment =>
        if payment ≠ price.amount then .error .payment
        else
          match mintMsgs s.params m isAdmin price with
          | .error e => .error e
          | .ok ms =>
            if m.tt.owner ≠ some m.addr then .error .unauthorized
            else if mintParses m.onChain m.tt.kind = false then .error .invalid
            else
              match m.seq.mint rcpt with
              | none => .error .other
              | some sq =>
                match MintPay.applyMsgs m.addr b1 ms with
                | none => .error .other
                | some b2 =>
                  let m1 := bookCount m sender g
                  let m2 : Minter := { m1 with seq := sq,
                                               airdropCount := if isAdmin then m.airdropCount + 1 else m.airdropCount,
                                               received := MintLimits.upd m.received rcpt (m.received rcpt + 1) }
                  .ok { s with bank := b2, minter := some m2 }

/-- `execute_mint_sender` -/
def mintSender (s : State) (m : Minter) (sender : Addr) (funds : List Coin) (f : MintLimits.Fields) (sv : SenderView) :
    Except Err State :=
  if m.v.flavor ≠ .merkle ∧ f ≠ MintLimits.Fields.empty then .error .invalid
  else
    match s.bank.sendFunds sender m.addr funds with
    | none => .error .payment
    | some b1 =>
      match isPublicMint s m sender f sv with
      | .error e => .error e
      | .ok g =>
        if g = .pub ∧ s.now < m.startTime then .error .tooSoon
        else if ended s m then .error .tooLate
        else if g = .pub ∧ ¬ m.pub sender < m.perAddressLimit then .error .limit
        else executeMint s m b1 sender funds false sender g

/-- `execute_mint_to` -/
def mintAdmin (s : State) (m : Minter) (sender : Addr) (funds : List Coin) (rcpt : Addr) : Except Err State :=
  match s.bank.sendFunds sender m.addr funds with
  | none => .error .payment
  | some b1 =>
    if sender ≠ m.admin then .error .unauthorized
    else if ended s m then .error .tooLate
    else executeMint s m b1 sender funds true rcpt .pub

/-! ## Minter: configuration messages -/

def adminOnly (m : Minter) (sender : Addr) (funds : List Coin) : Except Err Unit :=
  match nonpayable funds with
  | .error e => .error e
  | .ok _ => if sender ≠ m.admin then .error .unauthorized else .ok ()

/-- `execute_set_whitelist` (all three crates compare the whitelist denom with the minter's own) -/
def setWhitelist (s : State) (m : Minter) (sender : Addr) (funds : List Coin) (wl : Addr) (valid : Bool) : Except Err Minter :=
  match adminOnly m sender funds with
  | .error e => .error e
  | .ok _ =>
    if ¬ s.now < m.startTime then .error .tooLate
    else
      match (match m.whitelist with
             | none => Except.ok ()
             | some a0 =>
               match wlConfig s m.v a0 with
               | .error e => .error e
               | .ok i0 => if i0.active then .error .tooLate else .ok ()) with
      | .error e => .error e
      | .ok _ =>
        if valid = false then .error .invalid
        else
          match wlConfig s m.v wl with
          | .error e => .error e
          | .ok i =>
            if i.active then .error .tooLate
            else if i.price.denom ≠ m.mintPrice.denom then .error .invalid
            else if s.params.minMintPrice.amount > i.price.amount then .error .invalid
            else if s.params.minMintPrice.denom ≠ i.price.denom then .error .invalid
            else .ok { m with whitelist := some wl }

/-- `execute_purge` (anyone): after the end time (strictly) when there is one; sold out where `Supply.Seq.purge` demands it -/
def purge (s : State) (m : Minter) (funds : List Coin) : Except Err Minter :=
  match nonpayable funds with
  | .error e => .error e
  | .ok _ =>
    if notYetOver s m then .error .tooSoon
    else
      match m.seq.purge with
      | none => .error .other
      | some _ => .ok { m with pub := MintLimits.zero, wlc := if m.v.isFlex then MintLimits.zero else m.wlc }

/-- `execute_update_mint_price` -/
def updateMintPrice (s : State) (m : Minter) (sender : Addr) (funds : List Coin) (price : Nat) : Except Err Minter :=
  match adminOnly m sender funds with
  | .error e => .error e
  | .ok _ =>
    if ended s m then .error .tooLate
    else if s.now ≥ m.startTime ∧ price ≥ m.mintPrice.amount then .error .invalid
    else if s.params.minMintPrice.amount > price then .error .invalid
    else if m.numTokens.isNone ∧ price = 0 then .error .invalid
    else .ok { m with mintPrice := ⟨m.mintPrice.denom, price⟩ }

/-- `execute_update_start_time` -/
def updateStartTime (s : State) (m : Minter) (sender : Addr) (funds : List Coin) (t : Nat) : Except Err Minter :=
  match adminOnly m sender funds with
  | .error e => .error e
  | .ok _ =>
    if s.now ≥ m.startTime then .error .tooLate
    else if s.now > t then .error .invalid
    else if startAfterEnd m t then .error .invalid
    else .ok { m with startTime := t }

/-- `execute_update_end_time` -/
def updateEndTime (s : State) (m : Minter) (sender : Addr) (funds : List Coin) (t : Nat) : Except Err Minter :=
  match adminOnly m sender funds with
  | .error e => .error e
  | .ok _ =>
    match m.endTime with
    | none => .error .invalid
    | some e =>
      if s.now ≥ e then .error .tooLate
      else if s.now > t then .error .invalid
      else if t < m.startTime then .error .invalid
      else .ok { m with endTime := some t }

/-- `execute_update_start_trading_time` + the sub-message to the collection -/
def updateStartTradingTime (s : State) (m : Minter) (sender : Addr) (funds : List Coin) (t : Option Nat) : Except Err Minter :=
  match adminOnly m sender funds with
  | .error e => .error e
  | .ok _ =>
    if TT.tradingUpdateOk .openEdition s.now m.startTime s.params.maxTradingOffsetSecs t = false then .error .invalid
    else
      match m.tt.updateTrading m.addr t with
      | .error e => .error e
      | .ok c => .ok { m with tt := c }

/-- `execute_update_per_address_limit` (no dynamic rule in this family) -/
def updatePerAddressLimit (s : State) (m : Minter) (sender : Addr) (funds : List Coin) (n : Nat) : Except Err Minter :=
  match adminOnly m sender funds with
  | .error e => .error e
  | .ok _ =>
    if n = 0 ∨ n > s.params.maxPerAddressLimit then .error .invalid
    else .ok { m with perAddressLimit := n }

/-- `execute_burn_remaining`: strictly after the end time when there is one; `Supply.Seq.burnRemaining` -/
def burnRemaining (s : State) (m : Minter) (sender : Addr) (funds : List Coin) : Except Err Minter :=
  match adminOnly m sender funds with
  | .error e => .error e
  | .ok _ =>
    if notYetOver s m then .error .tooSoon
    else
      match m.seq.burnRemaining with
      | none => .error .soldOut
      | some sq => .ok { m with seq := sq }

/-! ## Collection interface -/

def collTransfer (m : Minter) (sender : Addr) (id : Nat) (to : Addr) : Except Err Minter :=
  if m.tt.kind = .nt then .error .unauthorized
  else if m.seq.coll.ownerOf id ≠ some sender then .error .unauthorized
  else
    match m.seq.coll.transfer id to with
    | none => .error .notFound
    | some c => .ok { m with seq := { m.seq with coll := c } }

def collBurn (m : Minter) (sender : Addr) (id : Nat) : Except Err Minter :=
  if m.seq.coll.ownerOf id ≠ some sender then .error .unauthorized
  else
    match m.seq.coll.burn id with
    | none => .error .notFound
    | some c => .ok { m with seq := { m.seq with coll := c } }

/-! ## step -/

def withMinter (s : State) (f : Minter → Except Err Minter) : Except Err State :=
  match s.minter with
  | none => .error .notFound
  | some m =>
    match f m with
    | .error e => .error e
    | .ok m' => .ok { s with minter := some m' }

def withMinterS (s : State) (f : Minter → Except Err State) : Except Err State :=
  match s.minter with
  | none => .error .notFound
  | some m => f m

def onColl (s : State) (f : TT.Coll → Except Err TT.Coll) : Except Err State :=
  withMinter s fun m =>
    match f m.tt with
    | .error e => .error e
    | .ok c => .ok { m with tt := c }

def step (s : State) : Op → Except Err State
  | .setTime t => if t < s.now then .error .invalid else .ok { s with now := t }
  | .fund a c => .ok { s with bank := s.bank.fund a c }
  | .wlEnv k info => .ok { s with wls := fun a => if a = k then info else s.wls a }
  | .create sender funds msg w => createMinter s sender funds msg w
  | .instantiateDirect _ => .error .unauthorized
  | .mint sender funds f sv => withMinterS s (mintSender s · sender funds f sv)
  | .mintTo sender funds rcpt => withMinterS s (mintAdmin s · sender funds rcpt)
  | .setWhitelist sender funds wl valid => withMinter s (setWhitelist s · sender funds wl valid)
  | .purge _ funds => withMinter s (purge s · funds)
  | .updateMintPrice sender funds p => withMinter s (updateMintPrice s · sender funds p)
  | .updateStartTime sender funds t => withMinter s (updateStartTime s · sender funds t)
  | .updateEndTime sender funds t => withMinter s (updateEndTime s · sender funds t)
  | .updateStartTradingTime sender funds t => withMinter s (updateStartTradingTime s · sender funds t)
  | .updatePerAddressLimit sender funds n => withMinter s (updatePerAddressLimit s · sender funds n)
  | .burnRemaining sender funds => withMinter s (burnRemaining s · sender funds)
  | .sudoStatus v b e => withMinter s fun m => .ok { m with status := ⟨v, b, e⟩ }
  | .sudoParams u =>
    match updateParams s.params u with
    | .error e => .error e
    | .ok p => .ok { s with params := p }
  | .collTransfer sender id to => withMinter s (collTransfer · sender id to)
  | .collBurn sender id => withMinter s (collBurn · sender id)
  | .collTrading sender t => onColl s (·.updateTrading sender t)
  | .collCreator sender new => onColl s (·.updateCreator sender new)
  | .collFreeze sender => onColl s (·.freeze sender)
  | .collOwn sender a => onColl s (·.updateOwnership sender a)

def step' (s : State) (op : Op) : State :=
  match step s op with
  | .ok s' => s'
  | .error _ => s

def run (s : State) (ops : List Op) : State := ops.foldl step' s

def init (now : Nat) (codes : Codes) (factoryAddr : Addr) (p : Params) : State :=
  { now := now, codes := codes, factoryAddr := factoryAddr, params := p, bank := VF.emptyBank,
    wls := fun _ => none, minter := none }

/-! ## Queries -/

def queryAllowed (s : State) (code : Nat) : Bool := s.params.allowed.contains code

structure PriceResp where
  publicPrice : Coin
  airdropPrice : Coin
  whitelistPrice : Option Coin
  currentPrice : Coin
deriving Repr, DecidableEq

def queryMintPrice (s : State) (m : Minter) : Except Err PriceResp :=
  match mintPrice s m false with
  | .error e => .error e
  | .ok cur =>
    match (match m.whitelist with
           | none => Except.ok none
           | some a =>
             match wlConfig s m.v a with
             | .error e => .error e
             | .ok i => .ok (some i.price)) with
    | .error e => .error e
    | .ok wlp =>
      .ok { publicPrice := m.mintPrice, airdropPrice := ⟨m.mintPrice.denom, s.params.airdropMintPrice.amount⟩,
            whitelistPrice := wlp, currentPrice := cur }

def tieredSum (m : Minter) (a : Addr) : Nat := m.stg 1 a + m.stg 2 a + m.stg 3 a

def queryMintCount (m : Minter) (a : Addr) : Nat :=
  if m.v.isFlex then m.pub a else m.pub a + m.wlc a + tieredSum m a

def queryWlCount (m : Minter) (a : Addr) : Option Nat :=
  if m.v.isFlex then some (m.wlc a + tieredSum m a) else none

/-- `MintableNumTokens {}` -/
def queryMintable (m : Minter) : Option Nat := m.seq.mintable

/-- `TotalMintCount {}` -/
def queryTotalMint (m : Minter) : Nat := m.seq.totalMint

end LP.OE
