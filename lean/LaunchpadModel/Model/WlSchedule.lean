import LaunchpadModel.Model.Basic
import LaunchpadModel.Generated.Constants
/-!
# Whitelist schedules (property C12): plain `whitelist`, `whitelist-flex`, `whitelist-merkletree`

Aspect model (DESIGN §3.4) of the *schedule* mechanism of the three single-stage whitelists: `start_time`,
`end_time`, the genesis clamp, the instantiate time checks, `execute_update_start_time`,
`execute_update_end_time`, the has-started gate of `execute_remove_members`, and the activity queries
(`IsActive`, `HasStarted`, `HasEnded`, `Config.is_active`). It also carries the admin list (because every
schedule update is gated by `can_execute`) and `per_address_limit` (the third kind of update named by the
property's quantifier; it must not touch the schedule).

Membership (who is on the list, `num_members`) is **environment**: `Op.removeMembers` carries the boolean
"every listed address is currently a member and the list has no repetition" (`present`), which the harness
establishes by `HasMember` queries before the call; `Op.env` stands for the messages that never look at the
schedule (`AddMembers`, `IncreaseMemberLimit`) with their outcome supplied by the implementation.

The three contracts are near-copies. The schedule code is *textually identical* in all three; they differ in
the non-schedule instantiate checks and in which messages exist (`Variant`, see docs/C12.md).

Mirrors (all under /repo/contracts/whitelists/):
* `instantiate`            ↔ `whitelist{,-flex,-merkletree}/src/contract.rs::instantiate`
* `step … (.updateStart)`  ↔ `execute_update_start_time`
* `step … (.updateEnd)`    ↔ `execute_update_end_time`
* `step … (.removeMembers)`↔ `execute_remove_members` (plain, flex; the Merkle whitelist has no such message)
* `step … (.updatePerAddr)`↔ `execute_update_per_address_limit` (plain only)
* `step … (.updateAdmins)`, `(.freeze)`, `isAdmin`, `canModify` ↔ `admin.rs`, `state.rs::AdminList`
* `hasStarted`, `hasEnded`, `isActive`, `configIsActive` ↔ `query_has_started`, `query_has_ended`,
  `query_is_active`, `query_config`
-/
namespace LP.WlSchedule

/-- which of the three near-copies -/
inductive Variant where
  | plain | flex | merkle
deriving Repr, DecidableEq, BEq

/-- `sg_utils::GENESIS_MINT_START_TIME` (nanoseconds) -/
def GENESIS : Nat := Gen.sg_utils_GENESIS_MINT_START_TIME

/-- `MAX_MEMBERS` (plain, flex); the Merkle whitelist has no member limit -/
def Variant.maxMembers : Variant → Nat
  | .plain => Gen.sg_whitelist_MAX_MEMBERS
  | .flex => Gen.sg_whitelist_flex_MAX_MEMBERS
  | .merkle => 0

def Variant.pricePer1000 : Variant → Nat
  | .plain => Gen.sg_whitelist_PRICE_PER_1000_MEMBERS
  | .flex => Gen.sg_whitelist_flex_PRICE_PER_1000_MEMBERS
  | .merkle => 0

/-- `MAX_PER_ADDRESS_LIMIT` exists in the plain whitelist only -/
def MAX_PER_ADDRESS_LIMIT : Nat := Gen.sg_whitelist_MAX_PER_ADDRESS_LIMIT

/-- plain/flex: `Decimal::new(member_limit, 3).ceil() * PRICE_PER_1000_MEMBERS`; Merkle: `CREATION_FEE` -/
def creationFee (v : Variant) (memberLimit : Nat) : Nat :=
  match v with
  | .merkle => Gen.whitelist_mtree_CREATION_FEE
  | _ => ((memberLimit + 999) / 1000) * v.pricePer1000

/-- The block clock plus the part of the contract state the schedule mechanism reads or writes. -/
structure State where
  /-- `env.block.time` (environment; moved by `Op.setTime`) -/
  now : Nat
  /-- `Config.start_time` -/
  start : Nat
  /-- `Config.end_time` -/
  end_ : Nat
  /-- `Config.per_address_limit` (plain, Merkle; unused for flex) -/
  perAddr : Nat
  /-- `AdminList.admins` -/
  admins : List Addr
  /-- `AdminList.mutable` -/
  adminsMutable : Bool
deriving Repr, DecidableEq

/-- `InstantiateMsg` as far as instantiate's accept/reject decision depends on it. -/
structure InstMsg where
  start : Nat
  end_ : Nat
  /-- plain, flex -/
  memberLimit : Nat
  /-- plain, Merkle -/
  perAddr : Nat
  /-- plain: addresses (second component ignored); flex: (address, mint_count) -/
  members : List (Addr × Nat)
  /-- flex -/
  whaleCap : Option Nat
  admins : List Addr
  adminsMutable : Bool
  /-- Merkle: `verify_merkle_root` accepted the root string (opaque: hex decoding) -/
  rootOk : Bool
  /-- Merkle: `verify_tree_uri` accepted the uri (opaque: `Url::parse`) -/
  uriOk : Bool
deriving Repr

/-- number of distinct addresses (`sort_unstable(); dedup()` in the plain whitelist) -/
def distinctCount (ms : List (Addr × Nat)) : Nat := (ms.map (·.1)).eraseDups.length

/-- `must_pay(&info, NATIVE_DENOM)? == fee` -/
def paysExactly (funds : List Coin) (fee : Nat) : Bool :=
  match mustPay funds NATIVE with
  | .ok p => p == fee
  | .error _ => false

/-- Every instantiate check that is **not** about the schedule (environment for C12, C11 owns them). -/
def envChecks (v : Variant) (funds : List Coin) (m : InstMsg) : Bool :=
  match v with
  | .plain =>
      decide (1 ≤ m.memberLimit) && decide (m.memberLimit ≤ v.maxMembers)
      && decide (1 ≤ m.perAddr) && decide (m.perAddr ≤ MAX_PER_ADDRESS_LIMIT)
      && paysExactly funds (creationFee v m.memberLimit)
      && decide (distinctCount m.members ≤ m.memberLimit)
  | .flex =>
      decide (1 ≤ m.memberLimit) && decide (m.memberLimit ≤ v.maxMembers)
      && paysExactly funds (creationFee v m.memberLimit)
      && (match m.whaleCap with
          | none => true
          | some cap => decide (cap > m.memberLimit) && m.members.all (fun x => decide (x.2 ≤ cap)))
      -- compared before de-duplication: `num_members: msg.members.len()`
      && decide (m.members.length ≤ m.memberLimit)
  | .merkle =>
      m.rootOk && m.uriOk && paysExactly funds (creationFee v m.memberLimit)

/-- `instantiate` of all three contracts; `now` is `env.block.time`. The three time checks are spelled out in
the order of the source. -/
def instantiate (v : Variant) (now : Nat) (funds : List Coin) (m : InstMsg) : Except Err State :=
  if !(envChecks v funds m) then .error .invalid
  else if m.start > m.end_ then .error .invalid          -- InvalidStartTime(start, end)
  else if now ≥ m.start then .error .tooLate             -- InvalidStartTime(now, start)
  else if m.start < GENESIS then .error .tooSoon         -- InvalidStartTime(start, genesis)
  else .ok { now := now, start := m.start, end_ := m.end_,
             perAddr := (if v = .flex then 0 else m.perAddr),
             admins := m.admins, adminsMutable := m.adminsMutable }

/-- operations on an instantiated whitelist; `setTime` is the chain producing a block -/
inductive Op where
  /-- next block's time (the model accepts any value; history theorems assume it does not decrease) -/
  | setTime (t : Nat)
  | updateStart (sender : Addr) (t : Nat)
  | updateEnd (sender : Addr) (t : Nat)
  /-- `present`: environment — every listed address is a member, no address listed twice -/
  | removeMembers (sender : Addr) (present : Bool)
  | updatePerAddr (sender : Addr) (n : Nat)
  | updateAdmins (sender : Addr) (admins : List Addr)
  | freeze (sender : Addr)
  /-- a message that never reads or writes the schedule (`AddMembers`, `IncreaseMemberLimit`); outcome is
  the environment's -/
  | env (ok : Bool)
deriving Repr, DecidableEq

/-- `AdminList::is_admin` -/
def isAdmin (s : State) (a : Addr) : Bool := s.admins.contains a
/-- `AdminList::can_modify` -/
def canModify (s : State) (a : Addr) : Bool := s.adminsMutable && isAdmin s a

def step (v : Variant) (s : State) : Op → Except Err State
  | .setTime t => .ok { s with now := t }
  | .updateStart a t =>
      if !(isAdmin s a) then .error .unauthorized
      else if s.now ≥ s.start then .error .tooLate         -- AlreadyStarted
      else if t > s.end_ then .error .invalid              -- InvalidStartTime(t, end)
      else .ok { s with start := (if t < GENESIS then GENESIS else t) }
  | .updateEnd a t =>
      if !(isAdmin s a) then .error .unauthorized
      else if s.now ≥ s.start && t > s.end_ then .error .tooLate   -- AlreadyStarted
      else if t < s.start then .error .invalid             -- InvalidEndTime(t, start)
      else .ok { s with end_ := t }
  | .removeMembers a present =>
      if v = .merkle then .error .invalid                  -- no such message
      else if !(isAdmin s a) then .error .unauthorized
      else if s.now ≥ s.start then .error .tooLate         -- AlreadyStarted
      else if !present then .error .notFound               -- NoMemberFound
      else .ok s
  | .updatePerAddr a n =>
      if v != .plain then .error .invalid                  -- no such message
      else if !(isAdmin s a) then .error .unauthorized
      else if n > MAX_PER_ADDRESS_LIMIT then .error .limit
      else .ok { s with perAddr := n }
  | .updateAdmins a l =>
      if !(canModify s a) then .error .unauthorized else .ok { s with admins := l }
  | .freeze a =>
      if !(canModify s a) then .error .unauthorized else .ok { s with adminsMutable := false }
  | .env ok => if ok then .ok s else .error .other

/-- transactional semantics: a failed message leaves the state unchanged -/
def step' (v : Variant) (s : State) (op : Op) : State :=
  match step v s op with
  | .ok s' => s'
  | .error _ => s

def run (v : Variant) (s : State) (ops : List Op) : State := ops.foldl (step' v) s

/-! ## Queries (each computed separately, as in the source) -/

/-- `query_has_started` -/
def hasStarted (s : State) : Bool := decide (s.now ≥ s.start)
/-- `query_has_ended` -/
def hasEnded (s : State) : Bool := decide (s.now ≥ s.end_)
/-- `query_is_active` -/
def isActive (s : State) : Bool := decide (s.now ≥ s.start) && decide (s.now < s.end_)
/-- `query_config().is_active` -/
def configIsActive (s : State) : Bool := decide (s.now ≥ s.start) && decide (s.now < s.end_)

/-- block time after `op` when it was `n` before: only the chain (`setTime`) moves the clock -/
def opTime (n : Nat) : Op → Nat
  | .setTime t => t
  | _ => n

/-- the clock never goes backwards along `ops`, starting from time `n` -/
def TimeMonotone : Nat → List Op → Prop
  | _, [] => True
  | n, op :: ops => n ≤ opTime n op ∧ TimeMonotone (opTime n op) ops

end LP.WlSchedule
