import LaunchpadModel.Model.Basic
import LaunchpadModel.Generated.Constants
/-!
# Whitelist schedules (property C12): plain `whitelist`, `whitelist-flex`, `whitelist-merkletree`

Aspect model (DESIGN §3.4) of the *schedule* mechanism of the three single-stage whitelists: `start_time`,
`end_time`, the genesis clamp, the instantiate time checks, `execute_update_start_time`,
`execute_update_end_time`, the has-started gate of `execute_remove_members`, and the activity queries
(`IsActive`, `HasStarted`, `HasEnded`, `Config.is_active`). It also carries the admin list (because every
schedule update is gated by `can_execute`).

Everything else is **environment** (owned by other properties, C11 / C05), supplied by the implementation as a
witness and only constrained not to touch the schedule:

* `instantiate … envOk …`: `envOk` = "every instantiate check that is *not* about the schedule passes" (member limit
  range, per-address limit range, creation fee, member count / whale cap, Merkle root / uri syntax). The harness
  obtains it by instantiating the *same* message, with a canonical valid schedule, on a scratch chain (round 3; up to
  round 2 these checks were modelled here and every legitimate change to them was a false C12 alarm).
* `Op.removeMembers … present`: "every listed address is currently a member and the list has no repetition"
  (from the harness's own bookkeeping of what it instantiated / added / removed).
* `Op.updatePerAddr n ok`: `UpdatePerAddressLimit` with its observed outcome (`per_address_limit` is only carried so
  that the drift part of the observation can show it).
* `Op.env ok`: any message that never looks at the schedule — `AddMembers`, `IncreaseMemberLimit`, `migrate`, and
  every message variant the harness finds in the crates' JSON schemas at run time that has no op of its own —
  with its observed outcome.

The three contracts are near-copies. The schedule code is *textually identical* in all three; they differ in
the non-schedule instantiate checks and in which messages exist (`Variant`, see docs/C12.md).

Mirrors (all under /repo/contracts/whitelists/):
* `instantiate`            ↔ `whitelist{,-flex,-merkletree}/src/contract.rs::instantiate` (the three time checks)
* `step … (.updateStart)`  ↔ `execute_update_start_time`
* `step … (.updateEnd)`    ↔ `execute_update_end_time`
* `step … (.removeMembers)`↔ `execute_remove_members` (plain, flex; the Merkle whitelist has no such message)
* `step … (.updateAdmins)`, `(.freeze)`, `isAdmin`, `canModify` ↔ `admin.rs`, `state.rs::AdminList`
* `hasStarted`, `hasEnded`, `isActive`, `configIsActive` ↔ `query_has_started`, `query_has_ended`,
  `query_is_active`, `query_config`
-/
namespace LP.WlSchedule

/-- which of the three near-copies -/
inductive Variant where
  | plain | flex | merkle
deriving Repr, DecidableEq, BEq

/-- `sg_utils::GENESIS_MINT_START_TIME` (nanoseconds) -/
def GENESIS : Nat := Gen.sg_utils_GENESIS_MINT_START_TIME

/-- The block clock plus the part of the contract state the schedule mechanism reads or writes. -/
structure State where
  /-- `env.block.time` (environment; moved by `Op.setTime`) -/
  now : Nat
  /-- `Config.start_time` -/
  start : Nat
  /-- `Config.end_time` -/
  end_ : Nat
  /-- `Config.per_address_limit` (plain, Merkle; unused for flex). Outside the property's projection. -/
  perAddr : Nat
  /-- `AdminList.admins` -/
  admins : List Addr
  /-- `AdminList.mutable` -/
  adminsMutable : Bool
deriving Repr, DecidableEq

/-- `InstantiateMsg` as far as the schedule mechanism depends on it. -/
structure InstMsg where
  start : Nat
  end_ : Nat
  /-- plain, Merkle -/
  perAddr : Nat
  admins : List Addr
  adminsMutable : Bool
deriving Repr

/-- `instantiate` of all three contracts; `now` is `env.block.time`; `envOk` = every check that is not about the
schedule passes (environment, see the file header). The three time checks are spelled out in the order of the
source. -/
def instantiate (v : Variant) (now : Nat) (envOk : Bool) (m : InstMsg) : Except Err State :=
  if !envOk then .error .invalid
  else if m.start > m.end_ then .error .invalid          -- InvalidStartTime(start, end)
  else if now ≥ m.start then .error .tooLate             -- InvalidStartTime(now, start)
  else if m.start < GENESIS then .error .tooSoon         -- InvalidStartTime(start, genesis)
  else .ok { now := now, start := m.start, end_ := m.end_,
             perAddr := (if v = .flex then 0 else m.perAddr),
             admins := m.admins, adminsMutable := m.adminsMutable }

/-- operations on an instantiated whitelist; `setTime` is the chain producing a block -/
inductive Op where
  /-- next block's time (the model accepts any value; history theorems assume it does not decrease) -/
  | setTime (t : Nat)
  | updateStart (sender : Addr) (t : Nat)
  | updateEnd (sender : Addr) (t : Nat)
  /-- `present`: environment — every listed address is a member, no address listed twice -/
  | removeMembers (sender : Addr) (present : Bool)
  /-- `UpdatePerAddressLimit(n)` with its observed outcome (environment: who may call it and which `n` are allowed
  is not C12's business; it must not move the schedule) -/
  | updatePerAddr (n : Nat) (ok : Bool)
  | updateAdmins (sender : Addr) (admins : List Addr)
  | freeze (sender : Addr)
  /-- any other message (`AddMembers`, `IncreaseMemberLimit`, `migrate`, variants discovered in the JSON schema at
  run time): never reads or writes the schedule; outcome is the environment's -/
  | env (ok : Bool)
deriving Repr, DecidableEq

/-- `AdminList::is_admin` -/
def isAdmin (s : State) (a : Addr) : Bool := s.admins.contains a
/-- `AdminList::can_modify` -/
def canModify (s : State) (a : Addr) : Bool := s.adminsMutable && isAdmin s a

def step (v : Variant) (s : State) : Op → Except Err State
  | .setTime t => .ok { s with now := t }
  | .updateStart a t =>
      if !(isAdmin s a) then .error .unauthorized
      else if s.now ≥ s.start then .error .tooLate         -- AlreadyStarted
      else if t > s.end_ then .error .invalid              -- InvalidStartTime(t, end)
      else .ok { s with start := (if t < GENESIS then GENESIS else t) }
  | .updateEnd a t =>
      if !(isAdmin s a) then .error .unauthorized
      else if s.now ≥ s.start && t > s.end_ then .error .tooLate   -- AlreadyStarted
      else if t < s.start then .error .invalid             -- InvalidEndTime(t, start)
      else .ok { s with end_ := t }
  | .removeMembers a present =>
      if v = .merkle then .error .invalid                  -- no such message
      else if !(isAdmin s a) then .error .unauthorized
      else if s.now ≥ s.start then .error .tooLate         -- AlreadyStarted
      else if !present then .error .notFound               -- NoMemberFound
      else .ok s
  | .updatePerAddr n ok => if ok then .ok { s with perAddr := n } else .error .other
  | .updateAdmins a l =>
      if !(canModify s a) then .error .unauthorized else .ok { s with admins := l }
  | .freeze a =>
      if !(canModify s a) then .error .unauthorized else .ok { s with adminsMutable := false }
  | .env ok => if ok then .ok s else .error .other

/-- transactional semantics: a failed message leaves the state unchanged -/
def step' (v : Variant) (s : State) (op : Op) : State :=
  match step v s op with
  | .ok s' => s'
  | .error _ => s

def run (v : Variant) (s : State) (ops : List Op) : State := ops.foldl (step' v) s

/-! ## Queries (each computed separately, as in the source) -/

/-- `query_has_started` -/
def hasStarted (s : State) : Bool := decide (s.now ≥ s.start)
/-- `query_has_ended` -/
def hasEnded (s : State) : Bool := decide (s.now ≥ s.end_)
/-- `query_is_active` -/
def isActive (s : State) : Bool := decide (s.now ≥ s.start) && decide (s.now < s.end_)
/-- `query_config().is_active` -/
def configIsActive (s : State) : Bool := decide (s.now ≥ s.start) && decide (s.now < s.end_)

/-- block time after `op` when it was `n` before: only the chain (`setTime`) moves the clock -/
def opTime (n : Nat) : Op → Nat
  | .setTime t => t
  | _ => n

/-- the clock never goes backwards along `ops`, starting from time `n` -/
def TimeMonotone : Nat → List Op → Prop
  | _, [] => True
  | n, op :: ops => n ≤ opTime n op ∧ TimeMonotone (opTime n op) ops

/-- the operation is one of the two messages that are allowed to move the schedule -/
def Op.isScheduleUpdate : Op → Bool
  | .updateStart _ _ => true
  | .updateEnd _ _ => true
  | _ => false

/-- the account a message is signed by (`none`: the chain's clock, or an environment message whose sender the
model does not look at) -/
def Op.sender? : Op → Option Addr
  | .updateStart a _ => some a
  | .updateEnd a _ => some a
  | .removeMembers a _ => some a
  | .updateAdmins a _ => some a
  | .freeze a => some a
  | _ => none

end LP.WlSchedule
