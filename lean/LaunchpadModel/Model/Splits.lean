import LaunchpadModel.Model.Basic
import LaunchpadModel.Generated.Constants
/-!
# `contracts/splits` (sg-splits) + external `cw4-group 1.1.2` + the bank, as far as C15 needs them

Model ↔ code map

| Lean | Rust |
|---|---|
| `Bank`, `bal`, `debit`, `credit`, `sendCoins`, `mintCoins`, `normalize` | cw-multi-test `BankKeeper::{get_balance, burn, mint, send, normalize_amount}` (= x/bank semantics: a send fails as a whole when a coin is not covered) |
| `Group`, `create`, `addLoop`, `removeLoop`, `Group.updateMembers`, `Group.updateAdmin` | `cw4_group::contract::{create, update_members, execute_update_members}`, `cw_controllers::Admin::execute_update_admin` |
| `sortByAddr`, `uniqueAddrs` | `cw4_group::helpers::validate_unique_members` (sorts in place, then rejects equal neighbours) |
| `listMembers` | `cw4_group::contract::query_list_members` (`DEFAULT_LIMIT = 10`, `MAX_LIMIT = 30`, `Bound::exclusive(start_after)`, ascending) |
| `lookupM` | `Cw4Contract::is_member(.., None)` (raw query of the `members` map: zero-weight members ARE members) |
| `checkedTotalWeight`, `checkedTotalMembers` | the same names in `contracts/splits/src/contract.rs` |
| `canDistribute` | `can_distribute` |
| `selectFunds` | the `denom_list` / `query_all_balances` block of `execute_distribute` |
| `payMsgs` | the double loop of `execute_distribute` (members with weight > 0 × funds, `multiplier = amount / total_weight`) |
| `distributeMsgs` | `execute_distribute` (returns the bank messages of the response, in order) |
| `execPays` | the chain executing the response's `BankMsg::Send`s in order, each one checked against the balance |
| `instantiate` | `sg_splits::contract::instantiate` (+ `reply`) for `Group::Cw4Address` / `Group::Cw4Instantiate` |
| `step` | one transaction (atomic: an error leaves the state unchanged, see `step'`) |

Addresses are naturals whose order is the byte order of the address strings the harness uses (fixed-width
`acct%05d` < `contract%d`, one-digit contract numbers) — this only matters for the ORDER in which members are
listed and paid, never for amounts.

`query_all_balances` returns the non-zero balances of the contract in the bank's own order (denom-string order in
cw-multi-test, also on chain). That order is environment: `Op.distribute` carries it as a *witness* `order`, and
the model checks that it is a duplicate-free enumeration of exactly the denoms with a non-zero balance
(`validOrder`). Theorems quantify over every order.
-/
namespace LP.Splits
open LP

/-! ## Bank -/

/-- association list `(address, denom) ↦ amount`; the first entry for a key is the balance -/
abbrev Bank := List ((Addr × Denom) × Nat)

def bal : Bank → Addr → Denom → Nat
  | [], _, _ => 0
  | (k, n) :: r, a, d => if k = (a, d) then n else bal r a d

def setBal : Bank → Addr → Denom → Nat → Bank
  | [], a, d, v => [((a, d), v)]
  | (k, n) :: r, a, d, v => if k = (a, d) then (k, v) :: r else (k, n) :: setBal r a d v

/-- total amount of denom `d` held by all accounts -/
def supply : Bank → Denom → Nat
  | [], _ => 0
  | (k, n) :: r, d => (if k.2 = d then n else 0) + supply r d

def credit (b : Bank) (a : Addr) (d : Denom) (n : Nat) : Bank := setBal b a d (bal b a d + n)

/-- `NativeBalance - coin`: fails when the balance does not cover the amount -/
def debit (b : Bank) (a : Addr) (d : Denom) (n : Nat) : Option Bank :=
  if bal b a d < n then none else some (setBal b a d (bal b a d - n))

/-- `BankKeeper::normalize_amount`: drop zero coins; nothing left is an error -/
def normalize (cs : List Coin) : Option (List Coin) :=
  let r := cs.filter (fun c => c.amount != 0)
  if r.isEmpty then none else some r

def debitAll : Bank → Addr → List Coin → Option Bank
  | b, _, [] => some b
  | b, a, c :: cs =>
    match debit b a c.denom c.amount with
    | none => none
    | some b1 => debitAll b1 a cs

def creditAll : Bank → Addr → List Coin → Bank
  | b, _, [] => b
  | b, a, c :: cs => creditAll (credit b a c.denom c.amount) a cs

/-- `BankKeeper::send` = `burn` from the sender then `mint` to the recipient -/
def sendCoins (b : Bank) (src dst : Addr) (coins : List Coin) : Option Bank :=
  match normalize coins with
  | none => none
  | some cs =>
    match debitAll b src cs with
    | none => none
    | some b1 => some (creditAll b1 dst cs)

/-- `BankSudo::Mint` -/
def mintCoins (b : Bank) (dst : Addr) (coins : List Coin) : Option Bank :=
  match normalize coins with
  | none => none
  | some cs => some (creditAll b dst cs)

/-- funds attached to a contract call are moved first (cw-multi-test / wasmd skip the transfer when empty) -/
def attachFunds (b : Bank) (sender self : Addr) (funds : List Coin) : Option Bank :=
  if funds.isEmpty then some b else sendCoins b sender self funds

/-! ## cw4-group -/

def U64_MAX : Nat := 18446744073709551615

/-- cw4-group `DEFAULT_LIMIT` / `MAX_LIMIT` (private consts of the external crate; exercised by the `q_members` lines) -/
def CW4_DEFAULT_LIMIT : Nat := 10
def CW4_MAX_LIMIT : Nat := 30

structure Group where
  admin : Option Addr
  /-- the `members` map in key (address) order -/
  members : List (Addr × Nat)
  /-- the stored `total` item -/
  total : Nat
deriving Repr, DecidableEq

def lookupM : List (Addr × Nat) → Addr → Option Nat
  | [], _ => none
  | (b, v) :: r, a => if b = a then some v else lookupM r a

/-- `Map::save` into an address-ordered map -/
def insertM : List (Addr × Nat) → Addr → Nat → List (Addr × Nat)
  | [], a, w => [(a, w)]
  | (b, v) :: r, a, w =>
    if a < b then (a, w) :: (b, v) :: r
    else if a = b then (a, w) :: r
    else (b, v) :: insertM r a w

def removeM (l : List (Addr × Nat)) (a : Addr) : List (Addr × Nat) := l.filter (fun m => m.1 != a)

def sumW : List (Addr × Nat) → Nat
  | [] => 0
  | m :: r => m.2 + sumW r

/-- insertion into an address-sorted list keeping equal keys (only used on the message's `add` list) -/
def insSorted (m : Addr × Nat) : List (Addr × Nat) → List (Addr × Nat)
  | [] => [m]
  | x :: r => if m.1 ≤ x.1 then m :: x :: r else x :: insSorted m r

def sortByAddr (l : List (Addr × Nat)) : List (Addr × Nat) := l.foldr insSorted []

def uniqueAddrs (l : List (Addr × Nat)) : Bool := decide (l.map (·.1)).Nodup

/-- the `add` loop of `update_members` (and, starting from the empty map with total 0, the loop of `create`):
`total = total.checked_sub(old)?.checked_add(new)?` on `Uint64`, then `MEMBERS.save` -/
def addLoop : List (Addr × Nat) → List (Addr × Nat) → Nat → Except Err (List (Addr × Nat) × Nat)
  | [], mem, t => .ok (mem, t)
  | (a, w) :: r, mem, t =>
    let old := (lookupM mem a).getD 0
    if t < old then .error .other
    else if t - old + w > U64_MAX then .error .limit
    else addLoop r (insertM mem a w) (t - old + w)

/-- the `remove` loop of `update_members` -/
def removeLoop : List Addr → List (Addr × Nat) → Nat → Except Err (List (Addr × Nat) × Nat)
  | [], mem, t => .ok (mem, t)
  | a :: r, mem, t =>
    match lookupM mem a with
    | none => removeLoop r mem t
    | some w => if t < w then .error .other else removeLoop r (removeM mem a) (t - w)

/-- `cw4_group::contract::create` -/
def create (admin : Option Addr) (ms : List (Addr × Nat)) : Except Err Group :=
  if !uniqueAddrs ms then .error .invalid
  else
    match addLoop (sortByAddr ms) [] 0 with
    | .error e => .error e
    | .ok (mem, t) => .ok ⟨admin, mem, t⟩

/-- `ExecuteMsg::UpdateMembers { add, remove }` sent by `sender` -/
def Group.updateMembers (g : Group) (sender : Addr) (add : List (Addr × Nat)) (remove : List Addr) : Except Err Group :=
  if !uniqueAddrs add then .error .invalid
  else if g.admin != some sender then .error .unauthorized
  else
    match addLoop (sortByAddr add) g.members g.total with
    | .error e => .error e
    | .ok (m1, t1) =>
      match removeLoop remove m1 t1 with
      | .error e => .error e
      | .ok (m2, t2) => .ok { g with members := m2, total := t2 }

/-- `Admin::execute_update_admin` (used by both cw4-group and sg-splits) -/
def updateAdminOf (cur : Option Addr) (sender : Addr) (new : Option Addr) : Except Err (Option Addr) :=
  if cur != some sender then .error .unauthorized else .ok new

/-- `query_list_members(start_after, limit)` -/
def listMembers (g : Group) (startAfter : Option Addr) (limit : Option Nat) : List (Addr × Nat) :=
  let lim := min (limit.getD CW4_DEFAULT_LIMIT) CW4_MAX_LIMIT
  let from_ := match startAfter with
    | none => g.members
    | some a => g.members.filter (fun m => decide (a < m.1))
  from_.take lim

/-! ## sg-splits -/

structure Pay where
  to : Addr
  denom : Denom
  amount : Nat
deriving Repr, DecidableEq

structure State where
  /-- address of the splits contract -/
  self : Addr
  /-- address of the cw4 group contract (`GROUP`) -/
  gaddr : Addr
  /-- `ADMIN` of the splits contract -/
  admin : Option Addr
  group : Group
  bank : Bank
deriving Repr, DecidableEq

def checkedTotalWeight (g : Group) : Except Err Nat :=
  if g.total = 0 then .error .invalid else .ok g.total

def listed (g : Group) : List (Addr × Nat) := listMembers g none (some Gen.sg_splits_PAGINATION_LIMIT)

def checkedTotalMembers (g : Group) : Except Err Nat :=
  let n := (listed g).length
  if n = 0 || n > Gen.sg_splits_MAX_GROUP_SIZE then .error .limit else .ok n

/-- `can_distribute`: with an admin set only the admin, otherwise any member of the group (any weight) -/
def canDistribute (admin : Option Addr) (g : Group) (sender : Addr) : Bool :=
  match admin with
  | some a => a == sender
  | none => (lookupM g.members sender).isSome

/-- the witness for `query_all_balances`: a duplicate-free list of exactly the denoms the contract holds -/
def validOrder (b : Bank) (self : Addr) (order : List Denom) : Bool :=
  decide order.Nodup
    && order.all (fun d => bal b self d != 0)
    && b.all (fun e => e.1.1 != self || bal b self e.1.2 == 0 || order.contains e.1.2)

/-- the `funds` vector of `execute_distribute` -/
def selectFunds (b : Bank) (self : Addr) (denoms : Option (List Denom)) (order : List Denom) : Except Err (List Coin) :=
  match denoms with
  | some l => .ok ((l.filter (fun d => bal b self d != 0)).map (fun d => ⟨d, bal b self d⟩))
  | none => if validOrder b self order then .ok (order.map (fun d => ⟨d, bal b self d⟩)) else .error .other

/-- the messages pushed for one member -/
def payMember (total : Nat) (funds : List Coin) (m : Addr × Nat) : List Pay :=
  funds.flatMap fun c =>
    let mult := c.amount / total
    if mult = 0 then [] else [⟨m.1, c.denom, m.2 * mult⟩]

/-- the double loop of `execute_distribute` -/
def payMsgs (members : List (Addr × Nat)) (funds : List Coin) (total : Nat) : List Pay :=
  (members.filter (fun m => decide (m.2 > 0))).flatMap (payMember total funds)

/-- `execute_distribute`: the bank messages of the response (the state is read-only: `deps: Deps`) -/
def distributeMsgs (s : State) (sender : Addr) (denoms : Option (List Denom)) (order : List Denom) : Except Err (List Pay) :=
  if !canDistribute s.admin s.group sender then .error .unauthorized
  else
    match checkedTotalWeight s.group with
    | .error e => .error e
    | .ok total =>
      let members := listed s.group
      if members.length = 0 || members.length > Gen.sg_splits_MAX_GROUP_SIZE then .error .limit
      else
        match selectFunds s.bank s.self denoms order with
        | .error e => .error e
        | .ok funds =>
          if funds.isEmpty then .error .payment
          else
            let msgs := payMsgs members funds total
            if msgs.isEmpty then .error .payment else .ok msgs

/-- the chain executes the response's `BankMsg::Send`s in order; any failure aborts the transaction -/
def execPays : Bank → Addr → List Pay → Option Bank
  | b, _, [] => some b
  | b, self, p :: ps =>
    match debit b self p.denom p.amount with
    | none => none
    | some b1 => execPays (credit b1 p.to p.denom p.amount) self ps

/-- how the splits contract got its group -/
inductive Mode where
  /-- `Group::Cw4Address`: an existing group; weight and member count are checked at instantiation -/
  | addr
  /-- `Group::Cw4Instantiate`: the splits contract instantiates the group (sub-message + reply); nothing is checked -/
  | inst
  /-- `Group::Cw4Address` naming an address that is not a cw4 contract -/
  | bad
deriving Repr, DecidableEq

/-- group creation followed by `sg_splits::contract::instantiate` -/
def instantiate (mode : Mode) (self gaddr : Addr) (admin gadmin : Option Addr) (ms : List (Addr × Nat)) : Except Err State :=
  match mode with
  | .bad => .error .invalid
  | .inst =>
    match create gadmin ms with
    | .error e => .error e
    | .ok g => .ok ⟨self, gaddr, admin, g, []⟩
  | .addr =>
    match create gadmin ms with
    | .error e => .error e
    | .ok g =>
      match checkedTotalWeight g with
      | .error e => .error e
      | .ok _ =>
        match checkedTotalMembers g with
        | .error e => .error e
        | .ok _ => .ok ⟨self, gaddr, admin, g, []⟩

inductive Op where
  /-- the environment creates coins (`BankSudo::Mint`) -/
  | mint (to : Addr) (coins : List Coin)
  /-- a plain bank transfer; a *deposit* when `to` is the splits contract -/
  | send (src dst : Addr) (coins : List Coin)
  /-- cw4-group `UpdateMembers` -/
  | updateMembers (sender : Addr) (add : List (Addr × Nat)) (remove : List Addr)
  /-- cw4-group `UpdateAdmin` -/
  | groupAdmin (sender : Addr) (new : Option Addr)
  /-- sg-splits `UpdateAdmin` -/
  | splitsAdmin (sender : Addr) (new : Option Addr)
  /-- sg-splits `Distribute { denom_list }` with `funds` attached; `order` = witness for `query_all_balances` -/
  | distribute (sender : Addr) (funds : List Coin) (denoms : Option (List Denom)) (order : List Denom)
  /-- any OTHER execute message sent to the splits contract with `funds` attached: `ExecuteMsg` has exactly the two
  variants above, so raw JSON naming anything else (`withdraw`, `burn`, `update_group`, …) is refused at parsing and
  the attached funds never move. (The harness sends such JSON — and every variant it finds in the crate's schema
  at run time that has no named op here — under the same monitors, so that a message added to the code shows up as
  a difference / a monitor finding instead of a harness that no longer compiles.) -/
  | raw (sender : Addr) (funds : List Coin)
  /-- `migrate` of the splits contract: cw2 version bookkeeping only, no state of the model changes -/
  | migrate (sender : Addr)
deriving Repr

/-- the `Distribute` transaction: attached funds arrive, the contract computes its messages, the bank executes them -/
def distribute (s : State) (sender : Addr) (funds : List Coin) (denoms : Option (List Denom)) (order : List Denom) :
    Except Err (State × List Pay) :=
  match attachFunds s.bank sender s.self funds with
  | none => .error .payment
  | some b1 =>
    match distributeMsgs { s with bank := b1 } sender denoms order with
    | .error e => .error e
    | .ok msgs =>
      match execPays b1 s.self msgs with
      | none => .error .payment
      | some b2 => .ok ({ s with bank := b2 }, msgs)

def step (s : State) : Op → Except Err State
  | .mint to coins =>
    match mintCoins s.bank to coins with
    | none => .error .payment
    | some b => .ok { s with bank := b }
  | .send src dst coins =>
    match sendCoins s.bank src dst coins with
    | none => .error .payment
    | some b => .ok { s with bank := b }
  | .updateMembers sender add remove =>
    match s.group.updateMembers sender add remove with
    | .error e => .error e
    | .ok g => .ok { s with group := g }
  | .groupAdmin sender new =>
    match updateAdminOf s.group.admin sender new with
    | .error e => .error e
    | .ok a => .ok { s with group := { s.group with admin := a } }
  | .splitsAdmin sender new =>
    match updateAdminOf s.admin sender new with
    | .error e => .error e
    | .ok a => .ok { s with admin := a }
  | .distribute sender funds denoms order =>
    match distribute s sender funds denoms order with
    | .error e => .error e
    | .ok (s', _) => .ok s'
  | .raw _ _ => .error .invalid
  | .migrate _ => .ok s

/-- transactions are atomic: a failed operation leaves the state unchanged -/
def step' (s : State) (op : Op) : State :=
  match step s op with
  | .ok s' => s'
  | .error _ => s

def run (s : State) (ops : List Op) : State := ops.foldl step' s

/-- coins created by the environment in a history (per denom); only `mint` creates coins -/
def mintedOp (d : Denom) : Op → Nat
  | .mint _ coins => ((coins.filter (fun c => c.denom = d)).map (·.amount)).sum
  | _ => 0

/-! ## rendering for the driver -/

def insertKey (e : (Addr × Denom) × Nat) : List ((Addr × Denom) × Nat) → List ((Addr × Denom) × Nat)
  | [] => [e]
  | x :: r =>
    if e.1.1 < x.1.1 || (e.1.1 == x.1.1 && e.1.2 ≤ x.1.2) then e :: x :: r else x :: insertKey e r

/-- canonical view of the bank: non-zero balances, each key once, sorted by (address, denom) -/
def bankView (b : Bank) : List ((Addr × Denom) × Nat) :=
  let keys := (b.map (·.1)).eraseDups
  let es := (keys.map (fun k => (k, bal b k.1 k.2))).filter (fun e => e.2 != 0)
  es.foldr insertKey []

/-- what a list of payments adds to each account other than `self`, per denom: one entry per (recipient, denom),
sorted — the order and the grouping of the messages are not part of the property -/
def addPaid (e : (Addr × Denom) × Nat) : List ((Addr × Denom) × Nat) → List ((Addr × Denom) × Nat)
  | [] => [e]
  | x :: r =>
    if x.1 = e.1 then (x.1, x.2 + e.2) :: r
    else if e.1.1 < x.1.1 || (e.1.1 == x.1.1 && e.1.2 < x.1.2) then e :: x :: r
    else x :: addPaid e r

def paidView (self : Addr) (msgs : List Pay) : List ((Addr × Denom) × Nat) :=
  (msgs.filter (fun p => p.to != self && p.amount != 0)).foldl (fun acc p => addPaid ((p.to, p.denom), p.amount) acc) []

end LP.Splits
