import LaunchpadModel.Model.Basic
import LaunchpadModel.Model.Decimal
import LaunchpadModel.Model.Sg1
import LaunchpadModel.Model.Supply
import LaunchpadModel.Model.MintLimits
import LaunchpadModel.Model.MintPay
import LaunchpadModel.Model.TradingTime
import LaunchpadModel.Generated.Constants
/-!
# Composite model of the fixed-supply vending minter family (DESIGN §3.4) — core Lean only

ONE deterministic, executable model of `vending-factory` + the six vending minters
(`vending-minter`, `-featured`, `-wl-flex`, `-wl-flex-featured`, `-merkle-wl`, `-merkle-wl-featured`) as the code is now:
every instantiate / execute / sudo / query / reply path, every stored item, every gate (authorisation, payment, clock,
limits, whitelist answers, supply) computed here.  See `docs/COMPOSITE_VENDING.md` for the function-by-function map.

Taken from outside:

* pseudo-randomness = checked witnesses exactly as in `Model/Supply.lean` (`create` carries the initial permutation,
  `mint`/`mintTo` the picked position, `shuffle` the resulting id list; the model checks them);
* the chain's address allocation (`CreateWit.minterAddr/collAddr`) and the code-id tables (`Codes`);
* contracts OUTSIDE the family, through an explicit interface:
  - whitelists: `WlInfo` = what a whitelist contract answers, at the current block, to the sender-independent queries
    the minter makes (`Config {}`, cw2 contract info, `ActiveStageId {}`, `Stage {}`); it is (re)written by `Op.wlEnv`
    from queries the harness makes BEFORE the op.  The sender-dependent answers (`HasMember`, `Member`, the Merkle
    `HasMember {member, proof_hashes}`) ride on the mint op (`SenderView`).  Which query shapes parse for which whitelist kind is
    `MintLimits.configOk/stageOk/WlKind.answers*` (validated against the real contracts by the C03 check).
  - the sg721 collection: only what the minter's sub-messages need — the token table (`Supply.Coll`, inside
    `Supply.Fixed`) and the ownership / trading-time record (`TT.Coll`); holders' and creator's own messages to
    the collection are the interface ops `collTransfer … collOwn`.
  - `Url::parse`, `addr_validate` on user strings, and the collection's own instantiate checks are flags on `CreateMsg`.

Reused as they stand (stable pieces only; the whitelist gate, prices, fees, payouts and price rules are transcribed HERE,
independently of the aspect models, so that the refinement theorems compare two separately written descriptions):
`Supply.Fixed` (+`takeAt/takeId/shuffle/burnAll/purge`), `MintPay.Bank/applyMsgs`, `Sg1.*`, `mayPay/mustPay/nonpayable`,
`TT.Coll.*`, `TT.boundedOrDefault/tradingUpdateOk`, and from `MintLimits` the query-shape tables and small helpers
(`Flavor`, `WlKind`, `Fields`, `configOk`, `stageOk`, `WlKind.answers*`, `dynOk`, `upd`, `upd2`, `zero`).
One minter per factory per case (as in every aspect model).
-/
namespace LP.VF
open LP

/-! ## Variants -/

/-- The places where the six crates differ (diff of the five siblings against `vending-minter`):
* `featured`  — the literal passed to `sg1::distribute_mint_fees` in `_execute_mint`;
* `flavor`    — the whitelist dialect: `plain` = `sg_whitelist` messages; `flex` = `sg_whitelist_flex` (limit from
  `Member {}`; no `check_dynamic_per_address_limit` at instantiate / `UpdatePerAddressLimit`; `Purge` also clears
  `WHITELIST_MINTER_ADDRS`; `SetWhitelist` does not compare the whitelist denom with the minter's own; `MintCount` reports
  `count` and `whitelist_count` separately); `merkle` = `Mint {stage, proof_hashes, allocation}` with proof-carrying
  `HasMember`. -/
structure Variant where
  featured : Bool
  flavor : MintLimits.Flavor
deriving DecidableEq, Repr

def Variant.ofIdx : Nat → Option Variant
  | 0 => some ⟨false, .plain⟩ | 1 => some ⟨true, .plain⟩
  | 2 => some ⟨false, .flex⟩ | 3 => some ⟨true, .flex⟩
  | 4 => some ⟨false, .merkle⟩ | 5 => some ⟨true, .merkle⟩
  | _ => none

def Variant.kind (v : Variant) : MintLimits.MinterKind :=
  match v.flavor, v.featured with
  | .plain, false => .vending | .plain, true => .vendingFeatured
  | .flex, false => .vendingFlex | .flex, true => .vendingFlexFeatured
  | .merkle, false => .vendingMerkle | .merkle, true => .vendingMerkleFeatured

def Variant.isFlex (v : Variant) : Bool := decide (v.flavor = .flex)

/-! ## Stored records -/

/-- `vending_factory::state::VendingMinterParams` (`sg2::MinterParams<ParamsExtension>`) -/
structure Params where
  codeId : Nat
  allowed : List Nat
  frozen : Bool
  creationFee : Coin
  minMintPrice : Coin
  mintFeeBps : Nat
  maxTradingOffsetSecs : Nat
  maxTokenLimit : Nat
  maxPerAddressLimit : Nat
  airdropMintPrice : Coin
  airdropMintFeeBps : Nat
  shuffleFee : Coin
deriving DecidableEq, Repr

/-- `VendingUpdateParamsMsg` -/
structure ParamsUpdate where
  codeId : Option Nat := none
  addCodes : Option (List Nat) := none
  rmCodes : Option (List Nat) := none
  frozen : Option Bool := none
  creationFee : Option Coin := none
  minMintPrice : Option Coin := none
  mintFeeBps : Option Nat := none
  maxTradingOffsetSecs : Option Nat := none
  maxTokenLimit : Option Nat := none
  maxPerAddressLimit : Option Nat := none
  airdropMintPrice : Option Coin := none
  airdropMintFeeBps : Option Nat := none
  shuffleFee : Option Coin := none
deriving DecidableEq, Repr

/-- `sg4::Status` -/
structure Status where
  verified : Bool := false
  blocked : Bool := false
  explicit : Bool := false
deriving DecidableEq, Repr

/-- What a whitelist contract answers NOW to the sender-independent queries of the minter. -/
structure WlInfo where
  /-- decides which query shapes parse (`Config`, `HasMember`, `Member`, cw2 name, `Stage`) -/
  kind : MintLimits.WlKind
  /-- `Config.is_active` -/
  active : Bool
  /-- `Config.mint_price` -/
  price : Coin
  /-- `Config.per_address_limit` (0 where the answer has no such field) -/
  limit : Nat
  /-- `Config.member_limit == 0 && Config.num_members == 0` -/
  merkleCfg : Bool
  /-- `ActiveStageId {}` (0 when the query fails) -/
  stageId : Nat
  /-- `Stage {ActiveStageId-1}.stage.mint_count_limit` -/
  stageLimit : Option Nat
deriving DecidableEq, Repr

/-- The sender-dependent whitelist answers for ONE mint, read before the op. -/
structure SenderView where
  /-- `HasMember {member: sender}` -/
  memberPlain : Bool := false
  /-- `HasMember {member: stage‖sender‖allocation, proof_hashes}` answered `true` -/
  leafOk : Bool := false
  /-- `Member {sender}.mint_count` -/
  memberCount : Nat := 0
deriving DecidableEq, Repr

/-- code-id tables of the chain (environment constants of a case) -/
structure Codes where
  /-- code ids of the six minter crates, in `Variant.ofIdx` order -/
  minters : List Nat
  /-- code ids of sg721-base, -updatable, -nt, -metadata-onchain -/
  colls : List Nat
deriving Repr

def Codes.variantOf (c : Codes) (code : Nat) : Option Variant :=
  match c.minters.findIdx? (· == code) with
  | some i => Variant.ofIdx i
  | none => none

def collKindOfIdx : Nat → Option TT.CollKind
  | 0 => some .base | 1 => some .updatable | 2 => some .nt | 3 => some .metadata
  | _ => none

def Codes.collKindOf (c : Codes) (code : Nat) : Option TT.CollKind :=
  match c.colls.findIdx? (· == code) with
  | some i => collKindOfIdx i
  | none => none

/-- One vending minter together with the part of its collection the interface exposes. -/
structure Minter where
  v : Variant
  /-- `env.contract.address` -/
  addr : Addr
  -- `CONFIG`
  factory : Addr
  collectionCodeId : Nat
  mintPrice : Coin
  admin : Addr
  paymentAddress : Option Addr
  whitelist : Option Addr
  startTime : Nat
  perAddressLimit : Nat
  discountPrice : Option Coin
  /-- `SG721_ADDRESS` (written by `reply`) -/
  sg721 : Addr
  /-- `config.extension.num_tokens` (`n`), `MINTABLE_TOKEN_POSITIONS` (`pos`), `MINTABLE_NUM_TOKENS` (`mintable`),
  ghosts `minted` / `burned`, and the collection's token table `coll` -/
  supply : Supply.Fixed
  /-- `MINTER_ADDRS` -/
  pub : Addr → Nat
  /-- `WHITELIST_MINTER_ADDRS` -/
  wlc : Addr → Nat
  /-- `WHITELIST_{FS,SS,TS}_MINTER_ADDRS` at 1, 2, 3 -/
  stg : Nat → Addr → Nat
  /-- `WHITELIST_{FS,SS,TS}_MINT_COUNT` at 1, 2, 3 -/
  tot : Nat → Nat
  /-- `AIRDROP_COUNT` -/
  airdropCount : Nat
  /-- `LAST_DISCOUNT_TIME` -/
  lastDiscount : Nat
  /-- `STATUS` -/
  status : Status
  /-- ghost: tokens delivered per recipient by this minter -/
  received : Addr → Nat
  /-- collection side: cw_ownable owner / pending, `collection_info.creator`, frozen flag, `start_trading_time` -/
  tt : TT.Coll

structure State where
  now : Nat
  codes : Codes
  factoryAddr : Addr
  /-- `SUDO_PARAMS` -/
  params : Params
  bank : MintPay.Bank
  /-- the whitelist interface: `none` = no (whitelist) contract at that address, every query fails -/
  wls : Addr → Option WlInfo
  minter : Option Minter

/-! ## Messages -/

/-- `VendingMinterCreateMsg` (the strings the model does not interpret are validity flags) -/
structure CreateMsg where
  /-- `collection_params.code_id` -/
  collCode : Nat
  /-- `collection_params.info.creator` -/
  creator : Addr
  /-- `collection_params.info.start_trading_time` -/
  trading : Option Nat
  /-- `Url::parse(base_token_uri.trim())` succeeds -/
  uriOk : Bool
  paymentAddress : Option Addr
  startTime : Nat
  numTokens : Nat
  mintPrice : Coin
  perAddressLimit : Nat
  whitelist : Option Addr
  /-- `addr_validate(whitelist)` succeeds (a malformed string is silently treated as "no whitelist") -/
  whitelistValid : Bool
  /-- the sg721 contract's own instantiate checks pass (description length, image / link URLs, royalty share) -/
  collOk : Bool
deriving Repr

/-- environment witnesses of a `CreateMinter` -/
structure CreateWit where
  /-- address the chain gives the minter / the collection -/
  minterAddr : Addr
  collAddr : Addr
  /-- `random_token_list(1..=n)` -/
  perm : List Nat
deriving Repr

inductive Op where
  /-- next block -/
  | setTime (t : Nat)
  /-- test setup: coins created for an account; also the net effect on the bank of a fee paid to an outside contract -/
  | fund (a : Addr) (c : Coin)
  /-- interface: the whitelist at `k` now answers `info` -/
  | wlEnv (k : Addr) (info : Option WlInfo)
  /-- factory `CreateMinter` → minter `instantiate` → sg721 `instantiate` → minter `reply` -/
  | create (sender : Addr) (funds : List Coin) (msg : CreateMsg) (w : CreateWit)
  /-- minter code instantiated by somebody who is not a factory contract -/
  | instantiateDirect (sender : Addr)
  | mint (sender : Addr) (funds : List Coin) (f : MintLimits.Fields) (sv : SenderView) (picked : Nat)
  | mintTo (sender : Addr) (funds : List Coin) (rcpt : Addr) (picked : Nat)
  | mintFor (sender : Addr) (funds : List Coin) (id : Nat) (rcpt : Addr)
  | setWhitelist (sender : Addr) (funds : List Coin) (wl : Addr) (valid : Bool)
  | purge (sender : Addr) (funds : List Coin)
  | updateMintPrice (sender : Addr) (funds : List Coin) (price : Nat)
  | updateStartTime (sender : Addr) (funds : List Coin) (t : Nat)
  | updateStartTradingTime (sender : Addr) (funds : List Coin) (t : Option Nat)
  | updatePerAddressLimit (sender : Addr) (funds : List Coin) (n : Nat)
  | shuffle (sender : Addr) (funds : List Coin) (perm : List Nat)
  | burnRemaining (sender : Addr) (funds : List Coin)
  | updateDiscountPrice (sender : Addr) (funds : List Coin) (price : Nat)
  | removeDiscountPrice (sender : Addr) (funds : List Coin)
  /-- minter `sudo UpdateStatus` -/
  | sudoStatus (verified blocked explicit : Bool)
  /-- factory `sudo UpdateParams` -/
  | sudoParams (u : ParamsUpdate)
  /-- interface: messages sent to the collection by holders / the creator / anybody -/
  | collTransfer (sender : Addr) (id : Nat) (to : Addr)
  | collBurn (sender : Addr) (id : Nat)
  | collTrading (sender : Addr) (t : Option Nat)
  | collCreator (sender : Addr) (new : Addr)
  | collFreeze (sender : Addr)
  | collOwn (sender : Addr) (a : TT.OwnAction)

/-! ## Small helpers -/

def HOUR : Nat := 60 * 60 * TT.NANOS
def H12 : Nat := 12 * HOUR
def GENESIS : Nat := Gen.sg_utils_GENESIS_MINT_START_TIME

def emptyBank : MintPay.Bank := { bal := fun _ _ => 0, minted := fun _ => 0, burned := fun _ => 0 }

/-- `Vec::dedup`: drops consecutive repetitions -/
def dedupAdj : List Nat → List Nat
  | [] => []
  | [a] => [a]
  | a :: b :: rest => if a = b then dedupAdj (b :: rest) else a :: dedupAdj (b :: rest)

/-- the whitelist's `Config {}` as the minter of variant `v` reads it: fails when there is no such contract or the
answer has another layout -/
def wlConfig (s : State) (v : Variant) (a : Addr) : Except Err WlInfo :=
  match s.wls a with
  | none => .error .notFound
  | some i => if MintLimits.configOk v.flavor i.kind then .ok i else .error .invalid

/-! ## Factory -/

/-- `ensure_eq!(coin.denom, NATIVE_DENOM)` on an optional replacement coin -/
def nativeOr (o : Option Coin) (cur : Coin) : Except Err Coin :=
  match o with
  | none => .ok cur
  | some c => if c.denom = NATIVE then .ok c else .error .invalid

/-- `params.allowed_sg721_code_ids` after `update_params`: push the additions, `Vec::dedup`, then `retain` per removal -/
def updateAllowed (allowed : List Nat) (add rm : Option (List Nat)) : List Nat :=
  (rm.getD []).foldl (fun (acc : List Nat) c => acc.filter (· != c)) (dedupAdj (allowed ++ add.getD []))

/-- `base_factory::update_params` followed by the extension part of `vending_factory::sudo_update_params`
(nothing is saved when any of the three denom checks fails) -/
def updateParams (p : Params) (u : ParamsUpdate) : Except Err Params :=
  match nativeOr u.minMintPrice p.minMintPrice with
  | .error e => .error e
  | .ok minp =>
    match nativeOr u.airdropMintPrice p.airdropMintPrice with
    | .error e => .error e
    | .ok airp =>
      match nativeOr u.shuffleFee p.shuffleFee with
      | .error e => .error e
      | .ok shuf =>
        .ok { codeId := u.codeId.getD p.codeId
              allowed := updateAllowed p.allowed u.addCodes u.rmCodes
              frozen := u.frozen.getD p.frozen
              creationFee := u.creationFee.getD p.creationFee
              minMintPrice := minp
              mintFeeBps := u.mintFeeBps.getD p.mintFeeBps
              maxTradingOffsetSecs := u.maxTradingOffsetSecs.getD p.maxTradingOffsetSecs
              maxTokenLimit := u.maxTokenLimit.getD p.maxTokenLimit
              maxPerAddressLimit := u.maxPerAddressLimit.getD p.maxPerAddressLimit
              airdropMintPrice := airp
              airdropMintFeeBps := u.airdropMintFeeBps.getD p.airdropMintFeeBps
              shuffleFee := shuf }

/-- the fee messages of `execute_create_minter` -/
def creationFeeMsgs (s : State) (funds : List Coin) : Except Err (List Msg) :=
  if s.params.creationFee.denom = NATIVE then
    Sg1.checkedFairBurn funds s.factoryAddr s.params.creationFee.amount none
  else
    Sg1.transferFundsToLaunchpadDao funds s.params.creationFee.amount s.params.creationFee.denom

/-- the argument checks of `execute_create_minter` (everything before the `WasmMsg::Instantiate`) -/
def factoryChecks (s : State) (funds : List Coin) (msg : CreateMsg) : Except Err (List Msg) :=
  match mustPay funds s.params.creationFee.denom with
  | .error e => .error e
  | .ok _ =>
    if !(s.params.allowed.contains msg.collCode) then .error .invalid
    else if s.params.frozen then .error .frozen
    else
      match creationFeeMsgs s funds with
      | .error e => .error e
      | .ok ms =>
        if msg.numTokens = 0 ∨ msg.numTokens > s.params.maxTokenLimit then .error .invalid
        else if msg.perAddressLimit = 0 ∨ msg.perAddressLimit > s.params.maxPerAddressLimit then .error .invalid
        else if s.params.minMintPrice.denom ≠ msg.mintPrice.denom then .error .invalid
        else if s.params.minMintPrice.amount > msg.mintPrice.amount then .error .invalid
        else .ok ms

/-- the optional whitelist named at creation: a malformed address is dropped; otherwise `Config {}` must parse and must
not be active -/
def createWhitelist (s : State) (v : Variant) (msg : CreateMsg) : Except Err (Option Addr) :=
  match msg.whitelist with
  | none => .ok none
  | some a =>
    if msg.whitelistValid = false then .ok none
    else
      match wlConfig s v a with
      | .error e => .error e
      | .ok i => if i.active then .error .tooLate else .ok (some a)

/-- bound and default of `start_trading_time` in `instantiate` -/
def createTrading (s : State) (msg : CreateMsg) : Except Err (Option Nat) :=
  TT.boundedOrDefault msg.startTime s.params.maxTradingOffsetSecs msg.trading

/-- minter `instantiate` (sender = the factory) + the sg721 instantiate sub-message + `reply` -/
def instantiateMinter (s : State) (v : Variant) (msg : CreateMsg) (w : CreateWit) : Except Err Minter :=
  if v.isFlex = false ∧ MintLimits.dynOk msg.perAddressLimit msg.numTokens s.params.maxPerAddressLimit = false then .error .invalid
  else if msg.uriOk = false then .error .invalid
  else if msg.startTime < GENESIS then .error .invalid
  else if s.now > msg.startTime then .error .invalid
  else
    match createWhitelist s v msg with
    | .error e => .error e
    | .ok wl =>
      match createTrading s msg with
      | .error e => .error e
      | .ok trading =>
        -- `env.block.time.minus_seconds(12h)` panics on underflow
        if s.now < H12 then .error .other
        else
          match Supply.Fixed.init msg.numTokens w.perm with
          | none => .error .other
          | some sup =>
            -- sg721 instantiate: the code id must be a collection contract and its own checks must pass
            match s.codes.collKindOf msg.collCode with
            | none => .error .notFound
            | some ck =>
              if msg.collOk = false then .error .invalid
              else
                .ok { v := v, addr := w.minterAddr, factory := s.factoryAddr, collectionCodeId := msg.collCode,
                      mintPrice := msg.mintPrice, admin := msg.creator, paymentAddress := msg.paymentAddress,
                      whitelist := wl, startTime := msg.startTime, perAddressLimit := msg.perAddressLimit,
                      discountPrice := none, sg721 := w.collAddr, supply := sup,
                      pub := MintLimits.zero, wlc := MintLimits.zero, stg := fun _ => MintLimits.zero,
                      tot := MintLimits.zero, airdropCount := 0, lastDiscount := s.now - H12, status := {},
                      received := MintLimits.zero,
                      tt := TT.Coll.init ck w.minterAddr msg.creator trading }

/-- factory `execute_create_minter` and everything it triggers -/
def createMinter (s : State) (sender : Addr) (funds : List Coin) (msg : CreateMsg) (w : CreateWit) : Except Err State :=
  if s.minter.isSome then .error .other        -- the model follows ONE minter per case
  else
    match s.bank.sendFunds sender s.factoryAddr funds with
    | none => .error .payment
    | some b1 =>
      match factoryChecks s funds msg with
      | .error e => .error e
      | .ok ms =>
        match MintPay.applyMsgs s.factoryAddr b1 ms with
        | none => .error .other
        | some b2 =>
          match s.codes.variantOf s.params.codeId with
          | none => .error .notFound
          | some v =>
            match instantiateMinter s v msg w with
            | .error e => .error e
            | .ok m => .ok { s with bank := b2, minter := some m }

/-! ## Minter: mint -/

/-- how a buyer's mint is booked: on the public counter, or on a whitelist counter (`sid` = tiered stage id 1..3,
`0` = the plain whitelist counter; `cnt` = the caller's stored count on it) -/
inductive MintKind where
  | pub
  | wl (sid cnt : Nat)
deriving DecidableEq, Repr

/-- `HasMember` as the minter of variant `v` asks it: (has_member, the membership came from a verified Merkle leaf).
vending-minter-merkle-wl(-featured): `is_merkle_tree_wl(&wl_config) && proof_hashes.is_some()` selects the proof query. -/
def hasMember (v : Variant) (i : WlInfo) (f : MintLimits.Fields) (sv : SenderView) : Except Err (Bool × Bool) :=
  if v.flavor = .merkle ∧ i.merkleCfg = true ∧ f.proof = true then
    if i.kind.answersHasMemberProof then .ok (sv.leafOk, true) else .error .invalid
  else
    if i.kind.answersHasMember then .ok (sv.memberPlain, false) else .error .invalid

/-- `whitelist_mint_count`: (stored count, stage id; 0 = not a tiered whitelist) -/
def whitelistMintCount (m : Minter) (i : WlInfo) (sender : Addr) : Except Err (Nat × Nat) :=
  if i.kind.tieredName then
    if 1 ≤ i.stageId ∧ i.stageId ≤ 3 then .ok (m.stg i.stageId sender, i.stageId) else .error .invalid
  else .ok (m.wlc sender, 0)

/-- the limit the stored whitelist count is compared against: `Config.per_address_limit` (plain), `Member.mint_count`
(flex), a proof-authenticated `allocation` (merkle, after fix d3ea89f) -/
def wlEntitlement (v : Variant) (i : WlInfo) (f : MintLimits.Fields) (sv : SenderView) (leaf : Bool) : Except Err Nat :=
  match v.flavor with
  | .plain => .ok i.limit
  | .flex => if i.kind.answersMember then .ok sv.memberCount else .error .invalid
  | .merkle =>
    match f.alloc with
    | some n => if leaf then .ok n else .ok i.limit
    | none => .ok i.limit

/-- the part of `is_public_mint` that runs while the attached whitelist is active -/
def wlMintChecks (m : Minter) (i : WlInfo) (sender : Addr) (f : MintLimits.Fields) (sv : SenderView) : Except Err MintKind :=
  match hasMember m.v i f sv with
  | .error e => .error e
  | .ok (false, _) => .error .unauthorized
  | .ok (true, leaf) =>
    match whitelistMintCount m i sender with
    | .error e => .error e
    | .ok (cnt, sid) =>
      match wlEntitlement m.v i f sv leaf with
      | .error e => .error e
      | .ok ent =>
        if ¬ cnt < ent then .error .limit
        else if sid = 0 then .ok (.wl 0 cnt)
        else if MintLimits.stageOk m.v.flavor i.kind = false then .error .invalid
        else
          match i.stageLimit with
          | none => .ok (.wl sid cnt)
          | some L => if m.tot sid < L then .ok (.wl sid cnt) else .error .limit

/-- `is_public_mint` -/
def isPublicMint (s : State) (m : Minter) (sender : Addr) (f : MintLimits.Fields) (sv : SenderView) :
    Except Err MintKind :=
  match m.whitelist with
  | none => .ok .pub
  | some a =>
    match wlConfig s m.v a with
    | .error e => .error e
    | .ok i => if i.active = false then .ok .pub else wlMintChecks m i sender f sv

/-- `mint_price(deps, is_admin)` -/
def mintPrice (s : State) (m : Minter) (isAdmin : Bool) : Except Err Coin :=
  if isAdmin then .ok s.params.airdropMintPrice
  else
    match m.whitelist with
    | none => .ok (m.discountPrice.getD m.mintPrice)
    | some a =>
      match wlConfig s m.v a with
      | .error e => .error e
      | .ok i => if i.active then .ok i.price else .ok (m.discountPrice.getD m.mintPrice)

/-- `network_fee = mint_price.amount * Decimal::bps(mint_fee_bps | airdrop_mint_fee_bps)` -/
def networkFee (p : Params) (isAdmin : Bool) (price : Coin) : Nat :=
  mulFloor price.amount (bps (if isAdmin then p.airdropMintFeeBps else p.mintFeeBps))

/-- who receives `price − fee`: `payment_address.unwrap_or(admin)` -/
def seller (m : Minter) : Addr := m.paymentAddress.getD m.admin

/-- the bank messages of `_execute_mint`: `distribute_mint_fees(fee, featured, None)` when the fee is non-zero, then the
seller payout when it is non-zero; `price − fee` underflows (panic) when the fee exceeds the price -/
def mintMsgs (p : Params) (m : Minter) (isAdmin : Bool) (price : Coin) : Except Err (List Msg) :=
  let fee := networkFee p isAdmin price
  if price.amount < fee then .error .other
  else
    .ok ((if fee = 0 then [] else Sg1.distributeMintFees ⟨price.denom, fee⟩ m.v.featured none) ++
         (if price.amount - fee = 0 then [] else [Msg.send (seller m) ⟨price.denom, price.amount - fee⟩]))

/-- which token `_execute_mint` delivers -/
inductive Pick where
  /-- `random_mintable_token_mapping`: the position the implementation drew (checked witness) -/
  | at (p : Nat)
  /-- `MintFor {token_id}` -/
  | id (id : Nat)
deriving Repr

def takeToken (sup : Supply.Fixed) (pk : Pick) (owner : Addr) : Option Supply.Fixed :=
  match pk with
  | .at p => sup.takeAt p owner
  | .id id => sup.takeId id owner

/-- the counter written at the end of `_execute_mint` (`MINTER_ADDRS` / `save_whitelist_mint_count`) -/
def bookCount (m : Minter) (sender : Addr) (g : MintKind) : Minter :=
  match g with
  | .pub => { m with pub := MintLimits.upd m.pub sender (m.pub sender + 1) }
  | .wl sid cnt =>
    if sid = 0 then { m with wlc := MintLimits.upd m.wlc sender (cnt + 1) }
    else { m with stg := MintLimits.upd2 m.stg sid sender (cnt + 1), tot := MintLimits.upd m.tot sid (m.tot sid + 1) }

/-- `_execute_mint` (the attached funds have already reached the contract: `b1`) -/
def executeMint (s : State) (m : Minter) (b1 : MintPay.Bank) (sender : Addr) (funds : List Coin) (isAdmin : Bool)
    (rcpt : Addr) (pk : Pick) (g : MintKind) : Except Err State :=
  if m.supply.mintable = 0 then .error .soldOut
  else
    match mintPrice s m isAdmin with
    | .error e => .error e
    | .ok price =>
      match mayPay funds price.denom with
      | .error e => .error e
      | .ok payment =>
        if payment ≠ price.amount then .error .payment
        else
          match mintMsgs s.params m isAdmin price with
          | .error e => .error e
          | .ok ms =>
            -- the sg721 `Mint` sub-message: only the collection's cw_ownable owner may mint
            if m.tt.owner ≠ some m.addr then .error .unauthorized
            -- sg721-metadata-onchain is `sg721::ExecuteMsg<Metadata, Empty>`: its `Mint.extension` is a `Metadata`,
            -- the minter sends `extension: None` — the sub-message does not parse ("Invalid type")
            else if m.tt.kind = .metadata then .error .invalid
            else
              match takeToken m.supply pk rcpt with
              | none => .error .other
              | some sup =>
                match MintPay.applyMsgs m.addr b1 ms with
                | none => .error .other
                | some b2 =>
                  let m1 := bookCount m sender g
                  let m2 : Minter := { m1 with supply := sup,
                                               airdropCount := if isAdmin then m.airdropCount + 1 else m.airdropCount,
                                               received := MintLimits.upd m.received rcpt (m.received rcpt + 1) }
                  .ok { s with bank := b2, minter := some m2 }

/-- `execute_mint_sender` -/
def mintSender (s : State) (m : Minter) (sender : Addr) (funds : List Coin) (f : MintLimits.Fields) (sv : SenderView)
    (picked : Nat) : Except Err State :=
  -- `Mint {}` of the plain and flex crates has no fields (serde rejects unknown ones)
  if m.v.flavor ≠ .merkle ∧ f ≠ MintLimits.Fields.empty then .error .invalid
  else
    match s.bank.sendFunds sender m.addr funds with
    | none => .error .payment
    | some b1 =>
      match isPublicMint s m sender f sv with
      | .error e => .error e
      | .ok g =>
        if g = .pub ∧ s.now < m.startTime then .error .tooSoon
        else if g = .pub ∧ ¬ m.pub sender < m.perAddressLimit then .error .limit
        else executeMint s m b1 sender funds false sender (.at picked) g

/-- `execute_mint_to` / `execute_mint_for` -/
def mintAdmin (s : State) (m : Minter) (sender : Addr) (funds : List Coin) (rcpt : Addr) (pk : Pick) : Except Err State :=
  match s.bank.sendFunds sender m.addr funds with
  | none => .error .payment
  | some b1 =>
    if sender ≠ m.admin then .error .unauthorized
    -- the id range / "already sold" checks of `MintFor` are `Supply.Fixed.takeId`
    else executeMint s m b1 sender funds true rcpt pk .pub

/-! ## Minter: configuration messages -/

def adminOnly (m : Minter) (sender : Addr) (funds : List Coin) : Except Err Unit :=
  match nonpayable funds with
  | .error e => .error e
  | .ok _ => if sender ≠ m.admin then .error .unauthorized else .ok ()

/-- `execute_set_whitelist` -/
def setWhitelist (s : State) (m : Minter) (sender : Addr) (funds : List Coin) (wl : Addr) (valid : Bool) : Except Err Minter :=
  match adminOnly m sender funds with
  | .error e => .error e
  | .ok _ =>
    if ¬ s.now < m.startTime then .error .tooLate
    else
      match (match m.whitelist with
             | none => Except.ok ()
             | some a0 =>
               match wlConfig s m.v a0 with
               | .error e => .error e
               | .ok i0 => if i0.active then .error .tooLate else .ok ()) with
      | .error e => .error e
      | .ok _ =>
        if valid = false then .error .invalid
        else
          match wlConfig s m.v wl with
          | .error e => .error e
          | .ok i =>
            if i.active then .error .tooLate
            else if m.v.isFlex = false ∧ i.price.denom ≠ m.mintPrice.denom then .error .invalid
            else if s.params.minMintPrice.amount > i.price.amount then .error .invalid
            else if s.params.minMintPrice.denom ≠ i.price.denom then .error .invalid
            else .ok { m with whitelist := some wl }

/-- `execute_purge` (anyone) -/
def purge (m : Minter) (funds : List Coin) : Except Err Minter :=
  match nonpayable funds with
  | .error e => .error e
  | .ok _ =>
    match m.supply.purge with
    | none => .error .other
    | some _ => .ok { m with pub := MintLimits.zero, wlc := if m.v.isFlex then MintLimits.zero else m.wlc }

/-- fix 100f319: a standing discount above the new price is dropped -/
def keepDiscount (d : Option Coin) (p : Nat) : Option Coin :=
  match d with
  | some c => if c.amount > p then none else some c
  | none => none

/-- `execute_update_mint_price` -/
def updateMintPrice (s : State) (m : Minter) (sender : Addr) (funds : List Coin) (price : Nat) : Except Err Minter :=
  match adminOnly m sender funds with
  | .error e => .error e
  | .ok _ =>
    if s.now ≥ m.startTime ∧ price ≥ m.mintPrice.amount then .error .invalid
    else if s.params.minMintPrice.amount > price then .error .invalid
    else .ok { m with mintPrice := ⟨m.mintPrice.denom, price⟩, discountPrice := keepDiscount m.discountPrice price }

/-- `execute_update_start_time` -/
def updateStartTime (s : State) (m : Minter) (sender : Addr) (funds : List Coin) (t : Nat) : Except Err Minter :=
  match adminOnly m sender funds with
  | .error e => .error e
  | .ok _ =>
    if s.now ≥ m.startTime then .error .tooLate
    else if s.now > t then .error .invalid
    else if t < GENESIS then .error .invalid
    else .ok { m with startTime := t }

/-- `execute_update_start_trading_time` + the `UpdateStartTradingTime` sub-message to the collection -/
def updateStartTradingTime (s : State) (m : Minter) (sender : Addr) (funds : List Coin) (t : Option Nat) : Except Err Minter :=
  match adminOnly m sender funds with
  | .error e => .error e
  | .ok _ =>
    if TT.tradingUpdateOk .vending s.now m.startTime s.params.maxTradingOffsetSecs t = false then .error .invalid
    else
      match m.tt.updateTrading m.addr t with
      | .error e => .error e
      | .ok c => .ok { m with tt := c }

/-- `execute_update_per_address_limit` -/
def updatePerAddressLimit (s : State) (m : Minter) (sender : Addr) (funds : List Coin) (n : Nat) : Except Err Minter :=
  match adminOnly m sender funds with
  | .error e => .error e
  | .ok _ =>
    if n = 0 ∨ n > s.params.maxPerAddressLimit then .error .invalid
    else if m.v.isFlex = false ∧ MintLimits.dynOk n m.supply.n s.params.maxPerAddressLimit = false then .error .invalid
    else .ok { m with perAddressLimit := n }

/-- `execute_shuffle` (anyone, no `nonpayable`): the fee is fair-burned by the minter, then the ids are permuted -/
def shuffle (s : State) (m : Minter) (sender : Addr) (funds : List Coin) (perm : List Nat) : Except Err State :=
  match s.bank.sendFunds sender m.addr funds with
  | none => .error .payment
  | some b1 =>
    match Sg1.checkedFairBurn funds m.addr s.params.shuffleFee.amount none with
    | .error e => .error e
    | .ok ms =>
      match m.supply.shuffle perm with
      | none => .error .other
      | some sup =>
        match MintPay.applyMsgs m.addr b1 ms with
        | none => .error .other
        | some b2 => .ok { s with bank := b2, minter := some { m with supply := sup } }

/-- `execute_burn_remaining` -/
def burnRemaining (m : Minter) (sender : Addr) (funds : List Coin) : Except Err Minter :=
  match adminOnly m sender funds with
  | .error e => .error e
  | .ok _ =>
    match m.supply.burnAll with
    | none => .error .soldOut
    | some sup => .ok { m with supply := sup }

/-- `execute_update_discount_price` -/
def updateDiscountPrice (s : State) (m : Minter) (sender : Addr) (funds : List Coin) (price : Nat) : Except Err Minter :=
  match adminOnly m sender funds with
  | .error e => .error e
  | .ok _ =>
    if s.now < m.startTime then .error .tooSoon
    else if m.lastDiscount + H12 > s.now then .error .tooSoon
    else if price > m.mintPrice.amount then .error .invalid
    else if s.params.minMintPrice.amount > price then .error .invalid
    else .ok { m with discountPrice := some ⟨m.mintPrice.denom, price⟩, lastDiscount := s.now }

/-- `execute_remove_discount_price` -/
def removeDiscountPrice (s : State) (m : Minter) (sender : Addr) (funds : List Coin) : Except Err Minter :=
  match adminOnly m sender funds with
  | .error e => .error e
  | .ok _ =>
    if m.lastDiscount + HOUR > s.now then .error .tooSoon
    else .ok { m with discountPrice := none, lastDiscount := s.now }

/-! ## Collection interface (messages sent to the sg721 contract directly) -/

/-- cw721-base `transfer_nft` by the owner (no approvals in this interface); sg721-nt refuses transfers -/
def collTransfer (m : Minter) (sender : Addr) (id : Nat) (to : Addr) : Except Err Minter :=
  if m.tt.kind = .nt then .error .unauthorized
  else if m.supply.coll.ownerOf id ≠ some sender then .error .unauthorized
  else
    match m.supply.coll.transfer id to with
    | none => .error .notFound
    | some c => .ok { m with supply := { m.supply with coll := c } }

/-- cw721-base `burn` by the owner -/
def collBurn (m : Minter) (sender : Addr) (id : Nat) : Except Err Minter :=
  if m.supply.coll.ownerOf id ≠ some sender then .error .unauthorized
  else
    match m.supply.coll.burn id with
    | none => .error .notFound
    | some c => .ok { m with supply := { m.supply with coll := c } }

/-! ## step -/

def withMinter (s : State) (f : Minter → Except Err Minter) : Except Err State :=
  match s.minter with
  | none => .error .notFound
  | some m =>
    match f m with
    | .error e => .error e
    | .ok m' => .ok { s with minter := some m' }

def withMinterS (s : State) (f : Minter → Except Err State) : Except Err State :=
  match s.minter with
  | none => .error .notFound
  | some m => f m

def onColl (s : State) (f : TT.Coll → Except Err TT.Coll) : Except Err State :=
  withMinter s fun m =>
    match f m.tt with
    | .error e => .error e
    | .ok c => .ok { m with tt := c }

def step (s : State) : Op → Except Err State
  | .setTime t => if t < s.now then .error .invalid else .ok { s with now := t }
  | .fund a c => .ok { s with bank := s.bank.fund a c }
  | .wlEnv k info => .ok { s with wls := fun a => if a = k then info else s.wls a }
  | .create sender funds msg w => createMinter s sender funds msg w
  | .instantiateDirect _ => .error .unauthorized
  | .mint sender funds f sv picked => withMinterS s (mintSender s · sender funds f sv picked)
  | .mintTo sender funds rcpt picked => withMinterS s (mintAdmin s · sender funds rcpt (.at picked))
  | .mintFor sender funds id rcpt => withMinterS s (mintAdmin s · sender funds rcpt (.id id))
  | .setWhitelist sender funds wl valid => withMinter s (setWhitelist s · sender funds wl valid)
  | .purge _ funds => withMinter s (purge · funds)
  | .updateMintPrice sender funds p => withMinter s (updateMintPrice s · sender funds p)
  | .updateStartTime sender funds t => withMinter s (updateStartTime s · sender funds t)
  | .updateStartTradingTime sender funds t => withMinter s (updateStartTradingTime s · sender funds t)
  | .updatePerAddressLimit sender funds n => withMinter s (updatePerAddressLimit s · sender funds n)
  | .shuffle sender funds perm => withMinterS s (shuffle s · sender funds perm)
  | .burnRemaining sender funds => withMinter s (burnRemaining · sender funds)
  | .updateDiscountPrice sender funds p => withMinter s (updateDiscountPrice s · sender funds p)
  | .removeDiscountPrice sender funds => withMinter s (removeDiscountPrice s · sender funds)
  | .sudoStatus v b e => withMinter s fun m => .ok { m with status := ⟨v, b, e⟩ }
  | .sudoParams u =>
    match updateParams s.params u with
    | .error e => .error e
    | .ok p => .ok { s with params := p }
  | .collTransfer sender id to => withMinter s (collTransfer · sender id to)
  | .collBurn sender id => withMinter s (collBurn · sender id)
  | .collTrading sender t => onColl s (·.updateTrading sender t)
  | .collCreator sender new => onColl s (·.updateCreator sender new)
  | .collFreeze sender => onColl s (·.freeze sender)
  | .collOwn sender a => onColl s (·.updateOwnership sender a)

/-- transactional semantics: a failed message leaves the world unchanged -/
def step' (s : State) (op : Op) : State :=
  match step s op with
  | .ok s' => s'
  | .error _ => s

def run (s : State) (ops : List Op) : State := ops.foldl step' s

/-- factory `instantiate`: stores the parameters as given (no validation) -/
def init (now : Nat) (codes : Codes) (factoryAddr : Addr) (p : Params) : State :=
  { now := now, codes := codes, factoryAddr := factoryAddr, params := p, bank := emptyBank,
    wls := fun _ => none, minter := none }

/-! ## Queries -/

/-- factory `AllowedCollectionCodeId(code)` -/
def queryAllowed (s : State) (code : Nat) : Bool := s.params.allowed.contains code

/-- `MintPriceResponse` -/
structure PriceResp where
  publicPrice : Coin
  airdropPrice : Coin
  whitelistPrice : Option Coin
  currentPrice : Coin
  discountPrice : Option Coin
deriving Repr, DecidableEq

/-- `query_mint_price` -/
def queryMintPrice (s : State) (m : Minter) : Except Err PriceResp :=
  match mintPrice s m false with
  | .error e => .error e
  | .ok cur =>
    match (match m.whitelist with
           | none => Except.ok none
           | some a =>
             match wlConfig s m.v a with
             | .error e => .error e
             | .ok i => .ok (some i.price)) with
    | .error e => .error e
    | .ok wlp =>
      .ok { publicPrice := m.mintPrice, airdropPrice := ⟨m.mintPrice.denom, s.params.airdropMintPrice.amount⟩,
            whitelistPrice := wlp, currentPrice := cur, discountPrice := m.discountPrice }

def tieredSum (m : Minter) (a : Addr) : Nat := m.stg 1 a + m.stg 2 a + m.stg 3 a

/-- `MintCountResponse.count` -/
def queryMintCount (m : Minter) (a : Addr) : Nat :=
  if m.v.isFlex then m.pub a else m.pub a + m.wlc a + tieredSum m a

/-- `MintCountResponse.whitelist_count` (flex crates only) -/
def queryWlCount (m : Minter) (a : Addr) : Option Nat :=
  if m.v.isFlex then some (m.wlc a + tieredSum m a) else none

/-- `MintableNumTokens {}` -/
def queryMintable (m : Minter) : Nat := m.supply.queryMintable

end LP.VF
