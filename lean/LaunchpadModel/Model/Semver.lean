/-!
# Semantic versions as the `semver` crate parses and orders them (core Lean only)

`cw2` stores the contract version as a *string*; every `migrate` in /repo parses it with
`semver::Version::parse` (`.version.parse::<Version>()`) and compares `Version`s.  The model keeps both levels:

* the stored string is a `List Nat` of character codes (strings do not kernel-reduce, lists of numerals do);
* `parse : List Nat → Option Version` accepts exactly `MAJOR.MINOR.PATCH` with each component a non-empty
  run of ASCII digits, no leading zero (except `0` itself), value `< 2^64` (the crate's `u64`);
* `print : Version → List Nat` is what `Version::to_string` / `env!("CARGO_PKG_VERSION")` look like;
* the order is lexicographic on `(major, minor, patch)`.

Pre-release (`-rc.1`) and build metadata (`+abc`) suffixes are **outside the model** (`parse` rejects them;
the crate accepts them).  The repo never stores such versions and the harness never generates them.

`strLt` is byte-wise lexicographic order on the raw strings — what Rust's `String < String` computes.  It is used
by the (out-of-scope) `sg721-base` / `sg721-nt` migrations and to *state* where the two orders disagree.
-/
namespace LP.Semver

structure Version where
  major : Nat
  minor : Nat
  patch : Nat
deriving DecidableEq, Repr, BEq

/-- strict semver precedence (no pre-release part) -/
def Version.lt (a b : Version) : Prop :=
  a.major < b.major ∨ (a.major = b.major ∧ (a.minor < b.minor ∨ (a.minor = b.minor ∧ a.patch < b.patch)))

instance : LT Version := ⟨Version.lt⟩
instance : LE Version := ⟨fun a b => ¬ b < a⟩

instance (a b : Version) : Decidable (a < b) := by
  show Decidable (Version.lt a b); unfold Version.lt; exact inferInstance
instance (a b : Version) : Decidable (a ≤ b) := by
  show Decidable (¬ b < a); exact inferInstance

def ofTriple (t : Nat × Nat × Nat) : Version := ⟨t.1, t.2.1, t.2.2⟩

/-! ## characters -/

def DOT : Nat := 46
def ZERO : Nat := 48

def isDigit (c : Nat) : Bool := decide (48 ≤ c) && decide (c ≤ 57)

/-- `u64::MAX + 1`: the `semver` crate stores each component in a `u64` and rejects larger numerals -/
def U64_BOUND : Nat := 2 ^ 64

/-- decimal value of a digit string (no validation) -/
def digitsVal (cs : List Nat) : Nat := cs.foldl (fun a c => a * 10 + (c - 48)) 0

/-- numeric identifier: non-empty, digits only, no leading zero unless it is exactly `0`, fits `u64` -/
def parseNum (cs : List Nat) : Option Nat :=
  match cs with
  | [] => none
  | c :: rest =>
    if !(c :: rest).all isDigit then none
    else if c = 48 ∧ rest ≠ [] then none
    else if digitsVal (c :: rest) < U64_BOUND then some (digitsVal (c :: rest)) else none

/-- split on a separator, keeping empty pieces (`"1..2"` ↦ `["1","","2"]`) -/
def splitOn (sep : Nat) : List Nat → List (List Nat)
  | [] => [[]]
  | c :: cs =>
    if c = sep then [] :: splitOn sep cs
    else match splitOn sep cs with
      | [] => [[c]]
      | h :: t => (c :: h) :: t

/-- `semver::Version::parse` restricted to `MAJOR.MINOR.PATCH` -/
def parse (cs : List Nat) : Option Version :=
  match splitOn DOT cs with
  | [a, b, c] =>
    match parseNum a, parseNum b, parseNum c with
    | some x, some y, some z => some ⟨x, y, z⟩
    | _, _, _ => none
  | _ => none

/-- decimal rendering, most significant digit first -/
def printNum (n : Nat) : List Nat :=
  if n < 10 then [48 + n] else printNum (n / 10) ++ [48 + n % 10]
decreasing_by omega

def print (v : Version) : List Nat :=
  printNum v.major ++ DOT :: (printNum v.minor ++ DOT :: printNum v.patch)

/-! ## byte-wise string order (Rust `String: Ord`) -/

def strLt : List Nat → List Nat → Bool
  | [], [] => false
  | [], _ :: _ => true
  | _ :: _, [] => false
  | a :: as, b :: bs => if a < b then true else if b < a then false else strLt as bs

/-- `a >= b` on strings -/
def strGe (a b : List Nat) : Bool := !strLt a b

end LP.Semver
