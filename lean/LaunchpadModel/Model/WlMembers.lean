import LaunchpadModel.Model.Basic
import LaunchpadModel.Model.Sg1
import LaunchpadModel.Generated.Constants
/-!
# List-based whitelists: membership accounting, capacity and fees (property C11)

Aspect model (DESIGN §3.4) of the *membership / accounting* mechanism of the five list-based whitelists

| `Kind`        | crate (under /repo/contracts/whitelists/) |
|---------------|-------------------------------------------|
| `plain`       | `whitelist`                               |
| `flex`        | `whitelist-flex`                          |
| `tiered`      | `tiered-whitelist`                        |
| `tieredFlex`  | `tiered-whitelist-flex`                   |
| `immutable`   | `whitelist-immutable`                     |

The first four are near-copies; every difference that matters here is a branch on `Kind` below
(see docs/C11.md for the full diff table):

* value stored per member: `true` (plain, tiered; modelled as mint count 0) / `mint_count : u32` (flex kinds);
* `sort_unstable(); dedup()` of every incoming member list (plain, tiered) / lists processed in message order (flex kinds);
* an already stored member is *skipped* (plain, tiered, tiered-flex, and both flex instantiates) /
  *rejected* (`whitelist-flex::execute_add_members`, `DuplicateMember`);
* the instantiate capacity check compares the limit with the deduplicated length (plain, tiered) / the raw length (flex kinds);
* `whale_cap` (flex kinds): every `mint_count` of an instantiate / add-stage list must be `≤ c` (not checked by `add_members`);
* tiered kinds: members live per stage (`WHITELIST_STAGES[(stage, addr)]`, `MEMBER_COUNT[stage]`), `add_stage` / `remove_stage`;
* `MAX_MEMBERS` 5000 (plain, flex) / 30000 (tiered kinds) — read from `Generated/Constants.lean`;
* `whitelist-immutable`: `nonpayable`, sort + dedup, count must be ≥ 1, no address validation, no execute messages.

Storage is modelled as the KV store keeps it: a member map is a list of `(address, mint_count)` kept **strictly
ascending by address** (`saveM` inserts in place / overwrites, `eraseM` deletes); the `Members` query ranges over it.
`num_members`, `member_limit`, `MEMBER_COUNT[k]` are the code's own counters, updated exactly where the code updates
them; that they equal the sizes of the stored maps is a *theorem* (Props/C11.lean), not a definition.

## What is NOT modelled: everything other properties own enters as an environment parameter

Authorisation (`can_execute`, C05), the schedule (`start_time`/`end_time`, stage windows, `validate_stages`, the
"before it starts" gates of `remove_members` / `remove_stage`, the active stage read by `HasMember`; C12/C13),
`per_address_limit`, mint prices, stage names and the sanity check `whale_cap > member_limit` are **not part of this model**.
Every message carries one Boolean `allowed` = "all the checks owned by other properties passed", and the two queries that
read *the active stage* take that stage as an argument. All theorems quantify over these parameters, so they hold
for every authorisation and schedule behaviour — present or future. (The driver predicts `allowed` with a small
schedule/admin table of its own; when only that prediction differs from the implementation it reports DRIFT, not a failure.)

Two *variant* flags cover design points that C11 does not fix and that a maintainer may legitimately change:
`hasFirst` (test "already stored" before "list is full" in the add loops — the current code tests capacity first, so
re-adding an existing member to a full list fails) and `distinctCap` (flex instantiate compares the number of
DISTINCT members with the limit — the current code compares the raw list length). The theorems hold for both values.

Addresses are interned naturals; `validAddr` is the model of `Api::addr_validate` (the harness renders ids
`≥ 90000` as strings which `MockApi` rejects; valid ids render to fixed-width strings whose byte order
is the numeric order, so `sort_unstable` on the strings is the numeric sort used here).

Bank: `bank.bal` is the contract's own native balance, `otherBal` its balance in every other denom; funds attached to a
successful call are credited first, then the emitted messages (`LP.Sg1.checkedFairBurn`) are applied. `feesPaid` /
`stray`, `strayOther` are ghost sums of what callers attached to fee-bearing (`instantiate`, `IncreaseMemberLimit`) /
other messages (none of the contracts calls `nonpayable`, so such funds simply stay).
-/
namespace LP.WlMembers
open LP

-- Addresses are interned naturals (`LP.Addr = Nat`); this file writes `Nat` so that `omega` sees the order on keys.

/-! ## Kinds and constants -/

inductive Kind where
  | plain | flex | tiered | tieredFlex | immutable
deriving Repr, DecidableEq

/-- members carry a `mint_count`; lists are processed in message order (no sort/dedup) -/
def Kind.isFlex : Kind → Bool
  | .flex | .tieredFlex => true
  | _ => false

def Kind.isTiered : Kind → Bool
  | .tiered | .tieredFlex => true
  | _ => false

/-- `MAX_MEMBERS` of the crate (the immutable whitelist has no limit: 0 is never used) -/
def Kind.maxMembers : Kind → Nat
  | .plain => Gen.sg_whitelist_MAX_MEMBERS
  | .flex => Gen.sg_whitelist_flex_MAX_MEMBERS
  | .tiered => Gen.sg_tiered_whitelist_MAX_MEMBERS
  | .tieredFlex => Gen.sg_tiered_whitelist_flex_MAX_MEMBERS
  | .immutable => 0

/-- `PRICE_PER_1000_MEMBERS` of the crate (the immutable whitelist is free and `nonpayable`) -/
def Kind.price : Kind → Nat
  | .plain => Gen.sg_whitelist_PRICE_PER_1000_MEMBERS
  | .flex => Gen.sg_whitelist_flex_PRICE_PER_1000_MEMBERS
  | .tiered => Gen.sg_tiered_whitelist_PRICE_PER_1000_MEMBERS
  | .tieredFlex => Gen.sg_tiered_whitelist_flex_PRICE_PER_1000_MEMBERS
  | .immutable => 0

/-- `PAGINATION_DEFAULT_LIMIT` of the crate (the immutable whitelist has no `Members` query; value unused) -/
def Kind.pageDefault : Kind → Nat
  | .plain => Gen.sg_whitelist_PAGINATION_DEFAULT_LIMIT
  | .flex => Gen.sg_whitelist_flex_PAGINATION_DEFAULT_LIMIT
  | .tiered => Gen.sg_tiered_whitelist_PAGINATION_DEFAULT_LIMIT
  | .tieredFlex => Gen.sg_tiered_whitelist_flex_PAGINATION_DEFAULT_LIMIT
  | .immutable => 1

/-- `PAGINATION_MAX_LIMIT` of the crate -/
def Kind.pageMax : Kind → Nat
  | .plain => Gen.sg_whitelist_PAGINATION_MAX_LIMIT
  | .flex => Gen.sg_whitelist_flex_PAGINATION_MAX_LIMIT
  | .tiered => Gen.sg_tiered_whitelist_PAGINATION_MAX_LIMIT
  | .tieredFlex => Gen.sg_tiered_whitelist_flex_PAGINATION_MAX_LIMIT
  | .immutable => 1

/-- model of `deps.api.addr_validate` (harness convention: ids ≥ 90000 are rendered as invalid strings) -/
def validAddr (a : Nat) : Bool := a < 90000

/-! ## Fee arithmetic -/

/-- `Decimal::new(l, 3).ceil().to_u128()` (rust_decimal): started thousands of `l` -/
def tiers (l : Nat) : Nat := (l + 999) / 1000

/-- creation fee in `instantiate` -/
def creationFee (k : Kind) (limit : Nat) : Nat := tiers limit * k.price

/-- `upgrade_fee` in `execute_increase_member_limit` -/
def upgradeFee (k : Kind) (old new : Nat) : Nat :=
  if tiers new > tiers old then (tiers new - tiers old) * k.price else 0

/-! ## Member maps (one `cw_storage_plus::Map<Nat, _>` / one `(stage, _)` prefix) -/

/-- `(address, mint_count)`; plain kinds store `true`, modelled as count 0 -/
abbrev Member := Nat × Nat

def keys (l : List Member) : List Nat := l.map (·.1)

/-- `Map::has` -/
def hasM (a : Nat) (l : List Member) : Bool := l.any (fun m => m.1 == a)

/-- `Map::may_load` -/
def getM (a : Nat) : List Member → Option Nat
  | [] => none
  | x :: xs => if x.1 = a then some x.2 else getM a xs

/-- `Map::save` (insert in key order, overwrite an existing key) -/
def saveM (m : Member) : List Member → List Member
  | [] => [m]
  | x :: xs =>
    if m.1 < x.1 then m :: x :: xs
    else if m.1 = x.1 then m :: xs
    else x :: saveM m xs

/-- `Map::remove` -/
def eraseM (a : Nat) (l : List Member) : List Member := l.filter (fun m => m.1 != a)

/-- `Vec<String>::sort_unstable(); dedup()` on addresses: strictly ascending, no repetition -/
def insertU (a : Nat) : List Nat → List Nat
  | [] => [a]
  | x :: xs => if a < x then a :: x :: xs else if a = x then x :: xs else x :: insertU a xs

def sortDedup (l : List Nat) : List Nat := l.foldr insertU []

/-- what the handler iterates over: plain kinds sort + dedup the address strings (value `true`),
flex kinds keep the message order and the mint counts -/
def prep (k : Kind) (ms : List Member) : List Member :=
  if k.isFlex then ms else (sortDedup (keys ms)).map (fun a => (a, 0))

/-- the loop shapes of `instantiate` (flex kinds), `execute_add_members`, `execute_add_stage` -/
structure LoopCfg where
  /-- `if config.num_members >= config.member_limit { return Err(MembersExceeded) }` in each iteration -/
  checkLimit : Bool
  /-- an already stored address is an error (`DuplicateMember`) instead of `continue` -/
  rejectDup : Bool
  /-- `Some c`: `mint_count > c` is an error (`ExceededWhaleCap`) -/
  whale : Option Nat
  /-- variant: the capacity test sits AFTER the "already stored" test (the current code has it at the top of the
  iteration, before `addr_validate`) -/
  hasFirst : Bool
deriving Repr

/-- `if let Some(whale_cap) = whale_cap { if mint_count > whale_cap { return Err(ExceededWhaleCap) } }` -/
def whaleExceeded (w : Option Nat) (mintCount : Nat) : Bool :=
  match w with
  | some cap => decide (mintCount > cap)
  | none => false

/-- Loop state: (`config.num_members`, the member map, number of `save`s done = `members_added`). -/
abbrev LoopSt := Nat × List Member × Nat

/-- One handler loop over a member list, in the order of the Rust checks (`hasFirst = false`). -/
def addLoop (cfg : LoopCfg) (limit : Nat) : List Member → LoopSt → Except Err LoopSt
  | [], acc => .ok acc
  | m :: ms, (num, st, added) =>
    if !cfg.hasFirst && cfg.checkLimit && decide (num ≥ limit) then .error .limit
    else if !validAddr m.1 then .error .invalid
    else if whaleExceeded cfg.whale m.2 then .error .limit
    else if hasM m.1 st then
      (if cfg.rejectDup then .error .invalid else addLoop cfg limit ms (num, st, added))
    else if cfg.hasFirst && cfg.checkLimit && decide (num ≥ limit) then .error .limit
    else addLoop cfg limit ms (num + 1, saveM m st, added + 1)

/-- `for member in members { addr_validate; WHITELIST.save(addr, true) }` (plain / tiered instantiate: no `has` check) -/
def saveAll : List Member → List Member → Except Err (List Member)
  | [], st => .ok st
  | m :: ms, st => if !validAddr m.1 then .error .invalid else saveAll ms (saveM m st)

/-- `execute_remove_members` loop: (`num_members`, map, removed). `num_members -= 1` is checked arithmetic. -/
def removeLoop : List Nat → LoopSt → Except Err LoopSt
  | [], acc => .ok acc
  | a :: as, (num, st, removed) =>
    if !validAddr a then .error .invalid
    else if !hasM a st then .error .notFound
    else if num = 0 then .error .other
    else removeLoop as (num - 1, eraseM a st, removed + 1)

/-! ## State -/

/-- one entry of `Config.stages`, reduced to its slice of `WHITELIST_STAGES` and its `MEMBER_COUNT` entry
(the window, name, price … belong to C13) -/
structure Stage where
  members : List Member
  /-- `MEMBER_COUNT[k]` -/
  count : Nat
deriving Repr

/-- the native-denom bank as far as the whitelist is concerned -/
structure Bank where
  /-- balance of the whitelist contract -/
  bal : Nat
  /-- total burned so far -/
  burned : Nat
  /-- balance of the fair-burn pool -/
  pool : Nat
deriving Repr, DecidableEq

/-- funds attached to a message that charges no fee: native coins and coins of any other denom -/
structure Tip where
  native : Nat
  other : Nat
deriving Repr, DecidableEq

def Tip.zero : Tip := ⟨0, 0⟩

structure WL where
  kind : Kind
  /-- `env.contract.address` -/
  self : Nat
  /-- `Config.num_members` (immutable: `TOTAL_ADDRESS_COUNT`) -/
  numMembers : Nat
  /-- `Config.member_limit` -/
  memberLimit : Nat
  whaleCap : Option Nat
  /-- flat kinds + immutable: `WHITELIST` -/
  members : List Member
  /-- tiered kinds: one entry per element of `Config.stages` -/
  stages : List Stage
  bank : Bank
  /-- the contract's balance in denoms other than the native one -/
  otherBal : Nat
  /-- ghost: native funds attached to the successful fee-bearing calls (`instantiate`, `IncreaseMemberLimit`) -/
  feesPaid : Nat
  /-- ghost: native funds attached to successful calls of every other message -/
  stray : Nat
  /-- ghost: non-native funds attached to successful calls of every other message -/
  strayOther : Nat
deriving Repr

/-- sum of the stored per-stage map sizes -/
def stageTotal (ss : List Stage) : Nat := (ss.map (fun g => g.members.length)).sum

/-- number of `(key, value)` pairs actually stored in `WHITELIST` and `WHITELIST_STAGES` -/
def storedTotal (s : WL) : Nat := s.members.length + stageTotal s.stages

/-! ## Bank -/

def applyMsg (b : Bank) : Msg → Except Err Bank
  | .burn c =>
    if c.denom = NATIVE ∧ c.amount ≤ b.bal then .ok { b with bal := b.bal - c.amount, burned := b.burned + c.amount }
    else .error .payment
  | .fundPool _ c =>
    if c.denom = NATIVE ∧ c.amount ≤ b.bal then .ok { b with bal := b.bal - c.amount, pool := b.pool + c.amount }
    else .error .payment
  | .send _ _ => .error .other   -- never emitted: the whitelists pass `developer = None`

def applyMsgs : Bank → List Msg → Except Err Bank
  | b, [] => .ok b
  | b, m :: ms => match applyMsg b m with
    | .error e => .error e
    | .ok b' => applyMsgs b' ms

/-- credit the attached native funds, then run the response messages -/
def settle (b : Bank) (payment : Nat) (msgs : List Msg) : Except Err Bank :=
  applyMsgs { b with bal := b.bal + payment } msgs

/-- A funds list reaches the contract only if it is empty or carries at least one non-zero coin: the chain rejects
zero coins (`Coins::IsValid`), cw-multi-test's bank fails with "Cannot transfer empty coins amount". -/
def deliverable (funds : List Coin) : Bool := funds.isEmpty || funds.any (fun c => c.amount != 0)

/-! ## Instantiate -/

structure InstMsg where
  /-- `env.contract.address` of the new instance -/
  self : Nat
  funds : List Coin
  memberLimit : Nat
  whaleCap : Option Nat
  /-- every check of `instantiate` owned by another property passed: the admin addresses validate, the schedule is
  valid (flat kinds: `start ≤ end`, `now < start`, `start ≥ GENESIS`; tiered kinds: `validate_stages`),
  `per_address_limit` in range, `whale_cap > member_limit` -/
  allowed : Bool
  /-- flat kinds and immutable: `msg.members` / `msg.addresses` -/
  members : List Member
  /-- tiered kinds: `msg.stages.len()` -/
  nStages : Nat
  /-- tiered kinds: `msg.members : Vec<Vec<_>>` -/
  stageMembers : List (List Member)
  /-- variant: the capacity check counts DISTINCT members (the current flex code compares the raw list length) -/
  distinctCap : Bool
deriving Repr

def emptyBank : Bank := ⟨0, 0, 0⟩

def effWhale (k : Kind) (w : Option Nat) : Option Nat := if k.isFlex then w else none

/-- the member loop proper of an instantiate, for one list: flex kinds skip duplicates (`has` check, whale cap),
plain kinds save the deduplicated list -/
def instList (k : Kind) (w : Option Nat) (limit : Nat) (l : List Member) : Except Err (List Member × Nat) :=
  if k.isFlex then
    match addLoop ⟨false, false, w, false⟩ limit l (0, [], 0) with
    | .error e => .error e
    | .ok (_, st, added) => .ok (st, added)
  else
    match saveAll l [] with
    | .error e => .error e
    | .ok st => .ok (st, l.length)

/-- per-stage member loops of a tiered instantiate: returns the stages and the running `num_members` -/
def instStages (k : Kind) (w : Option Nat) (limit : Nat) : List (List Member) → Nat → Except Err (List Stage × Nat)
  | [], num => .ok ([], num)
  | ms :: mss, num =>
    match instList k w limit (prep k ms) with
    | .error e => .error e
    | .ok (st, added) =>
      match instStages k w limit mss (num + added) with
      | .error e => .error e
      | .ok (gs, n) => .ok (⟨st, added⟩ :: gs, n)

/-- `instantiate` of the five crates. -/
def instantiate (k : Kind) (m : InstMsg) : Except Err WL :=
  match k with
  | .immutable =>
    -- nonpayable; sort + dedup; count ≥ 1; keys are raw strings (no addr_validate)
    if !m.funds.isEmpty then .error .payment
    else
      let l := (sortDedup (keys m.members)).map (fun a => ((a, 0) : Member))
      if l.length < 1 then .error .invalid
      else .ok { kind := k, self := m.self, numMembers := l.length, memberLimit := 0, whaleCap := none,
                 members := l.foldl (fun st x => saveM x st) [], stages := [],
                 bank := emptyBank, otherBal := 0, feesPaid := 0, stray := 0, strayOther := 0 }
  | _ =>
    if m.memberLimit = 0 ∨ m.memberLimit > k.maxMembers then .error .invalid
    else if !m.allowed then .error .invalid
    else if k.isTiered && decide (m.stageMembers.length ≠ m.nStages) then .error .invalid
    else
      let fee := creationFee k m.memberLimit
      match mustPay m.funds NATIVE with
      | .error e => .error e
      | .ok payment =>
        if payment ≠ fee then .error .payment
        else
          match Sg1.checkedFairBurn m.funds m.self fee none with
          | .error e => .error e
          | .ok msgs =>
            match settle emptyBank payment msgs with
            | .error e => .error e
            | .ok bank =>
              let w := effWhale k m.whaleCap
              -- `config.member_limit < config.num_members` with `num_members` = Σ list lengths (after dedup only for the
              -- plain kinds); skipped in the `distinctCap` variant, where the distinct count is compared after the loops
              let rawLen := if k.isTiered then (m.stageMembers.map (fun ms => (prep k ms).length)).sum else (prep k m.members).length
              if !m.distinctCap && decide (m.memberLimit < rawLen) then .error .limit
              else if k.isTiered then
                match instStages k w m.memberLimit m.stageMembers 0 with
                | .error e => .error e
                | .ok (gs, num) =>
                  -- never true after the raw-length check above; it is what decides in the `distinctCap` variant
                  if m.memberLimit < num then .error .limit
                  else
                    .ok { kind := k, self := m.self, numMembers := num, memberLimit := m.memberLimit,
                          whaleCap := w, members := [], stages := gs,
                          bank := bank, otherBal := 0, feesPaid := payment, stray := 0, strayOther := 0 }
              else
                match instList k w m.memberLimit (prep k m.members) with
                | .error e => .error e
                | .ok (st, num) =>
                  if m.memberLimit < num then .error .limit
                  else
                    .ok { kind := k, self := m.self, numMembers := num, memberLimit := m.memberLimit,
                          whaleCap := w, members := st, stages := [],
                          bank := bank, otherBal := 0, feesPaid := payment, stray := 0, strayOther := 0 }

/-! ## Execute -/

/-- In every message `allowed` = "all checks owned by other properties passed": the sender is an admin (C05) and the
schedule gate is open (`remove_members`, `remove_stage`: the (stage's) start lies in the future; `add_stage`: fewer
than three stages and `validate_stages` accepts the extended list — C12/C13). -/
inductive Op where
  /-- `AddMembers{to_add, stage_id}` (`stage` is ignored by the flat kinds, whose message has no such field) -/
  | addMembers (allowed hasFirst : Bool) (tip : Tip) (stage : Nat) (ms : List Member)
  /-- `RemoveMembers{to_remove, stage_id}` -/
  | removeMembers (allowed : Bool) (tip : Tip) (stage : Nat) (as : List Nat)
  /-- `AddStage{stage, members}` (tiered kinds) -/
  | addStage (allowed hasFirst : Bool) (tip : Tip) (ms : List Member)
  /-- `RemoveStage{stage_id}` (tiered kinds) -/
  | removeStage (allowed : Bool) (tip : Tip) (stage : Nat)
  /-- `IncreaseMemberLimit(limit)` (the current code lets anybody call it: the driver passes `allowed = true`) -/
  | increaseLimit (allowed : Bool) (funds : List Coin) (limit : Nat)
  /-- any other message — `UpdateStartTime`, `UpdateEndTime`, `UpdatePerAddressLimit`, `UpdateAdmins`, `Freeze`,
  `UpdateStageConfig`, or one this model has never heard of: it touches nothing this property is about; only the
  funds attached to it matter (`allowed` = it succeeded) -/
  | other (allowed : Bool) (tip : Tip)
deriving Repr

/-- funds attached to a message that charges no fee -/
def Op.tip : Op → Tip
  | .addMembers _ _ tip _ _ => tip
  | .removeMembers _ tip _ _ => tip
  | .addStage _ _ tip _ => tip
  | .removeStage _ tip _ => tip
  | .increaseLimit _ _ _ => Tip.zero
  | .other _ tip => tip

/-- funds attached to a message that never looks at them stay in the contract -/
def tipped (s : WL) (tip : Tip) : WL :=
  { s with bank := { s.bank with bal := s.bank.bal + tip.native }, otherBal := s.otherBal + tip.other,
           stray := s.stray + tip.native, strayOther := s.strayOther + tip.other }

def execAddMembers (s : WL) (allowed hasFirst : Bool) (tip : Tip) (stage : Nat) (ms : List Member) : Except Err WL :=
  if !allowed then .error .unauthorized
  else
    let cfg : LoopCfg := ⟨true, s.kind == .flex, none, hasFirst⟩
    if s.kind.isTiered then
      match s.stages[stage]? with
      | none => .error .notFound
      | some g =>
        match addLoop cfg s.memberLimit (prep s.kind ms) (s.numMembers, g.members, 0) with
        | .error e => .error e
        | .ok (num, st, added) =>
          .ok (tipped { s with numMembers := num,
                               stages := s.stages.set stage { g with members := st, count := g.count + added } } tip)
    else
      match addLoop cfg s.memberLimit (prep s.kind ms) (s.numMembers, s.members, 0) with
      | .error e => .error e
      | .ok (num, st, _) => .ok (tipped { s with numMembers := num, members := st } tip)

def execRemoveMembers (s : WL) (allowed : Bool) (tip : Tip) (stage : Nat) (as : List Nat) : Except Err WL :=
  if !allowed then .error .unauthorized
  else if s.kind.isTiered then
    match s.stages[stage]? with
    | none => .error .notFound
    | some g =>
      match removeLoop as (s.numMembers, g.members, 0) with
      | .error e => .error e
      | .ok (num, st, removed) =>
        .ok (tipped { s with numMembers := num,
                             stages := s.stages.set stage { g with members := st, count := g.count - removed } } tip)
  else
    match removeLoop as (s.numMembers, s.members, 0) with
    | .error e => .error e
    | .ok (num, st, _) => .ok (tipped { s with numMembers := num, members := st } tip)

def execAddStage (s : WL) (allowed hasFirst : Bool) (tip : Tip) (ms : List Member) : Except Err WL :=
  if !allowed then .error .unauthorized
  else
    let l := prep s.kind ms
    match addLoop ⟨true, false, s.whaleCap, hasFirst⟩ s.memberLimit l (s.numMembers, [], 0) with
    | .error e => .error e
    | .ok (num, st, added) =>
      -- MEMBER_COUNT: `members.len()` after dedup (tiered) / `members_added` (tiered-flex)
      let cnt := if s.kind.isFlex then added else l.length
      .ok (tipped { s with numMembers := num, stages := s.stages ++ [⟨st, cnt⟩] } tip)

def execRemoveStage (s : WL) (allowed : Bool) (tip : Tip) (stage : Nat) : Except Err WL :=
  if !allowed then .error .unauthorized
  else match s.stages[stage]? with
    | none => .error .notFound
    | some _ =>
      let dropped := stageTotal (s.stages.drop stage)
      -- `config.num_members -= 1` per stored member (checked arithmetic)
      if s.numMembers < dropped then .error .other
      else .ok (tipped { s with numMembers := s.numMembers - dropped, stages := s.stages.take stage } tip)

def execIncreaseLimit (s : WL) (allowed : Bool) (funds : List Coin) (limit : Nat) : Except Err WL :=
  if !allowed then .error .unauthorized
  else if !deliverable funds then .error .payment
  else if decide (s.memberLimit ≥ limit) || decide (limit > s.kind.maxMembers) then .error .invalid
  else
    let fee := upgradeFee s.kind s.memberLimit limit
    match mayPay funds NATIVE with
    | .error e => .error e
    | .ok payment =>
      if payment ≠ fee then .error .payment
      else
        match (if fee > 0 then Sg1.checkedFairBurn funds s.self fee none else .ok []) with
        | .error e => .error e
        | .ok msgs =>
          match settle s.bank payment msgs with
          | .error e => .error e
          | .ok bank => .ok { s with memberLimit := limit, bank := bank, feesPaid := s.feesPaid + payment }

/-- one `execute` call; `.error` = the transaction is reverted -/
def exec (s : WL) (op : Op) : Except Err WL :=
  if s.kind == .immutable then .error .invalid     -- `enum ExecuteMsg {}`: nothing deserialises
  else match op with
  | .addMembers al hf tip stage ms => execAddMembers s al hf tip stage ms
  | .removeMembers al tip stage as => execRemoveMembers s al tip stage as
  | .addStage al hf tip ms =>
    if s.kind.isTiered then execAddStage s al hf tip ms else .error .invalid
  | .removeStage al tip stage =>
    if s.kind.isTiered then execRemoveStage s al tip stage else .error .invalid
  | .increaseLimit al funds limit => execIncreaseLimit s al funds limit
  | .other al tip => if al then .ok (tipped s tip) else .error .other

/-- transactional step: a failed message leaves the state unchanged -/
def step (s : WL) (op : Op) : WL := match exec s op with | .ok s' => s' | .error _ => s

def run (s : WL) (ops : List Op) : WL := ops.foldl step s

/-! ## Queries -/

/-- the map the `Members{stage_id}` query ranges over -/
def mapOf (s : WL) (stage : Nat) : List Member :=
  if s.kind.isTiered then (match s.stages[stage]? with | some g => g.members | none => []) else s.members

/-- `query_members(start_after, limit[, stage_id])`; `none` = `addr_validate(start_after)` failed -/
def queryMembers (s : WL) (stage : Nat) (startAfter : Option Nat) (limit : Option Nat) : Option (List Member) :=
  let lim := min (limit.getD s.kind.pageDefault) s.kind.pageMax
  match startAfter with
  | none => some ((mapOf s stage).take lim)
  | some a => if validAddr a then some (((mapOf s stage).filter (fun m => decide (a < m.1))).take lim) else none

/-- `HasMember{member}` (`none` = query error); immutable: `IncludesAddress` (no validation). `active` = the index
`fetch_active_stage_index` returns at the time of the query (environment; ignored by the flat kinds). -/
def queryHasMember (s : WL) (active : Option Nat) (a : Nat) : Option Bool :=
  if s.kind == .immutable then some (hasM a s.members)
  else if !validAddr a then none
  else if s.kind.isTiered then
    match active with
    | some i => some (hasM a (mapOf s i))
    | none => some false
  else some (hasM a s.members)

/-- flex kinds: `Member{member}` → mint count (`none` = query error: invalid, not stored, no active stage) -/
def queryMember (s : WL) (active : Option Nat) (a : Nat) : Option Nat :=
  if !s.kind.isFlex || !validAddr a then none
  else if s.kind.isTiered then
    match active with
    | some i => getM a (mapOf s i)
    | none => none
  else getM a s.members

/-- tiered kinds: `StageMemberInfo{stage_id, member}.is_member` (`none` = query error) -/
def queryStageMember (s : WL) (stage : Nat) (a : Nat) : Option Bool :=
  if !s.kind.isTiered || !validAddr a then none
  else if s.kind == .tiered && decide (stage ≥ s.stages.length) then none   -- `config.stages[stage_id]` panics
  else some (hasM a (mapOf s stage))

/-- tiered kinds: `AllStageMemberInfo{member}` → `is_member` per stage, in stage order (`none` = query error) -/
def queryAllStageMember (s : WL) (a : Nat) : Option (List Bool) :=
  if !s.kind.isTiered || !validAddr a then none
  else some ((List.range s.stages.length).map fun i => hasM a (mapOf s i))

/-- tiered kinds: `Stage{stage_id}.member_count` -/
def queryStageCount (s : WL) (stage : Nat) : Option Nat := (s.stages[stage]?).map (·.count)

/-- tiered kinds: `Stages{}` → `member_count` of every stage (a separate expression in the Rust) -/
def queryStagesCounts (s : WL) : List Nat := s.stages.map (·.count)

/-- all pages of the `Members` query with page size `pg`, as a client walks them (`fuel` bounds the walk) -/
def walkPages (s : WL) (stage : Nat) (pg : Nat) : Nat → Option Nat → List Member → List Member
  | 0, _, acc => acc
  | fuel + 1, after, acc =>
    match queryMembers s stage after (some pg) with
    | none => acc
    | some [] => acc
    | some page => walkPages s stage pg fuel (page.getLast?.map (·.1)) (acc ++ page)

end LP.WlMembers
