import LaunchpadModel.Model.Basic
import LaunchpadModel.Model.Sg1
import LaunchpadModel.Generated.Constants
/-!
# List-based whitelists: membership accounting, capacity and fees (property C11)

Aspect model (DESIGN §3.4) of the *membership / accounting* mechanism of the five list-based whitelists

| `Kind`        | crate (under /repo/contracts/whitelists/) |
|---------------|-------------------------------------------|
| `plain`       | `whitelist`                               |
| `flex`        | `whitelist-flex`                          |
| `tiered`      | `tiered-whitelist`                        |
| `tieredFlex`  | `tiered-whitelist-flex`                   |
| `immutable`   | `whitelist-immutable`                     |

The first four are near-copies; every difference that matters here is a branch on `Kind` below
(see docs/C11.md for the full diff table):

* value stored per member: `true` (plain, tiered; modelled as mint count 0) / `mint_count : u32` (flex kinds);
* `sort_unstable(); dedup()` of every incoming member list (plain, tiered) / lists processed in message order (flex kinds);
* an already stored member is *skipped* (plain, tiered, tiered-flex, and both flex instantiates) /
  *rejected* (`whitelist-flex::execute_add_members`, `DuplicateMember`);
* the instantiate capacity check compares the limit with the deduplicated length (plain, tiered) / the raw length (flex kinds);
* `whale_cap` (flex kinds): `Some c` must exceed `member_limit`; every `mint_count` of an instantiate / add-stage
  list must be `≤ c` (not checked by `add_members`);
* tiered kinds: members live per stage (`WHITELIST_STAGES[(stage, addr)]`, `MEMBER_COUNT[stage]`), `HasMember` reads
  the *active* stage only, `remove_members` is gated by the start of *that* stage, `add_stage` / `remove_stage`;
* `MAX_MEMBERS` 5000 (plain, flex) / 30000 (tiered kinds) — read from `Generated/Constants.lean`;
* `whitelist-immutable`: `nonpayable`, sort + dedup, count must be ≥ 1, no address validation, no execute messages.

Storage is modelled as the KV store keeps it: a member map is a list of `(address, mint_count)` kept **strictly
ascending by address** (`saveM` inserts in place / overwrites, `eraseM` deletes); the `Members` query ranges over it.
`num_members`, `member_limit`, `MEMBER_COUNT[k]` are the code's own counters, updated exactly where the code updates
them; that they equal the sizes of the stored maps is a *theorem* (Props/C11.lean), not a definition.

Minimal environment: the admin list (`can_execute`), the flat start/end time and the stage windows enter only as
gates (`remove_members` before start, `validate_stages`, active stage). Messages that only touch those
(`UpdateStartTime`, `UpdateEndTime`, `UpdateAdmins`, `Freeze`, `UpdateStageConfig`, `UpdatePerAddressLimit`; owned by
C12/C13/C05) are over-approximated by `Op.env`, which may set admins and times to anything — so every theorem over
op lists holds for *every* gating history. `per_address_limit`, mint price/denoms and stage names are not modelled
(the harness keeps them valid).

Addresses are interned naturals; `validAddr` is the model of `Api::addr_validate` (the harness renders ids
`≥ 90000` as upper-case strings, which `MockApi` rejects; valid ids render to fixed-width strings whose byte order
is the numeric order, so `sort_unstable` on the strings is the numeric sort used here).

Bank: `bal` is the contract's own native balance; funds attached to a successful call are credited first, then the
emitted messages (`LP.Sg1.checkedFairBurn`) are applied. `feesPaid` / `stray` are ghost sums of what callers
attached to fee-bearing (`instantiate`, `IncreaseMemberLimit`) / other messages (none of the contracts calls
`nonpayable`, so such funds simply stay).
-/
namespace LP.WlMembers
open LP

-- Addresses are interned naturals (`LP.Addr = Nat`); this file writes `Nat` so that `omega` sees the order on keys.

/-! ## Kinds and constants -/

inductive Kind where
  | plain | flex | tiered | tieredFlex | immutable
deriving Repr, DecidableEq

/-- members carry a `mint_count`; lists are processed in message order (no sort/dedup) -/
def Kind.isFlex : Kind → Bool
  | .flex | .tieredFlex => true
  | _ => false

def Kind.isTiered : Kind → Bool
  | .tiered | .tieredFlex => true
  | _ => false

/-- `MAX_MEMBERS` of the crate (the immutable whitelist has no limit: 0 is never used) -/
def Kind.maxMembers : Kind → Nat
  | .plain => Gen.sg_whitelist_MAX_MEMBERS
  | .flex => Gen.sg_whitelist_flex_MAX_MEMBERS
  | .tiered => Gen.sg_tiered_whitelist_MAX_MEMBERS
  | .tieredFlex => Gen.sg_tiered_whitelist_flex_MAX_MEMBERS
  | .immutable => 0

/-- `PRICE_PER_1000_MEMBERS` of the crate (the immutable whitelist is free and `nonpayable`) -/
def Kind.price : Kind → Nat
  | .plain => Gen.sg_whitelist_PRICE_PER_1000_MEMBERS
  | .flex => Gen.sg_whitelist_flex_PRICE_PER_1000_MEMBERS
  | .tiered => Gen.sg_tiered_whitelist_PRICE_PER_1000_MEMBERS
  | .tieredFlex => Gen.sg_tiered_whitelist_flex_PRICE_PER_1000_MEMBERS
  | .immutable => 0

/-- `sg_utils::GENESIS_MINT_START_TIME` (ns) -/
def GENESIS : Nat := Gen.sg_utils_GENESIS_MINT_START_TIME

/-- `PAGINATION_DEFAULT_LIMIT`, `PAGINATION_MAX_LIMIT` (identical in the four crates that page) -/
def PAGE_DEFAULT : Nat := Gen.sg_whitelist_PAGINATION_DEFAULT_LIMIT
def PAGE_MAX : Nat := Gen.sg_whitelist_PAGINATION_MAX_LIMIT

/-- model of `deps.api.addr_validate` (harness convention: ids ≥ 90000 are rendered as invalid strings) -/
def validAddr (a : Nat) : Bool := a < 90000

/-! ## Fee arithmetic -/

/-- `Decimal::new(l, 3).ceil().to_u128()` (rust_decimal): started thousands of `l` -/
def tiers (l : Nat) : Nat := (l + 999) / 1000

/-- creation fee in `instantiate` -/
def creationFee (k : Kind) (limit : Nat) : Nat := tiers limit * k.price

/-- `upgrade_fee` in `execute_increase_member_limit` -/
def upgradeFee (k : Kind) (old new : Nat) : Nat :=
  if tiers new > tiers old then (tiers new - tiers old) * k.price else 0

/-! ## Member maps (one `cw_storage_plus::Map<Nat, _>` / one `(stage, _)` prefix) -/

/-- `(address, mint_count)`; plain kinds store `true`, modelled as count 0 -/
abbrev Member := Nat × Nat

def keys (l : List Member) : List Nat := l.map (·.1)

/-- `Map::has` -/
def hasM (a : Nat) (l : List Member) : Bool := l.any (fun m => m.1 == a)

/-- `Map::may_load` -/
def getM (a : Nat) : List Member → Option Nat
  | [] => none
  | x :: xs => if x.1 = a then some x.2 else getM a xs

/-- `Map::save` (insert in key order, overwrite an existing key) -/
def saveM (m : Member) : List Member → List Member
  | [] => [m]
  | x :: xs =>
    if m.1 < x.1 then m :: x :: xs
    else if m.1 = x.1 then m :: xs
    else x :: saveM m xs

/-- `Map::remove` -/
def eraseM (a : Nat) (l : List Member) : List Member := l.filter (fun m => m.1 != a)

/-- `Vec<String>::sort_unstable(); dedup()` on addresses: strictly ascending, no repetition -/
def insertU (a : Nat) : List Nat → List Nat
  | [] => [a]
  | x :: xs => if a < x then a :: x :: xs else if a = x then x :: xs else x :: insertU a xs

def sortDedup (l : List Nat) : List Nat := l.foldr insertU []

/-- what the handler iterates over: plain kinds sort + dedup the address strings (value `true`),
flex kinds keep the message order and the mint counts -/
def prep (k : Kind) (ms : List Member) : List Member :=
  if k.isFlex then ms else (sortDedup (keys ms)).map (fun a => (a, 0))

/-- the four loop shapes of `instantiate` (flex kinds), `execute_add_members`, `execute_add_stage` -/
structure LoopCfg where
  /-- `if config.num_members >= config.member_limit { return Err(MembersExceeded) }` at the top of each iteration -/
  checkLimit : Bool
  /-- an already stored address is an error (`DuplicateMember`) instead of `continue` -/
  rejectDup : Bool
  /-- `Some c`: `mint_count > c` is an error (`ExceededWhaleCap`) -/
  whale : Option Nat
deriving Repr

/-- `if let Some(whale_cap) = whale_cap { if mint_count > whale_cap { return Err(ExceededWhaleCap) } }` -/
def whaleExceeded (w : Option Nat) (mintCount : Nat) : Bool :=
  match w with
  | some cap => decide (mintCount > cap)
  | none => false

/-- Loop state: (`config.num_members`, the member map, number of `save`s done = `members_added`). -/
abbrev LoopSt := Nat × List Member × Nat

/-- One handler loop over a member list, exactly in the order of the Rust checks. -/
def addLoop (cfg : LoopCfg) (limit : Nat) : List Member → LoopSt → Except Err LoopSt
  | [], acc => .ok acc
  | m :: ms, (num, st, added) =>
    if cfg.checkLimit && decide (num ≥ limit) then .error .limit
    else if !validAddr m.1 then .error .invalid
    else if whaleExceeded cfg.whale m.2 then .error .limit
    else if hasM m.1 st then
      (if cfg.rejectDup then .error .invalid else addLoop cfg limit ms (num, st, added))
    else addLoop cfg limit ms (num + 1, saveM m st, added + 1)

/-- `for member in members { addr_validate; WHITELIST.save(addr, true) }` (plain / tiered instantiate: no `has` check) -/
def saveAll : List Member → List Member → Except Err (List Member)
  | [], st => .ok st
  | m :: ms, st => if !validAddr m.1 then .error .invalid else saveAll ms (saveM m st)

/-- `execute_remove_members` loop: (`num_members`, map, removed). `num_members -= 1` is checked arithmetic. -/
def removeLoop : List Nat → LoopSt → Except Err LoopSt
  | [], acc => .ok acc
  | a :: as, (num, st, removed) =>
    if !validAddr a then .error .invalid
    else if !hasM a st then .error .notFound
    else if num = 0 then .error .other
    else removeLoop as (num - 1, eraseM a st, removed + 1)

/-! ## State -/

/-- one entry of `Config.stages` together with its slice of `WHITELIST_STAGES` and its `MEMBER_COUNT` entry -/
structure Stage where
  start : Nat
  stop : Nat
  members : List Member
  /-- `MEMBER_COUNT[k]` -/
  count : Nat
deriving Repr

/-- the native-denom bank as far as the whitelist is concerned -/
structure Bank where
  /-- balance of the whitelist contract -/
  bal : Nat
  /-- total burned so far -/
  burned : Nat
  /-- balance of the fair-burn pool -/
  pool : Nat
deriving Repr, DecidableEq

structure WL where
  kind : Kind
  /-- `env.contract.address` -/
  self : Nat
  admins : List Nat
  /-- `Config.num_members` (immutable: `TOTAL_ADDRESS_COUNT`) -/
  numMembers : Nat
  /-- `Config.member_limit` -/
  memberLimit : Nat
  whaleCap : Option Nat
  /-- flat kinds: `Config.start_time`, `Config.end_time` -/
  start : Nat
  stop : Nat
  /-- flat kinds + immutable: `WHITELIST` -/
  members : List Member
  /-- tiered kinds: `Config.stages` with their member maps and counters -/
  stages : List Stage
  bank : Bank
  /-- ghost: native funds attached to the successful fee-bearing calls (`instantiate`, `IncreaseMemberLimit`) -/
  feesPaid : Nat
  /-- ghost: native funds attached to successful calls of every other message -/
  stray : Nat
deriving Repr

def isAdmin (s : WL) (a : Nat) : Bool := s.admins.contains a

/-- sum of the stored per-stage map sizes -/
def stageTotal (ss : List Stage) : Nat := (ss.map (fun g => g.members.length)).sum

/-- number of `(key, value)` pairs actually stored in `WHITELIST` and `WHITELIST_STAGES` -/
def storedTotal (s : WL) : Nat := s.members.length + stageTotal s.stages

/-! ## Bank -/

def applyMsg (b : Bank) : Msg → Except Err Bank
  | .burn c =>
    if c.denom = NATIVE ∧ c.amount ≤ b.bal then .ok { b with bal := b.bal - c.amount, burned := b.burned + c.amount }
    else .error .payment
  | .fundPool _ c =>
    if c.denom = NATIVE ∧ c.amount ≤ b.bal then .ok { b with bal := b.bal - c.amount, pool := b.pool + c.amount }
    else .error .payment
  | .send _ _ => .error .other   -- never emitted: the whitelists pass `developer = None`

def applyMsgs : Bank → List Msg → Except Err Bank
  | b, [] => .ok b
  | b, m :: ms => match applyMsg b m with
    | .error e => .error e
    | .ok b' => applyMsgs b' ms

/-- credit the attached native funds, then run the response messages -/
def settle (b : Bank) (payment : Nat) (msgs : List Msg) : Except Err Bank :=
  applyMsgs { b with bal := b.bal + payment } msgs

/-! ## Stage windows (minimal; C13 owns the schedule theorems) -/

/-- the two nested loops of `validate_stages`: `start < end`, later stages start at or after this end -/
def stagesChain : List (Nat × Nat) → Bool
  | [] => true
  | s :: rest => decide (s.1 < s.2) && rest.all (fun o => decide (s.2 ≤ o.1)) && stagesChain rest

/-- `helpers::validate_stages` (per-address limits and mint denoms are kept valid by the harness) -/
def validateStages (now : Nat) (ts : List (Nat × Nat)) : Bool :=
  match ts with
  | [] => false
  | s :: _ => decide (ts.length < 4) && decide (s.1 > now) && stagesChain ts

/-- `fetch_active_stage_index`: first stage whose closed window contains `now` -/
def activeIdx (now : Nat) (ss : List Stage) : Option Nat :=
  let i := ss.findIdx (fun g => decide (g.start ≤ now) && decide (now ≤ g.stop))
  if i < ss.length then some i else none

/-! ## Instantiate -/

structure InstMsg where
  /-- `env.contract.address` of the new instance -/
  self : Nat
  now : Nat
  funds : List Coin
  memberLimit : Nat
  whaleCap : Option Nat
  admins : List Nat
  /-- flat kinds -/
  start : Nat
  stop : Nat
  /-- flat kinds and immutable: `msg.members` / `msg.addresses` -/
  members : List Member
  /-- tiered kinds: `msg.stages` (windows only) -/
  stageTimes : List (Nat × Nat)
  /-- tiered kinds: `msg.members : Vec<Vec<_>>` -/
  stageMembers : List (List Member)
deriving Repr

def emptyBank : Bank := ⟨0, 0, 0⟩

/-- `whale_cap > member_limit` (flex kinds only; other kinds have no such field) -/
def whaleOk (k : Kind) (w : Option Nat) (limit : Nat) : Bool :=
  match k.isFlex, w with
  | true, some c => decide (c > limit)
  | _, _ => true

def effWhale (k : Kind) (w : Option Nat) : Option Nat := if k.isFlex then w else none

/-- member loop of a flat instantiate: (num_members, WHITELIST) -/
def instFlatMembers (k : Kind) (w : Option Nat) (limit : Nat) (ms : List Member) : Except Err (Nat × List Member) :=
  let l := prep k ms
  -- `config.member_limit < config.num_members` with `num_members = members.len()` (after dedup only for plain)
  if limit < l.length then .error .limit
  else if k.isFlex then
    match addLoop ⟨false, false, w⟩ limit l (0, [], 0) with
    | .error e => .error e
    | .ok (num, st, _) => .ok (num, st)
  else
    match saveAll l [] with
    | .error e => .error e
    | .ok st => .ok (l.length, st)

/-- per-stage member loop of a tiered instantiate, stage by stage: returns the stages and the running `num_members`.
`ts` and `mss` have equal length (checked by the caller). -/
def instStages (k : Kind) (w : Option Nat) (limit : Nat) : List (Nat × Nat) → List (List Member) → Nat → Except Err (List Stage × Nat)
  | t :: ts, ms :: mss, num =>
    let l := prep k ms
    if k.isFlex then
      match addLoop ⟨false, false, w⟩ limit l (0, [], 0) with
      | .error e => .error e
      | .ok (_, st, added) =>
        match instStages k w limit ts mss (num + added) with
        | .error e => .error e
        | .ok (gs, n) => .ok (⟨t.1, t.2, st, added⟩ :: gs, n)
    else
      match saveAll l [] with
      | .error e => .error e
      | .ok st =>
        match instStages k w limit ts mss (num + l.length) with
        | .error e => .error e
        | .ok (gs, n) => .ok (⟨t.1, t.2, st, l.length⟩ :: gs, n)
  | _, _, num => .ok ([], num)

/-- `instantiate` of the five crates. -/
def instantiate (k : Kind) (m : InstMsg) : Except Err WL :=
  match k with
  | .immutable =>
    -- nonpayable; sort + dedup; count ≥ 1; keys are raw strings (no addr_validate)
    if !m.funds.isEmpty then .error .payment
    else
      let l := (sortDedup (keys m.members)).map (fun a => ((a, 0) : Member))
      if l.length < 1 then .error .invalid
      else .ok { kind := k, self := m.self, admins := [], numMembers := l.length, memberLimit := 0, whaleCap := none,
                 start := 0, stop := 0, members := l.foldl (fun st x => saveM x st) [], stages := [],
                 bank := emptyBank, feesPaid := 0, stray := 0 }
  | _ =>
    if m.memberLimit = 0 ∨ m.memberLimit > k.maxMembers then .error .invalid
    else if k.isTiered && !(validateStages m.now m.stageTimes) then .error .invalid
    else if k.isTiered && decide (m.stageMembers.length ≠ m.stageTimes.length) then .error .invalid
    else
      let fee := creationFee k m.memberLimit
      match mustPay m.funds NATIVE with
      | .error e => .error e
      | .ok payment =>
        if payment ≠ fee then .error .payment
        else if !whaleOk k m.whaleCap m.memberLimit then .error .invalid
        else if !m.admins.all validAddr then .error .invalid
        else if !k.isTiered && (decide (m.start > m.stop) || decide (m.now ≥ m.start) || decide (m.start < GENESIS)) then .error .invalid
        else
          match Sg1.checkedFairBurn m.funds m.self fee none with
          | .error e => .error e
          | .ok msgs =>
            match settle emptyBank payment msgs with
            | .error e => .error e
            | .ok bank =>
              let w := effWhale k m.whaleCap
              if k.isTiered then
                -- `config.member_limit < Σ len` (raw lengths for tiered-flex, deduplicated for tiered)
                if m.memberLimit < ((m.stageMembers.map (fun ms => (prep k ms).length)).sum) then .error .limit
                else match instStages k w m.memberLimit m.stageTimes m.stageMembers 0 with
                  | .error e => .error e
                  | .ok (gs, num) =>
                    .ok { kind := k, self := m.self, admins := m.admins, numMembers := num, memberLimit := m.memberLimit,
                          whaleCap := w, start := 0, stop := 0, members := [], stages := gs,
                          bank := bank, feesPaid := payment, stray := 0 }
              else
                match instFlatMembers k w m.memberLimit m.members with
                | .error e => .error e
                | .ok (num, st) =>
                  .ok { kind := k, self := m.self, admins := m.admins, numMembers := num, memberLimit := m.memberLimit,
                        whaleCap := w, start := m.start, stop := m.stop, members := st, stages := [],
                        bank := bank, feesPaid := payment, stray := 0 }

/-! ## Execute -/

inductive Op where
  /-- `AddMembers{to_add, stage_id}` (`stage` is ignored by the flat kinds, whose message has no such field) -/
  | addMembers (sender now tip stage : Nat) (ms : List Member)
  /-- `RemoveMembers{to_remove, stage_id}` -/
  | removeMembers (sender now tip stage : Nat) (as : List Nat)
  /-- `AddStage{stage, members}` (tiered kinds) -/
  | addStage (sender now tip start stop : Nat) (ms : List Member)
  /-- `RemoveStage{stage_id}` (tiered kinds) -/
  | removeStage (sender now tip stage : Nat)
  /-- `IncreaseMemberLimit(limit)` -/
  | increaseLimit (sender now : Nat) (funds : List Coin) (limit : Nat)
  /-- any message that only touches admins / times (`UpdateStartTime`, `UpdateEndTime`, `UpdateAdmins`, `Freeze`,
  `UpdateStageConfig`, `UpdatePerAddressLimit`): the environment may set them to anything -/
  | env (admins : List Nat) (start stop : Nat) (times : List (Nat × Nat))
deriving Repr

/-- native funds attached to a message that charges no fee -/
def Op.tip : Op → Nat
  | .addMembers _ _ tip _ _ => tip
  | .removeMembers _ _ tip _ _ => tip
  | .addStage _ _ tip _ _ _ => tip
  | .removeStage _ _ tip _ => tip
  | .increaseLimit _ _ _ _ => 0
  | .env _ _ _ _ => 0

/-- funds attached to a message that never looks at them stay in the contract -/
def tipped (s : WL) (tip : Nat) : WL :=
  { s with bank := { s.bank with bal := s.bank.bal + tip }, stray := s.stray + tip }

def setTimes : List Stage → List (Nat × Nat) → List Stage
  | g :: gs, t :: ts => { g with start := t.1, stop := t.2 } :: setTimes gs ts
  | gs, _ => gs

def execAddMembers (s : WL) (sender tip stage : Nat) (ms : List Member) : Except Err WL :=
  if !isAdmin s sender then .error .unauthorized
  else
    let cfg : LoopCfg := ⟨true, s.kind == .flex, none⟩
    if s.kind.isTiered then
      match s.stages[stage]? with
      | none => .error .notFound
      | some g =>
        match addLoop cfg s.memberLimit (prep s.kind ms) (s.numMembers, g.members, 0) with
        | .error e => .error e
        | .ok (num, st, added) =>
          .ok (tipped { s with numMembers := num,
                               stages := s.stages.set stage { g with members := st, count := g.count + added } } tip)
    else
      match addLoop cfg s.memberLimit (prep s.kind ms) (s.numMembers, s.members, 0) with
      | .error e => .error e
      | .ok (num, st, _) => .ok (tipped { s with numMembers := num, members := st } tip)

def execRemoveMembers (s : WL) (sender now tip stage : Nat) (as : List Nat) : Except Err WL :=
  if !isAdmin s sender then .error .unauthorized
  else if s.kind.isTiered then
    match s.stages[stage]? with
    | none => .error .notFound
    | some g =>
      if !(decide (now < g.start)) then .error .tooLate
      else match removeLoop as (s.numMembers, g.members, 0) with
        | .error e => .error e
        | .ok (num, st, removed) =>
          .ok (tipped { s with numMembers := num,
                               stages := s.stages.set stage { g with members := st, count := g.count - removed } } tip)
  else
    if decide (now ≥ s.start) then .error .tooLate
    else match removeLoop as (s.numMembers, s.members, 0) with
      | .error e => .error e
      | .ok (num, st, _) => .ok (tipped { s with numMembers := num, members := st } tip)

def execAddStage (s : WL) (sender now tip start stop : Nat) (ms : List Member) : Except Err WL :=
  if !isAdmin s sender then .error .unauthorized
  else if !(decide (s.stages.length < 3)) then .error .limit
  else if !validateStages now (s.stages.map (fun g => (g.start, g.stop)) ++ [(start, stop)]) then .error .invalid
  else
    let l := prep s.kind ms
    match addLoop ⟨true, false, s.whaleCap⟩ s.memberLimit l (s.numMembers, [], 0) with
    | .error e => .error e
    | .ok (num, st, added) =>
      -- MEMBER_COUNT: `members.len()` after dedup (tiered) / `members_added` (tiered-flex)
      let cnt := if s.kind.isFlex then added else l.length
      .ok (tipped { s with numMembers := num, stages := s.stages ++ [⟨start, stop, st, cnt⟩] } tip)

def execRemoveStage (s : WL) (sender now tip stage : Nat) : Except Err WL :=
  if !isAdmin s sender then .error .unauthorized
  else match s.stages[stage]? with
    | none => .error .notFound
    | some g =>
      if !(decide (now < g.start)) then .error .tooLate
      else
        let dropped := stageTotal (s.stages.drop stage)
        -- `config.num_members -= 1` per stored member (checked arithmetic)
        if s.numMembers < dropped then .error .other
        else .ok (tipped { s with numMembers := s.numMembers - dropped, stages := s.stages.take stage } tip)

def execIncreaseLimit (s : WL) (funds : List Coin) (limit : Nat) : Except Err WL :=
  -- no admin check in the code: anybody may pay for more capacity
  if decide (s.memberLimit ≥ limit) || decide (limit > s.kind.maxMembers) then .error .invalid
  else
    let fee := upgradeFee s.kind s.memberLimit limit
    match mayPay funds NATIVE with
    | .error e => .error e
    | .ok payment =>
      if payment ≠ fee then .error .payment
      else
        match (if fee > 0 then Sg1.checkedFairBurn funds s.self fee none else .ok []) with
        | .error e => .error e
        | .ok msgs =>
          match settle s.bank payment msgs with
          | .error e => .error e
          | .ok bank => .ok { s with memberLimit := limit, bank := bank, feesPaid := s.feesPaid + payment }

/-- one `execute` call; `.error` = the transaction is reverted -/
def exec (s : WL) (op : Op) : Except Err WL :=
  if s.kind == .immutable then .error .invalid     -- `enum ExecuteMsg {}`: nothing deserialises
  else match op with
  | .addMembers sender _ tip stage ms => execAddMembers s sender tip stage ms
  | .removeMembers sender now tip stage as => execRemoveMembers s sender now tip stage as
  | .addStage sender now tip start stop ms =>
    if s.kind.isTiered then execAddStage s sender now tip start stop ms else .error .invalid
  | .removeStage sender now tip stage =>
    if s.kind.isTiered then execRemoveStage s sender now tip stage else .error .invalid
  | .increaseLimit _ _ funds limit => execIncreaseLimit s funds limit
  | .env admins start stop times =>
    .ok { s with admins := admins, start := start, stop := stop, stages := setTimes s.stages times }

/-- transactional step: a failed message leaves the state unchanged -/
def step (s : WL) (op : Op) : WL := match exec s op with | .ok s' => s' | .error _ => s

def run (s : WL) (ops : List Op) : WL := ops.foldl step s

/-! ## Queries -/

/-- the map the `Members{stage_id}` query ranges over -/
def mapOf (s : WL) (stage : Nat) : List Member :=
  if s.kind.isTiered then (match s.stages[stage]? with | some g => g.members | none => []) else s.members

/-- `query_members(start_after, limit[, stage_id])`; `none` = `addr_validate(start_after)` failed -/
def queryMembers (s : WL) (stage : Nat) (startAfter : Option Nat) (limit : Option Nat) : Option (List Member) :=
  let lim := min (limit.getD PAGE_DEFAULT) PAGE_MAX
  match startAfter with
  | none => some ((mapOf s stage).take lim)
  | some a => if validAddr a then some (((mapOf s stage).filter (fun m => decide (a < m.1))).take lim) else none

/-- `HasMember{member}` (`none` = query error); immutable: `IncludesAddress` (no validation) -/
def queryHasMember (s : WL) (now : Nat) (a : Nat) : Option Bool :=
  if s.kind == .immutable then some (hasM a s.members)
  else if !validAddr a then none
  else if s.kind.isTiered then
    match activeIdx now s.stages with
    | some i => some (hasM a (mapOf s i))
    | none => some false
  else some (hasM a s.members)

/-- flex kinds: `Member{member}` → mint count (`none` = query error: invalid, not stored, no active stage) -/
def queryMember (s : WL) (now : Nat) (a : Nat) : Option Nat :=
  if !s.kind.isFlex || !validAddr a then none
  else if s.kind.isTiered then
    match activeIdx now s.stages with
    | some i => getM a (mapOf s i)
    | none => none
  else getM a s.members

/-- tiered kinds: `StageMemberInfo{stage_id, member}.is_member` (`none` = query error) -/
def queryStageMember (s : WL) (stage : Nat) (a : Nat) : Option Bool :=
  if !s.kind.isTiered || !validAddr a then none
  else if s.kind == .tiered && decide (stage ≥ s.stages.length) then none   -- `config.stages[stage_id]` panics
  else some (hasM a (mapOf s stage))

/-- tiered kinds: `Stage{stage_id}.member_count` -/
def queryStageCount (s : WL) (stage : Nat) : Option Nat := (s.stages[stage]?).map (·.count)

/-- all pages of the `Members` query with page size `pg`, as a client walks them (`fuel` bounds the walk) -/
def walkPages (s : WL) (stage : Nat) (pg : Nat) : Nat → Option Nat → List Member → List Member
  | 0, _, acc => acc
  | fuel + 1, after, acc =>
    match queryMembers s stage after (some pg) with
    | none => acc
    | some [] => acc
    | some page => walkPages s stage pg fuel (page.getLast?.map (·.1)) (acc ++ page)

end LP.WlMembers
