import LaunchpadModel.Model.LaunchpadSystemOE
import LaunchpadModel.Model.LaunchpadSystem2
import LaunchpadModel.Model.CollectionFull
/-!
# Open-edition SYSTEM composite 2: `LP.SysOE` with the REAL collection model — namespace `LP.SysOE2`

`LP.SysOE` (Model/LaunchpadSystemOE.lean) = open-edition factory + the three open-edition minters + whitelist contracts; the sg721
collection enters it only through the SIMPLIFIED interface: the token table `Supply.Coll` (inside `OE.Minter.seq`) and the ownership
/ creator / trading-time record `TT.Coll` (`OE.Minter.tt`), with holders' and the creator's messages as the six interface ops
`collTransfer … collOwn`, and the collection's own `instantiate` checks as the flag `CreateMsg.collOk`.
`LP.CF` (Model/CollectionFull.lean) = the four sg721 contracts, every execute / query / migrate path computed.

Here the simplified component is REPLACED by a `CF.Coll` instance — exactly what `LP.Sys2` is to `LP.Sys`:

* **state** = the `SysOE` state, but the minter record (`SysOE2.Minter`) has NO token table and NO `TT.Coll`; it carries the two
  `nft_data` payloads of its `CONFIG` instead (interned `token_uri`, interned `extension`).  Next to it sits the collection contract
  `CF.Coll` the minter's `instantiate` sub-message created (kind chosen by the requested code id), and the block height.
* **what `SysOE` assumed about the collection is COMPUTED**: `Sys2.viewOfColl c = (tokView c.core, ttView c.core)` (`collViewOf` on a
  `CF.State`; the SAME view functions as `LP.Sys2`); `sysOf s` = the `SysOE.State` whose minter carries that view.  The minter-side
  code (`SysOE.step`, i.e. `OE.step` + the whitelist states) runs on `sysOf s`.
* **the minter's sub-messages to the collection are executed by the `CF` step** (sender = the minter contract, no funds):
  `Mint {token_id := TOKEN_INDEX + 1, owner, token_uri, extension}` — an off-chain edition sends `token_uri := nft_data.token_uri`,
  `extension: None` (does not parse on sg721-metadata-onchain), an on-chain edition sends `token_uri: None`, `extension :=
  nft_data.extension` (every collection parses it; only sg721-metadata-onchain keeps it) —, `UpdateStartTradingTime`; `instantiate`
  at `CreateMinter`.  Their failure fails the whole transaction.
* **ops** = every `SysOE` op (`Op.sys`; the six interface ops are read as the `CF` message they stand for; an `OE.Op.create`, which
  carries the flag `collOk` from outside, is refused — `Op.create` carries the real `collection_params` and `nft_data` payloads),
  every `CF` execute message addressed to the collection by ANY sender (`Op.collExec`), the two collection migrations, the environment
  op `collSetVersion`, and `Op.block` (height and time).

Witnesses that remain: allocated addresses (`CreateWit`, `self`), `Url::parse` flags, the answer of a contract OUTSIDE the system a
token is sent to (`sendNft … recvOk`).  No randomness in this family: the token id is `TOKEN_INDEX + 1`.
-/
namespace LP.SysOE2
open LP
open LP.Sys2 (tokView ttView viewOfColl cfKind ttKind CollInit instMsg runSub)

/-- what `LP.SysOE` / `LP.OE` assumed about the collection (no collection yet: the empty table and a placeholder record nobody reads) -/
def collViewOf (s : CF.State) : Supply.Coll × TT.Coll := Sys2.collViewOf s

/-! ## State -/

/-- `Supply.Seq` without the collection's token table -/
structure MSeq where
  kind : Supply.SeqKind
  hasEnd : Bool
  tokenIndex : Nat
  totalMint : Nat
  mintable : Option Nat
  cap : Option Nat
  burned : Bool
  issued : List Nat
deriving Repr

/-- `OE.Minter` without the two collection components (`seq.coll`, `tt`), plus the `nft_data` payloads of `CONFIG` -/
structure Minter where
  v : OE.Variant
  addr : Addr
  factory : Addr
  collectionCodeId : Nat
  mintPrice : Coin
  admin : Addr
  paymentAddress : Option Addr
  whitelist : Option Addr
  startTime : Nat
  endTime : Option Nat
  perAddressLimit : Nat
  numTokens : Option Nat
  onChain : Bool
  sg721 : Addr
  seq : MSeq
  pub : Addr → Nat
  wlc : Addr → Nat
  stg : Nat → Addr → Nat
  tot : Nat → Nat
  airdropCount : Nat
  status : VF.Status
  received : Addr → Nat
  /-- `config.extension.nft_data.token_uri`, interned (read by off-chain editions only) -/
  nftUri : Nat
  /-- `config.extension.nft_data.extension`, interned (read by on-chain editions only) -/
  nftExt : Nat

/-- the minter record `OE` / `SysOE` run on: the stored fields plus the VIEW of the collection contract -/
def omOf (m : Minter) (c : CF.Coll) : OE.Minter :=
  { v := m.v, addr := m.addr, factory := m.factory, collectionCodeId := m.collectionCodeId, mintPrice := m.mintPrice,
    admin := m.admin, paymentAddress := m.paymentAddress, whitelist := m.whitelist, startTime := m.startTime,
    endTime := m.endTime, perAddressLimit := m.perAddressLimit, numTokens := m.numTokens, onChain := m.onChain, sg721 := m.sg721,
    seq := { kind := m.seq.kind, hasEnd := m.seq.hasEnd, tokenIndex := m.seq.tokenIndex, totalMint := m.seq.totalMint,
             mintable := m.seq.mintable, cap := m.seq.cap, burned := m.seq.burned, issued := m.seq.issued,
             coll := tokView c.core },
    pub := m.pub, wlc := m.wlc, stg := m.stg, tot := m.tot, airdropCount := m.airdropCount, status := m.status,
    received := m.received, tt := ttView c.core }

/-- forget the view (it is recomputed, never stored); the `nft_data` payloads are not part of `OE.Minter` -/
def ofOm (m : OE.Minter) (uri ext : Nat) : Minter :=
  { v := m.v, addr := m.addr, factory := m.factory, collectionCodeId := m.collectionCodeId, mintPrice := m.mintPrice,
    admin := m.admin, paymentAddress := m.paymentAddress, whitelist := m.whitelist, startTime := m.startTime,
    endTime := m.endTime, perAddressLimit := m.perAddressLimit, numTokens := m.numTokens, onChain := m.onChain, sg721 := m.sg721,
    seq := { kind := m.seq.kind, hasEnd := m.seq.hasEnd, tokenIndex := m.seq.tokenIndex, totalMint := m.seq.totalMint,
             mintable := m.seq.mintable, cap := m.seq.cap, burned := m.seq.burned, issued := m.seq.issued },
    pub := m.pub, wlc := m.wlc, stg := m.stg, tot := m.tot, airdropCount := m.airdropCount, status := m.status,
    received := m.received, nftUri := uri, nftExt := ext }

structure State where
  /-- `env.block.height` -/
  height : Nat
  /-- `env.block.time` (one clock) -/
  now : Nat
  codes : VF.Codes
  factoryAddr : Addr
  /-- factory `SUDO_PARAMS` -/
  params : OE.Params
  /-- one bank -/
  bank : MintPay.Bank
  /-- the minter and the collection contract its `instantiate` created (both or neither) -/
  mc : Option (Minter × CF.Coll)
  /-- the whitelist contracts -/
  wls : List (Addr × WF.Wl)

def State.block (s : State) : Sg721.Block := ⟨s.height, s.now⟩

/-- the `SysOE` state the minter-side code runs in: the collection enters through its view -/
def sysOf (s : State) : SysOE.State :=
  { now := s.now, codes := s.codes, factoryAddr := s.factoryAddr, params := s.params, bank := s.bank,
    minter := s.mc.map fun mc => omOf mc.1 mc.2, wls := s.wls }

/-- the `CF` state of the collection contract of the system -/
def cfOf (s : State) : CF.State := ⟨s.block, s.bank, s.mc.map (·.2)⟩

/-- write a minter-side result `r` and a collection-side result `c` back (`uri`, `ext`: the minter's `nft_data` payloads) -/
def setSys (s : State) (r : SysOE.State) (bank : MintPay.Bank) (c : Option CF.Coll) (uri ext : Nat) : State :=
  { height := s.height, now := r.now, codes := r.codes, factoryAddr := r.factoryAddr, params := r.params, bank := bank,
    wls := r.wls,
    mc := match r.minter, c with
      | some om, some c => some (ofOm om uri ext, c)
      | _, _ => none }

/-! ## Operations -/

inductive Op where
  /-- every `SysOE` op.  The six collection-interface ops of `OE` are executed as the `CF` message they stand for; `OE.Op.create`
  (it carries `collOk` from outside) is refused — see `create` -/
  | sys (op : SysOE.Op)
  /-- factory `CreateMinter` with the real `collection_params` and the `nft_data` payloads (`msg.collOk` is ignored: the collection's
  own `instantiate` decides) -/
  | create (sender : Addr) (funds : List Coin) (msg : OE.CreateMsg) (w : OE.CreateWit) (ci : CollInit) (uri ext : Nat)
  /-- next block: height and time (the clock never runs backwards, as `OE.Op.setTime`) -/
  | block (h t : Nat)
  /-- ANY `ExecuteMsg` of the collection contract, by any sender, with any funds -/
  | collExec (sender : Addr) (funds : List Coin) (m : CF.ExecMsg)
  /-- `MsgMigrateContract` of the collection to the sg721-updatable code / to the code it already runs -/
  | collMigrateUpdatable
  | collMigrateSelf
  /-- environment: the stored cw2 version of the collection is `v` (system deployed by release `v`) -/
  | collSetVersion (v : Semver.Version)

/-- the `CF` message (and its sender) a collection-interface op of `OE` stands for -/
def ifaceMsg : OE.Op → Option (Addr × CF.ExecMsg)
  | .collTransfer sender id to => some (sender, .transferNft to id)
  | .collBurn sender id => some (sender, .burn id)
  | .collTrading sender t => some (sender, .updateStartTradingTime t)
  | .collCreator sender new => some (sender, .updateCollectionInfo ⟨none, none, none, none, none, some new⟩)
  | .collFreeze sender => some (sender, .freezeCollectionInfo)
  | .collOwn sender (.transfer new) => some (sender, .updateOwnership (.transfer new none))
  | .collOwn sender .accept => some (sender, .updateOwnership .accept)
  | .collOwn sender .renounce => some (sender, .updateOwnership .renounce)
  | _ => none

def isCreate : OE.Op → Bool
  | .create .. => true
  | _ => false

/-- what the minter sends to its collection while handling a message -/
inductive Sub where
  | none
  /-- `Mint {token_id := TOKEN_INDEX + 1, owner := rcpt, …}` -/
  | mint (rcpt : Addr)
  /-- `UpdateStartTradingTime(t)` -/
  | trading (t : Option Nat)

def subOf : SysOE.Op → Sub
  | .mint sender _ _ _ _ => .mint sender
  | .minter (.mintTo _ _ rcpt) => .mint rcpt
  | .minter (.updateStartTradingTime _ _ t) => .trading t
  | _ => .none

/-- the `Mint` message of `_execute_mint` (`mint_nft_msg`) as the collection of kind `k` decodes it.
Off-chain edition: `sg721::ExecuteMsg<Extension, Empty>::Mint {token_uri: nft_data.token_uri, extension: None}` — sg721-metadata-onchain
is `ExecuteMsg<Metadata, Empty>`, `None` does not parse.  On-chain edition: `ExecuteMsg<Metadata, Empty>::Mint {token_uri: None,
extension: nft_data.extension}` — every collection parses it (sg721-base / -updatable / -nt read it as `Option<Empty>`). -/
def mintMsg (onChain : Bool) (k : Sg721.Kind) (uri ext : Nat) (id : Nat) (rcpt : Addr) : Except Err CF.ExecMsg :=
  if onChain then .ok (.mint id rcpt none ext)
  else if k = .onchain then .error .invalid
  else .ok (.mint id rcpt (some uri) 0)

/-- the message of a sub-message kind, for the minter `m` (pre-state) and its collection `c` -/
def subMsg (m : Minter) (c : CF.Coll) : Sub → Except Err (Option CF.ExecMsg)
  | .none => .ok none
  | .mint rcpt =>
    match mintMsg m.onChain c.core.kind m.nftUri m.nftExt (m.seq.tokenIndex + 1) rcpt with
    | .error e => .error e
    | .ok msg => .ok (some msg)
  | .trading t => .ok (some (.updateStartTradingTime t))

/-- a message to the collection contract from outside (`MsgExecuteContract`) -/
def collExec (s : State) (sender : Addr) (funds : List Coin) (m : CF.ExecMsg) : Except Err State :=
  match s.mc with
  | none => .error .notFound
  | some (mn, _) =>
    match CF.exec (cfOf s) sender funds m with
    | .error e => .error e
    | .ok q =>
      match q.coll with
      | none => .error .other
      | some c' => .ok { s with bank := q.bank, mc := some (mn, c') }

/-- a chain-level / environment step of the collection contract (`migrateUpdatable`, `migrateSelf`, `setVersion`) -/
def collEnv (s : State) (op : CF.Op) : Except Err State :=
  match s.mc with
  | none => .error .notFound
  | some (mn, _) =>
    match CF.step (cfOf s) op with
    | .error e => .error e
    | .ok q =>
      match q.coll with
      | none => .error .other
      | some c' => .ok { s with bank := q.bank, mc := some (mn, c') }

/-- factory `CreateMinter` → minter `instantiate` → sg721 `instantiate` (a `CF` step, sender = the new minter) → minter `reply` -/
def create (s : State) (sender : Addr) (funds : List Coin) (msg : OE.CreateMsg) (w : OE.CreateWit) (ci : CollInit)
    (uri ext : Nat) : Except Err State :=
  match SysOE.step (sysOf s) (.minter (.create sender funds { msg with collOk := true } w)) with
  | .error e => .error e
  | .ok r =>
    match r.minter with
    | none => .error .other
    | some om =>
      match CF.instantiate ⟨s.block, r.bank, none⟩ (cfKind om.tt.kind) om.addr [] ci.name ci.symbol
              (instMsg om.addr msg.creator om.tt.trading ci) om.sg721 with
      | .error e => .error e
      | .ok q => .ok (setSys s r q.bank q.coll uri ext)

/-- every other `SysOE` op: the minter-side handler on `sysOf s`, then the sub-message it emits on the collection contract -/
def sysStep (s : State) (op : SysOE.Op) : Except Err State :=
  match SysOE.step (sysOf s) op with
  | .error e => .error e
  | .ok r =>
    match s.mc with
    | none => .ok (setSys s r r.bank none 0 0)
    | some (m, c) =>
      match subMsg m c (subOf op) with
      | .error e => .error e
      | .ok msg =>
        match runSub s.block r.bank m.addr c msg with
        | .error e => .error e
        | .ok (bank, c') => .ok (setSys s r bank (some c') m.nftUri m.nftExt)

def step (s : State) : Op → Except Err State
  | .sys (.minter op) =>
    match ifaceMsg op with
    | some (sender, m) => collExec s sender [] m
    | none => if isCreate op then .error .invalid else sysStep s (.minter op)
  | .sys op => sysStep s op
  | .create sender funds msg w ci uri ext => create s sender funds msg w ci uri ext
  | .block h t => if t < s.now then .error .invalid else .ok { s with height := h, now := t }
  | .collExec sender funds m => collExec s sender funds m
  | .collMigrateUpdatable => collEnv s .migrateUpdatable
  | .collMigrateSelf => collEnv s .migrateSelf
  | .collSetVersion v => collEnv s (.setVersion v)

/-- transactional semantics: a failed message leaves the world unchanged -/
def step' (s : State) (op : Op) : State :=
  match step s op with
  | .ok s' => s'
  | .error _ => s

def run (s : State) (ops : List Op) : State := ops.foldl step' s

/-- the system's own verdict on an operation -/
def accepted (s : State) (op : Op) : Bool :=
  match step s op with
  | .ok _ => true
  | .error _ => false

/-- a fresh chain with the factory instantiated -/
def init (height now : Nat) (codes : VF.Codes) (factoryAddr : Addr) (p : OE.Params) : State :=
  { height := height, now := now, codes := codes, factoryAddr := factoryAddr, params := p, bank := VF.emptyBank, mc := none,
    wls := [] }

end LP.SysOE2
