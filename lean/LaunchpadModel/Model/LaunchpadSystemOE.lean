import LaunchpadModel.Model.OpenEditionFull
import LaunchpadModel.Model.WhitelistFull
import LaunchpadModel.Model.LaunchpadSystem
/-!
# The open-edition SYSTEM composite: open-edition factory + open-edition minter + whitelist contracts — namespace `LP.SysOE`

Joins the two finished composite models, exactly as `LP.Sys` (Model/LaunchpadSystem.lean) does for the vending family:

* `LP.OE` (Model/OpenEditionFull.lean): open-edition-factory + `open-edition-minter`, `-wl-flex`, `-merkle-wl` + the collection
  interface. There the whitelist contracts are ANSWERS only: `VF.WlInfo` per address (written by `OE.Op.wlEnv`) and a per-mint
  `VF.SenderView`, both supplied from outside.
* `LP.WF` (Model/WhitelistFull.lean): the seven whitelist crates, every gate and every query computed from stored state.

Here nothing about a whitelist comes from outside. The state is the minter-side state plus a table of `WF.Wl` instances keyed
by contract address, all over ONE bank and ONE clock.

The open-edition minters ask a whitelist the SAME questions as the vending minters (`Config {}`, `HasMember {member}` /
`HasMember {member, proof_hashes}`, `Member {member}`, cw2 `contract_info` → `ActiveStageId {}` → `Stage {id-1}`; the Merkle leaf is
the same `stage ‖ sender ‖ allocation` string) and `LP.OE` takes the answers in the same records (`VF.WlInfo`, `VF.SenderView`),
so "what the minter sees of a whitelist" is REUSED from `LP.Sys`, not restated: `Sys.wlKindOf`, `Sys.wlInfoOf`, `Sys.senderViewOf`,
`Sys.leafOf`, `Sys.addrBytes`, `Sys.viewOf`, the table (`Sys.find`, `Sys.replace`).

Ops: every `OE` op except `wlEnv` (`Op.minter`; a `wlEnv` or a `mint` carrying a `SenderView` given this way is refused), the
buyer's `mint` with the real message fields (`proof_hashes` as strings), whitelist `instantiate`, every whitelist `ExecuteMsg`
addressed to one of the instances. No randomness witness exists in this family; the only witnesses are the addresses the
chain allocates (`CreateWit`, `wlInst … self`).
-/
namespace LP.SysOE
open LP
open LP.Sys (find replace wlKindOf wlInfoOf senderViewOf leafOf addrBytes viewOf)

/-! ## State -/

structure State where
  /-- `env.block.time` (one clock) -/
  now : Nat
  codes : VF.Codes
  factoryAddr : Addr
  /-- factory `SUDO_PARAMS` -/
  params : OE.Params
  /-- one bank -/
  bank : MintPay.Bank
  minter : Option OE.Minter
  /-- the whitelist contracts, newest first, keyed by `env.contract.address` -/
  wls : List (Addr × WF.Wl)

/-- the minter-side state of the system, with the whitelist interface computed from the whitelist states -/
def oeOf (s : State) : OE.State :=
  { now := s.now, codes := s.codes, factoryAddr := s.factoryAddr, params := s.params, bank := s.bank,
    wls := viewOf s.now s.wls, minter := s.minter }

/-- write a minter-side result back (the interface component of `c` is dropped: it is recomputed, never stored) -/
def setOe (s : State) (c : OE.State) : State :=
  { now := c.now, codes := c.codes, factoryAddr := c.factoryAddr, params := c.params, bank := c.bank,
    minter := c.minter, wls := s.wls }

/-- the whitelist-side state of the system for the contract at `k` -/
def wfOf (s : State) (k : Addr) : WF.State := ⟨s.now, s.bank, find s.wls k⟩

/-! ## Operations -/

inductive Op where
  /-- any `OE` op other than `wlEnv` and `mint` (clock, `fund`, `CreateMinter`, every other minter message, both sudos, the
  collection interface); those two are refused: the system has no interface op and takes no `SenderView` -/
  | minter (op : OE.Op)
  /-- the buyer's `Mint {stage, proof_hashes, allocation}` (`Mint {}` on the plain / flex crates: all three absent) -/
  | mint (sender : Addr) (funds : List Coin) (stage alloc : Option Nat) (proof : Option (List (List Nat)))
  /-- `instantiate` of whitelist crate `v`; `self` = the address the chain gives the new contract -/
  | wlInst (v : WF.Variant) (sender : Addr) (funds : List Coin) (self : Addr) (m : WF.InstMsg)
  /-- `execute` on the whitelist contract at `k` -/
  | wlExec (k : Addr) (sender : Addr) (funds : List Coin) (m : WF.ExecMsg)

/-- the `SenderView` of a mint: the answers of the whitelist ATTACHED to the minter (nothing is asked otherwise) -/
def mintView (s : State) (sender : Addr) (stage alloc : Option Nat) (proof : Option (List (List Nat))) : VF.SenderView :=
  match s.minter with
  | none => {}
  | some m =>
    match m.whitelist with
    | none => {}
    | some a =>
      match find s.wls a with
      | none => {}
      | some w => senderViewOf s.now w sender stage alloc proof

/-- the `OE` op a system `mint` is, with its witnesses computed from the whitelist state -/
def mintOp (s : State) (sender : Addr) (funds : List Coin) (stage alloc : Option Nat) (proof : Option (List (List Nat))) :
    OE.Op :=
  .mint sender funds { stage := stage, proof := proof.isSome, alloc := alloc } (mintView s sender stage alloc proof)

/-- is the address already a contract of the system? (a new contract never gets such an address) -/
def taken (s : State) (a : Addr) : Bool :=
  (find s.wls a).isSome || decide (a = s.factoryAddr) ||
  (match s.minter with
   | some m => decide (a = m.addr) || decide (a = m.sg721)
   | none => false)

/-- the two `OE` ops that carry whitelist answers from outside -/
def witnessed : OE.Op → Bool
  | .wlEnv _ _ => true
  | .mint _ _ _ _ => true
  | _ => false

def step (s : State) : Op → Except Err State
  | .minter op =>
    if witnessed op then .error .invalid
    else
      match OE.step (oeOf s) op with
      | .ok c => .ok (setOe s c)
      | .error e => .error e
  | .mint sender funds stage alloc proof =>
    match OE.step (oeOf s) (mintOp s sender funds stage alloc proof) with
    | .ok c => .ok (setOe s c)
    | .error e => .error e
  | .wlInst v sender funds self m =>
    if taken s self then .error .other
    else
      match WF.step ⟨s.now, s.bank, none⟩ (.instantiate v sender funds self m) with
      | .error e => .error e
      | .ok r =>
        match r.wl with
        | none => .error .other
        | some w => .ok { s with bank := r.bank, wls := (self, w) :: s.wls }
  | .wlExec k sender funds m =>
    match find s.wls k with
    | none => .error .notFound
    | some w =>
      match WF.step ⟨s.now, s.bank, some w⟩ (.exec sender funds m) with
      | .error e => .error e
      | .ok r =>
        match r.wl with
        | none => .error .other
        | some w' => .ok { s with bank := r.bank, wls := replace s.wls k w' }

/-- transactional semantics: a failed message leaves the world unchanged -/
def step' (s : State) (op : Op) : State :=
  match step s op with
  | .ok s' => s'
  | .error _ => s

def run (s : State) (ops : List Op) : State := ops.foldl step' s

/-- the system's own verdict on an operation -/
def accepted (s : State) (op : Op) : Bool :=
  match step s op with
  | .ok _ => true
  | .error _ => false

/-- a fresh chain with the factory instantiated -/
def init (now : Nat) (codes : VF.Codes) (factoryAddr : Addr) (p : OE.Params) : State :=
  { now := now, codes := codes, factoryAddr := factoryAddr, params := p, bank := VF.emptyBank, minter := none, wls := [] }

/-! ## The interface refresh as `OE` ops (used by the refinement theorems) -/

/-- one `wlEnv` per whitelist contract, each carrying `wlInfoOf` of that contract's state; later table entries first, so the
newest entry of an address wins as in `find` -/
def refreshOps (now : Nat) : List (Addr × WF.Wl) → List OE.Op
  | [] => []
  | (k, w) :: rest => refreshOps now rest ++ [OE.Op.wlEnv k (some (wlInfoOf now w))]

end LP.SysOE
