import LaunchpadModel.Model.Basic
import LaunchpadModel.Generated.Constants
/-!
# Sale window and entitlement (property C04)

Aspect model (DESIGN §3.4) of the *time gates*, the *whitelist branch* and the *schedule-update rules* of the ten
minters that sell to buyers: six vending variants, three open-edition variants, token-merge.

* `Variant = (family, shape)`: the family decides which gates exist (open edition has an end time and gates
  airdrops on it; token-merge has no whitelist and takes deposits instead of payments); the *shape* is the
  whitelist query dialect the minter speaks (`plain`: `sg_whitelist` messages, `flex`: `sg_whitelist_flex`
  incl. `Member{}`, `merkle`: proof-carrying `HasMember`). The featured/non-featured pairs do not differ in
  anything modelled here.
* The attached whitelist is a small component `Wl` (kind, price denom, stages with window, price, limits,
  member list or committed Merkle leaves). Its own evolution (admin edits) is **environment**: `Op.wlEnv`
  overwrites pool entry `k` with whatever the real contract now reports. Every theorem below is quantified
  over all such whitelist states.
* Merkle membership is a *checked witness*: a presented proof is `ProofArg.forLeaf k i leaf` ("the sibling path
  generated for `leaf` in tree `i` of whitelist `k`"), `junk` (well-formed hashes that are not such a path),
  `malformed` (not hex of the digest size) or `absent`. The model accepts `forLeaf k i leaf` exactly when the
  leaf claimed by the minter (`stage ‖ sender ‖ allocation`) **is** `leaf`, `leaf` is committed in the tree the
  whitelist folds against *now*, and `(k, i)` is that tree. That is Merkle soundness + completeness (property C14)
  used as an interface; the harness produces real sibling paths with real hashes and the real whitelist verifies them.
* Every minter message the property does not name (`UpdateMintPrice`, discount, `UpdatePerAddressLimit`, `Purge`,
  `Shuffle`, `BurnRemaining`, `UpdateStartTradingTime`, sudo `UpdateStatus`) is environment too: `Op.minterEnv` takes
  over the observable effect (effective public price, limit, mintable count, purged counters) and by construction
  cannot touch start / end / whitelist / admin; the harness compares exactly those after each such message.
* Per-address / per-stage counters are modelled (they decide ok/err) but the *limits* are C03's subject; prices are
  modelled as far as *which price kind is demanded* (C02 owns the disbursement). `Minter.price` is the EFFECTIVE public
  price (a standing vending discount replaces the configured price; the discount rules themselves are C07's).

Mirrors (under /repo/contracts/):
* `Wl.activeStage`, `Wl.activeIdx`  ↔ whitelists `query_is_active` / `query_config.is_active` (`start ≤ now < end`),
  tiered `helpers.rs::fetch_active_stage{,_index}` (first stage with `start ≤ now ≤ end` — closed interval)
* `Wl.config`                      ↔ `query_config` of the six whitelists
* `Wl.hasMemberPlain/Proof`, `Wl.memberEntry` ↔ `query_has_member`, flex `query_member`
* `isPublicMint`                   ↔ minters `is_public_mint` (+ `whitelist_mint_count`, `is_merkle_tree_wl`)
* `mintPrice`                      ↔ minters `mint_price`
* `executeMint`                    ↔ minters `_execute_mint` (sold-out, exact payment, counters)
* `step … (.mint)`                 ↔ `execute_mint_sender`
* `step … (.mintTo)`               ↔ `execute_mint_to`
* `step … (.deposit)`              ↔ token-merge `execute_receive_nft` (one required token of one collection)
* `step … (.updateStart/.updateEnd/.setWhitelist)` ↔ `execute_update_start_time`, `execute_update_end_time`,
  `execute_set_whitelist`
* `step … (.create)`               ↔ factory `execute_create_minter` time checks + minter `instantiate`
-/
namespace LP.SaleWindow

/-- `sg_utils::GENESIS_MINT_START_TIME` (nanoseconds) -/
def GENESIS : Nat := Gen.sg_utils_GENESIS_MINT_START_TIME

inductive Family where
  | vending | openEdition | tokenMerge
deriving Repr, DecidableEq, BEq

/-- the whitelist query dialect a minter speaks -/
inductive Shape where
  | plain | flex | merkle
deriving Repr, DecidableEq, BEq

structure Variant where
  family : Family
  shape : Shape
deriving Repr, DecidableEq, BEq

/-- 0..5 = vending, -featured, -wl-flex, -wl-flex-featured, -merkle-wl, -merkle-wl-featured;
6..8 = open-edition, -wl-flex, -merkle-wl; 9 = token-merge -/
def Variant.ofIdx (i : Nat) : Variant :=
  match i with
  | 0 | 1 => ⟨.vending, .plain⟩
  | 2 | 3 => ⟨.vending, .flex⟩
  | 4 | 5 => ⟨.vending, .merkle⟩
  | 6 => ⟨.openEdition, .plain⟩
  | 7 => ⟨.openEdition, .flex⟩
  | 8 => ⟨.openEdition, .merkle⟩
  | _ => ⟨.tokenMerge, .plain⟩

inductive WlKind where
  | plain | flex | tiered | tieredFlex | merkle | tieredMerkle | immutable
deriving Repr, DecidableEq, BEq

def WlKind.ofIdx (i : Nat) : WlKind :=
  match i with
  | 0 => .plain | 1 => .flex | 2 => .tiered | 3 => .tieredFlex | 4 => .merkle | 5 => .tieredMerkle | _ => .immutable

/-- cw2 contract name contains `tiered-whitelist` -/
def WlKind.isTiered : WlKind → Bool
  | .tiered | .tieredFlex | .tieredMerkle => true
  | _ => false

/-- `is_merkle_tree_wl`: `Config.member_limit == 0 && Config.num_members == 0`. The list whitelists refuse
`member_limit = 0` at instantiation and only ever raise it; the Merkle whitelists report 0/0. -/
def WlKind.isMerkle : WlKind → Bool
  | .merkle | .tieredMerkle => true
  | _ => false

/-- the string the Merkle minters hash: `stage ‖ sender ‖ allocation` (absent parts omitted). Injective for
fixed-length sender strings (see C14). -/
structure Leaf where
  stage : Option Nat
  addr : Addr
  alloc : Option Nat
deriving Repr, DecidableEq

structure Stage where
  start : Nat
  stop : Nat
  /-- `mint_price.amount` (the denom is whitelist-wide) -/
  price : Nat
  /-- `per_address_limit` (0 on flex kinds, which have none) -/
  perAddr : Nat
  /-- tiered kinds: `mint_count_limit` -/
  countLimit : Option Nat
  /-- list kinds: (address, flex `mint_count` or 0) -/
  members : List (Addr × Nat)
  /-- Merkle kinds: the leaves committed under this stage's root -/
  leaves : List Leaf
deriving Repr

structure Wl where
  kind : WlKind
  denom : Denom
  /-- non-tiered kinds: exactly one -/
  stages : List Stage
deriving Repr

/-- activity window of one stage: tiered kinds use a CLOSED interval (`fetch_active_stage`), the single-stage
kinds a half-open one (`query_is_active`). -/
def Stage.activeAt (tiered : Bool) (st : Stage) (now : Nat) : Bool :=
  if tiered then decide (st.start ≤ now) && decide (now ≤ st.stop)
  else decide (st.start ≤ now) && decide (now < st.stop)

/-- the stage whose rules apply now, if any (`fetch_active_stage` / the single stage while `is_active`) -/
def Wl.activeStage (w : Wl) (now : Nat) : Option Stage :=
  if w.kind.isTiered then w.stages.find? (fun st => st.activeAt true now)
  else match w.stages with
    | st :: _ => if st.activeAt false now then some st else none
    | [] => none

/-- `fetch_active_stage_index` (0-based); 0 for an active single-stage whitelist -/
def Wl.activeIdx (w : Wl) (now : Nat) : Option Nat :=
  if w.kind.isTiered then w.stages.findIdx? (fun st => st.activeAt true now)
  else match w.stages with
    | st :: _ => if st.activeAt false now then some 0 else none
    | [] => none

def Wl.isActive (w : Wl) (now : Nat) : Bool := (w.activeStage now).isSome

structure WlConfig where
  isActive : Bool
  price : Coin
  perAddr : Nat
deriving Repr

/-- `query_config`: the active stage's values; when no stage is active a tiered whitelist reports its first
stage before that stage starts and its last stage afterwards. -/
def Wl.config (w : Wl) (now : Nat) : WlConfig :=
  match w.activeStage now with
  | some st => ⟨true, ⟨w.denom, st.price⟩, st.perAddr⟩
  | none =>
    match w.stages with
    | [] => ⟨false, ⟨NATIVE, 0⟩, 0⟩
    | s0 :: rest =>
      let st := if w.kind.isTiered then (if now < s0.start then s0 else (rest.getLast?).getD s0) else s0
      ⟨false, ⟨w.denom, st.price⟩, st.perAddr⟩

/-- does the `Config {}` answer of whitelist kind `k` deserialize into the `ConfigResponse` a minter of shape `sh`
expects (`cw_serde` denies unknown fields)? plain/tiered/Merkle answers share one layout, the flex answers
another, whitelist-immutable a third. -/
def configParses (sh : Shape) (k : WlKind) : Bool :=
  match sh, k with
  | _, .immutable => false
  | .flex, .flex | .flex, .tieredFlex => true
  | .flex, _ => false
  | _, .flex | _, .tieredFlex => false
  | _, _ => true

/-- does the `Stage {stage_id}` answer deserialize (`member_count` vs `merkle_root`, stage layout)? -/
def stageParses (sh : Shape) (k : WlKind) : Bool :=
  match sh, k with
  | .plain, .tiered | .flex, .tieredFlex | .merkle, .tieredMerkle => true
  | _, _ => false

def Stage.hasMember (st : Stage) (a : Addr) : Bool := st.members.any (fun p => p.1 == a)

/-- flex `Member {member}`: the stored `mint_count` -/
def Stage.memberCount (st : Stage) (a : Addr) : Option Nat := (st.members.find? (fun p => p.1 == a)).map (·.2)

/-- what a Merkle minter's caller presents as `proof_hashes` -/
inductive ProofArg where
  /-- `proof_hashes: null` -/
  | absent
  /-- not hex strings of the digest size: the whitelist query fails -/
  | malformed
  /-- well-formed hashes that are not the path of the claimed leaf in the current tree -/
  | junk
  /-- the sibling path generated for `leaf` in tree `tree` of whitelist `wl` -/
  | forLeaf (wl tree : Nat) (leaf : Leaf)
deriving Repr, DecidableEq

/-- fold of the presented path from the claimed leaf reaches the root of tree `i` of whitelist `k` -/
def verifies (k i : Nat) (st : Option Stage) (claim : Leaf) (p : ProofArg) : Bool :=
  match p, st with
  | .forLeaf k' i' l, some s => decide (k' = k) && decide (i' = i) && decide (l = claim) && decide (claim ∈ s.leaves)
  | _, _ => false

/-- `HasMember {member}` as answered by the list whitelists; the Merkle kinds do not accept that message -/
def Wl.hasMemberPlain (w : Wl) (now : Nat) (a : Addr) : Except Err Bool :=
  match w.kind with
  | .plain | .flex => .ok (match w.stages.head? with | some st => st.hasMember a | none => false)
  | .tiered | .tieredFlex => .ok (match w.activeStage now with | some st => st.hasMember a | none => false)
  | _ => .error .invalid

/-- `HasMember {member, proof_hashes}` as answered by the Merkle whitelists (the tiered one needs an active stage);
the list whitelists reject the unknown field -/
def Wl.hasMemberProof (w : Wl) (k : Nat) (now : Nat) (claim : Leaf) (p : ProofArg) : Except Err Bool :=
  if p = .malformed then .error .invalid else
  match w.kind with
  | .merkle => .ok (verifies k 0 w.stages.head? claim p)
  | .tieredMerkle =>
    match w.activeIdx now with
    | none => .error .notFound
    | some i => .ok (verifies k i w.stages[i]? claim p)
  | _ => .error .invalid

structure Params where
  /-- denom of the factory's `min_mint_price` and `airdrop_mint_price` -/
  denom : Denom
  minPrice : Nat
  airdropPrice : Nat
  /-- open edition: `extension.max_token_limit` (initial `MINTABLE_NUM_TOKENS` when no cap is given) -/
  maxTokenLimit : Nat
deriving Repr

structure Minter where
  admin : Addr
  start : Nat
  /-- open edition only -/
  stop : Option Nat
  /-- key of the attached whitelist in the pool -/
  wl : Option Nat
  price : Coin
  perAddr : Nat
  /-- open edition: `num_tokens.is_some()`; others: true -/
  capped : Bool
  /-- `MINTABLE_NUM_TOKENS` (absent on an uncapped open-edition-minter-wl-flex) -/
  mintable : Option Nat
  /-- `MINTER_ADDRS` -/
  pubCount : Addr → Nat
  /-- `WHITELIST_MINTER_ADDRS` -/
  wlCount : Addr → Nat
  /-- `WHITELIST_{FS,SS,TS}_MINTER_ADDRS` by stage id 1..3 -/
  stCount : Nat → Addr → Nat
  /-- `WHITELIST_{FS,SS,TS}_MINT_COUNT` -/
  stTotal : Nat → Nat

structure State where
  v : Variant
  now : Nat
  params : Params
  /-- every whitelist contract in the world, by harness key -/
  wls : Nat → Option Wl
  minter : Option Minter

structure MintArgs where
  sender : Addr
  funds : List Coin
  stage : Option Nat := none
  alloc : Option Nat := none
  proof : ProofArg := .absent
deriving Repr

inductive Op where
  /-- next block: the clock never runs backwards -/
  | setTime (t : Nat)
  /-- environment: whitelist `k` is created / edited by its admin and now looks like `w` -/
  | wlEnv (k : Nat) (w : Wl)
  | create (sender : Addr) (start : Nat) (stop : Option Nat) (wl : Option Nat) (price : Nat) (limit : Nat) (ntok : Option Nat)
  | mint (a : MintArgs)
  | mintTo (sender rcpt : Addr) (funds : List Coin)
  /-- token-merge: `owner` sends one required token with `DepositToken{recipient}` -/
  | deposit (owner : Addr) (rcpt : Option Addr)
  | updateStart (sender : Addr) (t : Nat)
  | updateEnd (sender : Addr) (t : Nat)
  | setWhitelist (sender : Addr) (k : Nat)
  /-- environment: any OTHER message of the minter (`UpdateMintPrice`, `UpdateDiscountPrice`, `RemoveDiscountPrice`,
  `UpdatePerAddressLimit`, `Purge`, `Shuffle`, `BurnRemaining`, `UpdateStartTradingTime`, sudo `UpdateStatus`), whatever
  its outcome: afterwards the effective public price, the per-address limit and the mintable count are as observed,
  and the public / plain-whitelist counters may have been purged. By construction it cannot touch the schedule,
  the attached whitelist or the admin — the harness compares exactly those after every such message. -/
  | minterEnv (price perAddr : Nat) (mintable : Option Nat) (purgePub purgeWl : Bool)

/-- how a buyer's mint is accounted: public, or whitelist (`slot` = tiered stage id 1..3, none = plain counter) -/
inductive MintKind where
  | pub
  | wl (slot : Option Nat)
deriving Repr, DecidableEq

def bump (f : Addr → Nat) (a : Addr) : Addr → Nat := fun x => if x = a then f a + 1 else f x

/-- the membership part of `is_public_mint` while the whitelist is active (per minter shape × whitelist kind) -/
def memberCheck (v : Variant) (k : Nat) (w : Wl) (now : Nat) (a : MintArgs) : Except Err Bool :=
  let claim : Leaf := ⟨a.stage, a.sender, a.alloc⟩
  match v.shape with
  | .plain | .flex => w.hasMemberPlain now a.sender
  | .merkle =>
    match v.family with
    | .openEdition =>
      if a.proof = .absent then .error .invalid else w.hasMemberProof k now claim a.proof
    | _ =>
      if w.kind.isMerkle && !(decide (a.proof = .absent)) then w.hasMemberProof k now claim a.proof
      else w.hasMemberPlain now a.sender

/-- the whitelist entitlement (`per_address_limit`, flex `mint_count`, or a proof-authenticated `allocation`) -/
def wlLimit (v : Variant) (w : Wl) (now : Nat) (cfg : WlConfig) (a : MintArgs) : Except Err Nat :=
  match v.shape with
  | .plain => .ok cfg.perAddr
  | .flex =>
    match w.activeStage now with
    | none => .error .notFound
    | some st => match st.memberCount a.sender with | some c => .ok c | none => .error .notFound
  | .merkle =>
    match v.family with
    | .openEdition => .ok (a.alloc.getD cfg.perAddr)
    | _ => if w.kind.isMerkle && !(decide (a.proof = .absent)) then .ok (a.alloc.getD cfg.perAddr) else .ok cfg.perAddr

/-- `whitelist_mint_count`: which counter a whitelist mint is booked on — the per-stage counter of the active
stage (id 1..3) for a tiered whitelist, the plain whitelist counter otherwise -/
def wlSlot (w : Wl) (now : Nat) : Except Err (Option Nat) :=
  if w.kind.isTiered then
    match w.activeIdx now with
    | some i => if i < 3 then .ok (some (i + 1)) else .error .invalid
    | none => .error .invalid
  else .ok none

/-- the part of `is_public_mint` that runs while the attached whitelist `k` is active: the caller must be
entitled and within the whitelist limits; the mint is then a whitelist mint -/
def wlMintChecks (s : State) (m : Minter) (k : Nat) (w : Wl) (cfg : WlConfig) (a : MintArgs) : Except Err MintKind := do
  let has ← memberCheck s.v k w s.now a
  if !has then throw .unauthorized
  let slot ← wlSlot w s.now
  let count := match slot with | some id => m.stCount id a.sender | none => m.wlCount a.sender
  -- open-edition-minter-wl-flex only: an uncapped edition also applies the public limit
  if s.v.family = .openEdition && s.v.shape = .flex && !m.capped && !(decide (count < m.perAddr)) then throw .limit
  let lim ← wlLimit s.v w s.now cfg a
  if count ≥ lim then throw .limit
  match slot with
  | some id =>
    if !stageParses s.v.shape w.kind then throw .invalid
    match w.activeStage s.now with
    | some st =>
      match st.countLimit with
      | some l => if m.stTotal id ≥ l then throw .limit else pure ()
      | none => pure ()
    | none => throw .invalid
  | none => pure ()
  pure (.wl slot)

/-- `is_public_mint`: `pub` when there is no whitelist or it is not active; otherwise `wlMintChecks`. -/
def isPublicMint (s : State) (m : Minter) (a : MintArgs) : Except Err MintKind :=
  match m.wl with
  | none => .ok .pub
  | some k =>
    match s.wls k with
    | none => .error .notFound
    | some w =>
      if !configParses s.v.shape w.kind then .error .invalid else
      if !(w.config s.now).isActive then .ok .pub else wlMintChecks s m k w (w.config s.now) a

/-- `mint_price(is_admin)`: airdrop price for the admin paths, the whitelist price while the attached whitelist
is active, the public price otherwise -/
def mintPrice (s : State) (m : Minter) (isAdmin : Bool) : Except Err Coin :=
  if isAdmin then
    if s.v.family = .openEdition && s.params.airdropPrice = 0 && !m.capped then .error .invalid
    else .ok ⟨s.params.denom, s.params.airdropPrice⟩
  else
    match m.wl with
    | none => .ok m.price
    | some k =>
      match s.wls k with
      | none => .error .notFound
      | some w =>
        if !configParses s.v.shape w.kind then .error .invalid else
        let cfg := w.config s.now
        if cfg.isActive then .ok cfg.price else .ok m.price

/-- `_execute_mint`: sold-out check, exact payment of the demanded price, counters -/
def executeMint (s : State) (m : Minter) (sender : Addr) (funds : List Coin) (isAdmin : Bool) (kind : MintKind) :
    Except Err Minter := do
  match m.mintable with
  | some 0 => throw .soldOut
  | _ => pure ()
  let price ← mintPrice s m isAdmin
  let paid ← mayPay funds price.denom
  if paid ≠ price.amount then throw .payment
  let m := { m with mintable := m.mintable.map (· - 1) }
  match kind with
  | .pub => pure { m with pubCount := bump m.pubCount sender }
  | .wl none => pure { m with wlCount := bump m.wlCount sender }
  | .wl (some id) =>
    pure { m with stCount := fun i => if i = id then bump (m.stCount id) sender else m.stCount i,
                  stTotal := fun i => if i = id then m.stTotal id + 1 else m.stTotal i }

/-- `execute_mint_sender` -/
def mintSender (s : State) (m : Minter) (a : MintArgs) : Except Err Minter := do
  if s.v.family = .tokenMerge then throw .invalid
  let kind ← isPublicMint s m a
  if kind = .pub && s.now < m.start then throw .tooSoon
  if s.v.family = .openEdition then
    match m.stop with
    | some e => if s.now ≥ e then throw .tooLate
    | none => pure ()
  if kind = .pub && m.pubCount a.sender ≥ m.perAddr then throw .limit
  executeMint s m a.sender a.funds false kind

/-- `execute_mint_to` (vending and token-merge: no time gate at all; open edition: the end-time gate).
token-merge keys its counter by recipient and takes the airdrop price from `factory_params` directly. -/
def mintTo (s : State) (m : Minter) (sender rcpt : Addr) (funds : List Coin) : Except Err Minter := do
  if sender ≠ m.admin then throw .unauthorized
  if s.v.family = .openEdition then
    match m.stop with
    | some e => if s.now ≥ e then throw .tooLate
    | none => pure ()
  executeMint s m (if s.v.family = .tokenMerge then rcpt else sender) funds true .pub

/-- token-merge `execute_receive_nft` with a one-token requirement: every accepted deposit mints -/
def deposit (s : State) (m : Minter) (owner : Addr) (rcpt : Option Addr) : Except Err Minter := do
  if s.v.family ≠ .tokenMerge then throw .invalid
  if !(decide (s.now > m.start)) then throw .tooSoon
  let r := rcpt.getD owner
  if m.pubCount r ≥ m.perAddr then throw .limit
  match m.mintable with
  | some 0 => throw .soldOut
  | _ => pure ()
  pure { m with mintable := m.mintable.map (· - 1), pubCount := bump m.pubCount r }

/-- `execute_update_start_time` -/
def updateStart (s : State) (m : Minter) (sender : Addr) (t : Nat) : Except Err Minter := do
  if sender ≠ m.admin then throw .unauthorized
  if s.now ≥ m.start then throw .tooLate
  if s.now > t then throw .invalid
  match s.v.family with
  | .openEdition =>
    match m.stop with
    | some e => if t > e then throw .invalid
    | none => pure ()
  | _ => if t < GENESIS then throw .invalid
  pure { m with start := t }

/-- `execute_update_end_time` (open edition only) -/
def updateEnd (s : State) (m : Minter) (sender : Addr) (t : Nat) : Except Err Minter := do
  if s.v.family ≠ .openEdition then throw .invalid
  if sender ≠ m.admin then throw .unauthorized
  match m.stop with
  | some e => if s.now ≥ e then throw .tooLate
  | none => throw .invalid
  if s.now > t then throw .invalid
  if t < m.start then throw .invalid
  pure { m with stop := some t }

/-- `execute_set_whitelist` -/
def setWhitelist (s : State) (m : Minter) (sender : Addr) (k : Nat) : Except Err Minter := do
  if s.v.family = .tokenMerge then throw .invalid
  if sender ≠ m.admin then throw .unauthorized
  if !(decide (s.now < m.start)) then throw .tooLate
  match m.wl with
  | some k0 =>
    match s.wls k0 with
    | none => throw .notFound
    | some w0 =>
      if !configParses s.v.shape w0.kind then throw .invalid
      if (w0.config s.now).isActive then throw .tooLate
  | none => pure ()
  match s.wls k with
  | none => throw .notFound
  | some w =>
    if !configParses s.v.shape w.kind then throw .invalid
    let cfg := w.config s.now
    if cfg.isActive then throw .tooLate
    -- the two flex vending minters lack this comparison
    if !(s.v.family = .vending && s.v.shape = .flex) && cfg.price.denom ≠ m.price.denom then throw .payment
    if s.params.minPrice > cfg.price.amount then throw .payment
    if s.params.denom ≠ cfg.price.denom then throw .payment
    pure { m with wl := some k }

/-- factory `CreateMinter` argument checks (all three factories: `num_tokens == 0 || num_tokens > max_token_limit`,
open edition only when a cap is given; open edition: `OpenEditionMinterInitMsgExtension::validate`; the
generator keeps every argument that is not modelled valid) followed by the time checks of the minter's `instantiate` -/
def createSchedule (s : State) (start : Nat) (stop : Option Nat) (price : Nat) (ntok : Option Nat) : Except Err Unit :=
  let badCount : Bool := match ntok with
    | some n => decide (n = 0) || decide (n > s.params.maxTokenLimit)
    | none => decide (s.v.family ≠ .openEdition)
  if badCount then .error .invalid else
  match s.v.family with
  | .openEdition =>
    if start ≤ s.now then .error .invalid
    else if (match stop with | some e => decide (e ≤ start) | none => false) then .error .invalid
    else if stop.isNone && ntok.isNone then .error .invalid
    else if price < s.params.minPrice then .error .payment
    else if ntok.isNone && decide (price = 0) then .error .payment
    else if decide (s.params.airdropPrice = 0) && ntok.isNone then .error .payment
    else .ok ()
  | fam =>
    if decide (fam = .vending) && decide (price < s.params.minPrice) then .error .payment
    else if start < GENESIS then .error .invalid
    else if s.now > start then .error .invalid
    else .ok ()

/-- `instantiate`: the optional whitelist must answer `Config {}` in the minter's dialect and must not be active -/
def createWl (s : State) (wl : Option Nat) : Except Err (Option Nat) :=
  if s.v.family = .tokenMerge then .ok none else
  match wl with
  | none => .ok none
  | some k =>
    match s.wls k with
    | none => .error .notFound
    | some w =>
      if !configParses s.v.shape w.kind then .error .invalid
      else if (w.config s.now).isActive then .error .tooLate
      else .ok (some k)

def createMintable (s : State) (ntok : Option Nat) : Option Nat :=
  match s.v.family with
  | .openEdition =>
    match ntok with
    | some n => some n
    | none => if s.v.shape = .flex then none else some s.params.maxTokenLimit
  | _ => some (ntok.getD 0)

/-- factory `CreateMinter` + minter `instantiate` (one minter per world) -/
def create (s : State) (sender : Addr) (start : Nat) (stop : Option Nat) (wl : Option Nat) (price limit : Nat)
    (ntok : Option Nat) : Except Err Minter :=
  if s.minter.isSome then .error .invalid else
  match createSchedule s start stop price ntok with
  | .error e => .error e
  | .ok _ =>
    match createWl s wl with
    | .error e => .error e
    | .ok wl' =>
      .ok { admin := sender, start := start, stop := if s.v.family = .openEdition then stop else none, wl := wl',
            price := ⟨s.params.denom, price⟩, perAddr := limit, capped := s.v.family ≠ .openEdition || ntok.isSome,
            mintable := createMintable s ntok, pubCount := fun _ => 0, wlCount := fun _ => 0,
            stCount := fun _ _ => 0, stTotal := fun _ => 0 }

def withMinter (s : State) (f : Minter → Except Err Minter) : Except Err State :=
  match s.minter with
  | none => .error .notFound
  | some m => (f m).map fun m' => { s with minter := some m' }

def step (s : State) : Op → Except Err State
  | .setTime t => if t < s.now then .error .invalid else .ok { s with now := t }
  | .wlEnv k w => .ok { s with wls := fun i => if i = k then some w else s.wls i }
  | .create sender start stop wl price limit ntok =>
    (create s sender start stop wl price limit ntok).map fun m => { s with minter := some m }
  | .mint a => withMinter s (mintSender s · a)
  | .mintTo sender rcpt funds => withMinter s (mintTo s · sender rcpt funds)
  | .deposit owner rcpt => withMinter s (deposit s · owner rcpt)
  | .updateStart sender t => withMinter s (updateStart s · sender t)
  | .updateEnd sender t => withMinter s (updateEnd s · sender t)
  | .setWhitelist sender k => withMinter s (setWhitelist s · sender k)
  | .minterEnv price perAddr mintable pp pw =>
    withMinter s fun m => .ok { m with price := ⟨m.price.denom, price⟩, perAddr := perAddr, mintable := mintable,
                                        pubCount := if pp then fun _ => 0 else m.pubCount,
                                        wlCount := if pw then fun _ => 0 else m.wlCount }

/-- transactional semantics: a failed message leaves the world unchanged -/
def step' (s : State) (op : Op) : State := match step s op with | .ok s' => s' | .error _ => s

def run (s : State) (ops : List Op) : State := ops.foldl step' s

def init (v : Variant) (now : Nat) (p : Params) : State :=
  { v := v, now := now, params := p, wls := fun _ => none, minter := none }

/-- `MintPrice {}` query: `current_price` (= what a non-admin mint must pay now) and `whitelist_price` -/
def queryMintPrice (s : State) : Except Err (Coin × Option Coin) :=
  match s.minter with
  | none => .error .notFound
  | some m => do
    if s.v.family = .tokenMerge then throw .invalid
    let cur ← mintPrice s m false
    match m.wl with
    | none => pure (cur, none)
    | some k =>
      match s.wls k with
      | none => throw .notFound
      | some w => if !configParses s.v.shape w.kind then throw .invalid else pure (cur, some (w.config s.now).price)

/-- `MintCount {address}`: all counters of one address added up (the flex variants report two numbers; the
harness adds them) -/
def Minter.totalCount (m : Minter) (a : Addr) : Nat :=
  m.pubCount a + m.wlCount a + m.stCount 1 a + m.stCount 2 a + m.stCount 3 a

end LP.SaleWindow
