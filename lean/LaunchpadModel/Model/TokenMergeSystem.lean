import LaunchpadModel.Model.TokenMergeFull
import LaunchpadModel.Model.LaunchpadSystem2
/-!
# SYSTEM composite of the token-merge family with REAL collection contracts — namespace `LP.SysTM`

`LP.TMF` (Model/TokenMergeFull.lean) = token-merge factory + token-merge minter; the sg721 contracts enter it only through
SIMPLIFIED interfaces: the SOURCE collections as owner tables (`TMF.Srcs`, owners only — no approvals, no operators) and the
minter's own TARGET collection as `Supply.Coll` + `TT.Coll`.  `LP.CF` (Model/CollectionFull.lean) = the four sg721 contracts with
every execute path computed.

Here both simplified components are REPLACED by `CF.Coll` instances:

* **state** = the `TMF` state, but the minter record (`SysTM.Minter`) has NO token table and NO `TT.Coll`; next to it sits the
  TARGET collection contract (`mc : Option (Minter × CF.Coll)`, both or neither); `srcs` is a table of SOURCE collection contracts
  by address; the block height (cw721 expirations read it).  One bank, one clock.
* **what `TMF` assumed about the collections is COMPUTED**: `srcsView` (who owns which token, `num_tokens`, which addresses are
  contracts) and `Sys2.tokView` / `Sys2.ttView` of the target; `tmfOf s` is the `TMF.State` carrying those views.
* **a deposit is ONE transaction** (`deposit`): `SendNft` on the source collection by the holder / an approved spender / an
  operator (`CF.exec`; cw721 moves the token to the receiving contract and clears its approvals) → the minter's `ReceiveNft`
  hook (`hookMinter`: gates, credit, and — when the recipient's requirement is complete — the position bookkeeping) → the `Mint`
  sub-message on the TARGET collection (`CF.exec`, sender = the minter) → the `Burn` sub-message on the collection that called the
  hook (`CF.exec`, sender = the minter, who must be able to send the token).  Any failure fails the whole transaction.
  A receiver other than the minter is outside the system: its answer is the witness `recvOk`, exactly as in `CF`.
* **ops**: every `TMF` op that carries no collection answer (`Op.tm`; `create` carries `collOk` and the `src*` / `send` / `coll*`
  ops stand for collection messages — they are refused here, the real messages are `collExec` / `sendNft`), `Op.create` with
  the real `collection_params`, `Op.srcCreate` (instantiate of one more source collection), `Op.sendNft`, `Op.collExec` (ANY
  `CF.ExecMsg` by anybody on the target or on a source collection — except a `SendNft` to the minter, which must be `Op.sendNft`
  because its outcome is computed, not a witness), `Op.block`.

Witnesses that remain: pseudo-randomness (`perm`, `picked`), allocated addresses, `Url::parse` flags, the decoding of the inner
`SendNft` payload (`msgOk`), the answer of a receiver OUTSIDE the system (`recvOk`).
Outside: migrations of the collections, a requirement list that names the minter's OWN target collection (a deposit from the
target collection is refused here: `srcs` never contains it), more than one minter.
-/
namespace LP.SysTM
open LP

/-! ## State -/

/-- `TMF.Minter` without the two collection components (`supply.coll`, `tt`) -/
structure Minter where
  addr : Addr
  factory : Addr
  collectionCodeId : Nat
  admin : Addr
  startTime : Nat
  perAddressLimit : Nat
  mintTokens : List (Addr × Nat)
  sg721 : Addr
  supply : Sys2.MSupply
  mintCount : Addr → Nat
  ledger : Addr → Addr → Nat
  status : VF.Status

/-- the minter record `TMF` runs on: the stored fields plus the VIEW of the target collection contract -/
def vmOf (m : Minter) (c : CF.Coll) : TMF.Minter :=
  { addr := m.addr, factory := m.factory, collectionCodeId := m.collectionCodeId, admin := m.admin, startTime := m.startTime,
    perAddressLimit := m.perAddressLimit, mintTokens := m.mintTokens, sg721 := m.sg721,
    supply := { n := m.supply.n, pos := m.supply.pos, mintable := m.supply.mintable, minted := m.supply.minted,
                burned := m.supply.burned, coll := Sys2.tokView c.core },
    mintCount := m.mintCount, ledger := m.ledger, status := m.status, tt := Sys2.ttView c.core }

/-- forget the view (it is recomputed, never stored) -/
def ofVm (m : TMF.Minter) : Minter :=
  { addr := m.addr, factory := m.factory, collectionCodeId := m.collectionCodeId, admin := m.admin, startTime := m.startTime,
    perAddressLimit := m.perAddressLimit, mintTokens := m.mintTokens, sg721 := m.sg721,
    supply := { n := m.supply.n, pos := m.supply.pos, mintable := m.supply.mintable, minted := m.supply.minted,
                burned := m.supply.burned },
    mintCount := m.mintCount, ledger := m.ledger, status := m.status }

structure State where
  /-- `env.block.height` -/
  height : Nat
  /-- `env.block.time` (one clock) -/
  now : Nat
  codes : VF.Codes
  factoryAddr : Addr
  params : TMF.Params
  bank : MintPay.Bank
  /-- the minter and its TARGET collection contract (both or neither) -/
  mc : Option (Minter × CF.Coll)
  /-- the SOURCE collection contracts by address, newest first -/
  srcs : List (Addr × CF.Coll)

def State.block (s : State) : Sg721.Block := ⟨s.height, s.now⟩

/-! ## The source table and its view -/

def lookup : List (Addr × CF.Coll) → Addr → Option CF.Coll
  | [], _ => none
  | (a, c) :: rest, x => if a = x then some c else lookup rest x

def setColl : List (Addr × CF.Coll) → Addr → CF.Coll → List (Addr × CF.Coll)
  | [], _, _ => []
  | (a, c) :: rest, x, c' => if a = x then (a, c') :: rest else (a, c) :: setColl rest x c'

/-- `OwnerOf` of a collection contract (no token: none) -/
def ownerIn (c : CF.Coll) (id : Nat) : Option Addr := (c.core.find? id).map (·.owner)

/-- what `TMF` assumed about the source collections -/
def srcsView (l : List (Addr × CF.Coll)) : TMF.Srcs :=
  { colls := l.map Prod.fst
    owner := fun a id => (lookup l a).bind (ownerIn · id)
    num := fun a => ((lookup l a).map (·.core.count)).getD 0 }

/-- the `TMF` state the minter-side code runs in: the collections enter through their views -/
def tmfOf (s : State) : TMF.State :=
  { now := s.now, codes := s.codes, factoryAddr := s.factoryAddr, params := s.params, bank := s.bank,
    srcs := srcsView s.srcs, minter := s.mc.map fun mc => vmOf mc.1 mc.2 }

/-- the `CF` state of one collection contract of the system -/
def cfOf (s : State) (c : CF.Coll) : CF.State := ⟨s.block, s.bank, some c⟩

/-! ## Operations -/

inductive Op where
  /-- a `TMF` op that carries no collection answer: `setTime`, `fund`, `receive` (a direct call of the hook), `instantiateDirect`,
  `mintTo`, `mintFor`, `purge`, `updateStartTime`, `updateStartTradingTime`, `updatePerAddressLimit`, `shuffle`, `burnRemaining`,
  `sudoStatus`, `sudoParams`.  The others are refused. -/
  | tm (op : TMF.Op)
  /-- factory `CreateMinter` with the real `collection_params` (`msg.collOk` is ignored: the collection's `instantiate` decides) -/
  | create (sender : Addr) (funds : List Coin) (msg : TMF.CreateMsg) (w : TMF.CreateWit) (ci : Sys2.CollInit)
  /-- next block: height and time -/
  | block (h t : Nat)
  /-- `MsgInstantiateContract` of one more sg721 contract of kind `k` (a SOURCE collection); `self` = the allocated address -/
  | srcCreate (k : Sg721.Kind) (sender : Addr) (name symbol : Nat) (m : Sg721.InstMsg) (self : Addr)
  /-- `SendNft {contract, token_id, msg: DepositToken {recipient}}` on the source collection `coll` by `sender` -/
  | sendNft (coll sender : Addr) (id : Nat) (contract : Addr) (recipient : Option Addr) (msgOk recvOk : Bool) (picked : Nat)
  /-- ANY `ExecuteMsg` of the collection contract at `coll` (target or source), by any sender, with any funds -/
  | collExec (coll sender : Addr) (funds : List Coin) (m : CF.ExecMsg)

/-- the minter's sub-message to its TARGET collection while handling a `TMF` message -/
def subOf : TMF.Op → Sys2.Sub
  | .mintTo _ _ rcpt picked => .mint rcpt (.at picked)
  | .mintFor _ _ id rcpt => .mint rcpt (.id id)
  | .updateStartTradingTime _ _ t => .trading t
  | _ => .none

/-- does the `TMF` op stand for a collection message / carry a collection answer (then it is not a system op) -/
def foreignOp : TMF.Op → Bool
  | .srcNew .. | .srcGive .. | .srcTransfer .. | .send .. | .receive .. | .create .. => true
  | .collTransfer .. | .collBurn .. | .collTrading .. | .collCreator .. | .collFreeze .. | .collOwn .. => true
  | _ => false

/-- the message of a sub-message kind, for the minter record `m` (pre-state positions) and its collection `c` -/
def subMsg (pos : List (Nat × Nat)) (c : CF.Coll) : Sys2.Sub → Except Err (Option CF.ExecMsg)
  | .none => .ok none
  | .mint rcpt pk =>
    match Sys2.pickedId pos pk with
    | none => .error .other
    | some id =>
      match Sys2.mintMsg c.core.kind id rcpt with
      | .error e => .error e
      | .ok msg => .ok (some msg)
  | .trading t => .ok (some (.updateStartTradingTime t))

/-- write a minter-side result `r` (its views are dropped) and the target collection back -/
def setTm (s : State) (r : TMF.State) (bank : MintPay.Bank) (c : Option CF.Coll) : State :=
  { s with now := r.now, codes := r.codes, factoryAddr := r.factoryAddr, params := r.params, bank := bank,
           mc := match r.minter, c with
             | some vm, some c => some (ofVm vm, c)
             | _, _ => none }

/-- a `TMF` op without collection answers: the minter-side handler on `tmfOf s`, then its sub-message on the target collection -/
def tmStep (s : State) (op : TMF.Op) : Except Err State :=
  match TMF.step (tmfOf s) op with
  | .error e => .error e
  | .ok r =>
    match s.mc with
    | none => .ok (setTm s r r.bank none)
    | some (m, c) =>
      match subMsg m.supply.pos c (subOf op) with
      | .error e => .error e
      | .ok msg =>
        match Sys2.runSub s.block r.bank m.addr c msg with
        | .error e => .error e
        | .ok (bank, c') => .ok (setTm s r bank (some c'))

/-- factory `CreateMinter` → minter `instantiate` → sg721 `instantiate` (a `CF` step, sender = the new minter) → minter `reply` -/
def create (s : State) (sender : Addr) (funds : List Coin) (msg : TMF.CreateMsg) (w : TMF.CreateWit) (ci : Sys2.CollInit) :
    Except Err State :=
  match TMF.step (tmfOf s) (.create sender funds { msg with collOk := true } w) with
  | .error e => .error e
  | .ok r =>
    match r.minter with
    | none => .error .other
    | some vm =>
      if (lookup s.srcs vm.sg721).isSome then .error .other      -- the allocated address is fresh
      else
        match CF.instantiate ⟨s.block, r.bank, none⟩ (Sys2.cfKind vm.tt.kind) vm.addr [] ci.name ci.symbol
                (Sys2.instMsg vm.addr msg.creator vm.tt.trading ci) vm.sg721 with
        | .error e => .error e
        | .ok q => .ok (setTm s r q.bank q.coll)

/-- one more source collection -/
def srcCreate (s : State) (k : Sg721.Kind) (sender : Addr) (name symbol : Nat) (m : Sg721.InstMsg) (self : Addr) :
    Except Err State :=
  if (lookup s.srcs self).isSome then .error .other
  else if (match s.mc with | some (mn, _) => decide (self = mn.addr) || decide (self = mn.sg721) | none => false) then .error .other
  else if self = s.factoryAddr then .error .other
  else
    match CF.instantiate ⟨s.block, s.bank, none⟩ k sender [] name symbol m self with
    | .error e => .error e
    | .ok q =>
      match q.coll with
      | none => .error .other
      | some c => .ok { s with bank := q.bank, srcs := (self, c) :: s.srcs }

/-- one `MsgExecuteContract` / `WasmMsg::Execute` on the collection contract `c`: the new bank and the new contract state -/
def execOn (s : State) (bank : MintPay.Bank) (c : CF.Coll) (sender : Addr) (funds : List Coin) (m : CF.ExecMsg) :
    Except Err (MintPay.Bank × CF.Coll) :=
  match CF.exec ⟨s.block, bank, some c⟩ sender funds m with
  | .error e => .error e
  | .ok q =>
    match q.coll with
    | none => .error .other
    | some c' => .ok (q.bank, c')

def isTarget (s : State) (coll : Addr) : Bool :=
  match s.mc with
  | some (m, _) => decide (coll = m.sg721)
  | none => false

def isMinterAddr (s : State) (a : Addr) : Bool :=
  match s.mc with
  | some (m, _) => decide (a = m.addr)
  | none => false

/-- is `m` a `SendNft` whose receiver is the minter contract (its outcome is computed by `deposit`, never a witness) -/
def sendsToMinter (s : State) : CF.ExecMsg → Bool
  | .sendNft contract _ _ => isMinterAddr s contract
  | _ => false

/-- a message to a collection contract from outside -/
def collExec (s : State) (coll sender : Addr) (funds : List Coin) (m : CF.ExecMsg) : Except Err State :=
  if sendsToMinter s m then .error .invalid
  else
    match s.mc with
    | some (mn, tc) =>
      if coll = mn.sg721 then
        match execOn s s.bank tc sender funds m with
        | .error e => .error e
        | .ok (bank, tc') => .ok { s with bank := bank, mc := some (mn, tc') }
      else
        match lookup s.srcs coll with
        | none => .error .notFound
        | some c =>
          match execOn s s.bank c sender funds m with
          | .error e => .error e
          | .ok (bank, c') => .ok { s with bank := bank, srcs := setColl s.srcs coll c' }
    | none =>
      match lookup s.srcs coll with
      | none => .error .notFound
      | some c =>
        match execOn s s.bank c sender funds m with
        | .error e => .error e
        | .ok (bank, c') => .ok { s with bank := bank, srcs := setColl s.srcs coll c' }

/-! ## The `ReceiveNft` hook -/

/-- would one more token of collection `caller` credited to `rcpt` cover every entry of the requirement list -/
def completes (m : TMF.Minter) (caller rcpt : Addr) : Bool :=
  TMF.allReceived m.mintTokens (TMF.creditLedger m.ledger rcpt caller rcpt)

/-- the minter-side part of `execute_receive_nft(info.sender = caller, Cw721ReceiveMsg {sender, token_id, DepositToken {recipient}})`:
the new minter record and whether a `Mint` sub-message is emitted (the `Burn {token_id}` to `caller` always is) -/
def hookMinter (now : Nat) (m : TMF.Minter) (caller sender : Addr) (recipient : Option Addr) (picked : Nat) :
    Except Err (TMF.Minter × Bool) :=
  if ¬ m.startTime < now then .error .tooSoon
  else if ¬ m.mintCount (recipient.getD sender) < m.perAddressLimit then .error .limit
  else
    match TMF.requiredOf m.mintTokens caller with
    | none => .error .invalid
    | some amt =>
      if ¬ m.ledger (recipient.getD sender) caller < amt then .error .limit
      else if completes m caller (recipient.getD sender) then
        match TMF.deliver m (.at picked) (recipient.getD sender) with
        | .error e => .error e
        | .ok m1 =>
          .ok ({ m1 with ledger := TMF.clearLedger (TMF.creditLedger m.ledger (recipient.getD sender) caller)
                                    (recipient.getD sender) m.mintTokens }, true)
      else
        .ok ({ m with ledger := TMF.creditLedger m.ledger (recipient.getD sender) caller }, false)

/-- the minter's `ReceiveNft` entry point called by `caller` and the dispatch of its response `[Mint?, Burn]`:
`Mint` on the TARGET collection, `Burn {token_id}` on the contract at `caller` (a source collection, or nothing there: failure) -/
def hook (s : State) (caller sender : Addr) (id : Nat) (recipient : Option Addr) (picked : Nat) : Except Err State :=
  match s.mc with
  | none => .error .notFound
  | some (m, tc) =>
    match hookMinter s.now (vmOf m tc) caller sender recipient picked with
    | .error e => .error e
    | .ok (vm', mints) =>
      match subMsg m.supply.pos tc (if mints then .mint (recipient.getD sender) (.at picked) else .none) with
      | .error e => .error e
      | .ok msg =>
        match Sys2.runSub s.block s.bank m.addr tc msg with
        | .error e => .error e
        | .ok (bank1, tc') =>
          match lookup s.srcs caller with
          | none => .error .notFound
          | some c =>
            match execOn s bank1 c m.addr [] (.burn id) with
            | .error e => .error e
            | .ok (bank2, c') =>
              .ok { s with bank := bank2, mc := some (ofVm vm', tc'), srcs := setColl s.srcs caller c' }

/-- `SendNft` on a source collection.  Receiver = the minter: cw721 `send_nft` (transfer to the minter, approvals cleared), then
the hook with `info.sender` = the collection.  Any other receiver: the `CF` step with the outside answer `recvOk`. -/
def deposit (s : State) (coll sender : Addr) (id : Nat) (contract : Addr) (recipient : Option Addr) (msgOk recvOk : Bool)
    (picked : Nat) : Except Err State :=
  if isMinterAddr s contract then
    match lookup s.srcs coll with
    | none => .error .notFound
    | some c =>
      match execOn s s.bank c sender [] (.sendNft contract id true) with
      | .error e => .error e
      | .ok (bank1, c1) =>
        if msgOk = false then .error .invalid
        else hook { s with bank := bank1, srcs := setColl s.srcs coll c1 } coll sender id recipient picked
  else collExec s coll sender [] (.sendNft contract id recvOk)

/-- a direct call of the hook by `caller` (an account, or — only under cw-multi-test — somebody signing as a collection) -/
def receiveDirect (s : State) (caller sender : Addr) (id : Nat) (recipient : Option Addr) (msgOk : Bool) (picked : Nat) :
    Except Err State :=
  if msgOk = false then .error .invalid else hook s caller sender id recipient picked

/-! ## step -/

def step (s : State) : Op → Except Err State
  | .tm (.receive caller sender id recipient msgOk picked) => receiveDirect s caller sender id recipient msgOk picked
  | .tm op => if foreignOp op then .error .invalid else tmStep s op
  | .create sender funds msg w ci => create s sender funds msg w ci
  | .block h t => if t < s.now then .error .invalid else .ok { s with height := h, now := t }
  | .srcCreate k sender name symbol m self => srcCreate s k sender name symbol m self
  | .sendNft coll sender id contract recipient msgOk recvOk picked => deposit s coll sender id contract recipient msgOk recvOk picked
  | .collExec coll sender funds m => collExec s coll sender funds m

/-- transactional semantics: a failed message leaves the world unchanged -/
def step' (s : State) (op : Op) : State :=
  match step s op with
  | .ok s' => s'
  | .error _ => s

def run (s : State) (ops : List Op) : State := ops.foldl step' s

/-- the system's own verdict on an operation -/
def accepted (s : State) (op : Op) : Bool :=
  match step s op with
  | .ok _ => true
  | .error _ => false

/-- a fresh chain with the factory instantiated -/
def init (height now : Nat) (codes : VF.Codes) (factoryAddr : Addr) (p : TMF.Params) : State :=
  { height := height, now := now, codes := codes, factoryAddr := factoryAddr, params := p, bank := VF.emptyBank, mc := none,
    srcs := [] }

end LP.SysTM
