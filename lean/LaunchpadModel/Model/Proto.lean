/-!
# Line-protocol helpers for the drivers (core only).

A line is `word word key=value key=value …`. Values are naturals, `-` (none), or lists `a:b,c:d`.
-/
namespace LP.Proto

def words (line : String) : List String :=
  (line.trimAscii.toString.splitOn " ").filter (· ≠ "")

/-- look up `key=` among the words -/
def kv (ws : List String) (key : String) : Option String :=
  ws.findSome? fun w =>
    match w.splitOn "=" with
    | [k, v] => if k == key then some v else none
    | _ => none

def nat? (s : String) : Option Nat := s.toNat?

def natKv (ws : List String) (key : String) : Option Nat := (kv ws key).bind nat?

/-- optional natural: `-` is none -/
def optNatKv (ws : List String) (key : String) : Option (Option Nat) :=
  match kv ws key with
  | none => none
  | some "-" => some none
  | some v => (nat? v).map some

def boolKv (ws : List String) (key : String) : Option Bool :=
  match kv ws key with
  | some "1" => some true
  | some "0" => some false
  | _ => none

/-- `a,b,c` (or `-` for empty) -/
def natList? (s : String) : Option (List Nat) :=
  if s == "-" || s == "" then some []
  else (s.splitOn ",").mapM nat?

def natListKv (ws : List String) (key : String) : Option (List Nat) := (kv ws key).bind natList?

/-- `d:a,d:a` pairs (or `-`) -/
def pairList? (s : String) : Option (List (Nat × Nat)) :=
  if s == "-" || s == "" then some []
  else (s.splitOn ",").mapM fun p =>
    match p.splitOn ":" with
    | [a, b] => do let x ← nat? a; let y ← nat? b; pure (x, y)
    | _ => none

def pairListKv (ws : List String) (key : String) : Option (List (Nat × Nat)) := (kv ws key).bind pairList?

def renderNats (l : List Nat) : String :=
  if l.isEmpty then "-" else String.intercalate "," (l.map toString)

def renderPairs (l : List (Nat × Nat)) : String :=
  if l.isEmpty then "-" else String.intercalate "," (l.map fun (a, b) => s!"{a}:{b}")

def renderOpt (o : Option Nat) : String := match o with | none => "-" | some n => toString n

/-- Generic stdin loop: `step` consumes a line and returns the new state and one output line. -/
partial def loop {σ : Type} (h : IO.FS.Stream) (out : IO.FS.Stream) (step : σ → String → σ × String) (s : σ) : IO Unit := do
  let line ← h.getLine
  if line.isEmpty then return ()
  let l := line.trimAscii.toString
  if l.isEmpty then loop h out step s
  else
    let (s', o) := step s l
    out.putStrLn o
    loop h out step s'

/-- Every case starts with a header line `case …`: the state is reset to `init` and the answer is `case`.
Drivers that need scenario parameters from the header use `runDriverRaw` and handle `case` themselves. -/
def runDriver {σ : Type} (init : σ) (step : σ → String → σ × String) : IO Unit := do
  let stdin ← IO.getStdin
  let stdout ← IO.getStdout
  loop stdin stdout (fun s l => if l.startsWith "case" then (init, "case") else step s l) init
  stdout.flush

def runDriverRaw {σ : Type} (init : σ) (step : σ → String → σ × String) : IO Unit := do
  let stdin ← IO.getStdin
  let stdout ← IO.getStdout
  loop stdin stdout step init
  stdout.flush

end LP.Proto
