import LaunchpadModel.Model.Basic
import LaunchpadModel.Model.Decimal
import LaunchpadModel.Model.Sg1
import LaunchpadModel.Model.Semver
import LaunchpadModel.Generated.Constants
/-!
# The four collection contracts: sg721-base, sg721-nt, sg721-updatable, sg721-metadata-onchain

Executable model of `contracts/collections/*` on top of `cw721-base 0.18` (token table, approvals, operators,
`token_count`) and `cw-ownable 0.5` (the *minter* is the cw_ownable owner, two-step hand-over, renounce).

Rust → Lean map (details in /verif/docs/C09.md):

* `Sg721Contract::instantiate`                         → `instantiate`
* `Sg721Contract::execute` / the entry points' `match`  → `exec` (`supported` = which `ExecuteMsg` variants the
  entry point of that collection deserialises at all)
* `cw721_base` `transfer_nft/send_nft/approve/revoke/approve_all/revoke_all/burn`, `check_can_send`,
  `check_can_approve`                                   → `execTransfer … execBurn`, `canSend`, `canApprove`
* `Sg721Contract::mint`                                 → `execMint`
* `cw_ownable::update_ownership`                        → `execUpdateOwnership`
* `update_collection_info / update_start_trading_time / freeze_collection_info`
                                                        → `execUpdateCollectionInfo / execUpdateStartTradingTime / execFreezeCollectionInfo`
* sg721-updatable `execute_freeze_token_metadata / execute_update_token_metadata / execute_enable_updatable`
                                                        → `execFreezeTokenMetadata / execUpdateTokenMetadata / execEnableUpdatable`
* sg721-updatable `_migrate` (from sg721-base or an older sg721-updatable), sg721-metadata-onchain / sg721-nt
  `entry::migrate` (on their own collections)           → `migrateToUpdatable`, `migrateOnchainSelf`, `migrateNtSelf`
  (the stored cw2 version is `State.ver`; `Op.setVersion` stands for "this collection was instantiated by an older
  release with the same storage layout")

Conventions: addresses, token ids, URIs are interned naturals; a description is `(id, byte length)`, a URL is
`(id, does Url::parse accept it)`; `Decimal` shares are atomics; time is nanoseconds; `Expiration` is modelled
exactly (`AtHeight`, `AtTime`, `Never`). A failed message leaves the state unchanged (`step'`).
Environment conventions (harness naming scheme): `validAddr a` ⇔ `MockApi::addr_validate` accepts the string
for id `a` (ids 900…999 are reserved for malformed strings); `isContract a` ⇔ `a ≥ 1000` (`contract{k}`).
-/
namespace LP.Sg721
open LP

/-! ## Small combinators (each has an `= .ok` characterisation lemma in `Props/C09.lean`) -/

def ensure {α : Type} (c : Bool) (e : Err) (k : Except Err α) : Except Err α :=
  if c then k else .error e

def withSome {α β : Type} (o : Option β) (e : Err) (k : β → Except Err α) : Except Err α :=
  match o with
  | some b => k b
  | none => .error e

/-! ## Data -/

inductive Kind where
  | base | nt | updatable | onchain
deriving Repr, DecidableEq

/-- `cw_utils::Expiration` -/
inductive Exp where
  | atHeight (h : Nat)
  | atTime (t : Nat)
  | never
deriving Repr, DecidableEq

/-- `BlockInfo` (height, time in ns) -/
structure Block where
  height : Nat
  time : Nat
deriving Repr, DecidableEq

def Exp.isExpired (e : Exp) (b : Block) : Bool :=
  match e with
  | .atHeight h => decide (h ≤ b.height)
  | .atTime t => decide (t ≤ b.time)
  | .never => false

structure Approval where
  spender : Addr
  expires : Exp
deriving Repr, DecidableEq

/-- `cw721_base::state::TokenInfo` plus its key. `ext` is an opaque tag for the extension (only
sg721-metadata-onchain stores a non-trivial one). -/
structure Token where
  id : Nat
  owner : Addr
  approvals : List Approval
  uri : Option Nat
  ext : Nat
deriving Repr, DecidableEq

structure Royalty where
  payment : Addr
  share : Nat
deriving Repr, DecidableEq

/-- a description: interned id and its length in bytes -/
structure Desc where
  id : Nat
  len : Nat
deriving Repr, DecidableEq

/-- a URL string: interned id and whether `Url::parse` accepts it -/
structure Url where
  id : Nat
  valid : Bool
deriving Repr, DecidableEq

/-- `sg721::CollectionInfo<RoyaltyInfo>` -/
structure Info where
  creator : Addr
  description : Desc
  image : Url
  externalLink : Option Url
  explicitContent : Option Bool
  startTradingTime : Option Nat
  royalty : Option Royalty
deriving Repr, DecidableEq

/-- `cw_ownable::Ownership<Addr>`; `owner` is the collection's *minter* -/
structure Ownership where
  owner : Option Addr
  pending : Option Addr
  pendingExpiry : Option Exp
deriving Repr, DecidableEq

/-- one `operators` map entry `(granter, operator) ↦ expiration` -/
structure Operator where
  owner : Addr
  operator : Addr
  expires : Exp
deriving Repr, DecidableEq

structure State where
  kind : Kind
  /-- `tokens` map, in mint order; keys are unique (theorem `C09_count`) -/
  tokens : List Token
  /-- `token_count` item -/
  count : Nat
  operators : List Operator
  ownership : Ownership
  info : Info
  frozenInfo : Bool
  royaltyUpdatedAt : Nat
  /-- sg721-updatable `FROZEN_TOKEN_METADATA` (false elsewhere) -/
  frozenMeta : Bool
  /-- sg721-updatable `ENABLE_UPDATABLE` (false elsewhere) -/
  updEnabled : Bool
  /-- the version string of the cw2 `contract_info` record (`State.kind` is its contract name) -/
  ver : Semver.Version
deriving Repr, DecidableEq

/-! ## Messages -/

/-- `cw_ownable::Action` -/
inductive Action where
  | transfer (newOwner : Addr) (expiry : Option Exp)
  | accept
  | renounce
deriving Repr, DecidableEq

/-- `sg721::UpdateCollectionInfoMsg<RoyaltyInfoResponse>` -/
structure UpdateInfo where
  description : Option Desc
  image : Option Url
  externalLink : Option (Option Url)
  explicitContent : Option Bool
  royalty : Option (Option Royalty)
  creator : Option Addr
deriving Repr, DecidableEq

/-- union of the `ExecuteMsg` enums of the four collections -/
inductive ExecMsg where
  | transferNft (recipient : Addr) (id : Nat)
  /-- `recvOk`: did the `ReceiveNft` sub-message to `contract` succeed (environment) -/
  | sendNft (contract : Addr) (id : Nat) (recvOk : Bool)
  | approve (spender : Addr) (id : Nat) (expires : Option Exp)
  | revoke (spender : Addr) (id : Nat)
  | approveAll (operator : Addr) (expires : Option Exp)
  | revokeAll (operator : Addr)
  | mint (id : Nat) (owner : Addr) (uri : Option Nat) (ext : Nat)
  | burn (id : Nat)
  | extension
  /-- `royAccepted`: the verdict of the royalty rules on `u.royalty = some (some r)` (24 h cadence, payment address,
  share ≤ 100 %, raise ≤ 2 pp and ≤ 10 % — property C10 owns them). It is an environment witness here; the model's own
  reading of those rules is `royaltyRulesOk`, which the driver prints OUTSIDE the compared projection. -/
  | updateCollectionInfo (u : UpdateInfo) (royAccepted : Bool)
  | updateStartTradingTime (t : Option Nat)
  | freezeCollectionInfo
  | updateOwnership (a : Action)
  | freezeTokenMetadata
  | updateTokenMetadata (id : Nat) (uri : Option Nat)
  | enableUpdatable
deriving Repr, DecidableEq

structure Call where
  block : Block
  sender : Addr
  funds : List Coin
  msg : ExecMsg
deriving Repr, DecidableEq

inductive Op where
  | exec (c : Call)
  /-- chain-level `migrate` (by the contract admin) to the code of collection `target`, in a block with time `now`.
  In scope: any collection → sg721-updatable code; sg721-metadata-onchain → its own code; sg721-nt → its own code;
  sg721-base has no `migrate` entry point. (Pointing an sg721-base / -nt / -updatable contract at the
  metadata-onchain or nt code is a foreign-code migration: out of scope, the harness does not execute it.) -/
  | migrate (target : Kind) (now : Nat)
  /-- environment: the stored cw2 version string is `v` (the collection was instantiated by release `v`) -/
  | setVersion (v : Semver.Version)
deriving Repr, DecidableEq

/-- `sg721::InstantiateMsg` (name/symbol are not modelled) -/
structure InstMsg where
  minter : Addr
  info : Info
deriving Repr, DecidableEq

/-! ## Environment conventions -/

def validAddr (a : Addr) : Bool := !(decide (900 ≤ a) && decide (a < 1000))
def isContract (a : Addr) : Bool := decide (1000 ≤ a)

def MAX_DESC : Nat := Gen.sg721_base_MAX_DESCRIPTION_LENGTH
def DAY_NS : Nat := 24 * 60 * 60 * 10^9

/-! ## Lookups -/

def State.find? (s : State) (id : Nat) : Option Token := s.tokens.find? (fun t => decide (t.id = id))

def State.ids (s : State) : List Nat := s.tokens.map (·.id)

def State.setToken (s : State) (t : Token) : State :=
  { s with tokens := s.tokens.map fun x => if x.id = t.id then t else x }

def State.removeToken (s : State) (id : Nat) : State :=
  { s with tokens := s.tokens.filter (fun x => !decide (x.id = id)), count := s.count - 1 }

def State.operator? (s : State) (owner operator : Addr) : Option Exp :=
  (s.operators.find? (fun o => decide (o.owner = owner) && decide (o.operator = operator))).map (·.expires)

def dropOperator (l : List Operator) (owner operator : Addr) : List Operator :=
  l.filter (fun o => !(decide (o.owner = owner) && decide (o.operator = operator)))

/-- the non-expired operator clause shared by `check_can_send` and `check_can_approve` -/
def State.isOperator (s : State) (b : Block) (owner sender : Addr) : Bool :=
  match s.operator? owner sender with
  | some ex => !ex.isExpired b
  | none => false

/-- `check_can_send` -/
def canSend (s : State) (b : Block) (sender : Addr) (t : Token) : Bool :=
  decide (t.owner = sender)
  || t.approvals.any (fun a => decide (a.spender = sender) && !a.expires.isExpired b)
  || s.isOperator b t.owner sender

/-- `check_can_approve` -/
def canApprove (s : State) (b : Block) (sender : Addr) (t : Token) : Bool :=
  decide (t.owner = sender) || s.isOperator b t.owner sender

/-- `cw_ownable::assert_owner` -/
def isMinter (s : State) (sender : Addr) : Bool := decide (s.ownership.owner = some sender)

/-! ## cw721-base messages -/

/-- `_transfer_nft` -/
def execTransfer (s : State) (b : Block) (sender recipient : Addr) (id : Nat) : Except Err State :=
  withSome (s.find? id) .notFound fun t =>
  ensure (canSend s b sender t) .unauthorized <|
  ensure (validAddr recipient) .invalid <|
  .ok (s.setToken { t with owner := recipient, approvals := [] })

/-- `send_nft`: transfer, then the `ReceiveNft` sub-message must succeed -/
def execSend (s : State) (b : Block) (sender contract : Addr) (id : Nat) (recvOk : Bool) : Except Err State :=
  ensure recvOk .other <| execTransfer s b sender contract id

/-- `_update_approvals` (`add = true` for Approve, `false` for Revoke) -/
def execApprove (s : State) (b : Block) (sender spender : Addr) (id : Nat) (add : Bool) (expires : Option Exp) :
    Except Err State :=
  withSome (s.find? id) .notFound fun t =>
  ensure (canApprove s b sender t) .unauthorized <|
  ensure (validAddr spender) .invalid <|
  let kept := t.approvals.filter (fun a => !decide (a.spender = spender))
  if add then
    let ex := expires.getD .never
    ensure (!ex.isExpired b) .invalid <|
    .ok (s.setToken { t with approvals := kept ++ [⟨spender, ex⟩] })
  else
    .ok (s.setToken { t with approvals := kept })

/-- `approve_all` -/
def execApproveAll (s : State) (b : Block) (sender operator : Addr) (expires : Option Exp) : Except Err State :=
  let ex := expires.getD .never
  ensure (!ex.isExpired b) .invalid <|
  ensure (validAddr operator) .invalid <|
  .ok { s with operators := dropOperator s.operators sender operator ++ [⟨sender, operator, ex⟩] }

/-- `revoke_all` -/
def execRevokeAll (s : State) (sender operator : Addr) : Except Err State :=
  ensure (validAddr operator) .invalid <|
  .ok { s with operators := dropOperator s.operators sender operator }

/-- `burn` -/
def execBurn (s : State) (b : Block) (sender : Addr) (id : Nat) : Except Err State :=
  withSome (s.find? id) .notFound fun t =>
  ensure (canSend s b sender t) .unauthorized <|
  .ok (s.removeToken id)

/-- `Sg721Contract::mint`: `assert_minter_owner`, `addr_validate(owner)`, `Claimed` on an existing id,
`increment_tokens`. The extension is kept only by sg721-metadata-onchain. -/
def execMint (s : State) (sender : Addr) (id : Nat) (owner : Addr) (uri : Option Nat) (ext : Nat) : Except Err State :=
  ensure (isMinter s sender) .unauthorized <|
  ensure (validAddr owner) .invalid <|
  ensure ((s.find? id).isNone) .invalid <|
  .ok { s with
    tokens := s.tokens ++ [⟨id, owner, [], uri, if s.kind = .onchain then ext else 0⟩],
    count := s.count + 1 }

/-! ## cw-ownable -/

def execUpdateOwnership (s : State) (b : Block) (sender : Addr) (a : Action) : Except Err State :=
  match a with
  | .transfer newOwner expiry =>
    ensure (isMinter s sender) .unauthorized <|
    ensure (validAddr newOwner) .invalid <|
    .ok { s with ownership := ⟨s.ownership.owner, some newOwner, expiry⟩ }
  | .accept =>
    ensure (decide (s.ownership.pending = some sender)) .unauthorized <|
    ensure (match s.ownership.pendingExpiry with | some e => !e.isExpired b | none => true) .tooLate <|
    .ok { s with ownership := ⟨s.ownership.pending, none, none⟩ }
  | .renounce =>
    ensure (isMinter s sender) .unauthorized <|
    .ok { s with ownership := ⟨none, none, none⟩ }

/-! ## sg721 collection info -/

/-- the "raise" rule of `update_collection_info` (C10 owns the arithmetic; needed here for ok/err agreement) -/
def royaltyRaiseOk (old : Option Royalty) (new : Royalty) : Bool :=
  match old with
  | some o =>
    if o.share < new.share then
      decide (new.share - o.share ≤ percent Gen.sg721_base_MAX_SHARE_DELTA_PCT)
        && decide (new.share ≤ percent Gen.sg721_base_MAX_ROYALTY_SHARE_PCT)
    else true
  | none => true

def optUrlValid (l : Option Url) : Bool :=
  match l with
  | some u => u.valid
  | none => true

def optAddrValid (a : Option Addr) : Bool :=
  match a with
  | some x => validAddr x
  | none => true

/-- C10's rules for a royalty change, as the unchanged code has them: at most one change per 24 h, valid payment
address, share ≤ 100 %, raise rule. NOT part of C09's compared projection (see `ExecMsg.updateCollectionInfo`). -/
def royaltyRulesOk (s : State) (b : Block) (r : Royalty) : Bool :=
  decide (s.royaltyUpdatedAt + DAY_NS ≤ b.time) && validAddr r.payment && decide (r.share ≤ DEC_ONE)
    && royaltyRaiseOk s.info.royalty r

/-- the checks of `update_collection_info` that precede the royalty block (frozen, creator, new creator address,
description length, image URL, external link URL) -/
def uciOtherChecksOk (s : State) (sender : Addr) (u : UpdateInfo) : Bool :=
  !s.frozenInfo && decide (s.info.creator = sender) && optAddrValid u.creator
    && decide ((u.description.getD s.info.description).len ≤ MAX_DESC)
    && (u.image.getD s.info.image).valid && optUrlValid (u.externalLink.getD s.info.externalLink)

/-- `update_collection_info`. `racc` = the royalty rules accepted the requested royalty (witness, see above). -/
def execUpdateCollectionInfo (s : State) (b : Block) (sender : Addr) (u : UpdateInfo) (racc : Bool) : Except Err State :=
  ensure (!s.frozenInfo) .frozen <|
  ensure (decide (s.info.creator = sender)) .unauthorized <|
  ensure (optAddrValid u.creator) .invalid <|
  let creator := u.creator.getD s.info.creator
  let description := u.description.getD s.info.description
  ensure (decide (description.len ≤ MAX_DESC)) .invalid <|
  let image := u.image.getD s.info.image
  ensure image.valid .invalid <|
  let externalLink := u.externalLink.getD s.info.externalLink
  ensure (optUrlValid externalLink) .invalid <|
  match u.royalty with
  | some (some r) =>
    ensure racc .invalid <|
    .ok { s with
      info := ⟨creator, description, image, externalLink, u.explicitContent, s.info.startTradingTime, some r⟩,
      royaltyUpdatedAt := b.time }
  | _ =>
    .ok { s with
      info := ⟨creator, description, image, externalLink, u.explicitContent, s.info.startTradingTime, s.info.royalty⟩ }

/-- `update_start_trading_time` (minter only) -/
def execUpdateStartTradingTime (s : State) (sender : Addr) (t : Option Nat) : Except Err State :=
  ensure (isMinter s sender) .unauthorized <|
  .ok { s with info := { s.info with startTradingTime := t } }

/-- `freeze_collection_info` (creator only; idempotent) -/
def execFreezeCollectionInfo (s : State) (sender : Addr) : Except Err State :=
  ensure (decide (s.info.creator = sender)) .unauthorized <|
  .ok { s with frozenInfo := true }

/-! ## sg721-updatable -/

def execFreezeTokenMetadata (s : State) (sender : Addr) (funds : List Coin) : Except Err State :=
  ensure funds.isEmpty .payment <|
  ensure (decide (s.info.creator = sender)) .unauthorized <|
  .ok { s with frozenMeta := true }

def execUpdateTokenMetadata (s : State) (sender : Addr) (funds : List Coin) (id : Nat) (uri : Option Nat) :
    Except Err State :=
  ensure funds.isEmpty .payment <|
  ensure (decide (s.info.creator = sender)) .unauthorized <|
  ensure (!s.frozenMeta) .frozen <|
  ensure s.updEnabled .invalid <|
  withSome (s.find? id) .notFound fun t =>
  .ok (s.setToken { t with uri := uri })

/-- `execute_enable_updatable`: one-time, creator only, pays `ENABLE_UPDATABLE_FEE` through `checked_fair_burn` -/
def execEnableUpdatable (s : State) (sender : Addr) (funds : List Coin) : Except Err State :=
  ensure (!s.updEnabled) .invalid <|
  ensure (decide (s.info.creator = sender)) .unauthorized <|
  match Sg1.checkedFairBurn funds 0 Gen.sg721_updatable_ENABLE_UPDATABLE_FEE none with
  | .ok _ => .ok { s with updEnabled := true }
  | .error e => .error e

/-! ## Migrations (chain level, by the contract admin) -/

open Semver in
def verOfString (str : String) : Version := (parse (str.toList.map Char.toNat)).getD ⟨0, 0, 0⟩

/-- `CONTRACT_VERSION = CARGO_PKG_VERSION` of the four crates (regenerated from /repo) -/
def codeVersion : Kind → Semver.Version
  | .base => Semver.ofTriple Gen.sg721_base_CRATE_VERSION_TRIPLE
  | .nt => Semver.ofTriple Gen.sg721_nt_CRATE_VERSION_TRIPLE
  | .updatable => Semver.ofTriple Gen.sg721_updatable_CRATE_VERSION_TRIPLE
  | .onchain => Semver.ofTriple Gen.sg721_metadata_onchain_CRATE_VERSION_TRIPLE

def UPD_EARLIEST : Semver.Version := verOfString Gen.sg721_updatable_EARLIEST_COMPATIBLE_VERSION
def ONCHAIN_EARLIEST : Semver.Version := verOfString Gen.sg721_metadata_onchain_EARLIEST_VERSION
def ONCHAIN_TO : Semver.Version := verOfString Gen.sg721_metadata_onchain_TO_VERSION
def NT_TO : Semver.Version := verOfString Gen.sg721_nt_TO_VERSION
/-- `Version::new(3, 0, 0)` / `Version::new(3, 1, 0)` written inline in the Rust -/
def V_3_0_0 : Semver.Version := ⟨3, 0, 0⟩
def V_3_1_0 : Semver.Version := ⟨3, 1, 0⟩

/-- sg721-updatable `_migrate`. The stored name must be an sg721-base or sg721-updatable name
(`COMPATIBLE_CONTRACT_NAMES_FOR_MIGRATION`), the stored version within `[EARLIEST_COMPATIBLE_VERSION, code]`, and not
(same name ∧ same version). ONLY when the stored name is an sg721-base name are the two flags initialised (to
false); an sg721-updatable keeps its flags — that is what makes the metadata freeze survive an upgrade.
`< 3.0.0`: `v3_0_0::upgrade` = cw721 0.16→0.17 ownership upgrade, which loads the legacy `minter` item; a contract in
today's storage layout has none, so the call fails (the 0.16 layout is not modelled). `< 3.1.0`: `v3_1_0::upgrade`
rewinds `royalty_updated_at` to `now − 24 h` (`Timestamp::minus_seconds` panics on underflow = failed tx). -/
def migrateToUpdatable (s : State) (now : Nat) : Except Err State :=
  ensure (decide (s.kind = .base) || decide (s.kind = .updatable)) .invalid <|
  ensure (!decide (s.ver < UPD_EARLIEST)) .version <|
  ensure (!decide (codeVersion .updatable < s.ver)) .version <|
  ensure (!(decide (s.ver = codeVersion .updatable) && decide (s.kind = .updatable))) .version <|
  ensure (!decide (s.ver < V_3_0_0)) .notFound <|
  ensure (!(decide (s.ver < V_3_1_0) && decide (now < DAY_NS))) .other <|
  .ok { s with
    kind := .updatable,
    frozenMeta := if s.kind = .base then false else s.frozenMeta,
    updEnabled := if s.kind = .base then false else s.updEnabled,
    royaltyUpdatedAt := if s.ver < V_3_1_0 then now - DAY_NS else s.royaltyUpdatedAt,
    ver := codeVersion .updatable }

/-- sg721-metadata-onchain `entry::migrate` on an sg721-metadata-onchain collection (the function does not look at the
stored name): refused below `EARLIEST_VERSION` and above the code version, no-op at the code version, otherwise the
cw2 record becomes `TO_VERSION` (sic) and below 3.0.0 the ownership upgrade runs (and fails, see above). -/
def migrateOnchainSelf (s : State) : Except Err State :=
  ensure (decide (s.kind = .onchain)) .invalid <|
  ensure (!decide (s.ver < ONCHAIN_EARLIEST)) .version <|
  ensure (!decide (codeVersion .onchain < s.ver)) .version <|
  if s.ver = codeVersion .onchain then .ok s
  else
    ensure (!decide (s.ver < V_3_0_0)) .notFound <|
    .ok { s with ver := ONCHAIN_TO }

/-- sg721-nt `entry::migrate` on an sg721-nt collection: it compares three compile-time constants only; every path
except `CONTRACT_VERSION == TO_VERSION` (a no-op) either refuses or ends in the ownership upgrade, which fails on
today's storage layout. -/
def migrateNtSelf (s : State) : Except Err State :=
  ensure (decide (s.kind = .nt)) .invalid <|
  ensure (decide (codeVersion .nt = NT_TO)) .version <|
  .ok s

def migrateTo (s : State) (target : Kind) (now : Nat) : Except Err State :=
  match target with
  | .updatable => migrateToUpdatable s now
  | .onchain => migrateOnchainSelf s
  | .nt => migrateNtSelf s
  | .base => .error .invalid             -- sg721-base has no `migrate` entry point

/-! ## Dispatch -/

/-- which messages the collection's `ExecuteMsg` enum contains at all (anything else fails to deserialise) -/
def supported (k : Kind) (m : ExecMsg) : Bool :=
  match k, m with
  | .nt, .mint .. => true
  | .nt, .burn .. => true
  | .nt, .updateCollectionInfo .. => true
  | .nt, .freezeCollectionInfo => true
  | .nt, _ => false
  | .updatable, .updateOwnership .. => false
  | .updatable, _ => true
  | _, .freezeTokenMetadata => false
  | _, .updateTokenMetadata .. => false
  | _, .enableUpdatable => false
  | _, _ => true

def execMsg (s : State) (b : Block) (sender : Addr) (funds : List Coin) (m : ExecMsg) : Except Err State :=
  match m with
  | .transferNft r id => execTransfer s b sender r id
  | .sendNft c id ok => execSend s b sender c id ok
  | .approve sp id ex => execApprove s b sender sp id true ex
  | .revoke sp id => execApprove s b sender sp id false none
  | .approveAll o ex => execApproveAll s b sender o ex
  | .revokeAll o => execRevokeAll s sender o
  | .mint id o uri ext => execMint s sender id o uri ext
  | .burn id => execBurn s b sender id
  | .extension => .error .other          -- `todo!()` / `unreachable!()`: the call aborts
  | .updateCollectionInfo u racc => execUpdateCollectionInfo s b sender u racc
  | .updateStartTradingTime t => execUpdateStartTradingTime s sender t
  | .freezeCollectionInfo => execFreezeCollectionInfo s sender
  | .updateOwnership a => execUpdateOwnership s b sender a
  | .freezeTokenMetadata => execFreezeTokenMetadata s sender funds
  | .updateTokenMetadata id uri => execUpdateTokenMetadata s sender funds id uri
  | .enableUpdatable => execEnableUpdatable s sender funds

def exec (s : State) (c : Call) : Except Err State :=
  ensure (supported s.kind c.msg) .invalid <| execMsg s c.block c.sender c.funds c.msg

def step (s : State) (op : Op) : Except Err State :=
  match op with
  | .exec c => exec s c
  | .migrate target now => migrateTo s target now
  | .setVersion v => .ok { s with ver := v }

/-- transactional semantics: a failed message leaves the state untouched -/
def step' (s : State) (op : Op) : State :=
  match step s op with
  | .ok s' => s'
  | .error _ => s

def run (s : State) (ops : List Op) : State := ops.foldl step' s

/-! ## Storage layout of releases before 3.1.0 (environment layer; ADDED in round 3, nothing above is changed)

A collection written by a release older than 3.1.0 has NO `royalty_updated_at` item (it is created by
`upgrades::v3_1_0::upgrade`). `State` cannot say "absent" and nothing in `step` reads the item — the royalty rules are a
witness — so the absence is tracked NEXT to the state: `XState.ruaAbsent`. `XOp.dropRoyaltyStamp` is the environment step
"this collection has the pre-3.1.0 layout" (harness: the typed item is removed from the contract's storage). With the item
absent `update_collection_info` cannot accept a requested royalty (it hard-loads the item); the migration to the
sg721-updatable code from a stored version below 3.1.0 re-creates it (`now − 24 h`, already in `migrateToUpdatable`). -/

structure XState where
  core : State
  /-- the `royalty_updated_at` item does not exist (pre-3.1.0 layout) -/
  ruaAbsent : Bool
deriving Repr, DecidableEq

inductive XOp where
  | op (o : Op)
  | dropRoyaltyStamp
deriving Repr, DecidableEq

/-- does the message ask for a royalty change that the royalty block would have to accept -/
def royaltyAcceptRequested : Op → Bool
  | .exec ⟨_, _, _, .updateCollectionInfo u racc⟩ =>
    racc && (match u.royalty with | some (some _) => true | _ => false)
  | _ => false

/-- does a SUCCESSFUL `o` from `s` run `v3_1_0::upgrade` (which writes the item) -/
def recreatesRoyaltyStamp (s : State) : Op → Bool
  | .migrate .updatable _ => decide (s.ver < V_3_1_0)
  | _ => false

def xstep (x : XState) : XOp → Except Err XState
  | .dropRoyaltyStamp => .ok { x with ruaAbsent := true }
  | .op o =>
    if x.ruaAbsent && royaltyAcceptRequested o then .error .notFound
    else
      match step x.core o with
      | .ok s' => .ok ⟨s', x.ruaAbsent && !recreatesRoyaltyStamp x.core o⟩
      | .error e => .error e

def xstep' (x : XState) (o : XOp) : XState :=
  match xstep x o with
  | .ok x' => x'
  | .error _ => x

def xrun (x : XState) (ops : List XOp) : XState := ops.foldl xstep' x

/-! ## Instantiate -/

/-- `Sg721Contract::instantiate` (+ the flags of sg721-updatable's `_instantiate`) -/
def instantiate (k : Kind) (b : Block) (sender : Addr) (funds : List Coin) (m : InstMsg) : Except Err State :=
  ensure funds.isEmpty .payment <|
  ensure (isContract sender) .unauthorized <|
  ensure (validAddr m.minter) .invalid <|
  ensure (decide (m.info.description.len ≤ MAX_DESC)) .invalid <|
  ensure m.info.image.valid .invalid <|
  ensure (optUrlValid m.info.externalLink) .invalid <|
  ensure (match m.info.royalty with
          | some r => validAddr r.payment && decide (r.share ≤ DEC_ONE)
          | none => true) .invalid <|
  ensure (validAddr m.info.creator) .invalid <|
  .ok { kind := k, tokens := [], count := 0, operators := [],
        ownership := ⟨some m.minter, none, none⟩,
        info := m.info, frozenInfo := false, royaltyUpdatedAt := b.time,
        frozenMeta := false, updEnabled := decide (k = .updatable), ver := codeVersion k }

end LP.Sg721
