import LaunchpadModel.Model.Basic
import LaunchpadModel.Generated.Constants
/-!
# Token-merge minter — the deposit ledger (property C17)

Mirrors `/repo/contracts/minters/token-merge-minter/src/contract.rs` (core Lean only, so the driver links):

| Lean | Rust |
|---|---|
| `requiredOf`            | `config.extension.mint_tokens.iter().find(|t| t.collection == info.sender)` |
| `allReceived`           | `check_all_mint_tokens_received` |
| `executeReceiveNft`     | `execute_receive_nft` (+ the `burn_message: Some(_)` branch of `_execute_mint`) |
| `pickToken`             | sold-out check, `MintFor` id range / already-sold check, `random_mintable_token_mapping` (witness) |
| `adminMint`             | `execute_mint_to` / `execute_mint_for` → `_execute_mint(is_admin = true, burn_message = None)` |
| `srcTransfer`/`srcBurn`/`canSend`/`canApprove` | cw721-base `_transfer_nft` / `burn` / `check_can_send` / `check_can_approve` of a *source* sg721 collection (owner, token approvals and operators with `Never`/`AtTime` expiry) |
| `tgtMint`               | sg721 `Mint` on the minter's own collection |
| `runMsgs`               | dispatch of the response messages `[Mint?, Burn]` (any failure fails the transaction) |
| `step (.send …)`        | sg721 `SendNft` = transfer, then `ReceiveNft` sub-message to the receiving contract |
| `step (.receive …)`     | a transaction that calls the minter's `ReceiveNft` hook directly |

State maps are total functions (absent = 0 / `none`). Addresses, collections, token ids are naturals.
Randomness is a checked witness (`picked`): the model only requires the picked id to be mintable.

**Projection (round 3).** C17 constrains the deposit ledger, the mints and the burns. Rules that belong to other
properties — the airdrop payment (C02), who may change start time / limit and to which values (C04/C05/C07),
when `Purge` / `BurnRemaining` are allowed (C01/C03) — are *not* decided by `step`: the implementation's outcome
arrives as the checked witness `w`, and `step` only enforces what C17 needs (the frame: the ledger is untouched, the
target collection changes only through an admin mint; the start time cannot move once it has passed; only the admin
airdrops). The full rules are still written down in `expected` — the driver prints that verdict behind ` ## `, so
a legitimate change there shows up as DRIFT, never as a failure of C17. Operations that do not take part in the
mechanism at all (`Shuffle`, `UpdateStartTradingTime`, sudo `UpdateStatus`, `migrate`, any message variant added
later) are the frame op `.noise`.
A failed operation leaves the state unchanged (`step'`) — CosmWasm transaction atomicity; in particular a
rejected deposit reverts the enclosing `SendNft`, so the token stays where it was.
-/
namespace LP.TM

/-- pointwise update of a one-argument map -/
def upd1 {β : Type} (f : Nat → β) (k : Nat) (v : β) : Nat → β :=
  fun x => if x = k then v else f x

/-- pointwise update of a two-argument map -/
def upd2 {β : Type} (f : Nat → Nat → β) (a b : Nat) (v : β) : Nat → Nat → β :=
  fun x y => if x = a ∧ y = b then v else f x y

structure State where
  /-- the minter contract's own address -/
  self : Addr
  /-- `config.extension.admin` (the collection creator) -/
  admin : Addr
  /-- addresses that are sg721 source-collection contracts (required ones and foreign ones) -/
  colls : List Addr
  /-- `config.extension.mint_tokens` in order: (collection, amount) -/
  required : List (Addr × Nat)
  /-- `config.extension.start_time` (ns) -/
  start : Nat
  perAddressLimit : Nat
  /-- `config.extension.num_tokens` -/
  numTokens : Nat
  /-- factory parameter `max_per_address_limit` -/
  maxPerAddressLimit : Nat
  /-- factory parameter `airdrop_mint_price.amount` (native denom) -/
  airdropPrice : Nat
  /-- block time (ns) -/
  now : Nat
  /-- token ids still mintable (`MINTABLE_TOKEN_POSITIONS` values; `MINTABLE_NUM_TOKENS` = length) -/
  mintable : List Nat
  /-- `MINTER_ADDRS` -/
  mintCount : Addr → Nat
  /-- `RECEIVED_TOKENS` : recipient → collection → credited tokens -/
  ledger : Addr → Addr → Nat
  /-- source collections: collection → token id → owner -/
  srcOwner : Addr → Nat → Option Addr
  /-- source collections: token-level approvals (spender, `Expiration`: `none` = never, `some t` = `at_time t`) -/
  srcApproved : Addr → Nat → List (Addr × Option Nat)
  /-- source collections: cw721 operators (`ApproveAll`): collection → owner → (operator, expiration) -/
  srcOperators : Addr → Addr → List (Addr × Option Nat)
  /-- source collections: `num_tokens` -/
  srcNum : Addr → Nat
  /-- the minter's own collection: token id → owner -/
  tgtOwner : Nat → Option Addr
  tgtNum : Nat

/-- amount required from collection `c`: the FIRST entry of `mint_tokens` naming it (`Iterator::find`) -/
def requiredOf : List (Addr × Nat) → Addr → Option Nat
  | [], _ => none
  | (c', n) :: rest, c => if c' = c then some n else requiredOf rest c

/-- `check_all_mint_tokens_received`: no entry with `received < amount` -/
def allReceived (req : List (Addr × Nat)) (led : Addr → Nat) : Bool :=
  req.all fun cn => decide (cn.2 ≤ led cn.1)

/-- the loop `for mint_token in mint_tokens { RECEIVED_TOKENS.remove((recipient, mint_token.collection)) }` -/
def clearLedger (led : Addr → Addr → Nat) (r : Addr) (req : List (Addr × Nat)) : Addr → Addr → Nat :=
  fun x y => if x = r ∧ y ∈ req.map Prod.fst then 0 else led x y

/-- Which token gets minted. `tokenId = some _` is `MintFor`; otherwise the implementation's pseudo-random
choice arrives as the witness `picked`, which must be a currently mintable id. -/
def pickToken (s : State) (tokenId : Option Nat) (picked : Option Nat) : Except Err Nat :=
  if s.mintable = [] then .error .soldOut
  else match tokenId with
    | some id =>
      if id = 0 ∨ s.numTokens < id then .error .invalid
      else if id ∈ s.mintable then .ok id else .error .notFound
    | none =>
      match picked with
      | some id => if id ∈ s.mintable then .ok id else .error .other
      | none => .error .other

/-- what `execute_receive_nft` returns: new minter state + the messages of the response -/
structure Recv where
  st : State
  /-- `Burn{token_id}` sent to `info.sender` -/
  burn : Addr × Nat
  /-- `Mint{token_id, owner}` sent to the minter's collection (only when the requirement is fulfilled) -/
  mint : Option (Nat × Addr)

/-- `execute_receive_nft(info.sender = caller, Cw721ReceiveMsg{sender, token_id, DepositToken{recipient}})` -/
def executeReceiveNft (s : State) (caller sender : Addr) (tokenId : Nat) (recipient : Option Addr)
    (picked : Option Nat) : Except Err Recv :=
  let r := recipient.getD sender
  if ¬ (s.start < s.now) then .error .tooSoon
  else if ¬ (s.mintCount r < s.perAddressLimit) then .error .limit
  else match requiredOf s.required caller with
    | none => .error .invalid
    | some amt =>
      if ¬ (s.ledger r caller < amt) then .error .limit
      else
        let led := upd2 s.ledger r caller (s.ledger r caller + 1)
        if allReceived s.required (led r) then
          match pickToken s none picked with
          | .error e => .error e
          | .ok id =>
            .ok { st := { s with ledger := clearLedger led r s.required
                                 mintable := s.mintable.erase id
                                 mintCount := upd1 s.mintCount r (s.mintCount r + 1) }
                  burn := (caller, tokenId)
                  mint := some (id, r) }
        else
          .ok { st := { s with ledger := led }, burn := (caller, tokenId), mint := none }

/-- cw_utils `Expiration::is_expired` for `Never` / `AtTime(t)`: expired iff `block.time ≥ t` -/
def expired (now : Nat) : Option Nat → Bool
  | none => false
  | some t => decide (t ≤ now)

/-- `who` has a live entry in an approval / operator list -/
def liveIn (now : Nat) (l : List (Addr × Option Nat)) (who : Addr) : Bool :=
  l.any fun a => a.1 == who && !expired now a.2

/-- cw721-base `check_can_send`: the owner, a non-expired token approval, or a non-expired operator of the owner -/
def canSend (s : State) (c : Addr) (id : Nat) (who : Addr) : Bool :=
  match s.srcOwner c id with
  | none => false
  | some o => o == who || liveIn s.now (s.srcApproved c id) who || liveIn s.now (s.srcOperators c o) who

/-- cw721-base `check_can_approve`: the owner or a non-expired operator of the owner -/
def canApprove (s : State) (c : Addr) (id : Nat) (who : Addr) : Bool :=
  match s.srcOwner c id with
  | none => false
  | some o => o == who || liveIn s.now (s.srcOperators c o) who

/-- cw721-base `_transfer_nft` on source collection `c` -/
def srcTransfer (s : State) (caller c : Addr) (id : Nat) (to : Addr) : Except Err State :=
  if c ∈ s.colls ∧ canSend s c id caller = true then
    .ok { s with srcOwner := upd2 s.srcOwner c id (some to), srcApproved := upd2 s.srcApproved c id [] }
  else .error .unauthorized

/-- cw721-base `burn` on source collection `c` (fails when `c` is not a collection contract) -/
def srcBurn (s : State) (caller c : Addr) (id : Nat) : Except Err State :=
  if c ∈ s.colls ∧ canSend s c id caller = true then
    .ok { s with srcOwner := upd2 s.srcOwner c id none, srcApproved := upd2 s.srcApproved c id []
                 srcNum := upd1 s.srcNum c (s.srcNum c - 1) }
  else .error .unauthorized

/-- sg721 `Mint` on the minter's collection (sender = the minter): fails when the id exists (`Claimed`) -/
def tgtMint (s : State) (id : Nat) (owner : Addr) : Except Err State :=
  match s.tgtOwner id with
  | some _ => .error .other
  | none => .ok { s with tgtOwner := upd1 s.tgtOwner id (some owner), tgtNum := s.tgtNum + 1 }

/-- dispatch the response of `execute_receive_nft`: `[Mint?, Burn]`, sender = the minter -/
def runMsgs (res : Recv) : Except Err State :=
  let s1 : Except Err State :=
    match res.mint with
    | none => .ok res.st
    | some (id, o) => tgtMint res.st id o
  match s1 with
  | .error e => .error e
  | .ok s1 => srcBurn s1 s1.self res.burn.1 res.burn.2

/-- `check_dynamic_per_address_limit` -/
def checkDynamicLimit (limit numTokens maxLimit : Nat) : Bool :=
  if maxLimit < limit then false
  else if numTokens < 100 then decide (limit ≤ 3)
  else decide (limit ≤ (numTokens * 3 + 99) / 100)

/-- `execute_mint_to` / `execute_mint_for`: admin only, no ledger involvement, no per-address-limit check; the
RECIPIENT's mint count is incremented. Whether the attached payment is acceptable is C02's business: the
implementation's verdict is the witness `w` (`expected` records the rule "exact airdrop price"). -/
def adminMint (s : State) (caller recipient : Addr) (tokenId : Option Nat) (w : Bool) (picked : Option Nat) :
    Except Err State :=
  if caller ≠ s.admin then .error .unauthorized
  else if w = false then .error .payment
  else match pickToken s tokenId picked with
    | .error e => .error e
    | .ok id =>
      tgtMint { s with mintable := s.mintable.erase id
                       mintCount := upd1 s.mintCount recipient (s.mintCount recipient + 1) } id recipient

inductive Op where
  /-- next block time -/
  | setTime (t : Nat)
  /-- environment: a fresh token `id` of source collection `coll` comes into existence, owned by `to` -/
  | give (coll : Addr) (id : Nat) (to : Addr)
  /-- `TransferNft` on a source collection -/
  | transfer (caller coll : Addr) (id : Nat) (to : Addr)
  /-- `Approve{spender, token_id, expires}` on a source collection (owner or operator) -/
  | approve (caller coll : Addr) (id : Nat) (spender : Addr) (expires : Option Nat)
  /-- `Revoke{spender, token_id}` -/
  | revoke (caller coll : Addr) (id : Nat) (spender : Addr)
  /-- `ApproveAll{operator, expires}`: `operator` may move every token of `caller` in `coll` -/
  | approveAll (caller coll operator : Addr) (expires : Option Nat)
  /-- `RevokeAll{operator}` -/
  | revokeAll (caller coll operator : Addr)
  /-- `SendNft{contract, token_id, msg}` on source collection `coll`; `msgOk` = the inner message decodes to
  `DepositToken{recipient}` and the recipient string (if any) is a valid address -/
  | send (caller coll : Addr) (id : Nat) (contract : Addr) (recipient : Option Addr) (msgOk : Bool)
      (picked : Option Nat)
  /-- a transaction calling `ReceiveNft` on the minter directly, signed by `caller` -/
  | receive (caller sender : Addr) (id : Nat) (recipient : Option Addr) (msgOk : Bool) (picked : Option Nat)
  /-- `w` (here and below) = the implementation's outcome, a checked witness — see the module doc -/
  | mintTo (caller recipient : Addr) (pay : Nat) (w : Bool) (picked : Option Nat)
  | mintFor (caller : Addr) (id : Nat) (recipient : Addr) (pay : Nat) (w : Bool)
  | setStart (caller : Addr) (t : Nat) (w : Bool)
  | setLimit (caller : Addr) (n : Nat) (w : Bool)
  | purge (caller : Addr) (w : Bool)
  | burnRemaining (caller : Addr) (w : Bool)
  /-- anything that is not part of the deposit mechanism (`Shuffle`, `UpdateStartTradingTime`, sudo
  `UpdateStatus`, `migrate`, a message variant this model has never heard of): must leave the state alone -/
  | noise (w : Bool)

def step (s : State) : Op → Except Err State
  | .setTime t => .ok { s with now := t }
  | .give coll id to =>
    if coll ∈ s.colls ∧ s.srcOwner coll id = none then
      .ok { s with srcOwner := upd2 s.srcOwner coll id (some to), srcApproved := upd2 s.srcApproved coll id []
                   srcNum := upd1 s.srcNum coll (s.srcNum coll + 1) }
    else .error .invalid
  | .transfer caller coll id to => srcTransfer s caller coll id to
  | .approve caller coll id spender expires =>
    if coll ∈ s.colls ∧ canApprove s coll id caller = true ∧ expired s.now expires = false then
      let apr := (spender, expires) :: (s.srcApproved coll id).filter (·.1 != spender)
      .ok { s with srcApproved := upd2 s.srcApproved coll id apr }
    else .error .unauthorized
  | .revoke caller coll id spender =>
    if coll ∈ s.colls ∧ canApprove s coll id caller = true then
      .ok { s with srcApproved := upd2 s.srcApproved coll id ((s.srcApproved coll id).filter (·.1 != spender)) }
    else .error .unauthorized
  | .approveAll caller coll operator expires =>
    if coll ∈ s.colls ∧ expired s.now expires = false then
      let ops := (operator, expires) :: (s.srcOperators coll caller).filter (·.1 != operator)
      .ok { s with srcOperators := upd2 s.srcOperators coll caller ops }
    else .error .invalid
  | .revokeAll caller coll operator =>
    if coll ∈ s.colls then
      .ok { s with srcOperators := upd2 s.srcOperators coll caller ((s.srcOperators coll caller).filter (·.1 != operator)) }
    else .error .invalid
  | .send caller coll id contract recipient msgOk picked =>
    match srcTransfer s caller coll id contract with
    | .error e => .error e
    | .ok s1 =>
      -- the only contract with a `ReceiveNft` hook in this world is the minter
      if contract ≠ s.self ∨ msgOk = false then .error .invalid
      else match executeReceiveNft s1 coll caller id recipient picked with
        | .error e => .error e
        | .ok res => runMsgs res
  | .receive caller sender id recipient msgOk picked =>
    if msgOk = false then .error .invalid
    else match executeReceiveNft s caller sender id recipient picked with
      | .error e => .error e
      | .ok res => runMsgs res
  | .mintTo caller recipient _ w picked => adminMint s caller recipient none w picked
  | .mintFor caller id recipient _ w => adminMint s caller recipient (some id) w none
  | .setStart _ t w =>
    -- C17 only needs: the start time cannot move any more once it has been reached (`AlreadyStarted`)
    if w = false then .error .other
    else if s.start ≤ s.now then .error .tooLate
    else .ok { s with start := t }
  | .setLimit _ n w =>
    if w = false then .error .other else .ok { s with perAddressLimit := n }
  | .purge _ w =>
    if w = false then .error .other else .ok { s with mintCount := fun _ => 0 }
  | .burnRemaining _ w =>
    if w = false then .error .other else .ok { s with mintable := [] }
  | .noise w =>
    if w = false then .error .other else .ok s

/-- The outcome the rules of the OTHER properties predict for the witnessed operations (exact airdrop price;
`UpdateStartTime`: admin, not started, `t ≥ now`, `t ≥` genesis; `UpdatePerAddressLimit`: admin, `1..max`, dynamic 3 % rule;
`Purge`: sold out; `BurnRemaining`: admin, not sold out). Printed by the driver behind ` ## ` only: a difference is
DRIFT, not a failure of C17. `none` = no opinion. -/
def expected (s : State) : Op → Option Bool
  | .mintTo caller _ pay _ picked =>
    some (decide (caller = s.admin) && decide (pay = s.airdropPrice) && (pickToken s none picked).isOk)
  | .mintFor caller id _ pay _ =>
    some (decide (caller = s.admin) && decide (pay = s.airdropPrice) && (pickToken s (some id) none).isOk)
  | .setStart caller t _ =>
    some (decide (caller = s.admin) && decide (s.now < s.start) && decide (s.now ≤ t) &&
      decide (LP.Gen.sg_utils_GENESIS_MINT_START_TIME ≤ t))
  | .setLimit caller n _ =>
    some (decide (caller = s.admin) && decide (0 < n) && decide (n ≤ s.maxPerAddressLimit) &&
      checkDynamicLimit n s.numTokens s.maxPerAddressLimit)
  | .purge _ _ => some (decide (s.mintable = []))
  | .burnRemaining caller _ => some (decide (caller = s.admin) && decide (s.mintable ≠ []))
  | _ => none

/-- transactional semantics: a failed operation leaves the state unchanged -/
def step' (s : State) (op : Op) : State :=
  match step s op with
  | .ok s' => s'
  | .error _ => s

def run (s : State) (ops : List Op) : State := ops.foldl step' s

/-- state right after the factory created the minter -/
def init (self admin : Addr) (colls : List Addr) (required : List (Addr × Nat)) (start limit numTokens maxLimit
    airdropPrice now : Nat) : State :=
  { self := self, admin := admin, colls := colls, required := required, start := start,
    perAddressLimit := limit, numTokens := numTokens, maxPerAddressLimit := maxLimit,
    airdropPrice := airdropPrice, now := now,
    mintable := (List.range numTokens).map (· + 1),
    mintCount := fun _ => 0, ledger := fun _ _ => 0,
    srcOwner := fun _ _ => none, srcApproved := fun _ _ => [], srcOperators := fun _ _ => [], srcNum := fun _ => 0,
    tgtOwner := fun _ => none, tgtNum := 0 }

/-! ## queries -/

def insertSorted (x : Nat) : List Nat → List Nat
  | [] => [x]
  | y :: ys => if x < y then x :: y :: ys else if x = y then y :: ys else y :: insertSorted x ys

def sortDedup (l : List Nat) : List Nat := l.foldr insertSorted []

/-- `DepositedTokens{address}` (canonical: ascending collection id, only stored — i.e. non-zero — entries) -/
def deposited (s : State) (r : Addr) : List (Addr × Nat) :=
  (sortDedup (s.required.map Prod.fst)).filterMap fun c =>
    if s.ledger r c = 0 then none else some (c, s.ledger r c)


/-! ## extended operations (round 3 follow-up, add-only)

Four message kinds have an effect on the aspect state that no `Op` can express: `Shuffle` permutes the ORDER of the
mintable ids, a holder may transfer / burn a token in the minter's OWN (target) collection, and governance may change
the two factory parameters mirrored here. They are separate constructors of `OpX` (so that everything stated about
`Op` / `step` / `run` stays literally as it was); `stepX (.core op) = step s op` by definition. None of them touches
the deposit ledger, the requirement vector, the start time, the clock, the per-address limit, the per-recipient
counters or the source collections (`Props/C17.lean`: `stepX_frame`). A new source CONTRACT appearing (`colls`) is still
not expressible. -/

inductive OpX where
  | core (op : Op)
  /-- `Shuffle {}`: `w` = the implementation's outcome (fee, sold-out: C01/C06), `perm` = the mintable ids in position
  order afterwards — a checked witness: it must be a permutation of the current ids -/
  | shuffle (w : Bool) (perm : List Nat)
  /-- `TransferNft` on the minter's own collection by the token's owner (`w`: e.g. sg721-nt refuses) -/
  | tgtTransfer (caller : Addr) (id : Nat) (to : Addr) (w : Bool)
  /-- `Burn` on the minter's own collection by the token's owner -/
  | tgtBurn (caller : Addr) (id : Nat) (w : Bool)
  /-- factory sudo `UpdateParams`: new `max_per_address_limit` and airdrop price -/
  | govern (maxPer airdrop : Nat) (w : Bool)

def stepX (s : State) : OpX → Except Err State
  | .core op => step s op
  | .shuffle w perm =>
    if w = false then .error .other
    else if perm.isPerm s.mintable = true then .ok { s with mintable := perm }
    else .error .invalid
  | .tgtTransfer caller id to w =>
    if w = false then .error .other
    else if s.tgtOwner id = some caller then .ok { s with tgtOwner := upd1 s.tgtOwner id (some to) }
    else .error .unauthorized
  | .tgtBurn caller id w =>
    if w = false then .error .other
    else if s.tgtOwner id = some caller then
      .ok { s with tgtOwner := upd1 s.tgtOwner id none, tgtNum := s.tgtNum - 1 }
    else .error .unauthorized
  | .govern maxPer airdrop w =>
    if w = false then .error .other
    else .ok { s with maxPerAddressLimit := maxPer, airdropPrice := airdrop }

def stepX' (s : State) (op : OpX) : State :=
  match stepX s op with
  | .ok s' => s'
  | .error _ => s

def runX (s : State) (ops : List OpX) : State := ops.foldl stepX' s

end LP.TM
