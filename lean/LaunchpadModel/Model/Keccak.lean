/-!
# Keccak-256 (original padding `0x01 … 0x80`, as `sha3::Keccak256`) — executable, used by the C16 *driver* only.

The C16 theorems quantify over an abstract `Crypto.keccak`; this file is a third, independent implementation of
the hash that the correspondence run compares (through the digest and the derived Ethereum address) with the
`sha3` crate used by `packages/ethereum-verify` and by the harness.
-/
namespace LP.Keccak

def RC : Array UInt64 := #[
  0x0000000000000001, 0x0000000000008082, 0x800000000000808A, 0x8000000080008000,
  0x000000000000808B, 0x0000000080000001, 0x8000000080008081, 0x8000000000008009,
  0x000000000000008A, 0x0000000000000088, 0x0000000080008009, 0x000000008000000A,
  0x000000008000808B, 0x800000000000008B, 0x8000000000008089, 0x8000000000008003,
  0x8000000000008002, 0x8000000000000080, 0x000000000000800A, 0x800000008000000A,
  0x8000000080008081, 0x8000000000008080, 0x0000000080000001, 0x8000000080008008]

def ROTC : Array Nat := #[1, 3, 6, 10, 15, 21, 28, 36, 45, 55, 2, 14, 27, 41, 56, 8, 25, 43, 62, 18, 39, 61, 20, 44]
def PILN : Array Nat := #[10, 7, 11, 17, 18, 3, 5, 16, 8, 21, 24, 4, 15, 23, 19, 13, 12, 2, 20, 14, 22, 9, 6, 1]

def rotl (x : UInt64) (n : Nat) : UInt64 :=
  (x <<< n.toUInt64) ||| (x >>> (64 - n).toUInt64)

def round (st0 : Array UInt64) (rc : UInt64) : Array UInt64 := Id.run do
  let mut st := st0
  -- θ
  let mut bc : Array UInt64 := Array.replicate 5 0
  for i in [0:5] do
    bc := bc.set! i (st[i]! ^^^ st[i + 5]! ^^^ st[i + 10]! ^^^ st[i + 15]! ^^^ st[i + 20]!)
  for i in [0:5] do
    let t := bc[(i + 4) % 5]! ^^^ rotl bc[(i + 1) % 5]! 1
    for j in [0:5] do
      st := st.set! (j * 5 + i) (st[j * 5 + i]! ^^^ t)
  -- ρ and π
  let mut t := st[1]!
  for i in [0:24] do
    let j := PILN[i]!
    let b := st[j]!
    st := st.set! j (rotl t ROTC[i]!)
    t := b
  -- χ
  for j in [0:5] do
    let b0 := st[j * 5]!
    let b1 := st[j * 5 + 1]!
    let b2 := st[j * 5 + 2]!
    let b3 := st[j * 5 + 3]!
    let b4 := st[j * 5 + 4]!
    st := st.set! (j * 5) (b0 ^^^ ((~~~ b1) &&& b2))
    st := st.set! (j * 5 + 1) (b1 ^^^ ((~~~ b2) &&& b3))
    st := st.set! (j * 5 + 2) (b2 ^^^ ((~~~ b3) &&& b4))
    st := st.set! (j * 5 + 3) (b3 ^^^ ((~~~ b4) &&& b0))
    st := st.set! (j * 5 + 4) (b4 ^^^ ((~~~ b0) &&& b1))
  -- ι
  st := st.set! 0 (st[0]! ^^^ rc)
  return st

def permute (st0 : Array UInt64) : Array UInt64 := Id.run do
  let mut st := st0
  for r in [0:24] do
    st := round st RC[r]!
  return st

def RATE : Nat := 136

/-- pad10*1 with Keccak's domain byte 0x01 -/
def pad (msg : Array UInt8) : Array UInt8 := Id.run do
  let padLen := RATE - msg.size % RATE
  let mut out := msg
  if padLen == 1 then
    out := out.push 0x81
  else
    out := out.push 0x01
    for _ in [0:padLen - 2] do
      out := out.push 0x00
    out := out.push 0x80
  return out

def lane (buf : Array UInt8) (off : Nat) : UInt64 := Id.run do
  let mut x : UInt64 := 0
  for k in [0:8] do
    x := x ||| ((buf[off + k]!).toUInt64 <<< (8 * k).toUInt64)
  return x

def keccak256Arr (msg : Array UInt8) : Array UInt8 := Id.run do
  let buf := pad msg
  let mut st : Array UInt64 := Array.replicate 25 0
  for blk in [0:buf.size / RATE] do
    for i in [0:RATE / 8] do
      st := st.set! i (st[i]! ^^^ lane buf (blk * RATE + 8 * i))
    st := permute st
  let mut out : Array UInt8 := #[]
  for i in [0:4] do
    for k in [0:8] do
      out := out.push ((st[i]! >>> (8 * k).toUInt64).toUInt8)
  return out

/-- Keccak-256 on byte lists (`Nat` entries are taken mod 256) -/
def keccak256 (msg : List Nat) : List Nat :=
  (keccak256Arr (msg.map (·.toUInt8)).toArray).toList.map (·.toNat)

end LP.Keccak
