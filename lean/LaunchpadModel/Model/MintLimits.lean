import LaunchpadModel.Model.Basic
/-!
# C03 aspect model — per-address, per-whitelist and per-stage mint limits (9 minters)

Mirrors, for the six vending and three open-edition minters of `/repo/contracts/minters/*`:

* `is_public_mint`, `mint_count`, `whitelist_mint_count`, `save_whitelist_mint_count`
* the counter updates at the end of `_execute_mint` (`MINTER_ADDRS`, `WHITELIST_MINTER_ADDRS`,
  `WHITELIST_{FS,SS,TS}_MINTER_ADDRS`, `WHITELIST_{FS,SS,TS}_MINT_COUNT`)
* `execute_mint_sender` (public limit check), `execute_mint_to` / `execute_mint_for` (admin airdrops:
  `is_public = true`, so they are added to the ADMIN's public counter, not limit-checked)
* `execute_update_per_address_limit`, `execute_purge`, `execute_set_whitelist`, the `MintCount` query.

Everything the property is silent about (payment, clock, supply, token ids) is an environment-witnessed
boolean (`pre`, `started`); what the attached whitelist answers to the minter's queries at this block is the
environment-witnessed `View`.  The *mechanism* (counter maps, the entitlement lookups, which branch honours
which message field, which query shapes each whitelist kind answers) is modelled deterministically, so the
correspondence compares ok/err and every counter after every step.

Core Lean only (the driver links this file).
-/
namespace LP.MintLimits

/-! ## Kinds -/

/-- which whitelist message set a minter speaks -/
inductive Flavor where
  | plain | flex | merkle
deriving DecidableEq, Repr

inductive MinterKind where
  | vending | vendingFeatured | vendingFlex | vendingFlexFeatured | vendingMerkle | vendingMerkleFeatured
  | openEdition | openEditionFlex | openEditionMerkle
deriving DecidableEq, Repr

def MinterKind.flavor : MinterKind → Flavor
  | .vending | .vendingFeatured | .openEdition => .plain
  | .vendingFlex | .vendingFlexFeatured | .openEditionFlex => .flex
  | .vendingMerkle | .vendingMerkleFeatured | .openEditionMerkle => .merkle

def MinterKind.isOE : MinterKind → Bool
  | .openEdition | .openEditionFlex | .openEditionMerkle => true
  | _ => false

def MinterKind.ofIdx : Nat → Option MinterKind
  | 0 => some .vending | 1 => some .vendingFeatured | 2 => some .vendingFlex | 3 => some .vendingFlexFeatured
  | 4 => some .vendingMerkle | 5 => some .vendingMerkleFeatured
  | 6 => some .openEdition | 7 => some .openEditionFlex | 8 => some .openEditionMerkle
  | _ => none

def allMinterKinds : List MinterKind :=
  [.vending, .vendingFeatured, .vendingFlex, .vendingFlexFeatured, .vendingMerkle, .vendingMerkleFeatured,
   .openEdition, .openEditionFlex, .openEditionMerkle]

inductive WlKind where
  | plain | flex | tiered | tieredFlex | merkle | tieredMerkle | immutable
deriving DecidableEq, Repr

def WlKind.ofIdx : Nat → Option WlKind
  | 0 => some .plain | 1 => some .flex | 2 => some .tiered | 3 => some .tieredFlex
  | 4 => some .merkle | 5 => some .tieredMerkle | 6 => some .immutable
  | _ => none

def allWlKinds : List WlKind := [.plain, .flex, .tiered, .tieredFlex, .merkle, .tieredMerkle, .immutable]

/-! ## Query shapes (all message structs are `cw_serde` = `deny_unknown_fields`: a wrong shape fails the query,
which fails the transaction) -/

/-- shape of the answer to `Config {}` -/
inductive CfgShape where
  /-- `{num_members, per_address_limit, member_limit, start_time, end_time, mint_price, is_active}` -/
  | withLimit
  /-- `{num_members, member_limit, start_time, end_time, mint_price, is_active, whale_cap}` -/
  | flexShape
  /-- whitelist-immutable: `{config: …}` -/
  | other
deriving DecidableEq, Repr

def WlKind.cfgShape : WlKind → CfgShape
  | .plain | .tiered | .merkle | .tieredMerkle => .withLimit
  | .flex | .tieredFlex => .flexShape
  | .immutable => .other

/-- the `ConfigResponse` type the minter deserialises into -/
def Flavor.cfgShape : Flavor → CfgShape
  | .plain | .merkle => .withLimit
  | .flex => .flexShape

/-- `Config {}` of the whitelist parses in the minter (needed at instantiate, SetWhitelist and on every mint) -/
def configOk (fl : Flavor) (wk : WlKind) : Bool := decide (fl.cfgShape = wk.cfgShape)

/-- answers `HasMember {member}` -/
def WlKind.answersHasMember : WlKind → Bool
  | .plain | .flex | .tiered | .tieredFlex => true
  | _ => false

/-- answers `HasMember {member, proof_hashes}` -/
def WlKind.answersHasMemberProof : WlKind → Bool
  | .merkle | .tieredMerkle => true
  | _ => false

/-- answers `Member {member}` (the flex per-member mint count) -/
def WlKind.answersMember : WlKind → Bool
  | .flex | .tieredFlex => true
  | _ => false

/-- cw2 contract name contains `"tiered-whitelist"` -/
def WlKind.tieredName : WlKind → Bool
  | .tiered | .tieredFlex | .tieredMerkle => true
  | _ => false

/-- shape of `StageResponse` -/
inductive StageShape where
  /-- `{stage_id, stage{…, per_address_limit, mint_count_limit}, member_count}` -/
  | countLimit
  /-- `{stage_id, stage{…, mint_count_limit}, member_count}` -/
  | countNoLimit
  /-- `{stage_id, stage{…, per_address_limit, mint_count_limit}, merkle_root}` -/
  | rootLimit
deriving DecidableEq, Repr

def WlKind.stageShape : WlKind → Option StageShape
  | .tiered => some .countLimit
  | .tieredFlex => some .countNoLimit
  | .tieredMerkle => some .rootLimit
  | _ => none

def Flavor.stageShape : Flavor → StageShape
  | .plain => .countLimit
  | .flex => .countNoLimit
  | .merkle => .rootLimit

def stageOk (fl : Flavor) (wk : WlKind) : Bool := decide (wk.stageShape = some fl.stageShape)

/-! ## Message fields and the whitelist view -/

/-- the caller-chosen fields of `Mint {stage, proof_hashes, allocation}` (Merkle minters only) -/
structure Fields where
  stage : Option Nat := none
  /-- `proof_hashes.is_some()` -/
  proof : Bool := false
  alloc : Option Nat := none
deriving DecidableEq, Repr

def Fields.empty : Fields := {}

/-- What the attached whitelist answers to the minter's queries at the block of the mint (environment).
Only the fields belonging to queries the minter actually makes are read. -/
structure View where
  /-- `Config.is_active` -/
  active : Bool := false
  /-- `HasMember {member: sender}` -/
  memberPlain : Bool := false
  /-- `HasMember {member: stage‖sender‖allocation, proof_hashes}` answered `true` (the leaf built from the
  message fields verifies against the stored root; `false` also when the query errors) -/
  leafOk : Bool := false
  /-- `Config.per_address_limit` (the active stage's for tiered whitelists) -/
  limit : Nat := 0
  /-- `Member {sender}.mint_count` (flex whitelists; the active stage's for tiered-flex) -/
  memberCount : Nat := 0
  /-- `Config.member_limit == 0 && Config.num_members == 0` (`is_merkle_tree_wl`) -/
  merkleCfg : Bool := false
  /-- `ActiveStageId {}` -/
  stageId : Nat := 0
  /-- `Stage {stage_id: ActiveStageId-1}.stage.mint_count_limit` -/
  stageLimit : Option Nat := none
deriving DecidableEq, Repr

/-! ## State -/

structure State where
  kind : MinterKind
  admin : Addr
  /-- `config.extension.per_address_limit` -/
  limit : Nat
  /-- vending: `num_tokens` (enters the 3 % rule of `check_dynamic_per_address_limit`) -/
  numTokens : Nat
  /-- factory `max_per_address_limit` (constant during a case) -/
  maxPerAddr : Nat
  /-- open edition: `config.extension.num_tokens.is_none()` -/
  oeNoCap : Bool
  /-- attached whitelist: (contract id, kind) -/
  wl : Option (Nat × WlKind)
  /-- `MINTER_ADDRS` -/
  pub : Addr → Nat
  /-- `WHITELIST_MINTER_ADDRS` -/
  wlc : Addr → Nat
  /-- `WHITELIST_{FS,SS,TS}_MINTER_ADDRS` at index 1, 2, 3 -/
  stg : Nat → Addr → Nat
  /-- `WHITELIST_{FS,SS,TS}_MINT_COUNT` at index 1, 2, 3 -/
  tot : Nat → Nat
  /-- tokens held per address in the collection (nothing is transferred in this aspect model) -/
  owned : Addr → Nat

def upd (f : Nat → Nat) (a v : Nat) : Nat → Nat := fun x => if x = a then v else f x

def upd2 (g : Nat → Nat → Nat) (k a v : Nat) : Nat → Nat → Nat := fun j => if j = k then upd (g k) a v else g j

def zero : Nat → Nat := fun _ => 0

/-- `check_dynamic_per_address_limit` (vending, vending-featured, vending-merkle(-featured)) -/
def dynOk (n numTokens maxPer : Nat) : Bool :=
  if n > maxPer then false
  else if numTokens < 100 then decide (n ≤ 3)
  else decide (n ≤ (numTokens * 3 + 99) / 100)

def usesDynRule (k : MinterKind) : Bool := !k.isOE && decide (k.flavor ≠ .flex)

/-- instantiate: the only whitelist-related conditions are that `Config {}` parses and is not active -/
def createOk (k : MinterKind) (wl : Option (Nat × WlKind)) (wlActive pre : Bool) : Bool :=
  (match wl with
   | none => true
   | some (_, wk) => configOk k.flavor wk && !wlActive) && pre

def create (k : MinterKind) (admin lim numTokens maxPer : Nat) (oeNoCap : Bool) (wl : Option (Nat × WlKind))
    (wlActive pre : Bool) : Except Err State :=
  if createOk k wl wlActive pre then
    .ok { kind := k, admin := admin, limit := lim, numTokens := numTokens, maxPerAddr := maxPer, oeNoCap := oeNoCap,
          wl := wl, pub := zero, wlc := zero, stg := fun _ => zero, tot := zero, owned := zero }
  else .error .invalid

/-! ## The whitelist gate (`is_public_mint`) -/

/-- `HasMember` as the minter asks it: `none` = the query fails (shape), `some (has_member, leafBranch)`;
`leafBranch` = the membership came from a Merkle proof over the leaf built from the message fields. -/
def membership (k : MinterKind) (wk : WlKind) (f : Fields) (v : View) : Option (Bool × Bool) :=
  match k.flavor with
  | .plain | .flex => if wk.answersHasMember then some (v.memberPlain, false) else none
  | .merkle =>
    if k.isOE then
      -- open-edition-minter-merkle-wl: proof hashes are mandatory while the whitelist is active
      if f.proof then (if wk.answersHasMemberProof then some (v.leafOk, true) else none) else none
    else
      -- vending-minter-merkle-wl(-featured): `is_merkle_tree_wl(&wl_config) && proof_hashes.is_some()`
      if v.merkleCfg && f.proof then (if wk.answersHasMemberProof then some (v.leafOk, true) else none)
      else (if wk.answersHasMember then some (v.memberPlain, false) else none)

/-- the limit the caller's stored whitelist count is compared against -/
def entitlement (k : MinterKind) (f : Fields) (v : View) (leafBranch : Bool) : Nat :=
  match k.flavor with
  | .plain => v.limit
  | .flex => v.memberCount
  | .merkle =>
    if k.isOE then
      -- `match allocation { Some(a) => a, None => wl_config.per_address_limit }` (only reached on the proof branch)
      f.alloc.getD v.limit
    else
      -- after fix d3ea89f: `Some(allocation) if is_merkle_proof => allocation, _ => per_address_limit`
      match f.alloc with
      | some n => if leafBranch then n else v.limit
      | none => v.limit

/-- `whitelist_mint_count`: (stored count, stage id; 0 = not a tiered whitelist); `none` = "Invalid stage ID" -/
def wlCount (s : State) (wk : WlKind) (a : Addr) (v : View) : Option (Nat × Nat) :=
  if wk.tieredName then
    if 1 ≤ v.stageId ∧ v.stageId ≤ 3 then some (s.stg v.stageId a, v.stageId) else none
  else some (s.wlc a, 0)

inductive Gate where
  /-- no whitelist, or the whitelist is not active: public rules -/
  | pub
  /-- whitelist mint: stage id (0 = not tiered), the caller's stored count, the entitlement it was compared
  against, the stage total and the stage `mint_count_limit` in force -/
  | wl (sid cnt ent tot : Nat) (slim : Option Nat)
deriving DecidableEq, Repr

def gate (s : State) (a : Addr) (f : Fields) (v : View) : Except Err Gate :=
  match s.wl with
  | none => .ok .pub
  | some (_, wk) =>
    if configOk s.kind.flavor wk = false then .error .invalid
    else if v.active = false then .ok .pub
    else
      match membership s.kind wk f v with
      | none => .error .invalid
      | some (false, _) => .error .unauthorized
      | some (true, leaf) =>
        match wlCount s wk a v with
        | none => .error .invalid
        | some (cnt, sid) =>
          let ent := entitlement s.kind f v leaf
          -- open-edition-minter-wl-flex only: without a token cap the minter's own limit also applies
          if s.kind = .openEditionFlex ∧ s.oeNoCap = true ∧ ¬ cnt < s.limit then .error .limit
          else if s.kind.flavor = .flex ∧ wk.answersMember = false then .error .invalid
          else if ¬ cnt < ent then .error .limit
          else if sid = 0 then .ok (.wl 0 cnt ent 0 none)
          else if stageOk s.kind.flavor wk = false then .error .invalid
          else
            match v.stageLimit with
            | none => .ok (.wl sid cnt ent (s.tot sid) none)
            | some L => if s.tot sid < L then .ok (.wl sid cnt ent (s.tot sid) (some L)) else .error .limit

/-! ## Operations -/

inductive Event where
  /-- a public mint by `a`; `count` = its stored public count before, `limit` = per-address limit in force -/
  | publicMint (a : Addr) (count limit : Nat)
  /-- `mint_to` / `mint_for` by the admin -/
  | airdrop (admin recipient : Addr)
  /-- a whitelist mint by `a` in stage `sid` (0 = non-tiered whitelist) -/
  | wlMint (a : Addr) (sid count ent tot : Nat) (slim : Option Nat)
  | purge
  | other
deriving DecidableEq, Repr

inductive Op where
  /-- `Mint {…}` by `a` -/
  | mint (a : Addr) (f : Fields) (v : View) (started pre : Bool)
  /-- `MintTo` / `MintFor` (`forId`): `pre` = payment, supply, token id, end time -/
  | mintTo (sender recipient : Addr) (forId pre : Bool)
  /-- `UpdatePerAddressLimit` -/
  | setLimit (sender : Addr) (n : Nat) (funds : Bool)
  /-- `SetWhitelist`: `started` = block time ≥ start_time; `oldActive`/`newActive` = `Config.is_active` of
  the attached / the new whitelist; `pre` = the price and denom rules -/
  | setWhitelist (sender : Addr) (id : Nat) (wk : WlKind) (funds started oldActive newActive pre : Bool)
  /-- `Purge` (anyone): `pre` = sold out / ended -/
  | purge (funds pre : Bool)
  /-- clock steps, whitelist-side edits, anything that does not execute on the minter -/
  | env
  /-- governance (factory sudo `UpdateParams` / factory `migrate` with params) replaces the factory's
  `max_per_address_limit`, which `execute_update_per_address_limit` reads LIVE; nothing on the minter itself moves
  (added LAST, round 3 follow-up) -/
  | govern (maxPer : Nat)
deriving DecidableEq, Repr

def step (s : State) (op : Op) : Except Err (State × Event) :=
  match op with
  | .mint a f v started pre =>
    -- plain and flex minters have `Mint {}`: any extra field is rejected by serde
    if s.kind.flavor ≠ .merkle ∧ f ≠ Fields.empty then .error .invalid
    else
      match gate s a f v with
      | .error e => .error e
      | .ok .pub =>
        if started = false then .error .tooSoon
        else if ¬ s.pub a < s.limit then .error .limit
        else if pre = false then .error .other
        else .ok ({ s with pub := upd s.pub a (s.pub a + 1), owned := upd s.owned a (s.owned a + 1) },
                  .publicMint a (s.pub a) s.limit)
      | .ok (.wl sid cnt ent tot slim) =>
        if pre = false then .error .other
        else if sid = 0 then
          .ok ({ s with wlc := upd s.wlc a (cnt + 1), owned := upd s.owned a (s.owned a + 1) },
               .wlMint a 0 cnt ent tot slim)
        else
          .ok ({ s with stg := upd2 s.stg sid a (cnt + 1), tot := upd s.tot sid (s.tot sid + 1),
                        owned := upd s.owned a (s.owned a + 1) },
               .wlMint a sid cnt ent tot slim)
  | .mintTo sender recipient forId pre =>
    if sender ≠ s.admin then .error .unauthorized
    else if forId = true ∧ s.kind.isOE = true then .error .invalid
    else if pre = false then .error .other
    else .ok ({ s with pub := upd s.pub sender (s.pub sender + 1),
                       owned := upd s.owned recipient (s.owned recipient + 1) },
              .airdrop sender recipient)
  | .setLimit sender n funds =>
    if funds = true then .error .payment
    else if sender ≠ s.admin then .error .unauthorized
    else if n = 0 ∨ n > s.maxPerAddr then .error .invalid
    else if usesDynRule s.kind = true ∧ dynOk n s.numTokens s.maxPerAddr = false then .error .invalid
    else .ok ({ s with limit := n }, .other)
  | .setWhitelist sender id wk funds started oldActive newActive pre =>
    if funds = true then .error .payment
    else if sender ≠ s.admin then .error .unauthorized
    else if started = true then .error .tooLate
    else if s.wl.isSome = true ∧ oldActive = true then .error .tooLate
    else if configOk s.kind.flavor wk = false then .error .invalid
    else if newActive = true then .error .tooLate
    else if pre = false then .error .other
    else .ok ({ s with wl := some (id, wk) }, .other)
  | .purge funds pre =>
    if funds = true then .error .payment
    else if pre = false then .error .other
    else .ok ({ s with pub := zero, wlc := if s.kind.flavor = .flex then zero else s.wlc }, .purge)
  | .env => .ok (s, .other)
  | .govern maxPer => .ok ({ s with maxPerAddr := maxPer }, .other)

/-- transactional semantics: a failed operation leaves the state unchanged and produces no event -/
def stepAcc (p : State × List Event) (op : Op) : State × List Event :=
  match step p.1 op with
  | .ok (s', e) => (s', p.2 ++ [e])
  | .error _ => p

/-- final state and the chronological list of the events of the successful operations -/
def run (s : State) (ops : List Op) : State × List Event := ops.foldl stepAcc (s, [])

/-! ## The `MintCount` query -/

def tieredSum (s : State) (a : Addr) : Nat := s.stg 1 a + s.stg 2 a + s.stg 3 a

/-- `MintCountResponse.count` -/
def reportCount (s : State) (a : Addr) : Nat :=
  if s.kind.flavor = .flex then s.pub a else s.pub a + s.wlc a + tieredSum s a

/-- `MintCountResponse.whitelist_count` (flex minters only; 0 otherwise) -/
def reportWl (s : State) (a : Addr) : Nat :=
  if s.kind.flavor = .flex then s.wlc a + tieredSum s a else 0

/-! ## The pairing table the harness discovers on the real contracts -/

/-- some choice of message fields makes the membership query well-formed -/
def membershipAskable (k : MinterKind) (wk : WlKind) : Bool :=
  match k.flavor with
  | .plain | .flex => wk.answersHasMember
  | .merkle => if k.isOE then wk.answersHasMemberProof else wk.answersHasMember || wk.answersHasMemberProof

/-- 0 = rejected at instantiate / SetWhitelist (`Config {}` does not parse);
1 = attachable, but every mint fails while the whitelist is active (a later query has the wrong shape);
2 = whitelist mints are possible -/
def compatible (k : MinterKind) (wk : WlKind) : Nat :=
  if configOk k.flavor wk = false then 0
  else if membershipAskable k wk
      && (!wk.tieredName || stageOk k.flavor wk)
      && (decide (k.flavor ≠ .flex) || wk.answersMember) then 2
  else 1

end LP.MintLimits
