import LaunchpadModel.Model.SaleWindow
/-!
# Sale window, round-3 extension layer (property C04)

`Model/SaleWindow.lean` is refined by the composite vending model (`Props/CompositeVending.lean`), so its definitions are
frozen. This file layers the rest of the message surface on top of it WITHOUT touching `Op` / `step`:

* `OpX.base op`        — every operation of `SaleWindow.Op`, unchanged (`stepX s (.base op) = step s op`);
* `OpX.paramsEnv`      — environment: the factory's governance `sudo UpdateParams` (or a factory `migrate` carrying new
  params) changed `min_mint_price.amount` / `airdrop_mint_price.amount`; the model takes over what the factory reports
  afterwards. It cannot touch the minter at all.
* `OpX.mintFor`        — `MintFor {token_id, recipient}` (vending family and token-merge; the open-edition minters have no
  such message): the admin's airdrop of a chosen token id. `free` = "that id is in range and not yet minted" is an
  environment fact (the collection's / position map's state, property C01's subject; the harness reads it from the
  COLLECTION, not from the minter under test). With a free id it is `execute_mint_to` verbatim (`_execute_mint` with
  `token_id = Some _`): no time gate on vending / token-merge.

A minter `migrate` and every `ExecuteMsg` / `SudoMsg` variant this check has no operation for are `Op.minterEnv` steps
(observed effect; cannot touch start / end / whitelist / admin — and the harness compares exactly those afterwards).
-/
namespace LP.SaleWindow

inductive OpX where
  | base (op : Op)
  | paramsEnv (minPrice airdropPrice : Nat)
  | mintFor (sender rcpt : Addr) (funds : List Coin) (free : Bool)

/-- `execute_mint_for` -/
def mintFor (s : State) (m : Minter) (sender rcpt : Addr) (funds : List Coin) (free : Bool) : Except Err Minter :=
  if s.v.family = .openEdition then .error .invalid
  else if sender ≠ m.admin then .error .unauthorized
  else if !free then .error .invalid
  else mintTo s m sender rcpt funds

def stepX (s : State) : OpX → Except Err State
  | .base op => step s op
  | .paramsEnv mp ap => .ok { s with params := { s.params with minPrice := mp, airdropPrice := ap } }
  | .mintFor sender rcpt funds free => withMinter s (mintFor s · sender rcpt funds free)

/-- transactional semantics: a failed message leaves the world unchanged -/
def stepX' (s : State) (op : OpX) : State := match stepX s op with | .ok s' => s' | .error _ => s

def runX (s : State) (ops : List OpX) : State := ops.foldl stepX' s

end LP.SaleWindow
