import LaunchpadModel.Model.MintPay
/-!
# C02 — staged (tiered) whitelists, whitelist-side edits and "any other message" on top of `MintPay`

`MintPay.Whitelist` is what a minter reads from ONE `Config {}` answer: a price and one end-exclusive window.  The
whitelist CONTRACTS hold more than that:

* `whitelist`, `whitelist-flex`, `whitelist-merkletree`: one stage, `is_active = start ≤ now < end` (end-EXCLUSIVE);
* `tiered-whitelist`, `tiered-whitelist-flex`, `tiered-whitelist-merkletree`: up to three stages,
  `fetch_active_stage = stages.find(start ≤ now ≤ end)` (end-INCLUSIVE, the FIRST matching stage wins — two contiguous
  stages overlap in the one instant `end₁ = start₂`, which belongs to the earlier stage); `Config {}` answers with the
  active stage's `mint_price` and `is_active = true`, or `is_active = false` when no stage matches;
* the whitelist admin can move the windows / change a stage price (`UpdateStartTime`, `UpdateEndTime`,
  `UpdateStageConfig`, `AddStage`, `RemoveStage`) between two mints.

This layer keeps the stage TABLE of every whitelist contract of the case and which one is attached, and recomputes the
minter's one-window view (`Sched.view`) from table and clock before every operation (`SWorld.refresh`), then runs the
unchanged `MintPay.step`.  Every single-step theorem about `MintPay.mint` therefore applies verbatim.

`SOp.ext` is any OTHER message of the minter (Shuffle, Purge, UpdateStartTime, … — whatever `ExecuteMsg` contains): its
observed net bank effect is the witness `moves` (the sender pays the listed recipients / burns); the model accepts it only
if the minter itself is neither the payer nor a payee.
-/
namespace LP.MintPay
open LP

/-- one stage as stored in a whitelist contract's config -/
structure Stage where
  price : Coin
  startT : Nat
  endT : Nat
deriving Repr, DecidableEq

/-- the stage table of a whitelist contract; `endIncl` = the tiered kinds' `now ≤ end` -/
structure Sched where
  stages : List Stage
  endIncl : Bool
deriving Repr, DecidableEq

/-- `start ≤ now < end` (single-stage kinds) / `start ≤ now ≤ end` (tiered kinds) -/
def Stage.activeAt (st : Stage) (incl : Bool) (now : Nat) : Bool :=
  decide (st.startT ≤ now) && (if incl then decide (now ≤ st.endT) else decide (now < st.endT))

/-- `fetch_active_stage`: the first stage whose window contains `now` -/
def Sched.current (sc : Sched) (now : Nat) : Option Stage := sc.stages.find? fun st => st.activeAt sc.endIncl now

/-- a stage as the one-window record the minter-level model uses (`now ≤ end ⟺ now < end + 1`) -/
def Stage.window (st : Stage) (incl : Bool) : Whitelist := ⟨st.price, st.startT, if incl then st.endT + 1 else st.endT⟩

/-- what the minter learns from `Config {}` at `now`: the active stage, or "not active" -/
def Sched.view (sc : Sched) (now : Nat) : Option Whitelist := (sc.current now).map (·.window sc.endIncl)

def lookupWl (wls : List (Nat × Sched)) (id : Nat) : Option Sched := (wls.find? fun p => p.1 == id).map (·.2)

structure SWorld where
  w : World
  /-- the whitelist contracts that exist in this case: id ↦ stage table -/
  wls : List (Nat × Sched)
  /-- the one attached to the minter (`config.extension.whitelist`) -/
  att : Option Nat

def SWorld.sched (s : SWorld) : Option Sched := s.att.bind (lookupWl s.wls)

/-- the minter's view of its whitelist at the current clock value -/
def SWorld.refresh (s : SWorld) : World :=
  { s.w with m := { s.w.m with whitelist := s.sched.bind (·.view s.w.now) } }

inductive SOp where
  /-- clock / funding / mint / price / discount / factory-parameter operations of `MintPay` (its `setWhitelist` is not
  used at this layer: the attached table decides) -/
  | base (op : Op)
  /-- `SetWhitelist { whitelist }` with one of the case's whitelist contracts -/
  | attach (id : Nat) (acc : Bool)
  /-- the whitelist admin edited whitelist `id`; `sc` = its stage table afterwards -/
  | wlEdit (id : Nat) (sc : Sched) (acc : Bool)
  /-- any other minter message; `moves` = its observed net bank effect, paid by `sender` -/
  | ext (sender : Addr) (moves : List Msg) (acc : Bool)

/-- no message of an `ext` operation pays the minter -/
def extOk (mi : Addr) (moves : List Msg) : Bool := moves.all fun m => msgDest m != some mi

def sstep (s : SWorld) : SOp → Except Err SWorld
  | .base op =>
    match step s.refresh op with
    | .ok w' => .ok { s with w := w' }
    | .error e => .error e
  | .attach id acc =>
    if acc then
      match lookupWl s.wls id with
      | some _ => .ok { s with att := some id }
      | none => .error .notFound
    else .error .other
  | .wlEdit id sc acc =>
    if acc then .ok { s with wls := (id, sc) :: s.wls.filter fun p => p.1 != id } else .error .other
  | .ext sender moves acc =>
    if acc = false then .error .other
    else if sender = s.w.m.addr ∨ extOk s.w.m.addr moves = false then .error .invalid
    else
      match applyMsgs sender s.w.bank moves with
      | none => .error .other
      | some b => .ok { s with w := { s.w with bank := b } }

/-- transactions are atomic -/
def sstep' (s : SWorld) (op : SOp) : SWorld :=
  match sstep s op with
  | .ok s' => s'
  | .error _ => s

def srun (s : SWorld) (ops : List SOp) : SWorld := ops.foldl sstep' s

end LP.MintPay
