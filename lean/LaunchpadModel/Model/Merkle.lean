/-!
# Merkle membership over an abstract hash (core Lean only — no imports)

Mirrors
* `query_has_member` of `whitelist-merkletree` / `tiered-whitelist-merkletree` (`src/contract.rs`): hash the member
  string, then for every proof element: validate the hex string (`valid_hash_string`), decode it
  (`string_to_byte_slice`), `sort_unstable` the pair, hash the concatenation; finally compare
  `hex::encode(final)` with the stored root **string**;
* `helpers/crypto.rs` (`valid_hash_string`, `verify_merkle_root`, `string_to_byte_slice`): hex of exactly `n` bytes,
  `n = 32` (SHA-256) resp. `n = 16` (BLAKE3 truncated);
* the tree builder the roots and proofs come from (`rs_merkle 1.4.2` `PartialTree::build_tree`, `MerkleTree::proof`
  with the repo's sorting hasher, `whitelist-merkletree/src/tests/hasher.rs`): layers, adjacent pairs hashed in sorted
  order, an unpaired last node promoted unchanged, `tree_depth = bit length of the number of leaves` iterations;
* the leaf string the Merkle minters build (`is_public_mint` in `vending-minter-merkle-wl`, `-featured`,
  `open-edition-minter-merkle-wl`): `stage ‖ sender ‖ allocation` with absent parts omitted.

Byte strings are `List Nat` (strings do not reduce in the kernel); the hash `H : Bytes → Bytes` is a parameter.
-/
namespace LP.Merkle

abbrev Bytes := List Nat

/-! ## the order used by `sort_unstable` on `[[u8; N]; 2]`: lexicographic -/

def bytesLe : Bytes → Bytes → Bool
  | [], _ => true
  | _ :: _, [] => false
  | a :: as, b :: bs => if a < b then true else if b < a then false else bytesLe as bs

/-- `let mut s = [a, b]; s.sort_unstable(); s.concat()` -/
def sortPair (a b : Bytes) : Bytes := if bytesLe a b then a ++ b else b ++ a

/-- the `try_fold` of `query_has_member` once every proof element is decoded -/
def foldProof (H : Bytes → Bytes) (h0 : Bytes) (proof : List Bytes) : Bytes :=
  proof.foldl (fun acc p => H (sortPair acc p)) h0

/-! ## trees (specification side) -/

inductive Tree where
  | leaf (m : Bytes)
  | node (l r : Tree)
deriving Repr

def Tree.root (H : Bytes → Bytes) : Tree → Bytes
  | .leaf m => H m
  | .node l r => H (sortPair (l.root H) (r.root H))

/-- all node hashes -/
def Tree.hashes (H : Bytes → Bytes) : Tree → List Bytes
  | .leaf m => [H m]
  | .node l r => H (sortPair (l.root H) (r.root H)) :: (l.hashes H ++ r.hashes H)

def Tree.leaves : Tree → List Bytes
  | .leaf m => [m]
  | .node l r => l.leaves ++ r.leaves

/-- preimages of all nodes: leaf messages and inner concatenations -/
def Tree.preimages (H : Bytes → Bytes) : Tree → List Bytes
  | .leaf m => [m]
  | .node l r => sortPair (l.root H) (r.root H) :: (l.preimages H ++ r.preimages H)

/-- preimages of the inner nodes only: every one is the concatenation of two digests (`2·n` bytes) -/
def Tree.inner (H : Bytes → Bytes) : Tree → List Bytes
  | .leaf _ => []
  | .node l r => sortPair (l.root H) (r.root H) :: (l.inner H ++ r.inner H)

/-- the strings the `try_fold` of `query_has_member` hashes, in order: `sortPair acc p` for every proof element -/
def foldPreimages (H : Bytes → Bytes) : Bytes → List Bytes → List Bytes
  | _, [] => []
  | h0, p :: ps => sortPair h0 p :: foldPreimages H (H (sortPair h0 p)) ps

/-- everything `query_has_member` hashes when asked about `(member, decoded proof)`: the member string, then the fold -/
def queryPreimages (H : Bytes → Bytes) (m : Bytes) (ps : List Bytes) : List Bytes :=
  m :: foldPreimages H (H m) ps

inductive Dir | L | R
deriving Repr, DecidableEq

/-- the leaf reached by a path and its proof (siblings bottom-up) -/
def Tree.proofOf (H : Bytes → Bytes) : Tree → List Dir → Option (Bytes × List Bytes)
  | .leaf m, [] => some (m, [])
  | .leaf _, _ :: _ => none
  | .node _ _, [] => none
  | .node l r, .L :: ds => (l.proofOf H ds).map fun (m, p) => (m, p ++ [r.root H])
  | .node l r, .R :: ds => (r.proofOf H ds).map fun (m, p) => (m, p ++ [l.root H])

/-! ## the layered builder (`rs_merkle` with the sorting hasher) -/

/-- one layer up: adjacent pairs hashed (sorted), an unpaired last node promoted unchanged
(`concat_and_hash(left, None) = *left`) -/
def pairUp (H : Bytes → Bytes) : List Bytes → List Bytes
  | a :: b :: rest => H (sortPair a b) :: pairUp H rest
  | [a] => [a]
  | [] => []

/-- `utils::indices::tree_depth(n) = 64 - n.leading_zeros()` = bit length of `n` -/
def bitLen (n : Nat) : Nat := if n = 0 then 0 else Nat.log2 n + 1

/-- `build_tree`: the layer, then `k` more layers above it -/
def layersFrom (H : Bytes → Bytes) : Nat → List Bytes → List (List Bytes)
  | 0, l => [l]
  | k + 1, l => l :: layersFrom H k (pairUp H l)

/-- `MerkleTree::from_leaves(leaf_hashes)`: all layers, leaves first -/
def treeLayers (H : Bytes → Bytes) (leafHashes : List Bytes) : List (List Bytes) :=
  layersFrom H (bitLen leafHashes.length) leafHashes

/-- first node of the layer `k` steps up -/
def rootFrom (H : Bytes → Bytes) : Nat → List Bytes → Option Bytes
  | 0, l => l.head?
  | k + 1, l => rootFrom H k (pairUp H l)

/-- `MerkleTree::root()`: first node of the last layer (`None` for no leaves) -/
def layersRoot (layers : List (List Bytes)) : Option Bytes := layers.getLast?.bind List.head?

/-- the tree's root from the member strings: leaves are `H member` -/
def layeredRoot (H : Bytes → Bytes) (members : List Bytes) : Option Bytes :=
  layersRoot (treeLayers H (members.map H))

/-- `get_sibling_index` + lookup in the layer (absent for the unpaired last node) -/
def sib (l : List Bytes) (i : Nat) : Option Bytes := if i % 2 = 0 then l[i + 1]? else l[i - 1]?

/-- `MerkleTree::proof(&[i])`: per layer the sibling if it exists, then the parent index -/
def proofAt : List (List Bytes) → Nat → List Bytes
  | [], _ => []
  | l :: rest, i => (sib l i).toList ++ proofAt rest (i / 2)

/-- same construction on trees: used to relate the layered root to a `Tree` -/
def pairUpT : List Tree → List Tree
  | a :: b :: rest => Tree.node a b :: pairUpT rest
  | [a] => [a]
  | [] => []

def treeFrom : Nat → List Tree → Option Tree
  | 0, l => l.head?
  | k + 1, l => treeFrom k (pairUpT l)

/-- the `Tree` the layered builder computes for a member list -/
def toTree (members : List Bytes) : Option Tree :=
  treeFrom (bitLen members.length) (members.map Tree.leaf)

/-! ## hex strings (`hex::decode`, `hex::encode`, `HexBinary::from_hex`) — characters are byte values -/

/-- value of one hex character, either case -/
def hexVal (c : Nat) : Option Nat :=
  if 48 ≤ c ∧ c ≤ 57 then some (c - 48)
  else if 97 ≤ c ∧ c ≤ 102 then some (c - 87)
  else if 65 ≤ c ∧ c ≤ 70 then some (c - 55)
  else none

/-- `hex::decode`: odd length or a non-hex character is an error -/
def hexDecode : List Nat → Option Bytes
  | [] => some []
  | [_] => none
  | a :: b :: rest =>
    match hexVal a, hexVal b, hexDecode rest with
    | some x, some y, some r => some ((x * 16 + y) :: r)
    | _, _, _ => none

def hexDigit (n : Nat) : Nat := if n < 10 then 48 + n else 87 + n

/-- `hex::encode`: lower case -/
def hexEncode : Bytes → List Nat
  | [] => []
  | b :: bs => hexDigit (b / 16) :: hexDigit (b % 16) :: hexEncode bs

/-- `valid_hash_string` followed by `string_to_byte_slice`: the decoded digest, if the string is hex of exactly
`n` bytes (`n` = 32 in whitelist-merkletree, 16 in tiered-whitelist-merkletree) -/
def decodeN (n : Nat) (s : List Nat) : Option Bytes :=
  match hexDecode s with
  | some p => if p.length = n then some p else none
  | none => none

/-- `verify_merkle_root` -/
def validHash (n : Nat) (s : List Nat) : Bool := (decodeN n s).isSome

/-- `query_has_member` against a stored root string. `none` = the query errors ("Invalid Merkle Proof"),
`some b` = `HasMemberResponse { has_member: b }`.
(The Rust `try_fold` stops at the first bad element; validating all of them first is the same function.) -/
def hasMember (H : Bytes → Bytes) (n : Nat) (rootStr : List Nat) (member : Bytes) (proof : List (List Nat)) :
    Option Bool :=
  match proof.mapM (decodeN n) with
  | none => none
  | some ps => some (rootStr == hexEncode (foldProof H (H member) ps))

/-! ## the minters' leaf string -/

/-- `u32::to_string` as ASCII bytes -/
def decBytes (n : Nat) : List Nat :=
  if n < 10 then [48 + n] else decBytes (n / 10) ++ [48 + n % 10]
decreasing_by omega

def optDec : Option Nat → List Nat
  | none => []
  | some n => decBytes n

/-- `match (stage, allocation) { (None, Some(a)) => format!("{}{}", sender, a), (Some(s), None) => format!("{}{}", s, sender),
(Some(s), Some(a)) => format!("{}{}{}", s, sender, a), (None, None) => sender }` -/
def leafStr (stage : Option Nat) (sender : Bytes) (alloc : Option Nat) : Bytes :=
  optDec stage ++ sender ++ optDec alloc

def isDigit (c : Nat) : Prop := 48 ≤ c ∧ c ≤ 57

/-- inverse of `decBytes` (only used to prove injectivity) -/
def decVal (l : List Nat) : Nat := l.foldl (fun acc c => acc * 10 + (c - 48)) 0

end LP.Merkle
