/-!
# cosmwasm-std `Decimal` at the atomics level (18 decimals), exactly as the crate computes.
-/
namespace LP

def DEC_ONE : Nat := 10^18

/-- `Decimal::percent(p)` atomics -/
def percent (p : Nat) : Nat := p * 10^16
/-- `Decimal::bps(b)` atomics -/
def bps (b : Nat) : Nat := b * 10^14
/-- `Decimal::from_ratio(n, d)` atomics (floor); the crate panics on `d = 0` -/
def fromRatio (n d : Nat) : Nat := n * 10^18 / d
/-- `Uint128 * Decimal` (floor) -/
def mulFloor (x dec : Nat) : Nat := x * dec / 10^18
/-- `Uint128::mul_ceil(Decimal)`: floor, plus one when the division is inexact -/
def mulCeil (x dec : Nat) : Nat :=
  let p := x * dec
  if p % 10^18 = 0 then p / 10^18 else p / 10^18 + 1

end LP
