import LaunchpadModel.Lemmas.LaunchpadSystemOE2
/-!
# Open-edition system composite 2: the end-to-end invariant `SInv` and the classification of one accepted step

`NoImp s op`: the op is not a message to the collection signed FROM OUTSIDE by the minter contract's own address (on a chain only
the contract can sign with its address, and its code sends the collection exactly `Mint` and `UpdateStartTradingTime`).

`SInv s` (an invariant of every history without such messages, from `init`): collection ids duplicate-free, no cw721-0.16 `minter`
item, cw_ownable record `⟨minter contract, nothing pending⟩`, and C01's sequential-family invariant `Supply.QInv` of the minter's
`Supply.Seq` WITH THE REAL token table as `coll` (`TOTAL_MINT_COUNT = TOKEN_INDEX`, issued ids = `k … 1`, every token of the
collection has an id in `1..=TOKEN_INDEX`, ids unique, `NumTokens` = number of tokens).
-/
namespace LP.SysOE2
open LP
open LP.Sys2 (tokView ttView viewOfColl cfKind ttKind CollInit instMsg runSub)

theorem subOf_minter {o : OE.Op} (hw : SysOE.witnessed o = false) : subOf (.minter o) = osub o := by
  cases o <;> first | rfl | simp [SysOE.witnessed] at hw

/-- one accepted `SysOE` step (no interface op, no `create`), seen from the minter record -/
theorem sysoe_effect {S S' : SysOE.State} {m : OE.Minter} {o : SysOE.Op} (hp : plainOp o = true) (hm : S.minter = some m)
    (h : SysOE.step S o = .ok S') :
    ∃ m', S'.minter = some m' ∧ m'.addr = m.addr ∧ m'.onChain = m.onChain ∧ m'.admin = m.admin ∧ m'.sg721 = m.sg721 ∧
      SubEff m m' (subOf o) := by
  cases o with
  | minter vo =>
    obtain ⟨hw, c, hc, rfl⟩ := SysOE.step_minter_ok h
    rw [subOf_minter hw]
    exact oe_effect hp (show (SysOE.oeOf S).minter = some m from hm) hc
  | mint sender funds stage alloc proof =>
    obtain ⟨c, hc, rfl⟩ := SysOE.step_mint_ok h
    exact oe_effect (o := SysOE.mintOp S sender funds stage alloc proof) rfl
      (show (SysOE.oeOf S).minter = some m from hm) hc
  | wlInst v sender funds self mm =>
    obtain ⟨_, r, w, _, _, _, rfl⟩ := SysOE.step_wlInst_ok h
    exact ⟨m, hm, rfl, rfl, rfl, rfl, rfl, Or.inl rfl⟩
  | wlExec k sender funds mm =>
    obtain ⟨w, r, w', _, _, _, _, rfl⟩ := SysOE.step_wlExec_ok h
    exact ⟨m, hm, rfl, rfl, rfl, rfl, rfl, Or.inl rfl⟩

theorem mintMsg_shape {oc : Bool} {k : Sg721.Kind} {u e id : Nat} {rcpt : Addr} {mm : CF.ExecMsg}
    (h : mintMsg oc k u e id rcpt = .ok mm) : ∃ uri ext, mm = .mint id rcpt uri ext := by
  unfold mintMsg at h
  split at h
  · cases h; exact ⟨_, _, rfl⟩
  · split at h
    · cases h
    · cases h; exact ⟨_, _, rfl⟩

/-- the messages a minter handler sends to the collection -/
def SubShape (m : Minter) (msg : Option CF.ExecMsg) : Sub → Prop
  | .none => msg = none
  | .mint rcpt => ∃ uri ext, msg = some (.mint (m.seq.tokenIndex + 1) rcpt uri ext)
  | .trading t => msg = some (.updateStartTradingTime t)

theorem subMsg_shape {m : Minter} {c : CF.Coll} {sub : Sub} {msg : Option CF.ExecMsg} (h : subMsg m c sub = .ok msg) :
    SubShape m msg sub := by
  cases sub with
  | none => simp only [subMsg, Except.ok.injEq] at h; exact h.symm
  | trading t => simp only [subMsg, Except.ok.injEq] at h; exact h.symm
  | mint rcpt =>
    simp only [subMsg] at h
    split at h
    · cases h
    · rename_i mm hmm
      cases h
      obtain ⟨uri, ext, rfl⟩ := mintMsg_shape hmm
      exact ⟨uri, ext, rfl⟩

theorem seq_view (om : OE.Minter) (c : CF.Coll) (u e : Nat) (h : om.seq.coll = tokView c.core) :
    (omOf (ofOm om u e) c).seq = om.seq := by
  show ({ kind := om.seq.kind, hasEnd := om.seq.hasEnd, tokenIndex := om.seq.tokenIndex, totalMint := om.seq.totalMint,
          mintable := om.seq.mintable, cap := om.seq.cap, burned := om.seq.burned, issued := om.seq.issued,
          coll := tokView c.core } : Supply.Seq) = om.seq
  rw [← h]

theorem tt_view (om : OE.Minter) (c : CF.Coll) (u e : Nat) : (omOf (ofOm om u e) c).tt = ttView c.core := rfl

/-! ## `NoImp`, `SInv` -/

/-- who signs a message that goes to the collection contract from outside -/
def collSender : Op → Option Addr
  | .collExec sender _ _ => some sender
  | .sys (.minter o) => (ifaceMsg o).map (·.1)
  | _ => none

/-- the op is not signed, from outside, by the minter contract's own address -/
def NoImp (s : State) (op : Op) : Prop := ∀ m c, s.mc = some (m, c) → collSender op ≠ some m.addr

def NoImpRun : State → List Op → Prop
  | _, [] => True
  | s, op :: ops => NoImp s op ∧ NoImpRun (step' s op) ops

structure SInv (s : State) : Prop where
  good : ∀ m c, s.mc = some (m, c) → c.core.ids.Nodup ∧ c.legacy = none
  own : ∀ m c, s.mc = some (m, c) → c.core.ownership = ⟨some m.addr, none, none⟩
  sup : ∀ m c, s.mc = some (m, c) → Supply.QInv (omOf m c).seq

/-! ## messages from outside -/

/-- with ownership `⟨a, nothing pending⟩`, an accepted message by anybody else leaves ownership and `start_trading_time` alone; it is
a burn of an existing id or keeps the id list -/
theorem eff_stranger {c c' : Sg721.State} {b : Sg721.Block} {sender a : Addr} {funds : List Coin} {msg : Sg721.ExecMsg}
    (ho : c.ownership = ⟨some a, none, none⟩) (hs : sender ≠ a) (e : Sg721.Eff c b sender funds msg c') :
    c'.ownership = c.ownership ∧ c'.info.startTradingTime = c.info.startTradingTime ∧
      ((∃ id, msg = .burn id ∧ id ∈ c.ids ∧ c'.ids = c.ids.filter (fun x => !decide (x = id))) ∨
       ((∀ id, msg ≠ .burn id) ∧ c'.ids = c.ids)) := by
  have hown : ∀ x, c.ownership.owner = some x → x = a := by
    intro x hx; rw [ho] at hx; exact (Option.some.inj hx).symm
  have hpend : ∀ x, c.ownership.pending ≠ some x := by
    intro x hx; rw [ho] at hx; cases hx
  cases e with
  | transfer _ _ _ _ _ _ => exact ⟨rfl, rfl, Or.inr ⟨(fun _ h => by cases h), Sg721.ids_setToken _ _⟩⟩
  | send _ _ _ _ _ _ => exact ⟨rfl, rfl, Or.inr ⟨(fun _ h => by cases h), Sg721.ids_setToken _ _⟩⟩
  | approve _ _ _ _ _ _ _ _ => exact ⟨rfl, rfl, Or.inr ⟨(fun _ h => by cases h), Sg721.ids_setToken _ _⟩⟩
  | revoke _ _ _ _ _ _ => exact ⟨rfl, rfl, Or.inr ⟨(fun _ h => by cases h), Sg721.ids_setToken _ _⟩⟩
  | utm _ _ _ _ _ _ _ _ => exact ⟨rfl, rfl, Or.inr ⟨(fun _ h => by cases h), Sg721.ids_setToken _ _⟩⟩
  | burn id t hf _ =>
    refine ⟨rfl, rfl, Or.inl ⟨id, rfl, ?_, Sg721.ids_removeToken _ _⟩⟩
    obtain ⟨hmem, hid⟩ := Sg721.find?_some hf
    exact List.mem_map.mpr ⟨t, hmem, hid⟩
  | mint _ _ _ _ hm _ _ => exact absurd (hown _ hm) hs
  | approveAll _ _ _ _ => exact ⟨rfl, rfl, Or.inr ⟨(fun _ h => by cases h), rfl⟩⟩
  | revokeAll _ _ => exact ⟨rfl, rfl, Or.inr ⟨(fun _ h => by cases h), rfl⟩⟩
  | updateInfo _ _ _ _ _ _ hst => exact ⟨rfl, hst, Or.inr ⟨(fun _ h => by cases h), rfl⟩⟩
  | ustt _ hm => exact absurd (hown _ hm) hs
  | freeze _ => exact ⟨rfl, rfl, Or.inr ⟨(fun _ h => by cases h), rfl⟩⟩
  | ownTransfer _ _ hm _ => exact absurd (hown _ hm) hs
  | ownAccept hp _ => exact absurd hp (hpend _)
  | ownRenounce hm => exact absurd (hown _ hm) hs
  | freezeMeta _ _ => exact ⟨rfl, rfl, Or.inr ⟨(fun _ h => by cases h), rfl⟩⟩
  | enable _ _ => exact ⟨rfl, rfl, Or.inr ⟨(fun _ h => by cases h), rfl⟩⟩

theorem count_of_qinv {q : Supply.Seq} {c : Sg721.State} (hi : Supply.QInv q) (hq : q.coll = tokView c) :
    c.count = c.tokens.length := by
  have := hi.cinv.count
  rw [hq] at this
  simpa [tokView] using this

/-- everything the end-to-end proofs need about an accepted `sysStep` from a state with a minter -/
theorem sysStep_parts {s s' : State} {o : SysOE.Op} {m : Minter} {c : CF.Coll} (hp : plainOp o = true) (hmc : s.mc = some (m, c))
    (h : sysStep s o = .ok s') :
    ∃ om' c' msg, s'.mc = some (ofOm om' m.nftUri m.nftExt, c') ∧ om'.addr = m.addr ∧ om'.onChain = m.onChain ∧
      om'.admin = m.admin ∧ SubEff (omOf m c) om' (subOf o) ∧ subMsg m c (subOf o) = .ok msg ∧
      ((msg = none ∧ c' = c) ∨
       ∃ mm core', msg = some mm ∧ Sg721.exec c.core ⟨s.block, m.addr, [], CF.toExec c.core s.block mm⟩ = .ok core' ∧
         c' = { c with core := core' }) := by
  obtain ⟨r, hr, hcase⟩ := sysStep_ok h
  rcases hcase with ⟨hnone, _⟩ | ⟨m0, c0, msg, bank, c', hmc0, hmsg, hrun, rfl⟩
  · rw [hmc] at hnone; cases hnone
  · rw [hmc] at hmc0
    simp only [Option.some.injEq, Prod.mk.injEq] at hmc0
    obtain ⟨rfl, rfl⟩ := hmc0
    obtain ⟨om', hrm, ha, hoc, had, _, heff⟩ := sysoe_effect hp (sysOf_minter_some hmc) hr
    refine ⟨om', c', msg, ?_, ha, hoc, had, heff, hmsg, ?_⟩
    · rw [setSys_mc_some, hrm]; rfl
    · rcases Sys2.runSub_ok hrun with ⟨h1, _, h3⟩ | ⟨mm, core', h1, h2, _, h4⟩
      · exact Or.inl ⟨h1, h3⟩
      · exact Or.inr ⟨mm, core', h1, h2, h4⟩

/-- an accepted minter-side step from a state satisfying the invariant: the post-state, classified -/
theorem sysStep_post {s s' : State} {o : SysOE.Op} {m : Minter} {c : CF.Coll} (hp : plainOp o = true) (hi : SInv s)
    (hmc : s.mc = some (m, c)) (h : sysStep s o = .ok s') :
    ∃ m' c', s'.mc = some (m', c') ∧ m'.addr = m.addr ∧ m'.admin = m.admin ∧ c'.core.ids.Nodup ∧ c'.legacy = none ∧
      c'.core.ownership = c.core.ownership ∧ Supply.QInv (omOf m' c').seq ∧
      (match subOf o with
       | .mint rcpt => ∃ uri ext, m'.seq.tokenIndex = m.seq.tokenIndex + 1 ∧
           c'.core.tokens = c.core.tokens ++ [⟨m.seq.tokenIndex + 1, rcpt, [], uri, ext⟩] ∧
           c'.core.count = c.core.count + 1 ∧ m.seq.tokenIndex + 1 ∉ c.core.ids ∧
           c'.core.info.startTradingTime = c.core.info.startTradingTime
       | .trading t => m'.seq.tokenIndex = m.seq.tokenIndex ∧ c'.core.ids = c.core.ids ∧ c'.core.count = c.core.count ∧
           c'.core.info.startTradingTime = t
       | .none => m'.seq.tokenIndex = m.seq.tokenIndex ∧ c' = c) := by
  obtain ⟨hn, hl⟩ := hi.good m c hmc
  have hq := hi.sup m c hmc
  have hown := hi.own m c hmc
  obtain ⟨om', c', msg, hmc', ha, _, had, heff, hmsg, hcase⟩ := sysStep_parts hp hmc h
  have hshape := subMsg_shape hmsg
  refine ⟨ofOm om' m.nftUri m.nftExt, c', hmc', ha, had, ?_⟩
  cases hsub : subOf o with
  | none =>
    rw [hsub] at heff hshape
    simp only [SubShape] at hshape
    subst hshape
    have hc' : c' = c := by
      rcases hcase with ⟨_, hcc⟩ | ⟨mm, _, hx, _⟩
      · exact hcc
      · cases hx
    subst hc'
    obtain ⟨_, hseq⟩ := heff
    have hcoll : om'.seq.coll = tokView c'.core ∧ om'.seq.tokenIndex = m.seq.tokenIndex ∧ Supply.QInv om'.seq := by
      rcases hseq with he | hb
      · rw [he]; exact ⟨rfl, rfl, hq⟩
      · obtain ⟨_, _, hs'⟩ := Supply.Seq.burnRemaining_spec hb
        refine ⟨by rw [hs']; rfl, by rw [hs']; rfl, ?_⟩
        exact Supply.Seq.step_inv hq (show (omOf m c').seq.step (.burnRemaining true) = some om'.seq by
          simpa [Supply.Seq.step] using hb)
    refine ⟨hn, hl, rfl, ?_, ?_⟩
    · rw [seq_view om' c' _ _ hcoll.1]; exact hcoll.2.2
    · exact ⟨hcoll.2.1, rfl⟩
  | trading t =>
    rw [hsub] at heff hshape
    simp only [SubShape] at hshape
    subst hshape
    rcases hcase with ⟨hx, _⟩ | ⟨mm, core', hx, hex, rfl⟩
    · cases hx
    cases hx
    obtain ⟨hseq, _⟩ := heff
    obtain ⟨_, e⟩ := Sg721.exec_eff' hex
    have htok := Sys2.tok_effect hn e
    simp only [Sys2.TokEff] at htok
    simp only [CF.toExec] at e
    cases e with
    | ustt _ hm =>
      refine ⟨hn, hl, rfl, ?_, ?_⟩
      · rw [seq_view om' _ _ _ (by rw [hseq]; rfl), hseq]; exact hq
      · exact ⟨by rw [show (ofOm om' m.nftUri m.nftExt).seq.tokenIndex = om'.seq.tokenIndex from rfl, hseq]; rfl, rfl, rfl, rfl⟩
  | mint rcpt =>
    rw [hsub] at heff hshape
    simp only [SubShape] at hshape
    obtain ⟨uri, ext, rfl⟩ := hshape
    rcases hcase with ⟨hx, _⟩ | ⟨mm, core', hx, hex, rfl⟩
    · cases hx
    cases hx
    obtain ⟨hmint, _, _⟩ := heff
    obtain ⟨_, cc, hcc, hs'⟩ := Supply.Seq.mint_spec hmint
    obtain ⟨_, e⟩ := Sg721.exec_eff' hex
    have htok := Sys2.tok_effect hn e
    simp only [Sys2.TokEff] at htok
    have hcceq : cc = tokView core' := by
      have h1 : (tokView c.core).mint (m.seq.tokenIndex + 1) rcpt = some cc := hcc
      rw [htok] at h1
      exact (Option.some.inj h1).symm
    have hnodup' := Sys2.nodup_eff hn e
    simp only [CF.toExec] at e
    cases e with
    | mint _ _ _ _ hm hv hnone =>
      have hfresh : m.seq.tokenIndex + 1 ∉ c.core.ids := (Sg721.find?_none_iff c.core _).1 hnone
      refine ⟨hnodup', hl, rfl, ?_, uri, _, ?_, rfl, rfl, hfresh, rfl⟩
      · rw [seq_view om' _ _ _ (by rw [hs', hcceq])]
        exact Supply.Seq.mint_inv hq hmint
      · show om'.seq.tokenIndex = m.seq.tokenIndex + 1
        rw [hs']; rfl

end LP.SysOE2
