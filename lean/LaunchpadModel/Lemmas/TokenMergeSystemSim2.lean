import LaunchpadModel.Lemmas.TokenMergeSystemSim
/-!
# Token-merge SYSTEM composite: `hook_target_exact` (the view of the target is exact over the hook) and `deposit_sim`
-/
namespace LP.SysTM
open LP

/-- **the view of the target collection is exact over the hook.** The minter record `hookMinter` computed on the VIEW of the
target collection — in particular the token table after `Coll.mint` when the deposit completes — is the view of the target
collection contract after it executed the `Mint` sub-message itself; and the sub-message moved no coins. -/
theorem hook_target_exact {s : State} {m : Minter} {tc tc' : CF.Coll} {vm' : TMF.Minter} {mints : Bool}
    {msg : Option CF.ExecMsg} {bank bank' : MintPay.Bank} {caller sender : Addr} {recipient : Option Addr} {picked : Nat}
    (hhm : hookMinter s.now (vmOf m tc) caller sender recipient picked = .ok (vm', mints))
    (hmsg : subMsg m.supply.pos tc (if mints then .mint (recipient.getD sender) (.at picked) else .none) = .ok msg)
    (hrs : Sys2.runSub s.block bank m.addr tc msg = .ok (bank', tc')) :
    vmOf (ofVm vm') tc' = vm' ∧ bank' = bank := by
  unfold hookMinter at hhm
  split at hhm
  · cases hhm
  · split at hhm
    · cases hhm
    · split at hhm
      · cases hhm
      · split at hhm
        · cases hhm
        · split at hhm
          · split at hhm
            · cases hhm
            · rename_i m1 hd
              cases hhm
              obtain ⟨sup, _, _, _, hts, rfl⟩ := TMF.deliver_ok hd
              simp only [VF.takeToken] at hts
              unfold Supply.Fixed.takeAt at hts
              split at hts
              · cases hts
              · cases hl : Supply.lookupPos (vmOf m tc).supply.pos picked with
                | none => simp [hl] at hts
                | some tid =>
                  simp only [hl] at hts
                  obtain ⟨cc, hcc, rfl⟩ := Supply.Fixed.deliver_spec hts
                  have hl' : Supply.lookupPos m.supply.pos picked = some tid := hl
                  simp only [if_true, subMsg, Sys2.pickedId, hl'] at hmsg
                  split at hmsg
                  · cases hmsg
                  · rename_i mm hmm
                    cases hmsg
                    unfold Sys2.mintMsg at hmm
                    split at hmm
                    · cases hmm
                    · cases hmm
                      have hx := runSub_some hrs
                      have hbank : bank' = bank := execOn_bank rfl hx
                      obtain ⟨_, hn, rfl⟩ := execOn_mint hx
                      have hv := Sys2.view_mint tc.core tid (recipient.getD sender) (some (Sys2.URI_BASE + tid))
                        (if tc.core.kind = .onchain then 0 else 0) hn
                      have hcc' : (Sys2.tokView tc.core).mint tid (recipient.getD sender) = some cc := hcc
                      rw [hv] at hcc'
                      simp only [Option.some.injEq] at hcc'
                      subst hcc'
                      exact ⟨rfl, hbank⟩
          · cases hhm
            simp only [Bool.false_eq_true, if_false, subMsg] at hmsg
            cases hmsg
            obtain ⟨hb, rfl⟩ := runSub_none hrs
            exact ⟨rfl, hb⟩

/-- **an accepted deposit is a `TMF.send` on the views.** -/
theorem deposit_sim {s s' : State} {m : Minter} {tc : CF.Coll} {coll sender : Addr} {id picked : Nat} {recipient : Option Addr}
    {msgOk recvOk : Bool} (hmc : s.mc = some (m, tc))
    (h : step s (.sendNft coll sender id m.addr recipient msgOk recvOk picked) = .ok s') :
    ∃ c t, lookup s.srcs coll = some c ∧ c.core.find? id = some t ∧
      TMF.step (tmfOf s) (.send t.owner coll id m.addr (some (recipient.getD sender)) true picked) = .ok (tmfOf s') := by
  have hm : isMinterAddr s m.addr = true := by simp [isMinterAddr, hmc]
  obtain ⟨c, bank1, c1, hc, hs, _, hh⟩ := deposit_ok hm h
  have hb1 : bank1 = s.bank := execOn_bank rfl hs
  obtain ⟨t, hf, _, rfl⟩ := execOn_send hs
  obtain ⟨m2, tc2, vm', mints, msg, bank2, tc', c2, bank3, c3, hmc2, hhm, hmsg, hrs, hc2, hb, rfl⟩ := hook_ok hh
  have hmc3 : s.mc = some (m2, tc2) := hmc2
  rw [hmc] at hmc3
  simp only [Option.some.injEq, Prod.mk.injEq] at hmc3
  obtain ⟨rfl, rfl⟩ := hmc3
  have hl : lookup (afterSend s coll bank1 { c with core := c.core.setToken { t with owner := m.addr, approvals := [] } }).srcs coll
      = some { c with core := c.core.setToken { t with owner := m.addr, approvals := [] } } := lookup_setColl_same _ hc
  rw [hl] at hc2
  cases hc2
  have hb3 : bank3 = bank2 := execOn_bank rfl hb
  obtain ⟨t2, _, _, rfl⟩ := execOn_burn hb
  obtain ⟨hvm, hb2⟩ := hook_target_exact (s := afterSend s coll bank1 _) hhm hmsg hrs
  refine ⟨c, t, hc, hf, ?_⟩
  -- the system's post-state through the views
  have hpost : tmfOf { afterSend s coll bank1 { c with core := c.core.setToken { t with owner := m.addr, approvals := [] } } with
        bank := bank3, mc := some (ofVm vm', tc'),
        srcs := setColl (afterSend s coll bank1 { c with core := c.core.setToken { t with owner := m.addr, approvals := [] } }).srcs coll
          { c with core := (c.core.setToken { t with owner := m.addr, approvals := [] }).removeToken id } } =
      { tmfOf s with
        srcs := { colls := s.srcs.map Prod.fst
                  owner := fun a i => if a = coll ∧ i = id then none
                           else if a = coll ∧ i = id then some m.addr else (srcsView s.srcs).owner a i
                  num := fun a => if a = coll then (srcsView s.srcs).num coll - 1 else (srcsView s.srcs).num a }
        minter := some vm' } := by
    simp only [tmfOf, afterSend, Option.map_some]
    rw [srcsView_deposit s.srcs coll m.addr id c t { t with owner := m.addr, approvals := [] } hc hf (Sg721.find?_some hf).2,
      hvm, hb3, hb2, hb1]
    rfl
  rw [hpost]
  -- the `TMF` step
  have hmem : coll ∈ (srcsView s.srcs).colls := mem_colls_of_lookup hc
  have hown : (srcsView s.srcs).owner coll id = some t.owner := by simp [srcsView, hc, ownerIn, hf]
  have hmin : (tmfOf s).minter = some (vmOf m tc) := by simp [tmfOf, hmc]
  simp only [TMF.step, TMF.sendNft, TMF.srcTransfer]
  rw [if_pos (show coll ∈ (tmfOf s).srcs.colls ∧ (tmfOf s).srcs.owner coll id = some t.owner from ⟨hmem, hown⟩)]
  simp only [hmin, ne_eq, vmOf, not_true_eq_false, if_false, Bool.true_eq_false]
  rw [receiveNft_eq]
  simp only
  have hhm' := hhm
  rw [← hookMinter_rcpt (afterSend s coll bank1 _).now (vmOf m tc) coll sender t.owner recipient picked] at hhm'
  have hnow : (afterSend s coll bank1 { c with core := c.core.setToken { t with owner := m.addr, approvals := [] } }).now = s.now := rfl
  rw [hnow] at hhm'
  simp only [vmOf] at hhm'
  simp only [tmfOf] at hhm' ⊢
  rw [hhm']
  simp only [TMF.burnDeposit, TMF.srcBurn, TMF.Srcs.set]
  rw [if_pos]
  · rfl
  · exact ⟨hmem, by simp⟩

end LP.SysTM
