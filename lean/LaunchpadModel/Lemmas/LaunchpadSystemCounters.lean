import LaunchpadModel.Lemmas.LaunchpadSystemMint
/-!
# Frame of the minter's whitelist counters

Only a buyer's `Mint` writes `WHITELIST_MINTER_ADDRS` / `WHITELIST_{FS,SS,TS}_MINTER_ADDRS` upwards: every other `VF` op leaves the
stage maps alone and leaves `WHITELIST_MINTER_ADDRS` alone or clears it (`Purge` of the flex crates); a fresh minter starts at zero.
-/
namespace LP.Sys
open LP

theorem vf_counters_frame {c c' : VF.State} {op : VF.Op} {m m' : VF.Minter} (h : VF.step c op = .ok c')
    (hm : c.minter = some m) (hm' : c'.minter = some m')
    (hnm : ∀ sender funds f sv picked, op ≠ .mint sender funds f sv picked) :
    m'.stg = m.stg ∧ (m'.wlc = m.wlc ∨ m'.wlc = MintLimits.zero) := by
  cases op with
  | setTime t =>
    simp only [VF.step] at h
    split at h <;> cases h
    simp only at hm'; rw [hm] at hm'; cases hm'; exact ⟨rfl, Or.inl rfl⟩
  | fund a x =>
    simp only [VF.step] at h; cases h
    simp only at hm'; rw [hm] at hm'; cases hm'; exact ⟨rfl, Or.inl rfl⟩
  | wlEnv k i =>
    simp only [VF.step] at h; cases h
    simp only at hm'; rw [hm] at hm'; cases hm'; exact ⟨rfl, Or.inl rfl⟩
  | sudoParams u =>
    simp only [VF.step] at h
    split at h <;> cases h
    simp only at hm'; rw [hm] at hm'; cases hm'; exact ⟨rfl, Or.inl rfl⟩
  | instantiateDirect sender => simp [VF.step] at h
  | create sender funds msg w =>
    simp only [VF.step] at h
    obtain ⟨_, _, _, _, _, hnone, _⟩ := VF.createMinter_ok h
    rw [hm] at hnone; cases hnone
  | mint sender funds f sv picked => exact absurd rfl (hnm sender funds f sv picked)
  | mintTo sender funds rcpt picked =>
    simp only [VF.step] at h
    obtain ⟨m0, hm0, h⟩ := VF.withMinterS_ok h
    rw [hm] at hm0; cases hm0
    obtain ⟨_, _, _, h⟩ := VF.mintAdmin_ok h
    obtain ⟨_, _, _, _, _, _, _, _, _, _, _, rfl⟩ := VF.executeMint_ok h
    simp only [Option.some.injEq] at hm'; subst hm'
    exact ⟨rfl, Or.inl rfl⟩
  | mintFor sender funds id rcpt =>
    simp only [VF.step] at h
    obtain ⟨m0, hm0, h⟩ := VF.withMinterS_ok h
    rw [hm] at hm0; cases hm0
    obtain ⟨_, _, _, h⟩ := VF.mintAdmin_ok h
    obtain ⟨_, _, _, _, _, _, _, _, _, _, _, rfl⟩ := VF.executeMint_ok h
    simp only [Option.some.injEq] at hm'; subst hm'
    exact ⟨rfl, Or.inl rfl⟩
  | shuffle sender funds perm =>
    simp only [VF.step] at h
    obtain ⟨m0, hm0, h⟩ := VF.withMinterS_ok h
    rw [hm] at hm0; cases hm0
    obtain ⟨_, _, _, _, _, _, _, _, rfl⟩ := VF.shuffle_ok h
    simp only [Option.some.injEq] at hm'; subst hm'
    exact ⟨rfl, Or.inl rfl⟩
  | setWhitelist sender funds wl valid =>
    simp only [VF.step] at h
    obtain ⟨m0, m1, hm0, hf, rfl⟩ := VF.withMinter_ok h
    rw [hm] at hm0
    cases hm0
    simp only [Option.some.injEq] at hm'
    subst hm'
    unfold VF.setWhitelist at hf
    repeat (first | cases hf | split at hf)
    all_goals exact ⟨rfl, Or.inl rfl⟩
  | purge sender funds =>
    simp only [VF.step] at h
    obtain ⟨m0, m1, hm0, hf, rfl⟩ := VF.withMinter_ok h
    rw [hm] at hm0
    cases hm0
    simp only [Option.some.injEq] at hm'
    subst hm'
    unfold VF.purge at hf
    repeat (first | cases hf | split at hf)
    all_goals (refine ⟨rfl, ?_⟩; cases m.v.isFlex <;> simp)
  | updateMintPrice sender funds p =>
    simp only [VF.step] at h
    obtain ⟨m0, m1, hm0, hf, rfl⟩ := VF.withMinter_ok h
    rw [hm] at hm0
    cases hm0
    simp only [Option.some.injEq] at hm'
    subst hm'
    unfold VF.updateMintPrice at hf
    repeat (first | cases hf | split at hf)
    all_goals exact ⟨rfl, Or.inl rfl⟩
  | updateStartTime sender funds t =>
    simp only [VF.step] at h
    obtain ⟨m0, m1, hm0, hf, rfl⟩ := VF.withMinter_ok h
    rw [hm] at hm0
    cases hm0
    simp only [Option.some.injEq] at hm'
    subst hm'
    unfold VF.updateStartTime at hf
    repeat (first | cases hf | split at hf)
    all_goals exact ⟨rfl, Or.inl rfl⟩
  | updateStartTradingTime sender funds t =>
    simp only [VF.step] at h
    obtain ⟨m0, m1, hm0, hf, rfl⟩ := VF.withMinter_ok h
    rw [hm] at hm0
    cases hm0
    simp only [Option.some.injEq] at hm'
    subst hm'
    unfold VF.updateStartTradingTime at hf
    repeat (first | cases hf | split at hf)
    all_goals exact ⟨rfl, Or.inl rfl⟩
  | updatePerAddressLimit sender funds n =>
    simp only [VF.step] at h
    obtain ⟨m0, m1, hm0, hf, rfl⟩ := VF.withMinter_ok h
    rw [hm] at hm0
    cases hm0
    simp only [Option.some.injEq] at hm'
    subst hm'
    unfold VF.updatePerAddressLimit at hf
    repeat (first | cases hf | split at hf)
    all_goals exact ⟨rfl, Or.inl rfl⟩
  | burnRemaining sender funds =>
    simp only [VF.step] at h
    obtain ⟨m0, m1, hm0, hf, rfl⟩ := VF.withMinter_ok h
    rw [hm] at hm0
    cases hm0
    simp only [Option.some.injEq] at hm'
    subst hm'
    unfold VF.burnRemaining at hf
    repeat (first | cases hf | split at hf)
    all_goals exact ⟨rfl, Or.inl rfl⟩
  | updateDiscountPrice sender funds p =>
    simp only [VF.step] at h
    obtain ⟨m0, m1, hm0, hf, rfl⟩ := VF.withMinter_ok h
    rw [hm] at hm0
    cases hm0
    simp only [Option.some.injEq] at hm'
    subst hm'
    unfold VF.updateDiscountPrice at hf
    repeat (first | cases hf | split at hf)
    all_goals exact ⟨rfl, Or.inl rfl⟩
  | removeDiscountPrice sender funds =>
    simp only [VF.step] at h
    obtain ⟨m0, m1, hm0, hf, rfl⟩ := VF.withMinter_ok h
    rw [hm] at hm0
    cases hm0
    simp only [Option.some.injEq] at hm'
    subst hm'
    unfold VF.removeDiscountPrice at hf
    repeat (first | cases hf | split at hf)
    all_goals exact ⟨rfl, Or.inl rfl⟩
  | sudoStatus v b e =>
    simp only [VF.step] at h
    obtain ⟨m0, m1, hm0, hf, rfl⟩ := VF.withMinter_ok h
    rw [hm] at hm0
    cases hm0
    simp only [Option.some.injEq] at hm'
    subst hm'
    cases hf
    exact ⟨rfl, Or.inl rfl⟩
  | collTransfer sender id to =>
    simp only [VF.step] at h
    obtain ⟨m0, m1, hm0, hf, rfl⟩ := VF.withMinter_ok h
    rw [hm] at hm0
    cases hm0
    simp only [Option.some.injEq] at hm'
    subst hm'
    unfold VF.collTransfer at hf
    repeat (first | cases hf | split at hf)
    all_goals exact ⟨rfl, Or.inl rfl⟩
  | collBurn sender id =>
    simp only [VF.step] at h
    obtain ⟨m0, m1, hm0, hf, rfl⟩ := VF.withMinter_ok h
    rw [hm] at hm0
    cases hm0
    simp only [Option.some.injEq] at hm'
    subst hm'
    unfold VF.collBurn at hf
    repeat (first | cases hf | split at hf)
    all_goals exact ⟨rfl, Or.inl rfl⟩
  | collTrading sender t =>
    simp only [VF.step] at h
    obtain ⟨m0, x, hm0, _, rfl⟩ := VF.onColl_ok h
    rw [hm] at hm0; cases hm0
    simp only [Option.some.injEq] at hm'; subst hm'
    exact ⟨rfl, Or.inl rfl⟩
  | collCreator sender new =>
    simp only [VF.step] at h
    obtain ⟨m0, x, hm0, _, rfl⟩ := VF.onColl_ok h
    rw [hm] at hm0; cases hm0
    simp only [Option.some.injEq] at hm'; subst hm'
    exact ⟨rfl, Or.inl rfl⟩
  | collFreeze sender =>
    simp only [VF.step] at h
    obtain ⟨m0, x, hm0, _, rfl⟩ := VF.onColl_ok h
    rw [hm] at hm0; cases hm0
    simp only [Option.some.injEq] at hm'; subst hm'
    exact ⟨rfl, Or.inl rfl⟩
  | collOwn sender a =>
    simp only [VF.step] at h
    obtain ⟨m0, x, hm0, _, rfl⟩ := VF.onColl_ok h
    rw [hm] at hm0; cases hm0
    simp only [Option.some.injEq] at hm'; subst hm'
    exact ⟨rfl, Or.inl rfl⟩

/-- a minter appears only through `CreateMinter`, with every whitelist counter at zero -/
theorem vf_counters_fresh {c c' : VF.State} {op : VF.Op} {m' : VF.Minter} (h : VF.step c op = .ok c')
    (hm : c.minter = none) (hm' : c'.minter = some m') :
    m'.stg = (fun _ => MintLimits.zero) ∧ m'.wlc = MintLimits.zero ∧ m'.discountPrice = none := by
  cases op with
  | setTime t =>
    simp only [VF.step] at h
    split at h <;> cases h
    simp only at hm'; rw [hm] at hm'; cases hm'
  | fund a x => simp only [VF.step] at h; cases h; simp only at hm'; rw [hm] at hm'; cases hm'
  | wlEnv k i => simp only [VF.step] at h; cases h; simp only at hm'; rw [hm] at hm'; cases hm'
  | sudoParams u =>
    simp only [VF.step] at h
    split at h <;> cases h
    simp only at hm'; rw [hm] at hm'; cases hm'
  | instantiateDirect sender => simp [VF.step] at h
  | create sender funds msg w =>
    simp only [VF.step] at h
    obtain ⟨_, _, _, _, m, _, _, _, _, _, hi, rfl⟩ := VF.createMinter_ok h
    simp only [Option.some.injEq] at hm'; subst hm'
    obtain ⟨_, _, _, _, _, _, _, _, _, _, _, _, _, _, rfl⟩ := VF.instantiateMinter_ok hi
    exact ⟨rfl, rfl, rfl⟩
  | mint sender funds f sv picked =>
    simp only [VF.step] at h; obtain ⟨_, hm0, _⟩ := VF.withMinterS_ok h; rw [hm] at hm0; cases hm0
  | mintTo sender funds rcpt picked =>
    simp only [VF.step] at h; obtain ⟨_, hm0, _⟩ := VF.withMinterS_ok h; rw [hm] at hm0; cases hm0
  | mintFor sender funds id rcpt =>
    simp only [VF.step] at h; obtain ⟨_, hm0, _⟩ := VF.withMinterS_ok h; rw [hm] at hm0; cases hm0
  | shuffle sender funds perm =>
    simp only [VF.step] at h; obtain ⟨_, hm0, _⟩ := VF.withMinterS_ok h; rw [hm] at hm0; cases hm0
  | setWhitelist sender funds wl valid =>
    simp only [VF.step] at h; obtain ⟨_, _, hm0, _⟩ := VF.withMinter_ok h; rw [hm] at hm0; cases hm0
  | purge sender funds =>
    simp only [VF.step] at h; obtain ⟨_, _, hm0, _⟩ := VF.withMinter_ok h; rw [hm] at hm0; cases hm0
  | updateMintPrice sender funds p =>
    simp only [VF.step] at h; obtain ⟨_, _, hm0, _⟩ := VF.withMinter_ok h; rw [hm] at hm0; cases hm0
  | updateStartTime sender funds t =>
    simp only [VF.step] at h; obtain ⟨_, _, hm0, _⟩ := VF.withMinter_ok h; rw [hm] at hm0; cases hm0
  | updateStartTradingTime sender funds t =>
    simp only [VF.step] at h; obtain ⟨_, _, hm0, _⟩ := VF.withMinter_ok h; rw [hm] at hm0; cases hm0
  | updatePerAddressLimit sender funds n =>
    simp only [VF.step] at h; obtain ⟨_, _, hm0, _⟩ := VF.withMinter_ok h; rw [hm] at hm0; cases hm0
  | burnRemaining sender funds =>
    simp only [VF.step] at h; obtain ⟨_, _, hm0, _⟩ := VF.withMinter_ok h; rw [hm] at hm0; cases hm0
  | updateDiscountPrice sender funds p =>
    simp only [VF.step] at h; obtain ⟨_, _, hm0, _⟩ := VF.withMinter_ok h; rw [hm] at hm0; cases hm0
  | removeDiscountPrice sender funds =>
    simp only [VF.step] at h; obtain ⟨_, _, hm0, _⟩ := VF.withMinter_ok h; rw [hm] at hm0; cases hm0
  | sudoStatus v b e =>
    simp only [VF.step] at h; obtain ⟨_, _, hm0, _⟩ := VF.withMinter_ok h; rw [hm] at hm0; cases hm0
  | collTransfer sender id to =>
    simp only [VF.step] at h; obtain ⟨_, _, hm0, _⟩ := VF.withMinter_ok h; rw [hm] at hm0; cases hm0
  | collBurn sender id =>
    simp only [VF.step] at h; obtain ⟨_, _, hm0, _⟩ := VF.withMinter_ok h; rw [hm] at hm0; cases hm0
  | collTrading sender t =>
    simp only [VF.step] at h; obtain ⟨_, _, hm0, _⟩ := VF.onColl_ok h; rw [hm] at hm0; cases hm0
  | collCreator sender new =>
    simp only [VF.step] at h; obtain ⟨_, _, hm0, _⟩ := VF.onColl_ok h; rw [hm] at hm0; cases hm0
  | collFreeze sender =>
    simp only [VF.step] at h; obtain ⟨_, _, hm0, _⟩ := VF.onColl_ok h; rw [hm] at hm0; cases hm0
  | collOwn sender a =>
    simp only [VF.step] at h; obtain ⟨_, _, hm0, _⟩ := VF.onColl_ok h; rw [hm] at hm0; cases hm0

/-- no `VF` op removes the minter -/
theorem vf_minter_stays {c c' : VF.State} {op : VF.Op} {m : VF.Minter} (h : VF.step c op = .ok c') (hm : c.minter = some m) :
    ∃ m', c'.minter = some m' := by
  cases hc : c'.minter with
  | some m' => exact ⟨m', rfl⟩
  | none =>
    exfalso
    cases op with
    | setTime t => simp only [VF.step] at h; split at h <;> cases h; simp only at hc; rw [hm] at hc; cases hc
    | fund a x => simp only [VF.step] at h; cases h; simp only at hc; rw [hm] at hc; cases hc
    | wlEnv k i => simp only [VF.step] at h; cases h; simp only at hc; rw [hm] at hc; cases hc
    | sudoParams u => simp only [VF.step] at h; split at h <;> cases h; simp only at hc; rw [hm] at hc; cases hc
    | instantiateDirect sender => simp [VF.step] at h
    | create sender funds msg w =>
      simp only [VF.step] at h
      obtain ⟨_, _, _, _, _, _, _, _, _, _, _, rfl⟩ := VF.createMinter_ok h
      cases hc
    | mint sender funds f sv picked =>
      simp only [VF.step] at h
      obtain ⟨_, _, h⟩ := VF.withMinterS_ok h
      obtain ⟨_, _, _, _, _, _, h⟩ := VF.mintSender_ok h
      obtain ⟨_, _, _, _, _, _, _, _, _, _, _, rfl⟩ := VF.executeMint_ok h
      cases hc
    | mintTo sender funds rcpt picked =>
      simp only [VF.step] at h
      obtain ⟨_, _, h⟩ := VF.withMinterS_ok h
      obtain ⟨_, _, _, h⟩ := VF.mintAdmin_ok h
      obtain ⟨_, _, _, _, _, _, _, _, _, _, _, rfl⟩ := VF.executeMint_ok h
      cases hc
    | mintFor sender funds id rcpt =>
      simp only [VF.step] at h
      obtain ⟨_, _, h⟩ := VF.withMinterS_ok h
      obtain ⟨_, _, _, h⟩ := VF.mintAdmin_ok h
      obtain ⟨_, _, _, _, _, _, _, _, _, _, _, rfl⟩ := VF.executeMint_ok h
      cases hc
    | shuffle sender funds perm =>
      simp only [VF.step] at h
      obtain ⟨_, _, h⟩ := VF.withMinterS_ok h
      obtain ⟨_, _, _, _, _, _, _, _, rfl⟩ := VF.shuffle_ok h
      cases hc
    | setWhitelist sender funds wl valid => simp only [VF.step] at h; obtain ⟨_, _, _, _, rfl⟩ := VF.withMinter_ok h; cases hc
    | purge sender funds => simp only [VF.step] at h; obtain ⟨_, _, _, _, rfl⟩ := VF.withMinter_ok h; cases hc
    | updateMintPrice sender funds p => simp only [VF.step] at h; obtain ⟨_, _, _, _, rfl⟩ := VF.withMinter_ok h; cases hc
    | updateStartTime sender funds t => simp only [VF.step] at h; obtain ⟨_, _, _, _, rfl⟩ := VF.withMinter_ok h; cases hc
    | updateStartTradingTime sender funds t => simp only [VF.step] at h; obtain ⟨_, _, _, _, rfl⟩ := VF.withMinter_ok h; cases hc
    | updatePerAddressLimit sender funds n => simp only [VF.step] at h; obtain ⟨_, _, _, _, rfl⟩ := VF.withMinter_ok h; cases hc
    | burnRemaining sender funds => simp only [VF.step] at h; obtain ⟨_, _, _, _, rfl⟩ := VF.withMinter_ok h; cases hc
    | updateDiscountPrice sender funds p => simp only [VF.step] at h; obtain ⟨_, _, _, _, rfl⟩ := VF.withMinter_ok h; cases hc
    | removeDiscountPrice sender funds => simp only [VF.step] at h; obtain ⟨_, _, _, _, rfl⟩ := VF.withMinter_ok h; cases hc
    | sudoStatus v b e => simp only [VF.step] at h; obtain ⟨_, _, _, _, rfl⟩ := VF.withMinter_ok h; cases hc
    | collTransfer sender id to => simp only [VF.step] at h; obtain ⟨_, _, _, _, rfl⟩ := VF.withMinter_ok h; cases hc
    | collBurn sender id => simp only [VF.step] at h; obtain ⟨_, _, _, _, rfl⟩ := VF.withMinter_ok h; cases hc
    | collTrading sender t => simp only [VF.step] at h; obtain ⟨_, _, _, _, rfl⟩ := VF.onColl_ok h; cases hc
    | collCreator sender new => simp only [VF.step] at h; obtain ⟨_, _, _, _, rfl⟩ := VF.onColl_ok h; cases hc
    | collFreeze sender => simp only [VF.step] at h; obtain ⟨_, _, _, _, rfl⟩ := VF.onColl_ok h; cases hc
    | collOwn sender a => simp only [VF.step] at h; obtain ⟨_, _, _, _, rfl⟩ := VF.onColl_ok h; cases hc

end LP.Sys
